#!/usr/bin/env python3
"""Automated mutation campaign: a systematic complement to the hand-written seeded changes.

Generates small syntactic mutants of productmd/*.py (comparison / boolean operator swaps, negation removal, integer
constants, string constants in comparisons and lookups, removal of call statements, removal of wrapper calls such as
sorted()/int()/bool()/.lower()/.strip(), `if` conditions forced), keeps those that SURVIVE the library's own test-suite,
and runs the checks of every property anchored in the mutated file against each survivor (PRODUCTMD_REPO points at a
scratch checkout; /repo is never touched). Output: one JSON line per mutant in the result file and a summary table.

  tools/mutation_campaign.py --repo <scratch checkout of the library> --verif <checkout of /verif to run checks from>
                             --out results.jsonl [--per-file 40] [--seed 1] [--files common.py,images.py]

A survivor of all relevant checks is EITHER an equivalent mutant (no property is broken) OR a gap in the checks: the
result file keeps its patch for triage (docs/mutation_campaign.md is the triaged summary).
"""
import argparse, ast, difflib, json, os, random, subprocess, sys, time


def sh(cmd, **kw):
    return subprocess.run(cmd, capture_output=True, text=True, **kw)


CMP = {ast.Eq: "!=", ast.NotEq: "==", ast.Lt: "<=", ast.LtE: "<", ast.Gt: ">=", ast.GtE: ">", ast.In: "not in",
       ast.NotIn: "in", ast.Is: "is not", ast.IsNot: "is"}
WRAP_FUNCS = {"sorted", "int", "bool", "str", "list", "set", "tuple", "float"}
WRAP_METHODS = {"lower", "strip", "rstrip", "lstrip", "upper"}


class Finder(ast.NodeVisitor):
    """collect (kind, node) mutation sites with source positions"""
    def __init__(self, src):
        self.src = src
        self.sites = []
        self.in_raise = 0
        self.func = []

    def seg(self, node):
        return ast.get_source_segment(self.src, node)

    def visit_FunctionDef(self, n):
        self.func.append(n.name); self.generic_visit(n); self.func.pop()

    def visit_ClassDef(self, n):
        self.func.append(n.name); self.generic_visit(n); self.func.pop()

    def visit_Raise(self, n):
        self.in_raise += 1; self.generic_visit(n); self.in_raise -= 1

    def add(self, kind, node, repl, note=""):
        self.sites.append(dict(kind=kind, lineno=node.lineno, col=node.col_offset, end_lineno=node.end_lineno,
                               end_col=node.end_col_offset, repl=repl, where=".".join(self.func), note=note,
                               orig=self.seg(node)))

    def visit_Compare(self, n):
        if len(n.ops) == 1 and type(n.ops[0]) in CMP and not self.in_raise:
            l, r = self.seg(n.left), self.seg(n.comparators[0])
            if l is not None and r is not None:
                self.add("cmp", n, "%s %s %s" % (l, CMP[type(n.ops[0])], r))
            for side in (n.left, n.comparators[0]):
                if isinstance(side, ast.Constant) and isinstance(side.value, str) and 0 < len(side.value) <= 24:
                    self.add("strconst", side, repr(side.value + "x"))
                if isinstance(side, (ast.Tuple, ast.List)) and side.elts and all(isinstance(e, ast.Constant) for e in side.elts):
                    # drop the last element of a literal tuple/list used in a comparison / membership test
                    elts = [self.seg(e) for e in side.elts[:-1]]
                    if isinstance(side, ast.Tuple):
                        self.add("droplast", side, "(" + ", ".join(elts) + ("," if len(elts) == 1 else "") + ")")
                    else:
                        self.add("droplast", side, "[" + ", ".join(elts) + "]")
        self.generic_visit(n)

    def visit_BoolOp(self, n):
        if len(n.values) == 2 and not self.in_raise:
            a, b = self.seg(n.values[0]), self.seg(n.values[1])
            if a is not None and b is not None:
                self.add("boolop", n, "%s %s %s" % (a, "or" if isinstance(n.op, ast.And) else "and", b))
        self.generic_visit(n)

    def visit_UnaryOp(self, n):
        if isinstance(n.op, ast.Not) and not self.in_raise:
            s = self.seg(n.operand)
            if s is not None:
                self.add("not", n, "(%s)" % s)
        self.generic_visit(n)

    def visit_Constant(self, n):
        if isinstance(n.value, int) and not isinstance(n.value, bool) and not self.in_raise and abs(n.value) < 100:
            self.add("int", n, str(n.value + 1))

    def visit_Expr(self, n):
        if isinstance(n.value, ast.Call) and not (isinstance(n.value.func, ast.Name) and n.value.func.id in ("super", "print")):
            self.add("delcall", n, "pass")
        self.generic_visit(n)

    def visit_Call(self, n):
        if not self.in_raise:
            f = n.func
            if isinstance(f, ast.Name) and f.id in WRAP_FUNCS and len(n.args) == 1 and not n.keywords:
                s = self.seg(n.args[0])
                if s is not None:
                    self.add("unwrap", n, "(%s)" % s, f.id)
            if isinstance(f, ast.Attribute) and f.attr in WRAP_METHODS:
                s = self.seg(f.value)
                if s is not None:
                    self.add("unwrap", n, "(%s)" % s, "." + f.attr)
            if isinstance(f, ast.Attribute) and f.attr in ("get", "setdefault", "startswith", "endswith", "split", "rsplit", "has_option",
                                                           "has_section", "add_section") or isinstance(f, ast.Name) and f.id in ("getattr", "hasattr"):
                for a in n.args:
                    if isinstance(a, ast.Constant) and isinstance(a.value, str) and 0 < len(a.value) <= 24:
                        self.add("strconst", a, repr(a.value + "x"))
        self.generic_visit(n)

    def visit_If(self, n):
        if not n.orelse:
            s = self.seg(n.test)
            if s is not None and len(s) < 120:
                self.add("iftrue", n.test, "True")
                self.add("iffalse", n.test, "False")
        self.generic_visit(n)

    def visit_Subscript(self, n):
        sl = n.slice
        if isinstance(sl, ast.Constant) and isinstance(sl.value, str) and 0 < len(sl.value) <= 24 and not self.in_raise \
                and isinstance(n.ctx, ast.Load):
            self.add("strconst", sl, repr(sl.value + "x"))
        self.generic_visit(n)


def apply_site(src, s):
    lines = src.split("\n")
    if s["lineno"] == s["end_lineno"]:
        l = lines[s["lineno"] - 1]
        # col offsets are in utf-8 bytes
        b = l.encode("utf-8")
        nb = b[:s["col"]] + s["repl"].encode("utf-8") + b[s["end_col"]:]
        lines[s["lineno"] - 1] = nb.decode("utf-8")
    else:
        first = lines[s["lineno"] - 1].encode("utf-8")[:s["col"]].decode("utf-8")
        last = lines[s["end_lineno"] - 1].encode("utf-8")[s["end_col"]:].decode("utf-8")
        indent = ""
        lines[s["lineno"] - 1:s["end_lineno"]] = [first + s["repl"] + last]
    return "\n".join(lines)


def main():
    ap = argparse.ArgumentParser()
    ap.add_argument("--repo", required=True)
    ap.add_argument("--verif", required=True)
    ap.add_argument("--out", required=True)
    ap.add_argument("--per-file", type=int, default=40)
    ap.add_argument("--seed", type=int, default=1)
    ap.add_argument("--files", default="common.py,composeinfo.py,images.py,rpms.py,modules.py,extra_files.py,treeinfo.py,discinfo.py,compose.py")
    a = ap.parse_args()
    rng = random.Random(a.seed)
    props = [json.loads(l) for l in open(os.path.join(a.verif, "properties.jsonl"))]
    rel = {}
    for p in props:
        for f in p["anchors"]["files"]:
            rel.setdefault(os.path.basename(f), []).append(p["id"])
    done = set()
    if os.path.exists(a.out):
        for l in open(a.out):
            try:
                done.add(json.loads(l)["id"])
            except Exception:
                pass
    out = open(a.out, "a")
    for fname in a.files.split(","):
        path = os.path.join(a.repo, "productmd", fname)
        src = open(path).read()
        fd = Finder(src)
        fd.visit(ast.parse(src))
        sites = fd.sites
        rng.shuffle(sites)
        # spread over kinds
        chosen, per_kind = [], {}
        for s in sites:
            k = s["kind"]
            if per_kind.get(k, 0) >= max(3, a.per_file // 5):
                continue
            per_kind[k] = per_kind.get(k, 0) + 1
            chosen.append(s)
            if len(chosen) >= a.per_file:
                break
        for s in chosen:
            mid = "%s:%d:%d:%s" % (fname, s["lineno"], s["col"], s["kind"])
            if mid in done:
                continue
            try:
                new = apply_site(src, s)
                ast.parse(new)
            except Exception as e:
                continue
            if new == src:
                continue
            diff = "".join(difflib.unified_diff(src.splitlines(True), new.splitlines(True), "a/productmd/" + fname, "b/productmd/" + fname, n=2))
            rec = dict(id=mid, file=fname, kind=s["kind"], where=s["where"], orig=s["orig"], repl=s["repl"], note=s["note"], diff=diff)
            open(path, "w").write(new)
            try:
                t = sh(["/venv/bin/python", "-m", "pytest", "-q", "-x", "-p", "no:cacheprovider", "--timeout=120"], cwd=a.repo, timeout=600)
                last = ([l for l in t.stdout.strip().splitlines() if l.strip()] or ["?"])[-1]
                if "90 passed" not in last:
                    rec["verdict"] = "killed-by-suite"
                else:
                    rec["verdict"] = "SURVIVED-ALL-CHECKS"
                    rec["checks"] = {}
                    for pid in rel.get(fname, []):
                        t0 = time.time()
                        try:
                            cr = sh([os.path.join(a.verif, "check"), pid, "--tier", "quick"], cwd=a.verif,
                                    env=dict(os.environ, PRODUCTMD_REPO=a.repo), timeout=1500)
                            rc = cr.returncode
                            vio = [l for l in cr.stdout.splitlines() if l.startswith("VIOLATION")]
                        except subprocess.TimeoutExpired:
                            rc, vio = 2, []
                        rec["checks"][pid] = dict(rc=rc, first=(vio[0] if vio else ""), s=round(time.time() - t0))
                        if rc == 1:
                            rec["verdict"] = "caught-by-%s%s" % (pid, "" if vio and "no-failing-input-found" not in vio[0] else " (no-failing-input-found)")
                            break
            except subprocess.TimeoutExpired:
                rec["verdict"] = "killed-by-suite (timeout)"
            finally:
                open(path, "w").write(src)
            out.write(json.dumps(rec) + "\n"); out.flush()
            print("%-40s %-10s %s" % (mid, s["kind"], rec["verdict"]), flush=True)
    return 0


if __name__ == "__main__":
    sys.exit(main())
