"""Shared helper for the translator plug-ins: make recognisers insensitive to the NAMES of local variables.

    canon_locals(fn, like)  ->  a copy of the FunctionDef `fn` in which the i-th local variable (in order of first binding:
                                assignment / for / with-as / comprehension targets, pre-order, parameters excluded) is
                                renamed to like[i].  `like` is the list of local names of the method as it stood when the
                                recogniser's expected texts were written.  If the number of locals differs, or a new name
                                would capture a parameter / another name used in the function, the function is returned
                                unchanged (the recogniser then fails as before: conservative).

A maintainer who renames `arches` to `variant_arches` therefore changes nothing the translator emits; a refactoring that
changes the ORDER in which locals are bound, or their number, is still seen as a different program.
locals_of(fn) returns the current binding-order list (use it to write `like`)."""
import ast, copy


def _params(fn):
    a = fn.args
    ps = [x.arg for x in a.posonlyargs + a.args + a.kwonlyargs]
    if a.vararg:
        ps.append(a.vararg.arg)
    if a.kwarg:
        ps.append(a.kwarg.arg)
    return ps


def locals_of(fn):
    ps, seen = set(_params(fn)), []

    class V(ast.NodeVisitor):
        def visit_Name(self, n):
            if isinstance(n.ctx, ast.Store) and n.id not in ps and n.id not in seen:
                seen.append(n.id)

        def visit_FunctionDef(self, n):          # nested functions keep their own names
            if n is fn:
                self.generic_visit(n)
        visit_AsyncFunctionDef = visit_Lambda = lambda self, n: None
    V().visit(fn)
    return seen


def canon_locals(fn, like):
    cur = locals_of(fn)
    if cur == list(like) or len(cur) != len(like):
        return fn
    ren = dict(zip(cur, like))
    used = set(n.id for n in ast.walk(fn) if isinstance(n, ast.Name)) | set(_params(fn))
    for old, new in ren.items():
        if new != old and new in used and new not in ren:      # would capture a parameter / global that the body uses
            return fn
    fn2 = copy.deepcopy(fn)
    for n in ast.walk(fn2):
        if isinstance(n, ast.Name) and n.id in ren:
            n.id = ren[n.id]
    return fn2
