#!/bin/bash
# usage: tools/mkworkspace.sh <name>
# Creates an isolated workspace for one builder: /work/<name>/verif (git worktree of /verif on branch <name>,
# with a copy of the Lean build cache) and /work/<name>/repo (detached git worktree of /repo for mutation trials).
set -e
n="$1"; test -n "$n"
mkdir -p /work/$n
git -C /verif worktree add -q -b "$n" /work/$n/verif HEAD
cp -r /verif/lean/.lake /work/$n/verif/lean/.lake
git -C /repo worktree add -q --detach /work/$n/repo HEAD
cd /work/$n/verif && /venv/bin/python tools/translate.py >/dev/null && (cd lean && lake build ProductMD pmdriver 2>&1 | tail -1)
echo "workspace /work/$n ready"
