"""Translator plugin: the body of `MetadataBase._assert_type` (productmd/common.py), read from the source AST.

Every `.type f ts` rule of Generated/Validators.lean is a CALL of `_assert_type`; what such a call accepts is decided by
the body of that one method.  Two shapes are recognised (structurally, local names are free - tools/alpha.py):

  plain                                   bool-strict (the F22/F43 repair)
    value = getattr(self, field)            value = getattr(self, field)
    for atype in expected_types:            if not isinstance(value, bool) or bool in expected_types:
        if isinstance(value, atype):            for atype in expected_types:
            return                                  if isinstance(value, atype):
    raise TypeError(...)                                return
                                            raise TypeError(...)

and emitted as `Gen.assertTypeBoolStrict : Bool` ("a bool value is accepted only if bool itself is listed"), which
`Rule.check (.type f ts)` in Model/Rules.lean follows.  In Python `bool <: int`, so under the plain shape `size = True`
passes `_assert_type("size", [int])` (findings F22, F43); the theorems that say "an int field holds an int"
(C02 read-back without `ProperInts`, C04) need the strict shape and stop checking when the flag is `false`.

Any other body is NOT given a meaning: the translation fails loudly (exception -> translate.py exits non-zero ->
every check reports a broken tie G).  The two disjuncts of the guard may come in either order; the message of the
`raise TypeError` is free.
"""
import ast, os
import alpha

LIKE = ["value", "atype"]


class UnrecognisedAssertType(Exception):
    pass


def _name(n, ident):
    return isinstance(n, ast.Name) and n.id == ident


def _isinstance_call(n, a, b_pred):
    return (isinstance(n, ast.Call) and _name(n.func, "isinstance") and not n.keywords and len(n.args) == 2
            and _name(n.args[0], a) and b_pred(n.args[1]))


def _loop(st, types_arg):
    """for atype in <types_arg>: if isinstance(value, atype): return"""
    if not (isinstance(st, ast.For) and not st.orelse and _name(st.target, "atype") and _name(st.iter, types_arg) and len(st.body) == 1):
        return False
    it = st.body[0]
    return (isinstance(it, ast.If) and not it.orelse and _isinstance_call(it.test, "value", lambda x: _name(x, "atype"))
            and len(it.body) == 1 and isinstance(it.body[0], ast.Return) and it.body[0].value is None)


def _strict_guard(t, types_arg):
    """not isinstance(value, bool) or bool in <types_arg>   (disjuncts in either order)"""
    if not (isinstance(t, ast.BoolOp) and isinstance(t.op, ast.Or) and len(t.values) == 2):
        return False

    def not_bool(x):
        return isinstance(x, ast.UnaryOp) and isinstance(x.op, ast.Not) and _isinstance_call(x.operand, "value", lambda y: _name(y, "bool"))

    def listed(x):
        return (isinstance(x, ast.Compare) and len(x.ops) == 1 and isinstance(x.ops[0], ast.In) and _name(x.left, "bool")
                and _name(x.comparators[0], types_arg))
    a, b = t.values
    return (not_bool(a) and listed(b)) or (listed(a) and not_bool(b))


def recognise(fn):
    """-> True (bool-strict) / False (plain); raises UnrecognisedAssertType"""
    args = fn.args
    if args.vararg or args.kwarg or args.kwonlyargs or args.defaults or len(args.args) != 3:
        raise UnrecognisedAssertType("signature is not (self, field, expected_types)")
    self_arg, field_arg, types_arg = [a.arg for a in args.args]
    if "bool" in (self_arg, field_arg, types_arg) or "isinstance" in (self_arg, field_arg, types_arg):
        raise UnrecognisedAssertType("a parameter shadows a builtin the recogniser relies on")
    fn = alpha.canon_locals(fn, LIKE)
    if alpha.locals_of(fn) != LIKE:
        raise UnrecognisedAssertType("locals %r" % (alpha.locals_of(fn),))
    body = [st for st in fn.body if not (isinstance(st, ast.Expr) and isinstance(st.value, ast.Constant) and isinstance(st.value.value, str))]
    if len(body) != 3:
        raise UnrecognisedAssertType("expected 3 statements, found %d" % len(body))
    first, mid, last = body
    ok_first = (isinstance(first, ast.Assign) and len(first.targets) == 1 and _name(first.targets[0], "value")
                and isinstance(first.value, ast.Call) and _name(first.value.func, "getattr") and not first.value.keywords
                and len(first.value.args) == 2 and _name(first.value.args[0], self_arg) and _name(first.value.args[1], field_arg))
    if not ok_first:
        raise UnrecognisedAssertType("first statement is not `value = getattr(self, field)`")
    exc = last.exc if isinstance(last, ast.Raise) else None
    if not (isinstance(exc, ast.Call) and _name(exc.func, "TypeError") and last.cause is None):
        raise UnrecognisedAssertType("last statement is not `raise TypeError(...)`")
    if _loop(mid, types_arg):
        return False
    if isinstance(mid, ast.If) and not mid.orelse and len(mid.body) == 1 and _loop(mid.body[0], types_arg) and _strict_guard(mid.test, types_arg):
        return True
    raise UnrecognisedAssertType("middle statement: %s" % ast.unparse(mid).split("\n")[0])


def find_method(tree):
    for node in tree.body:
        if isinstance(node, ast.ClassDef) and node.name == "MetadataBase":
            found = [it for it in node.body if isinstance(it, ast.FunctionDef) and it.name == "_assert_type"]
            if len(found) == 1:
                return found[0]
    raise UnrecognisedAssertType("MetadataBase._assert_type not found (or defined twice)")


def overriders(mods):
    """subclasses that define their own `_assert_type` would escape the flag"""
    import inspect
    import productmd.common as C
    bad = []
    for mname, module in mods.items():
        for cname, cls in sorted(vars(module).items()):
            if inspect.isclass(cls) and issubclass(cls, C.MetadataBase) and cls is not C.MetadataBase and "_assert_type" in vars(cls):
                bad.append("%s.%s" % (mname, cname))
    return bad


def generate(mods, repo):
    path = os.path.join(repo, "productmd", "common.py")
    try:
        strict = recognise(find_method(ast.parse(open(path).read(), path)))
        over = overriders(mods)
        if over:
            raise UnrecognisedAssertType("overridden in %s" % ", ".join(over))
    except UnrecognisedAssertType as e:
        raise UnrecognisedAssertType("tools/gen_asserttype.py: body of MetadataBase._assert_type is outside the recognised shapes "
                                     "(%s); no meaning is given to `.type` rules - translation refused" % e)
    out = ["/-! GENERATED by tools/gen_asserttype.py from the current source – do not edit.",
           "The recognised shape of `MetadataBase._assert_type` (common.py). -/", "namespace PM.Gen", "",
           "/-- `true`: `if not isinstance(value, bool) or bool in expected_types:` guards the isinstance loop, i.e. a bool value",
           "is accepted only where `bool` itself is expected; `false`: the bare isinstance loop (`bool <: int` leaks through) -/",
           "def assertTypeBoolStrict : Bool := %s" % ("true" if strict else "false"), "", "end PM.Gen"]
    return [("AssertType.lean", "\n".join(out) + "\n", {"boolStrict": strict})]
