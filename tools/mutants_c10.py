#!/venv/bin/python
"""Acceptance trials for C10 (builder `c10`): apply one textual edit (or a seeded patch) to the scratch copy of the library,
run ./check C10, record what fired, revert.   usage: tools/mutants_c10.py [name-substring]"""
import json, os, subprocess, sys
HERE = os.path.dirname(os.path.dirname(os.path.abspath(__file__)))
REPO = os.environ.get("MUTANT_REPO", "/work/c10/repo")

M = [
 ("C10 refusal only src (images)", "images.py", '        if arch in ["src", "nosrc"]:', '        if arch in ["src"]:'),
 ("C10 refusal only src (rpms)", "rpms.py", '        if arch in ["src", "nosrc"]:', '        if arch in ["src"]:'),
 ("C10 rpms0.3 no continue", "rpms.py", '                if arch == "src":\n                    continue\n', ''),
 ("seeded C10-s5a", "PATCH", "/verif/seeded/C10-s5a/patch.diff", None),
 ("seeded C10-s5b", "PATCH", "/verif/seeded/C10-s5b/patch.diff", None),
 ("seeded C05-s5a", "PATCH", "/verif/seeded/C05-s5a/patch.diff", None),
 ("seeded C10-r2a", "PATCH", "/verif/seeded/C10-r2a/patch.diff", None),
 ("seeded C10-r2b", "PATCH", "/verif/seeded/C10-r2b/patch.diff", None),
 ("seeded C10-t1a", "PATCH", "/verif/seeded/C10-t1a/patch.diff", None),
 ("seeded C10-u3a", "PATCH", "/verif/seeded/C10-u3a/patch.diff", None),
 # ---- own
 ("own: _add_1_1 does not skip src", "images.py", '                if variant_arch == "src":\n                    continue\n', ''),
 ("own: _add_1_1 re-files under the first binary arch only", "images.py",
  '                self.add(variant, variant_arch, image)\n        else:', '                self.add(variant, variant_arch, image)\n                break\n        else:'),
 ("own: Images.add creates the variant table before the checks", "images.py",
  '        if arch not in productmd.common.RPM_ARCHES:\n            raise ValueError("Arch not found in RPM_ARCHES: %s" % arch)\n        if arch in ["src", "nosrc"]:',
  '        self.images.setdefault(variant, {})\n        if arch not in productmd.common.RPM_ARCHES:\n            raise ValueError("Arch not found in RPM_ARCHES: %s" % arch)\n        if arch in ["src", "nosrc"]:'),
 ("own: Rpms.add strips the arch before the table check", "rpms.py",
  '        if arch not in productmd.common.RPM_ARCHES:\n            raise ValueError("Arch not found in RPM_ARCHES: %s" % arch)\n\n        if arch in ["src", "nosrc"]:\n            raise ValueError("Source arch is not allowed. Map source files under binary arches.")\n\n        if category',
  '        if arch.strip() not in productmd.common.RPM_ARCHES:\n            raise ValueError("Arch not found in RPM_ARCHES: %s" % arch)\n\n        if arch in ["src", "nosrc"]:\n            raise ValueError("Source arch is not allowed. Map source files under binary arches.")\n\n        if category'),
 ("own: rpms 0.3 re-files each source RPM under one arch only", "rpms.py",
  '        self.rpms = {}\n        for variant in payload:',
  '        self.rpms = {}\n        done = set()\n        for variant in payload:'),
 ("own: rpms 0.3 source RPM path from the binary entry", "rpms.py",
  'self.add(variant, arch, srpm_nevra, srpm_data["path"], srpm_data["sigkey"], "source")',
  'self.add(variant, arch, srpm_nevra, rpm_data["path"], srpm_data["sigkey"], "source")'),
 ("own: rpms 0.3 src table looked up by variant of the first entry", "rpms.py",
  'srpm_data = payload[variant].get("src", {}).get(srpm_nevra, None)',
  'srpm_data = payload[sorted(payload)[0]].get("src", {}).get(srpm_nevra, None)'),
 ("own(audit): Images.__getitem__ creates the variant it is asked for", "images.py",
  '    def __getitem__(self, variant):\n        return self.images[variant]', '    def __getitem__(self, variant):\n        return self.images.setdefault(variant, {})'),
 ("own(audit): Rpms.add also refuses noarch", "rpms.py", '        if arch in ["src", "nosrc"]:', '        if arch in ["src", "nosrc", "noarch"]:'),
 ("own(audit): Rpms.deserialize_0_3 keeps the mapping of an earlier load", "rpms.py",
  '        payload = data["payload"]["manifest"]\n        self.rpms = {}\n', '        payload = data["payload"]["manifest"]\n'),
 ("own: Images.add lower-cases before the source check only", "images.py",
  '        if arch in ["src", "nosrc"]:\n            raise ValueError("Source arch is not allowed. Map source files under binary arches.")\n        if self.header',
  '        if arch.upper() in ["SRC"]:\n            raise ValueError("Source arch is not allowed. Map source files under binary arches.")\n        if self.header'),
]
# second edit of the "one arch only" mutant
EXTRA = {
 "own: rpms 0.3 re-files each source RPM under one arch only":
   ('                        if srpm_data is not None:\n', '                        if srpm_data is not None and (variant, srpm_nevra) not in done:\n                            done.add((variant, srpm_nevra))\n'),
}


def sh(cmd, **kw):
    return subprocess.run(cmd, shell=True, capture_output=True, text=True, **kw)


def main():
    pat = sys.argv[1] if len(sys.argv) > 1 else ""
    rows = []
    for name, fn, old, new in M:
        if pat not in name:
            continue
        assert sh("git -C %s status --porcelain --untracked-files=no" % REPO).stdout.strip() == "", "scratch repo not clean"
        if fn == "PATCH":
            r = sh("git -C %s apply %s" % (REPO, old))
            if r.returncode != 0:
                rows.append((name, "PATCH DOES NOT APPLY")); print(rows[-1]); continue
        else:
            path = os.path.join(REPO, "productmd", fn)
            src = open(path).read()
            if src.count(old) != 1:
                rows.append((name, "PATCH DOES NOT APPLY (%d)" % src.count(old))); print(rows[-1]); continue
            src2 = src.replace(old, new)
            if name in EXTRA:
                o2, n2 = EXTRA[name]
                assert src2.count(o2) == 1
                src2 = src2.replace(o2, n2)
            open(path, "w").write(src2)
        try:
            r = sh("cd %s && PRODUCTMD_REPO=%s ./check C10 --tier quick" % (HERE, REPO))
            lines = [l for l in r.stdout.splitlines() if l.startswith("VIOLATION")]
            what = "-"
            if lines:
                parts = lines[0].split()
                rp = [x for x in parts if x.startswith("replay=")][0][7:]
                pl = json.load(open(os.path.join(HERE, rp)))
                what = "%s%s" % (pl.get("kind"), " no-failing-input-found" if "no-failing-input-found" in lines[0] else "")
                rr = sh("cd %s && PRODUCTMD_REPO=%s ./check replay %s" % (HERE, REPO, rp))
                what += " | op=%s | broken=%s | replay exit %d: %s" % ((pl.get("case") or {}).get("op"), [b["what"][:60] for b in pl.get("broken", [])],
                                                                      rr.returncode, [l for l in rr.stdout.splitlines() if l.startswith("required")][:1])
            rows.append((name, "exit %d, %d VIOLATION: %s" % (r.returncode, len(lines), what[:700])))
            print(rows[-1], flush=True)
        finally:
            sh("git -C %s checkout -- ." % REPO)
    r = sh("cd %s && ./check C10 --tier quick" % HERE)
    print("clean tree afterwards: exit %d %s" % (r.returncode, r.stdout.strip().splitlines()[-1]))
    return rows


if __name__ == "__main__":
    main()
