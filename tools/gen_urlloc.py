"""Translator plugin: how the library tells a REMOTE location from a local path (property C20, URL part), read from the
AST of common.py and compose.py.

* `urlSchemesExists` / `urlSchemesOpen`: the tuple of prefixes `_file_exists(path)` resp. `open_file_obj(f)` test with
  `path.startswith((..))` before they call `_urlopen` (empty when the statement is not recognised: the first `if` of
  the function resp. the `if` nested in the `isinstance(f, six.string_types)` branch);
* `urlExistsCatches`: the classes of the `except` clause of `_file_exists` whose handler is exactly `return False`
  (last attribute name: `six.moves.urllib.error.URLError` -> "URLError"); any other exception propagates;
* `urlExistsShape`: the `try` body is exactly `x = _urlopen(path); x.close()` and the branch ends with `return True`,
  and the non-URL answer is `os.path.exists(path)`;
* `urlOpenShape`: the URL branch of `open_file_obj` is exactly `x = _urlopen(f); yield x; x.close()` (one fetch, closed
  after the body returned normally, NOT closed when the body raises: there is no try/finally);
* `composeUrlMark`: the constant of the `"<mark>" not in compose_path` test that guards the legacy scan in
  `Compose.__init__` (empty when that test is not there).
"""
import ast, os
import translate as T
import alpha


def tuple_strs(node):
    if isinstance(node, ast.Tuple) and all(isinstance(e, ast.Constant) and isinstance(e.value, str) for e in node.elts):
        return [e.value for e in node.elts]
    return None


def startswith_tuple(test, var):
    """`<var>.startswith((..))` -> list of str, else None"""
    if isinstance(test, ast.Call) and isinstance(test.func, ast.Attribute) and test.func.attr == "startswith" \
            and isinstance(test.func.value, ast.Name) and test.func.value.id == var and len(test.args) == 1 and not test.keywords:
        return tuple_strs(test.args[0])
    return None


def last_name(e):
    return e.attr if isinstance(e, ast.Attribute) else e.id if isinstance(e, ast.Name) else None


def exists_info(fn):
    schemes, catches, shape = [], [], False
    if fn is None or len(fn.args.args) != 1:
        return schemes, catches, shape
    var = fn.args.args[0].arg
    body = [s for s in fn.body if not (isinstance(s, ast.Expr) and isinstance(s.value, ast.Constant))]
    if len(body) == 2 and isinstance(body[0], ast.If) and not body[0].orelse:
        t = startswith_tuple(body[0].test, var)
        if t is not None:
            schemes = t
        inner = body[0].body
        if len(inner) == 2 and isinstance(inner[0], ast.Try) and len(inner[0].handlers) == 1 and not inner[0].orelse and not inner[0].finalbody:
            tr, h = inner[0], inner[0].handlers[0]
            if len(h.body) == 1 and isinstance(h.body[0], ast.Return) and isinstance(h.body[0].value, ast.Constant) and h.body[0].value.value is False \
                    and h.type is not None:
                elts = h.type.elts if isinstance(h.type, ast.Tuple) else [h.type]
                names = [last_name(e) for e in elts]
                if all(names):
                    catches = names
            tb = tr.body
            ok_try = (len(tb) == 2 and isinstance(tb[0], ast.Assign) and len(tb[0].targets) == 1 and isinstance(tb[0].targets[0], ast.Name)
                      and ast.unparse(tb[0].value) == "_urlopen(%s)" % var
                      and isinstance(tb[1], ast.Expr) and ast.unparse(tb[1].value) == "%s.close()" % tb[0].targets[0].id)
            ok_ret = isinstance(inner[1], ast.Return) and isinstance(inner[1].value, ast.Constant) and inner[1].value.value is True
            ok_local = isinstance(body[1], ast.Return) and ast.unparse(body[1].value) == "os.path.exists(%s)" % var
            shape = bool(ok_try and ok_ret and ok_local)
    return schemes, catches, shape


def open_info(fn):
    schemes, shape = [], False
    if fn is None or not fn.args.args:
        return schemes, shape
    var = fn.args.args[0].arg
    body = [s for s in fn.body if not (isinstance(s, ast.Expr) and isinstance(s.value, ast.Constant))]
    if len(body) == 1 and isinstance(body[0], ast.If) and ast.unparse(body[0].test) == "isinstance(%s, six.string_types)" % var \
            and len(body[0].body) == 1 and isinstance(body[0].body[0], ast.If):
        inner = body[0].body[0]
        t = startswith_tuple(inner.test, var)
        if t is not None:
            schemes = t
        b = inner.body
        shape = bool(len(b) == 3 and isinstance(b[0], ast.Assign) and len(b[0].targets) == 1 and isinstance(b[0].targets[0], ast.Name)
                     and ast.unparse(b[0].value) == "_urlopen(%s)" % var
                     and isinstance(b[1], ast.Expr) and isinstance(b[1].value, ast.Yield) and ast.unparse(b[1].value.value) == b[0].targets[0].id
                     and isinstance(b[2], ast.Expr) and ast.unparse(b[2].value) == "%s.close()" % b[0].targets[0].id
                     and len(body[0].orelse) == 1 and ast.unparse(body[0].orelse[0]) == "yield %s" % var)
    return schemes, shape


def mark_info(fn):
    """the constant of `"<c>" not in compose_path and os.path.exists(compose_path)` in an elif of __init__"""
    if fn is None:
        return ""
    found = []
    for n in ast.walk(fn):
        if isinstance(n, ast.If) and isinstance(n.test, ast.BoolOp) and isinstance(n.test.op, ast.And) and len(n.test.values) == 2:
            a, b = n.test.values
            if isinstance(a, ast.Compare) and len(a.ops) == 1 and isinstance(a.ops[0], ast.NotIn) and isinstance(a.left, ast.Constant) \
                    and isinstance(a.left.value, str) and ast.unparse(a.comparators[0]) == "compose_path" \
                    and ast.unparse(b) == "os.path.exists(compose_path)":
                found.append(a.left.value)
    return found[0] if len(found) == 1 else ""


def generate(mods, repo):
    cpath = os.path.join(repo, "productmd", "common.py")
    ctree = ast.parse(open(cpath).read(), cpath)
    fns = dict((n.name, n) for n in ctree.body if isinstance(n, ast.FunctionDef))
    fe = fns.get("_file_exists")
    if fe is not None:
        fe = alpha.canon_locals(fe, ["file_obj"])
    fo = fns.get("open_file_obj")
    if fo is not None:
        fo = alpha.canon_locals(fo, ["file_obj"])
    ex_schemes, ex_catches, ex_shape = exists_info(fe)
    op_schemes, op_shape = open_info(fo)
    ppath = os.path.join(repo, "productmd", "compose.py")
    ptree = ast.parse(open(ppath).read(), ppath)
    init = None
    for node in ptree.body:
        if isinstance(node, ast.ClassDef) and node.name == "Compose":
            for it in node.body:
                if isinstance(it, ast.FunctionDef) and it.name == "__init__":
                    init = it
    mark = mark_info(init)
    b = lambda x: "true" if x else "false"
    strs = lambda xs: "[%s]" % ", ".join("%s /- %s -/" % (T.lstr(x), x) for x in xs)
    out = ["import ProductMD.Model.Str",
           "/-! GENERATED by tools/gen_urlloc.py from the AST of productmd/common.py and compose.py – do not edit. -/",
           "namespace PM.Gen", "open PM", "",
           "/-- `_file_exists`: prefixes that make a path a URL (fetched instead of `os.path.exists`) -/",
           "def urlSchemesExists : List Str := %s" % strs(ex_schemes),
           "/-- `open_file_obj`: prefixes that make a string a URL (fetched instead of `open`) -/",
           "def urlSchemesOpen : List Str := %s" % strs(op_schemes),
           "/-- `_file_exists`: exception classes of the fetch that mean \"absent\" (`return False`); all others propagate -/",
           "def urlExistsCatches : List String := [%s]" % ", ".join('"%s"' % n for n in ex_catches),
           "/-- `_file_exists` is `x = _urlopen(p); x.close()` / `return True` / else `os.path.exists(p)` -/",
           "def urlExistsShape : Bool := %s" % b(ex_shape),
           "/-- the URL branch of `open_file_obj` is `x = _urlopen(f); yield x; x.close()` -/",
           "def urlOpenShape : Bool := %s" % b(op_shape),
           "/-- `\"<mark>\" not in compose_path` guards the legacy sub-directory scan of `Compose.__init__` -/",
           "def composeUrlMark : Str := %s" % T.lstr(mark), "",
           "end PM.Gen"]
    js = dict(exists_schemes=ex_schemes, open_schemes=op_schemes, exists_catches=ex_catches, exists_shape=ex_shape,
              open_shape=op_shape, mark=mark)
    return [("UrlLoc.lean", "\n".join(out) + "\n", js)]
