#!/usr/bin/env python3
"""Writes MANIFEST.json from the table below (single place to edit claims)."""
import json, os
ROOT = os.path.dirname(os.path.dirname(os.path.abspath(__file__)))
TB = ("Lean 4.33 kernel; axioms printed by the per-run audit (subset of propext, Classical.choice, Quot.sound; no native_decide/bv_decide, "
      "no axioms of our own); tools/translate.py; the harness adapters; the statement of each theorem. ")
import sys, glob
sys.path.insert(0, os.path.join(ROOT, "harness"))
CHECKS = {}
for f in sorted(glob.glob(os.path.join(ROOT, "harness", "props", "c[0-9]*.py"))):
    import importlib
    mod = importlib.import_module("props." + os.path.basename(f)[:-3])
    if getattr(mod, "MANIFEST", None):
        CHECKS[mod.PROP.id] = dict(mod.MANIFEST)
        CHECKS[mod.PROP.id]["note"] = TB + CHECKS[mod.PROP.id]["note"]
NOT_YET = {}
def main():
    props = [json.loads(l) for l in open(os.path.join(ROOT, "properties.jsonl"))]
    checks, na = [], []
    for p in props:
        pid = p["id"]
        if pid in CHECKS:
            c = CHECKS[pid]
            checks.append({
                "property_id": pid,
                "quick_cmd": "./check %s --tier quick" % pid,
                "thorough_cmd": "./check %s --tier thorough" % pid,
                "evidence_file": "evidence/%s.json" % pid,
                "replay_cmd_template": "./check replay {path}",
                "engine": "lean-model+correspondence",
                "level_claimed": {"category": "proof", "text": c["text"], "design_ref": "DESIGN.md section " + c["ref"]},
                "level_note": c["note"],
                "technique": c["technique"],
            })
        else:
            na.append({"property_id": pid, "reason": NOT_YET.get(pid, "check not built yet (work in progress; the design in DESIGN.md section 7 applies and nothing about the property makes the technique inapplicable)")})
    man = {
        "version": 1,
        "setup_cmd": "./setup.sh",
        "hooks": {"guard": "PRODUCTMD_VERIF", "enable": "no source hooks: the harness observes the library by wrapping re/open/bound methods from outside; PRODUCTMD_VERIF=1 is set for harness subprocesses and read by nothing in /repo",
                  "baseline_off_cmd": "cd /repo && /venv/bin/python -m pytest -ra -q -p no:cacheprovider --timeout=900 --continue-on-collection-errors",
                  "source_commits": [], "add_only": True},
        "engines": [{"name": "lean-model+correspondence", "path": "lean/ (Lean 4 library ProductMD, driver pmdriver), tools/translate.py, harness/",
                     "serves_properties": [c["property_id"] for c in checks],
                     "kind_free_text": "machine-checked proofs over an executable Lean model; generated parts re-translated from /repo on every run; hand-written parts tied by differential correspondence; property oracle on the real library gives replays"}],
        "checks": checks,
        "not_applicable": na,
        "notes": "All checks: exit 0 = held, 1 = VIOLATION line printed, 2 = infrastructure failure. Known findings: known_findings.json.",
    }
    json.dump(man, open(os.path.join(ROOT, "MANIFEST.json"), "w"), indent=1)
    print("checks:", [c["property_id"] for c in checks], "not_applicable:", len(na))
if __name__ == "__main__":
    main()
