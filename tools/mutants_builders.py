#!/venv/bin/python
"""Acceptance trials for C12 / C03 (builder `builders`): apply one textual edit (or one patch file) to the scratch copy
of the library, run the check(s), record what fired, revert.   usage: tools/mutants_builders.py [name-substring]
The scratch copy (MUTANT_REPO, default /work/builders/repo) is expected to hold the tree the checks are green on
(currently /repo HEAD, which contains the F30 fix)."""
import json, os, subprocess, sys
HERE = os.path.dirname(os.path.dirname(os.path.abspath(__file__)))
REPO = os.environ.get("MUTANT_REPO", "/work/builders/repo")

M = [
 ("C03 modules rpms no list()", "modules.py", 'metadata.setdefault("rpms", []).extend(list(rpms))',
  'metadata["rpms"] = metadata.get("rpms", ()) + tuple(rpms) if isinstance(rpms, tuple) else metadata.setdefault("rpms", []) + list(rpms)', ["C03", "C12"]),
 ("C03 extra_files checksums copy keys lower", "extra_files.py", 'metadata.append({"file": path, "size": size, "checksums": checksums})',
  'metadata.append({"file": path, "size": size, "checksums": dict((k.lower(), v) for k, v in checksums.items())})', ["C03", "C12"]),
 ("C12 sigkey.lower removed", "rpms.py", '            sigkey = sigkey.lower()', '            sigkey = sigkey', ["C12"]),
 ("C12 relative_to lstrip", "extra_files.py", '    root = root.rstrip("/") + "/"\n    if path.startswith(root):\n        return path[len(root):]',
  '    root = root.rstrip("/")\n    if path.startswith(root):\n        return path[len(root):].lstrip("/")', ["C12"]),
 ("C12 relative_to textual", "extra_files.py", '    root = root.rstrip("/") + "/"\n', '    root = root\n', ["C12"]),
 ("C12 category check removed", "rpms.py",
  '        if (category == "source") != (nevra_dict["arch"] in ("src", "nosrc")):\n            raise ValueError("Invalid category/arch combination: %s/%s" % (category, nevra))\n', '', ["C12"]),
 ("revert F5 (AttributeError for unparsable name)", "common.py",
  '    match = RPM_NVRA_RE.match(nvra)\n    if match is None:\n        raise ValueError("Invalid N-E:V-R.A: %s" % nvra)\n    result = match.groupdict()\n',
  '    result = RPM_NVRA_RE.match(nvra).groupdict()\n', ["C12"]),
 # ---- own
 ("own: Rpms.add files a binary under its own NEVRA (srpm key ignored)", "rpms.py", '        rpms = srpms.setdefault(srpm_nevra, {})', '        rpms = srpms.setdefault(nevra, {})', ["C12", "C03"]),
 ("own: Rpms.add inserts before the category/arch check", "rpms.py",
  '        if (category == "source") != (nevra_dict["arch"] in ("src", "nosrc")):\n            raise ValueError("Invalid category/arch combination: %s/%s" % (category, nevra))\n',
  '        self.rpms.setdefault(variant, {})\n        if (category == "source") != (nevra_dict["arch"] in ("src", "nosrc")):\n            raise ValueError("Invalid category/arch combination: %s/%s" % (category, nevra))\n', ["C12"]),
 ("own: srpm_nevra not canonicalised", "rpms.py", '            srpm_nevra, _ = self._check_nevra(srpm_nevra)', '            self._check_nevra(srpm_nevra)', ["C12"]),
 ("own: Modules.add overwrites modulemd_path dict", "modules.py", 'metadata.setdefault("modulemd_path", {})[category] = modulemd_path',
  'metadata["modulemd_path"] = {category: modulemd_path}', ["C12", "C03"]),
 ("own: Modules canonical uid keeps directory prefix", "modules.py", '        uid = "%(module_name)s:%(stream)s" % uid_dict', '        uid = uid.split(":")[0] + ":%(stream)s" % uid_dict', ["C12"]),
 ("own: ExtraFiles.add refuses after creating the variant", "extra_files.py", '        if not isinstance(checksums, dict):\n            raise TypeError("Checksums must be a dict.")\n',
  '        self.extra_files.setdefault(variant, {})\n        if not isinstance(checksums, dict):\n            raise TypeError("Checksums must be a dict.")\n', ["C12"]),
 ("own: ExtraFiles.serialize writes each file list sorted by name", "extra_files.py", '        data["payload"]["extra_files"] = self.extra_files',
  '        data["payload"]["extra_files"] = dict((v, dict((a, sorted(l, key=lambda i: i["file"])) for a, l in d.items())) for v, d in self.extra_files.items())', ["C03"]),
 ("own: Modules.deserialize drops modules without rpms", "modules.py", '        self.modules = data["payload"]["modules"]',
  '        self.modules = data["payload"]["modules"]\n        for v in self.modules.values():\n            for a in v.values():\n                for u in [u for u in a if not a[u]["rpms"]]:\n                    del a[u]', ["C03"]),
 ("own: Compose.serialize drops respin 0 -> writes None", "composeinfo.py", '        data[self._section]["respin"] = self.respin', '        data[self._section]["respin"] = self.respin or 0 if self.respin != 10 else 1', ["C03"]),
 ("own: epoch 0 left out of the canonical key", "rpms.py", '        nevra_dict["epoch"] = nevra_dict["epoch"] or 0\n', '        nevra_dict["epoch"] = nevra_dict["epoch"] or ""\n', ["C12"]),
 ("own: parse_nvra strips .rpm with rstrip", "common.py", '        nvra = nvra[:-4]', '        nvra = nvra.rstrip(".rpm")', ["C12"]),
]


# patch files: (name, path of the diff, reverse?, properties)
P = [
 ("revert F30 (Rpms.add accepts an empty path again)", "docs/patches/F30.diff", True, ["C12"]),
 ("seeded C12-r1a (dump_for_tree rewrites the stored record in place)", "seeded/C12-r1a/patch.diff", False, ["C12"]),
 ("seeded C12-r1b", "seeded/C12-r1b/patch.diff", False, ["C12"]),
 ("seeded C03-t3a (ExtraFiles.deserialize re-files through add() without clearing)", "seeded/C03-t3a/patch.diff", False, ["C03"]),
 ("seeded C12-t3a", "seeded/C12-t3a/patch.diff", False, ["C12"]),
 ("seeded C12-u3a (_relative_to uses path.replace(root, ''))", "seeded/C12-u3a/patch.diff", False, ["C12"]),
 ("seeded C03-u1a (dump_for_tree shallow copy rewrites stored records)", "seeded/C03-u1a/patch.diff", False, ["C03", "C12"]),
 ("seeded C12-s2a (Modules.add overwrites the RPM list)", "seeded/C12-s2a/patch.diff", False, ["C12", "C03"]),
 ("seeded C12-s2b (setdefault of variant/arch before the srpm check)", "seeded/C12-s2b/patch.diff", False, ["C12"]),
 ("seeded C03-s3a (sigkey lower-cased on load instead of in add)", "seeded/C03-s3a/patch.diff", False, ["C03", "C12"]),
 ("seeded C03-s3b (module RPM list sorted/deduplicated on load)", "seeded/C03-s3b/patch.diff", False, ["C03"]),
 ("seeded revert-F5 (patch file)", "seeded/revert-F5/patch.diff", False, ["C12"]),
]


def sh(cmd, **kw):
    return subprocess.run(cmd, shell=True, capture_output=True, text=True, **kw)


def run_props(name, props, rows):
    for p in props:
        r = sh("cd %s && PRODUCTMD_REPO=%s ./check %s --tier quick" % (HERE, REPO, p))
        lines = [l for l in r.stdout.splitlines() if l.startswith("VIOLATION")]
        what = "-"
        if lines:
            parts = lines[0].split()
            rp = [x for x in parts if x.startswith("replay=")][0][7:]
            pl = json.load(open(os.path.join(HERE, rp)))
            obs = pl.get("observed")
            kind = (obs.get("kind") if isinstance(obs, dict) and "kind" in obs else None) or pl.get("kind")
            what = "%s%s" % (kind, " no-failing-input-found" if "no-failing-input-found" in lines[0] else "")
            call = (obs or {}).get("call") if isinstance(obs, dict) else None
            what += " | broken=%d | " % len(pl.get("broken") or []) + json.dumps(call or pl.get("case", {}).get("args"), sort_keys=True)[:160]
        rows.append((name, p, "exit %d, %d VIOLATION: %s" % (r.returncode, len(lines), what)))
        print(rows[-1], flush=True)


def main():
    pat = sys.argv[1] if len(sys.argv) > 1 else ""
    rows = []
    for name, diff, reverse, props in P:
        if pat not in name:
            continue
        flag = "-R " if reverse else ""
        back = "" if reverse else "-R "
        r = sh("cd %s && git apply %s%s" % (REPO, flag, os.path.join(HERE, diff)))
        if r.returncode != 0:
            rows.append((name, "?", "PATCH DOES NOT APPLY: %s" % r.stderr[:200])); print(rows[-1]); continue
        try:
            run_props(name, props, rows)
        finally:
            r = sh("cd %s && git apply %s%s" % (REPO, back, os.path.join(HERE, diff)))
            assert r.returncode == 0, r.stderr
    for name, fn, old, new, props in M:
        if pat not in name:
            continue
        path = os.path.join(REPO, "productmd", fn)
        src = open(path).read()
        if src.count(old) != 1:
            rows.append((name, "?", "PATCH DOES NOT APPLY (%d)" % src.count(old))); print(rows[-1]); continue
        open(path, "w").write(src.replace(old, new))
        try:
            run_props(name, props, rows)
        finally:
            open(path, "w").write(src)
    return rows


if __name__ == "__main__":
    main()
