#!/venv/bin/python
"""
Translator: regenerates lean/ProductMD/Generated/*.lean (and generated.json) from the
CURRENT working tree of the repository (PRODUCTMD_REPO, default /repo).

It reads meaning, not text: tables come from the live module objects, regular
expressions from CPython's own parser (re._parser), and only the validator idiom,
the validate()/version-gate call structure and the dump effect order are read from
syntax (python `ast`), conservatively: anything outside the recognised grammar is
emitted as `custom` / `unknown` / `Re.bad`, which can only break an obligation.

Files are rewritten only when their content changes.
"""
import ast, json, os, sys, io, hashlib

REPO = os.environ.get("PRODUCTMD_REPO", "/repo")
HERE = os.path.dirname(os.path.abspath(__file__))
OUT = os.path.join(os.path.dirname(HERE), "lean", "ProductMD", "Generated")
sys.path.insert(0, REPO)
sys.dont_write_bytecode = True

import re
try:
    import re._parser as sre_parse
    import re._constants as sre_c
except ImportError:  # python < 3.11
    import sre_parse, sre_constants as sre_c

MODULES = ["common", "composeinfo", "images", "rpms", "modules", "extra_files", "treeinfo", "discinfo", "compose"]


def import_repo():
    import importlib
    import productmd
    assert os.path.realpath(productmd.__file__).startswith(os.path.realpath(REPO) + os.sep), productmd.__file__
    return dict((m, importlib.import_module("productmd." + m)) for m in MODULES)


# ----------------------------------------------------------------------------- lean emit helpers
def lstr(s):
    """Lean term of type Str (= List Char) for a python string, explicit char list."""
    if s == "":
        return "([] : Str)"
    return "[" + ",".join(lchar(c) for c in s) + "]"


def lchar(c):
    o = ord(c)
    if c == "'":
        return "'\\''"
    if c == "\\":
        return "'\\\\'"
    if 32 <= o < 127:
        return "'%s'" % c
    return "Char.ofNat %d" % o


def lstrlist(xs):
    return "[" + ",\n   ".join("%s /- %s -/" % (lstr(x), json.dumps(x)) for x in xs) + "]"


# ----------------------------------------------------------------------------- regex translation
def category_ranges(cat):
    """code-point ranges (surrogates excluded) of an sre category, by probing the engine"""
    pat = {sre_c.CATEGORY_DIGIT: r"\d", sre_c.CATEGORY_SPACE: r"\s", sre_c.CATEGORY_WORD: r"\w"}.get(cat)
    if pat is None:
        return None
    rx = re.compile(pat)
    out, start, prev = [], None, None
    for cp in range(0x110000):
        ok = not (0xD800 <= cp <= 0xDFFF) and rx.match(chr(cp)) is not None
        if ok:
            if start is None:
                start = cp
            prev = cp
        elif start is not None:
            out.append((start, prev)); start = None
    if start is not None:
        out.append((start, prev))
    return out

_CAT_CACHE = {}
_CAT_NAMES = {sre_c.CATEGORY_DIGIT: "digitRanges", sre_c.CATEGORY_SPACE: "spaceRanges", sre_c.CATEGORY_WORD: "wordRanges"}


def cat_name(cat):
    if cat not in _CAT_NAMES:
        return None
    if cat not in _CAT_CACHE:
        _CAT_CACHE[cat] = category_ranges(cat)
    return _CAT_NAMES[cat]


class Unsupported(Exception):
    pass


def cls_term(ranges_terms, neg):
    body = " ++ ".join(ranges_terms) if ranges_terms else "[]"
    return "(.cls { ranges := %s, neg := %s })" % (body, "true" if neg else "false")


def tr_in(items):
    neg = False
    terms = []
    lits = []
    for op, av in items:
        if op is sre_c.NEGATE:
            neg = True
        elif op is sre_c.LITERAL:
            lits.append((av, av))
        elif op is sre_c.RANGE:
            lits.append((av[0], av[1]))
        elif op is sre_c.CATEGORY:
            n = cat_name(av)
            if n is None:
                raise Unsupported("category %s" % av)
            terms.append("Gen.%s" % n)
        else:
            raise Unsupported("IN item %s" % op)
    if lits:
        terms.insert(0, "[" + ", ".join("(%d, %d)" % r for r in lits) + "]")
    return cls_term(terms, neg)


def tr_seq(seq, top=False):
    parts = []
    for i, (op, av) in enumerate(seq):
        if op is sre_c.AT:
            if av is sre_c.AT_BEGINNING:
                if not (top and i == 0):
                    raise Unsupported("^ not in leading position")
                parts.append(".bol")
            elif av is sre_c.AT_END:
                parts.append(".eol")
            else:
                raise Unsupported("AT %s" % av)
        elif op is sre_c.LITERAL:
            parts.append(cls_term(["[(%d, %d)]" % (av, av)], False))
        elif op is sre_c.NOT_LITERAL:
            parts.append(cls_term(["[(%d, %d)]" % (av, av)], True))
        elif op is sre_c.ANY:
            parts.append(cls_term(["[(10, 10)]"], True))
        elif op is sre_c.IN:
            parts.append(tr_in(av))
        elif op is sre_c.BRANCH:
            alts = [tr_seq(list(b)) for b in av[1]]
            parts.append("(Re.alts [%s])" % ", ".join(alts))
        elif op is sre_c.SUBPATTERN:
            group, add_flags, del_flags, p = av
            if add_flags or del_flags:
                raise Unsupported("inline flags")
            inner = tr_seq(list(p))
            parts.append("(.grp %d %s)" % (group, inner) if group is not None else inner)
        elif op is sre_c.MAX_REPEAT:
            lo, hi, p = av
            inner = tr_seq(list(p))
            if hi is sre_c.MAXREPEAT:
                if lo == 0:
                    parts.append("(.star %s)" % inner)
                elif lo == 1:
                    parts.append("(Re.plus %s)" % inner)
                else:
                    parts.append("(.cat (Re.rep %d %s) (.star %s))" % (lo, inner, inner))
            elif lo == 0 and hi == 1:
                parts.append("(Re.opt %s)" % inner)
            elif lo == hi and lo <= 64:
                parts.append("(Re.rep %d %s)" % (lo, inner))
            else:
                raise Unsupported("repeat {%s,%s}" % (lo, hi))
        else:
            raise Unsupported(str(op))
    return "(Re.seq [%s])" % ", ".join(parts)


def tr_pattern(pat, flags=0):
    try:
        if flags & ~re.UNICODE:
            raise Unsupported("flags %r" % flags)
        parsed = sre_parse.parse(pat, 0)
        if parsed.state.flags & ~(re.UNICODE):
            raise Unsupported("flags in pattern")
        names = dict(parsed.state.groupdict)
        return tr_seq(list(parsed), top=True), names, None
    except Unsupported as e:
        return ".bad", {}, str(e)


# ----------------------------------------------------------------------------- regex discovery
def qualname_of(stack):
    return "_".join(stack)


class ReSites(ast.NodeVisitor):
    """find every regular expression use site; patterns that are not string constants
    are resolved through the live module (module-level compiled patterns / lists)"""
    def __init__(self, modname, module):
        self.mod, self.module = modname, module
        self.stack, self.sites, self.count = [], [], {}

    def visit_ClassDef(self, n):
        self.stack.append(n.name); self.generic_visit(n); self.stack.pop()

    def visit_FunctionDef(self, n):
        self.stack.append(n.name); self.generic_visit(n); self.stack.pop()

    def add(self, kind, node, lineno):
        owner = qualname_of(self.stack) or "module"
        idx = self.count.get(owner, 0); self.count[owner] = idx + 1
        pats = self.resolve(node)
        self.sites.append(dict(module=self.mod, owner=owner, index=idx, kind=kind, line=lineno, patterns=pats))

    def resolve(self, node):
        """-> list of (pattern string | None, flags)"""
        if isinstance(node, ast.Constant) and isinstance(node.value, str):
            return [(node.value, 0)]
        if isinstance(node, ast.Name) or isinstance(node, ast.Attribute):
            try:
                obj = eval(compile(ast.Expression(node), "<re>", "eval"), vars(self.module))
            except Exception:
                return [(None, 0)]
            return self.of_obj(obj)
        return [(None, 0)]

    @staticmethod
    def of_obj(obj):
        if isinstance(obj, re.Pattern):
            return [(obj.pattern, obj.flags & ~re.UNICODE)]
        if isinstance(obj, str):
            return [(obj, 0)]
        if isinstance(obj, (list, tuple)):
            out = []
            for o in obj:
                out.extend(ReSites.of_obj(o))
            return out
        return [(None, 0)]

    def visit_Call(self, n):
        f = n.func
        if isinstance(f, ast.Attribute) and isinstance(f.value, ast.Name) and f.value.id == "re" \
                and f.attr in ("compile", "match", "search", "fullmatch", "split", "sub", "findall", "finditer"):
            if f.attr == "compile" and not self.stack:
                pass  # module-level compile: covered by the live-object scan (named after the variable)
            elif self.stack and self.stack[-1] == "_assert_matches_re":
                pass  # the generic helper: its patterns are the arguments of its callers, all scanned below
            else:
                kind = {"compile": "match"}.get(f.attr, f.attr)
                self.add(kind, n.args[0], n.lineno)
        elif isinstance(f, ast.Attribute) and f.attr == "_assert_matches_re" and len(n.args) >= 2:
            lst = n.args[1]
            if isinstance(lst, ast.List):
                for e in lst.elts:
                    self.add("match", e, n.lineno)
            else:
                self.add("match", lst, n.lineno)
        self.generic_visit(n)


def discover_regexes(mods):
    entries = []  # dict(name, kind, pattern, flags, where)
    for mname, module in mods.items():
        # (1) module-level compiled patterns and lists of them
        for var, obj in sorted(vars(module).items()):
            if getattr(obj, "__module__", None) and not isinstance(obj, (re.Pattern, list)):
                continue
            if isinstance(obj, re.Pattern):
                owner = [m for m in MODULES if var in vars(mods[m]) and vars(mods[m])[var] is obj]
                if owner[0] != mname:
                    continue  # imported name, emitted where it is defined
                entries.append(dict(name="re_%s_%s" % (mname, var), kind="match", pattern=obj.pattern,
                                    flags=obj.flags & ~re.UNICODE, where="%s.%s" % (mname, var)))
            elif isinstance(obj, list) and obj and all(isinstance(o, re.Pattern) for o in obj):
                for i, o in enumerate(obj):
                    entries.append(dict(name="re_%s_%s_%d" % (mname, var, i), kind="match", pattern=o.pattern,
                                        flags=o.flags & ~re.UNICODE, where="%s.%s[%d]" % (mname, var, i), list=var))
        # (2) call sites
        path = os.path.join(REPO, "productmd", mname + ".py")
        tree = ast.parse(open(path).read(), path)
        v = ReSites(mname, module); v.visit(tree)
        for s in v.sites:
            for j, (pat, flags) in enumerate(s["patterns"]):
                nm = "re_%s_%s_%d" % (mname, s["owner"], s["index"]) + ("" if len(s["patterns"]) == 1 else "_%d" % j)
                entries.append(dict(name=nm, kind=s["kind"], pattern=pat, flags=flags,
                                    where="%s.py:%d %s" % (mname, s["line"], s["owner"])))
    return entries


# ----------------------------------------------------------------------------- dynamic regex capture
def dynamic_patterns():
    """run a workload on the real library with the `re` entry points wrapped; return the set of
    pattern strings the library actually handed to the engine"""
    import subprocess
    code = r'''
import sys, os, json, glob
sys.dont_write_bytecode = True
sys.path.insert(0, %r)
import re
seen = set()
PMD = os.path.realpath(os.path.join(%r, "productmd")) + os.sep
def wrap(name):
    orig = getattr(re, name)
    def f(pattern, *a, **k):
        if os.path.realpath(sys._getframe(1).f_code.co_filename).startswith(PMD):
            seen.add(pattern.pattern if isinstance(pattern, re.Pattern) else pattern)
        return orig(pattern, *a, **k)
    setattr(re, name, f)
for n in ("compile", "match", "search", "fullmatch", "split", "sub", "findall", "finditer"):
    wrap(n)
import productmd, productmd.common, productmd.composeinfo, productmd.images, productmd.rpms, productmd.modules
import productmd.extra_files, productmd.treeinfo, productmd.discinfo, productmd.compose
from productmd.common import *
for f, args in [(parse_nvra, ("a-1:2-3.x86_64",)), (is_valid_release_short, ("f",)), (is_valid_release_version, ("1",)),
                (is_valid_release_type, ("ga",)), (split_version, ("1.2",)), (create_release_id, ("f", "1", "ga")),
                (parse_release_id, ("f-1",)), (productmd.composeinfo.get_date_type_respin, ("f-1-20200101.n.0",)),
                (productmd.composeinfo.verify_label, ("RC-1.0",)), (productmd.modules.Modules.parse_uid, ("a:b:c:d",))]:
    try: f(*args)
    except Exception: pass
root = os.path.join(%r, "tests")
def load(cls, path):
    try:
        o = cls(); o.load(path); o.dumps()
    except Exception: pass
for p in glob.glob(root + "/treeinfo/*"): load(productmd.treeinfo.TreeInfo, p)
for p in glob.glob(root + "/images/*.json"): load(productmd.images.Images, p)
for p in glob.glob(root + "/compose*/**/composeinfo.json", recursive=True): load(productmd.composeinfo.ComposeInfo, p)
for p in glob.glob(root + "/compose*/**/rpm*.json", recursive=True): load(productmd.rpms.Rpms, p)
for p in glob.glob(root + "/compose*/**/image*.json", recursive=True): load(productmd.images.Images, p)
for p in glob.glob(root + "/compose*/**/modules.json", recursive=True): load(productmd.modules.Modules, p)
# drive every validator of freshly built objects (errors are irrelevant, only the patterns handed to re)
ci = productmd.composeinfo.ComposeInfo()
v = productmd.composeinfo.Variant(ci); v.id = v.uid = "S"; v.name = "n"; v.type = "variant"; v.arches = set(["x86_64"])
im = productmd.images.Image(productmd.images.Images()); im.implant_md5 = "0" * 32
ti = productmd.treeinfo.TreeInfo(); ti.release.version = "1.0"; ti.base_product.version = "1"
for o in (ci.header, ci.compose, ci.release, ci.base_product, v, im, ti.release, ti.base_product, ti.header):
    for n in dir(o):
        if n.startswith("_validate"):
            try: getattr(o, n)()
            except Exception: pass
ci.compose.id = "x-20200101.0"; ci.compose.date = "20200101"; ci.compose.label = "RC-1.0"
ci.release.version = "1.0"; ci.base_product.version = "1.0"; ci.header.version = "1.2"
for o in (ci.header, ci.compose, ci.release, ci.base_product):
    for n in dir(o):
        if n.startswith("_validate"):
            try: getattr(o, n)()
            except Exception: pass
print(json.dumps(sorted(seen)))
''' % (REPO, REPO, REPO)
    r = subprocess.run([sys.executable, "-c", code], capture_output=True, text=True, env=dict(os.environ, PYTHONDONTWRITEBYTECODE="1"))
    if r.returncode != 0:
        raise RuntimeError("dynamic regex capture failed:\n" + r.stderr)
    return json.loads(r.stdout.strip().splitlines()[-1])


# ----------------------------------------------------------------------------- main pieces
def gen_unicode():
    cat_name(sre_c.CATEGORY_DIGIT)
    cat_name(sre_c.CATEGORY_SPACE)
    lines = ["import ProductMD.Model.Str", "/-! GENERATED by tools/translate.py – do not edit. Code-point ranges CPython's `re` uses",
             "for its character categories on this interpreter (surrogates excluded). -/", "namespace PM.Gen", ""]
    for cat, name in _CAT_NAMES.items():
        if cat in _CAT_CACHE:
            rs = _CAT_CACHE[cat]
            lines.append("def %s : List (Nat × Nat) :=\n  [%s]" % (name, ", ".join("(%d, %d)" % r for r in rs)))
            lines.append("")
    lines.append("end PM.Gen")
    return "\n".join(lines) + "\n", dict((n, _CAT_CACHE[c]) for c, n in _CAT_NAMES.items() if c in _CAT_CACHE)


def gen_regexes(mods):
    entries = discover_regexes(mods)
    out = ["import ProductMD.Model.Regex", "import ProductMD.Generated.Unicode",
           "/-! GENERATED by tools/translate.py – do not edit.  Every regular expression the library compiles or",
           "matches, as parsed by CPython's own `re._parser` (which factors common alternation prefixes). -/",
           "namespace PM.Gen", "open PM", ""]
    js = []
    names = []
    for e in entries:
        if e["pattern"] is None:
            term, groups, why = ".bad", {}, "pattern is not a constant and could not be resolved"
        else:
            term, groups, why = tr_pattern(e["pattern"], e["flags"])
        if e["kind"] not in ("match", "split"):
            term, why = ".bad", "unmodelled re.%s" % e["kind"]
        # no line number in the Lean text: a shifted line must not change the generated file (and force a rebuild)
        where_txt = re.sub(r"\.py:\d+", ".py", e["where"])
        out.append("/-- %s  `%s`%s -/" % (where_txt, (e["pattern"] or "?").replace("-/", "- /"), (" UNSUPPORTED: " + why) if why else ""))
        out.append("def %s : Re :=\n  %s" % (e["name"], term))
        if groups or (e["pattern"] and "(?P<" in e["pattern"]):
            out.append("def %s_groups : List (String × Nat) := [%s]" % (e["name"], ", ".join('("%s", %d)' % kv for kv in sorted(groups.items(), key=lambda kv: kv[1]))))
        out.append("")
        names.append(e["name"])
        js.append(dict(e, groups=groups, unsupported=why, lean=term))
    # lists (e.g. LABEL_RE_LIST)
    lists = {}
    for e in entries:
        if "list" in e:
            lists.setdefault("re_%s_%s" % (e["where"].split(".")[0], e["list"]), []).append(e["name"])
    for ln, members in sorted(lists.items()):
        out.append("def %s : List Re := [%s]" % (ln, ", ".join(members)))
        out.append("")
    out.append("/-- every pattern with its use kind (`match` / `split`) -/")
    out.append("def allPatterns : List (String × String × Re) :=\n  [%s]" % ",\n   ".join('("%s", "%s", %s)' % (e["name"], e["kind"], e["name"]) for e in entries))
    out.append("")
    out.append("/-- patterns handed to `re.match` / `pattern.match` -/")
    out.append("def matchPatterns : List (String × Re) :=\n  [%s]" % ",\n   ".join('("%s", %s)' % (e["name"], e["name"]) for e in entries if e["kind"] == "match"))
    out.append("")
    out.append("/-- patterns handed to any other `re` entry point (`split`, ...) -/")
    out.append("def otherPatterns : List (String × Re) :=\n  [%s]" % ",\n   ".join('("%s", %s)' % (e["name"], e["name"]) for e in entries if e["kind"] != "match"))
    out.append("")
    out.append("end PM.Gen")
    return "\n".join(out) + "\n", js


def gen_tables(mods):
    c, ci, im, rp, ti = mods["common"], mods["composeinfo"], mods["images"], mods["rpms"], mods["treeinfo"]
    t = {}
    t["RPM_ARCHES"] = list(c.RPM_ARCHES)
    t["RELEASE_TYPES"] = list(c.RELEASE_TYPES)
    t["COMPOSE_TYPES"] = list(ci.COMPOSE_TYPES)
    t["LABEL_NAMES"] = list(ci.LABEL_NAMES)
    t["VARIANT_TYPES"] = list(ci.VARIANT_TYPES)
    t["TREEINFO_VARIANT_TYPES"] = list(ti.VARIANT_TYPES)
    t["SUPPORTED_IMAGE_TYPES"] = list(im.SUPPORTED_IMAGE_TYPES)
    t["SUPPORTED_IMAGE_FORMATS"] = list(im.SUPPORTED_IMAGE_FORMATS)
    t["UNIQUE_IMAGE_ATTRIBUTES"] = list(im.UNIQUE_IMAGE_ATTRIBUTES)
    t["SUPPORTED_CATEGORIES"] = list(rp.SUPPORTED_CATEGORIES)
    obj = ci.ComposeInfo()
    v = ci.Variant(obj)
    t["COMPOSEINFO_PATH_FIELDS"] = list(v.paths._fields)
    tio = ti.TreeInfo(); tv = ti.Variant(tio)
    t["TREEINFO_PATH_FIELDS"] = list(tv.paths._fields)
    pairs = {}
    pairs["COMPOSE_TYPE_SUFFIXES"] = sorted(ci.COMPOSE_TYPE_SUFFIXES.items())       # decoder: suffix -> type
    enc = []
    for ct in ci.COMPOSE_TYPES:                                                      # encoder: type -> suffix
        comp = ci.Compose(obj); comp.type = ct
        try:
            enc.append((ct, comp.type_suffix))
        except Exception:
            enc.append((ct, "<raises>"))
    pairs["COMPOSE_TYPE_ENCODER"] = enc
    pairs["IMAGE_TYPE_FORMAT_MAPPING"] = None
    hdr = {}
    for mname, clsname in [("composeinfo", "ComposeInfo"), ("images", "Images"), ("rpms", "Rpms"), ("modules", "Modules"),
                           ("extra_files", "ExtraFiles"), ("treeinfo", "TreeInfo")]:
        o = getattr(mods[mname], clsname)()
        hdr[clsname] = o.header.metadata_type
    out = ["import ProductMD.Model.Str", "/-! GENERATED by tools/translate.py from the live module objects – do not edit. -/",
           "namespace PM.Gen", "open PM", ""]
    for k, v_ in t.items():
        out.append("def %s : List Str :=\n  %s\n" % (k, lstrlist(v_)))
    for k in ("COMPOSE_TYPE_SUFFIXES", "COMPOSE_TYPE_ENCODER"):
        out.append("def %s : List (Str × Str) :=\n  [%s]\n" % (k, ",\n   ".join("(%s, %s) /- %s -/" % (lstr(a), lstr(b), json.dumps([a, b])) for a, b in pairs[k])))
    out.append("def IMAGE_TYPE_FORMAT_MAPPING : List (Str × List Str) :=\n  [%s]\n" % ",\n   ".join(
        "(%s, [%s]) /- %s -/" % (lstr(k), ", ".join(lstr(f) for f in fs), k) for k, fs in sorted(im.IMAGE_TYPE_FORMAT_MAPPING.items())))
    out.append("def VERSION : Nat × Nat := (%d, %d)\n" % tuple(c.VERSION))
    for k, v_ in hdr.items():
        out.append("def HEADER_TYPE_%s : Str := %s /- %s -/\n" % (k, lstr(v_), v_))
    out.append("end PM.Gen")
    js = dict(t); js.update(dict((k, pairs[k]) for k in ("COMPOSE_TYPE_SUFFIXES", "COMPOSE_TYPE_ENCODER")))
    js["IMAGE_TYPE_FORMAT_MAPPING"] = dict(im.IMAGE_TYPE_FORMAT_MAPPING); js["VERSION"] = list(c.VERSION); js["HEADER_TYPES"] = hdr
    return "\n".join(out) + "\n", js


def write_if_changed(path, text):
    try:
        if open(path).read() == text:
            return False
    except IOError:
        pass
    tmp = path + ".tmp.%d" % os.getpid()
    with open(tmp, "w") as f:
        f.write(text)
    os.replace(tmp, path)
    return True


def main():
    os.makedirs(OUT, exist_ok=True)
    mods = import_repo()
    report = dict(repo=REPO, changed=[])
    uni_text, uni_js = gen_unicode()
    re_text, re_js = gen_regexes(mods)
    tab_text, tab_js = gen_tables(mods)
    files = [("Unicode.lean", uni_text), ("Regexes.lean", re_text), ("Tables.lean", tab_text)]
    extra_js = {}
    import glob, importlib
    sys.path.insert(0, HERE)
    for plug in sorted(glob.glob(os.path.join(HERE, "gen_*.py"))):
        modname = os.path.basename(plug)[:-3]
        for name, text, js in importlib.import_module(modname).generate(mods, REPO):
            files.append((name, text)); extra_js[name[:-5].lower()] = js
    # op table of the driver and root import file of the library (by directory listing, so that adding a file is enough)
    lean_dir = os.path.join(os.path.dirname(HERE), "lean")
    opsmods = sorted(os.path.basename(f)[:-5] for f in glob.glob(os.path.join(lean_dir, "ProductMD", "Driver", "Ops*.lean")))
    files.append(("AllOps.lean", "".join("import ProductMD.Driver.%s\n" % m_ for m_ in opsmods) + "import ProductMD.Driver.Proto\n"
                  "/-! GENERATED: concatenation of the op tables of every Driver/Ops*.lean -/\nnamespace PM.Gen\nopen Lean\n"
                  "def allOps : List (String × (Json → Json)) :=\n  " + " ++ ".join("PM.Driver.%s.ops" % m_ for m_ in opsmods) + "\nend PM.Gen\n"))
    roots = []
    for sub in ("Model", "Spec", "Proofs", "Properties", "Driver"):
        for f in sorted(glob.glob(os.path.join(lean_dir, "ProductMD", sub, "*.lean"))):
            roots.append("import ProductMD.%s.%s" % (sub, os.path.basename(f)[:-5]))
    gen_names = [n for n, _ in files]
    root_text = "-- GENERATED by tools/translate.py: imports every module of the library\n" + "\n".join(
        ["import ProductMD.Generated.%s" % n[:-5] for n in gen_names] + roots) + "\n"
    write_if_changed(os.path.join(lean_dir, "ProductMD.lean"), root_text)
    # dynamic ⊆ static
    dyn = dynamic_patterns()
    static = set(e["pattern"] for e in re_js if e["pattern"] is not None)
    missing = sorted(set(dyn) - static)
    report["dynamic_patterns"] = len(dyn)
    report["dynamic_not_static"] = missing
    for name, text in files:
        if write_if_changed(os.path.join(OUT, name), text):
            report["changed"].append(name)
    gen = dict(tables=tab_js, regexes=re_js, unicode=dict((k, len(v)) for k, v in uni_js.items()), report=report)
    gen.update(extra_js)
    write_if_changed(os.path.join(os.path.dirname(HERE), "lean", "generated.json"), json.dumps(gen, indent=1, sort_keys=True, default=str) + "\n")
    print(json.dumps(report))
    if missing:
        print("translator: patterns seen at run time but not found statically: %r" % missing, file=sys.stderr)
        return 3
    return 0


if __name__ == "__main__":
    sys.exit(main())
