#!/bin/bash
# usage: SCRATCH=<scratch checkout of productmd> tools/run_benign.sh   (needs /tmp/pmd_rel.json: file -> anchored properties, see docs/benign_refactors.md)
cd "$(dirname "$0")/.."   # run from a checkout of /verif; SCRATCH = a scratch checkout of the library (never /repo)
python3 - <<'PY'
import json
rel={}
for l in open('properties.jsonl'):
    p=json.loads(l)
    for f in p['anchors']['files']:
        rel.setdefault(f.split('/')[-1],[]).append(p['id'])
open('/tmp/pmd_rel.json','w').write(json.dumps(rel))
PY
for d in benign/*/; do
  n=$(basename $d)
  git -C ${SCRATCH:-/tmp/seedrun} checkout -q -- .
  if ! git -C ${SCRATCH:-/tmp/seedrun} apply "$PWD/$d/patch.diff" 2>/dev/null; then echo "$n patch-does-not-apply"; continue; fi
  files=$(git -C ${SCRATCH:-/tmp/seedrun} diff --name-only | tr '\n' ' ')
  props=$(python3 -c "
import json,sys
rel=json.load(open('/tmp/pmd_rel.json')); s=set()
for f in sys.argv[1:]: s|=set(rel.get(f.split('/')[-1],[]))
print(' '.join(sorted(s)))" $files)
  res=""
  for p in $props; do
    out=$(PRODUCTMD_REPO=${SCRATCH:-/tmp/seedrun} ./check $p 2>&1); rc=$?
    if [ $rc -ne 0 ]; then
      v=$(echo "$out" | grep '^VIOLATION' | head -1)
      if echo "$v" | grep -q no-failing-input-found; then res="$res $p:nfi"; else res="$res $p:REPLAY(rc=$rc)"; cp "$(echo "$v" | sed 's/.*replay=\([^ ]*\).*/\1/')" /tmp/pmd_benign_${n}_$p.json 2>/dev/null; fi
    fi
  done
  echo "$n [$files] checks: $props ->${res:- silent}"
  git -C ${SCRATCH:-/tmp/seedrun} checkout -q -- .
done
