#!/bin/bash
# usage: tools/run_all.sh [seed] [tier]   -> one line per check: id rc seconds summary
cd "$(dirname "$0")/.."
seed="${1:-0}"; tier="${2:-quick}"
for p in C01 C02 C03 C04 C05 C06 C07 C08 C09 C10 C11 C12 C13 C14 C15 C16 C17 C18 C19 C20; do
  t0=$(date +%s); out=$(VERIF_SEED=$seed ./check $p --tier $tier 2>&1); rc=$?; t1=$(date +%s)
  echo "$p rc=$rc $((t1-t0))s $(echo "$out" | grep -c '^VIOLATION') violations | $(echo "$out" | tail -1 | cut -c1-110)"
done
