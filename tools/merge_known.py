#!/usr/bin/env python3
"""Resolve a merge conflict in known_findings.json by the union of both sides' entries (key: property + id)."""
import json, subprocess, sys
ours = json.loads(subprocess.run(["git", "show", ":2:known_findings.json"], capture_output=True, text=True).stdout)
theirs = json.loads(subprocess.run(["git", "show", ":3:known_findings.json"], capture_output=True, text=True).stdout)
seen, out = set(), []
for e in ours + theirs:
    k = (e.get("property"), e.get("id"), e.get("status"))
    if k in seen:
        continue
    seen.add(k); out.append(e)
open("known_findings.json", "w").write("[\n" + ",\n".join(" " + json.dumps(e, ensure_ascii=False) for e in out) + "\n]\n")
print(len(out), "entries")
