"""Translator plugin: the ORDER OF EFFECTS of every `dump` method (property C18).

For every class of the library that defines its own `dump`, the body is read from the source AST as a script over

    validate | openW | getParser | serialize | buildFile | newBuf | buildMem | writeBuf | unlink | readBack | unknown

in statement order (the statements inside `with open_file_obj(f, "w") as f:` follow the `openW`).  Only the exact
idiom of the library is recognised:

    self.validate()                                   -> validate
    parser = self._get_parser()                       -> getParser
    self.serialize(parser[, name=name ...])           -> serialize
    with [productmd.common.]open_file_obj(f, "w") ..: -> openW, then the block
    self.build_file(parser, f)                        -> buildFile   (f = the opened destination)
    content = [six.|io.]StringIO()                    -> newBuf
    self.build_file(parser, content)                  -> buildMem    (the memory buffer)
    f.write(content.getvalue())                       -> writeBuf    (inside the with block)

Anything else is `unknown` (treated as fallible by the model); an unrecognised statement that contains a call of
something named `open*` is `openW, unknown` (it may truncate AND may fail afterwards); one that contains a call of
os.unlink / os.remove / os.rename / os.replace / shutil.* is `unlink, unknown` (the destination may be gone); one that
calls .load / .loads / .deserialize / .parse_file is `readBack` (fallible: the reader validates a second time).  The translation can therefore
only break the obligation `noFallibleAfterOpen`, never discharge it.

Output: Generated/Effects.lean (`Gen.dumpScript_<Class>`, `Gen.dumpScripts`, `Gen.dumpOwner`) and the same in JSON.
"""
import ast, inspect, os
import translate as T

FORMATS = [("composeinfo", "ComposeInfo"), ("images", "Images"), ("rpms", "Rpms"), ("modules", "Modules"),
           ("extra_files", "ExtraFiles"), ("treeinfo", "TreeInfo"), ("discinfo", "DiscInfo")]


def is_self_call(node, name):
    return (isinstance(node, ast.Call) and isinstance(node.func, ast.Attribute) and node.func.attr == name
            and isinstance(node.func.value, ast.Name) and node.func.value.id == "self")


def simple_names(args):
    return all(isinstance(a, ast.Name) for a in args)


def is_open_file_obj_w(call):
    """[productmd.common.]open_file_obj(<name>, "w")"""
    if not isinstance(call, ast.Call) or call.keywords or len(call.args) != 2:
        return False
    f = call.func
    ok_name = (isinstance(f, ast.Name) and f.id == "open_file_obj") or \
              (isinstance(f, ast.Attribute) and f.attr == "open_file_obj" and ast.unparse(f.value) in ("productmd.common", "common"))
    a0, a1 = call.args
    return bool(ok_name and isinstance(a0, ast.Name) and isinstance(a1, ast.Constant) and a1.value == "w")


DESTRUCTIVE = ("unlink", "remove", "rename", "renames", "replace", "rmtree", "move", "copy", "copy2", "copyfile", "copyfileobj", "truncate", "rmdir")


def mentions_open(node):
    for n in ast.walk(node):
        if isinstance(n, ast.Call):
            f = n.func
            nm = f.id if isinstance(f, ast.Name) else f.attr if isinstance(f, ast.Attribute) else ""
            if nm.startswith("open") or nm.endswith("open") or nm == "write":
                return True
    return False


def mentions_destructive(node):
    """a call of os.unlink / os.remove / os.rename / os.replace / shutil.* (or anything so named) anywhere in the statement"""
    for n in ast.walk(node):
        if isinstance(n, ast.Call):
            f = n.func
            nm = f.id if isinstance(f, ast.Name) else f.attr if isinstance(f, ast.Attribute) else ""
            owner = ast.unparse(f.value) if isinstance(f, ast.Attribute) else ""
            if (nm in DESTRUCTIVE and not (nm == "replace" and owner not in ("os", "shutil", "os.path"))) or owner == "shutil":
                return True
    return False


def mentions_readback(node):
    """a call of .load / .loads / .deserialize / .parse_file anywhere in the statement: the written data is read back"""
    for n in ast.walk(node):
        if isinstance(n, ast.Call) and isinstance(n.func, ast.Attribute) and n.func.attr in ("load", "loads", "deserialize", "parse_file"):
            return True
    return False


def tr_block(stmts, inside, out, state):
    for st in stmts:
        src = ast.unparse(st).split("\n")[0][:100]
        if isinstance(st, ast.Expr) and isinstance(st.value, ast.Constant) and isinstance(st.value.value, str):
            continue                                            # docstring
        if isinstance(st, ast.Pass):
            continue
        if isinstance(st, ast.Expr) and is_self_call(st.value, "validate") and not st.value.args and not st.value.keywords:
            out.append(dict(eff="validate", inside_with=inside, src=src)); continue
        if isinstance(st, ast.Assign) and len(st.targets) == 1 and isinstance(st.targets[0], ast.Name) \
                and is_self_call(st.value, "_get_parser") and not st.value.args and not st.value.keywords:
            state["parser"] = st.targets[0].id
            out.append(dict(eff="getParser", inside_with=inside, src=src)); continue
        if isinstance(st, ast.Expr) and is_self_call(st.value, "serialize") and len(st.value.args) == 1 \
                and isinstance(st.value.args[0], ast.Name) and st.value.args[0].id == state.get("parser") \
                and all(isinstance(k.value, ast.Name) and k.arg for k in st.value.keywords):
            out.append(dict(eff="serialize", inside_with=inside, src=src)); continue
        if isinstance(st, ast.Expr) and is_self_call(st.value, "build_file") and len(st.value.args) == 2 and not st.value.keywords \
                and simple_names(st.value.args) and st.value.args[0].id == state.get("parser") and st.value.args[1].id == state.get("file"):
            out.append(dict(eff="buildFile", inside_with=inside, src=src)); continue
        if isinstance(st, ast.Assign) and len(st.targets) == 1 and isinstance(st.targets[0], ast.Name) and isinstance(st.value, ast.Call) \
                and not st.value.args and not st.value.keywords and ast.unparse(st.value.func) in ("six.StringIO", "io.StringIO", "StringIO") \
                and st.targets[0].id not in (state.get("parser"), state.get("file")):
            state["buf"] = st.targets[0].id
            out.append(dict(eff="newBuf", inside_with=inside, src=src)); continue
        if isinstance(st, ast.Expr) and is_self_call(st.value, "build_file") and len(st.value.args) == 2 and not st.value.keywords \
                and simple_names(st.value.args) and st.value.args[0].id == state.get("parser") and state.get("buf") \
                and st.value.args[1].id == state.get("buf") and st.value.args[1].id != state.get("file"):
            out.append(dict(eff="buildMem", inside_with=inside, src=src)); continue
        if inside and isinstance(st, ast.Expr) and isinstance(st.value, ast.Call) and isinstance(st.value.func, ast.Attribute) \
                and st.value.func.attr == "write" and isinstance(st.value.func.value, ast.Name) and st.value.func.value.id == state.get("file") \
                and len(st.value.args) == 1 and not st.value.keywords and state.get("buf") \
                and ast.unparse(st.value.args[0]) == "%s.getvalue()" % state["buf"]:
            out.append(dict(eff="writeBuf", inside_with=inside, src=src)); continue
        if isinstance(st, ast.With) and len(st.items) == 1 and is_open_file_obj_w(st.items[0].context_expr) \
                and isinstance(st.items[0].optional_vars, ast.Name) and not inside:
            state["file"] = st.items[0].optional_vars.id
            out.append(dict(eff="openW", inside_with=False, src=src))
            tr_block(st.body, True, out, state)
            state["file"] = None
            continue
        if mentions_destructive(st):
            out.append(dict(eff="unlink", inside_with=inside, src=src, why="unrecognised statement that may remove/rename/replace the destination"))
        if mentions_open(st):
            out.append(dict(eff="openW", inside_with=inside, src=src, why="unrecognised statement that may open/alter a file"))
        if mentions_readback(st):
            out.append(dict(eff="readBack", inside_with=inside, src=src, why="reads the written data back (second validation pass, by the reader)"))
        else:
            out.append(dict(eff="unknown", inside_with=inside, src=src, why="outside the dump idiom"))


def script_of(fn):
    out, state = [], {"parser": None, "file": None, "buf": None}
    tr_block(fn.body, False, out, state)
    return out


def generate(mods, repo):
    scripts = []                     # (module, class, [effect dicts])
    for mname in T.MODULES:
        path = os.path.join(repo, "productmd", mname + ".py")
        tree = ast.parse(open(path).read(), path)
        for node in tree.body:
            if isinstance(node, ast.ClassDef):
                for it in node.body:
                    if isinstance(it, ast.FunctionDef) and it.name == "dump":
                        scripts.append((mname, node.name, script_of(it)))
    owners = []
    for mname, cname in FORMATS:
        cls = getattr(mods[mname], cname)
        owner = [k for k in cls.__mro__ if "dump" in vars(k)][0]
        owners.append(("%s.%s" % (mname, cname), "%s.%s" % (owner.__module__.split(".")[-1], owner.__name__)))
    out = ["import ProductMD.Model.Dump",
           "/-! GENERATED by tools/gen_effects.py from the current source – do not edit.",
           "The order of effects of every `dump` method, read from the AST (statement order; the block of",
           "`with open_file_obj(f, \"w\")` follows `openW`).  Unrecognised statements are `.unknown`. -/",
           "namespace PM.Gen", "open PM", ""]
    names = []
    clsnames = [c for _, c, _ in scripts]
    for mname, cname, sc in scripts:
        dn = "dumpScript_%s" % cname if clsnames.count(cname) == 1 else "dumpScript_%s_%s" % (mname, cname)
        out.append("/-- %s.%s.dump:\n%s -/" % (mname, cname, "\n".join("  %-10s %s%s" % (e["eff"], "| " if e["inside_with"] else "", e["src"].replace("-/", "- /")) for e in sc)))
        out.append("def %s : List Eff :=\n  [%s]\n" % (dn, ", ".join("." + e["eff"] for e in sc)))
        names.append(("%s.%s" % (mname, cname), dn))
    out.append("/-- every `dump` method defined in the library -/")
    out.append("def dumpScripts : List (String × List Eff) :=\n  [%s]\n" % ",\n   ".join('("%s", %s)' % p for p in names))
    out.append("/-- which `dump` each of the seven format classes runs (method resolution order of the live classes) -/")
    out.append("def dumpOwner : List (String × String) :=\n  [%s]\n" % ",\n   ".join('("%s", "%s")' % p for p in owners))
    out.append("end PM.Gen")
    js = {"scripts": dict(("%s.%s" % (m, c), sc) for m, c, sc in scripts), "lean_names": dict(names), "owners": dict(owners)}
    return [("Effects.lean", "\n".join(out) + "\n", js)]
