#!/usr/bin/env python3
"""Print the size paragraph of DESIGN.md from the tree (Lean lines, theorems per property from the evidence files, fixes, findings, seeds)."""
import glob, json, os, subprocess
ROOT = os.path.dirname(os.path.dirname(os.path.abspath(__file__)))
def lines(pat):
    return sum(sum(1 for _ in open(f, errors="replace")) for f in glob.glob(os.path.join(ROOT, pat), recursive=True))
model = lines("lean/ProductMD/Model/*.lean") + lines("lean/ProductMD/Driver/*.lean") + lines("lean/ProductMD/Spec/*.lean")
proofs = lines("lean/ProductMD/Proofs/*.lean") + lines("lean/ProductMD/Properties/*.lean")
gen = lines("lean/ProductMD/Generated/*.lean")
th = {}
for f in sorted(glob.glob(os.path.join(ROOT, "evidence", "C*.json"))):
    e = json.load(open(f)); th[e["property_id"]] = len(e["coverage"].get("theorems", []))
py = lines("harness/**/*.py") + lines("tools/*.py")
k = json.load(open(os.path.join(ROOT, "known_findings.json")))
fixes = subprocess.run(["git", "-C", os.environ.get("PRODUCTMD_REPO", "/repo"), "log", "--oneline", "--grep", "^fix:"], capture_output=True, text=True).stdout.count("\n")
print("Lean: %d lines (%d model/driver/spec, %d proofs+properties, %d generated); %d property theorems (%s); python %d lines; %d fix commits; %d known, %d fixed findings; %d seeded; %d benign" % (
    model + proofs + gen, model, proofs, gen, sum(th.values()), ", ".join("%s %d" % kv for kv in sorted(th.items())), py, fixes,
    sum(1 for e in k if e["status"] == "known"), sum(1 for e in k if e["status"] == "fixed"),
    len([d for d in os.listdir(os.path.join(ROOT, "seeded"))]), len(glob.glob(os.path.join(ROOT, "benign", "*.diff")) or os.listdir(os.path.join(ROOT, "benign")))))
