#!/usr/bin/env python3
"""Re-verify the changes produced by the independent seeding sub-agents and keep the confirmed ones under seeded/<id>/.
For each /tmp/seed/<grp>.out/<PROP>-<x>/: in a scratch worktree (never /repo): patch applies; the library's own suite
still passes (90); demo.py exits 1 with the change and 0 without. Writes meta.json."""
import glob, json, os, shutil, subprocess, sys
ROOT = os.path.dirname(os.path.dirname(os.path.abspath(__file__)))
WT = "/tmp/seedrun"


def sh(cmd, **kw):
    return subprocess.run(cmd, capture_output=True, text=True, **kw)


def main():
    rows = []
    for d in sorted(x for x in glob.glob("/tmp/seed/*.out/C*-*") if os.path.isdir(x)):
        grp = os.path.basename(os.path.dirname(d)).split(".")[0]
        name = os.path.basename(d)
        prop = name.split("-")[0]
        sid = "%s-%s%s" % (prop, grp, name.split("-")[1])
        dst = os.path.join(ROOT, "seeded", sid)
        if os.path.exists(os.path.join(dst, "meta.json")):
            continue
        patch, demo = os.path.join(d, "patch.diff"), os.path.join(d, "demo.py")
        if not (os.path.exists(patch) and os.path.exists(demo)):
            rows.append((sid, "incomplete")); continue
        assert sh(["git", "-C", WT, "status", "--porcelain", "--untracked-files=no"]).stdout.strip() == ""
        clean = sh(["/venv/bin/python", demo, WT], timeout=600).returncode
        ap = sh(["git", "-C", WT, "apply", patch])
        if ap.returncode != 0:
            rows.append((sid, "patch does not apply")); continue
        try:
            t = sh(["/venv/bin/python", "-m", "pytest", "-q", "-p", "no:cacheprovider"], cwd=WT, timeout=900)
            last = [l for l in t.stdout.strip().splitlines() if l.strip()][-1]
            mut = sh(["/venv/bin/python", demo, WT], timeout=600)
        finally:
            sh(["git", "-C", WT, "checkout", "--", "."])
        ok = ("90 passed" in last) and mut.returncode == 1 and clean == 0
        rows.append((sid, "confirmed" if ok else "REJECTED: suite=%r demo(clean)=%d demo(changed)=%d" % (last, clean, mut.returncode)))
        if ok:
            os.makedirs(dst, exist_ok=True)
            shutil.copy(patch, dst); shutil.copy(demo, dst)
            notes = open(os.path.join(d, "notes.md")).read() if os.path.exists(os.path.join(d, "notes.md")) else ""
            open(os.path.join(dst, "notes.md"), "w").write(notes)
            json.dump({"property": prop, "origin": "independent sub-agent given only the property text and a scratch worktree (group %s)" % grp,
                       "needs": " ".join(notes.split())[:600],
                       "ran": "scratch worktree: git apply patch.diff; pytest -> %s; demo.py exits 1 with the change (%s) and 0 without" % (
                           last, (mut.stdout.strip().splitlines() or [""])[-1][:200])},
                      open(os.path.join(dst, "meta.json"), "w"), indent=1)
    for r in rows:
        print("%-14s %s" % r)


if __name__ == "__main__":
    main()
