"""Translator plugin: the CALL STRUCTURE of the (de)serialisers.

For every MetadataBase subclass and each of its methods `serialize`, `deserialize`, `deserialize_*`, `add`, `dump`,
`dumps`, `load`, `loads` that the class defines itself (an inherited method is listed once, under its owner): the sequence of EVENTS of the body in source order,

    validate  what = receiver ("self", "variant", ...)           `x.validate()`
    call      what = "self.header.serialize" / "self.add" / ...  nested serialize/deserialize/deserialize_*/add/
                                                                  set_current_version/_add_1_1/load/dump/parse_file/build_file
    return    early `return` (a trailing `return <name>` of the body is not an event)
    raise     `raise X(..)`  (what = exception class)
    pure      an assignment whose right-hand side cannot fail or have an effect (name, constant, empty literal)
    other     anything else (assignments from subscripts, parser.set(..), arithmetic ...) -- may fail, has no validate

each with the list of GUARDS it sits under, outermost first:

    if:<attr path>          `if self.release.is_layered:`            (truthiness of an attribute path)
    ifnot:<attr path>       `if not self.images:`
    ifeq:<attr path>=<lit>  `if self.type == "layered-product":`
    gate:<name>             `if <x>.version_tuple <op> (a, b):`  name as in Generated/Gates.lean (tools/gen_gates.py)
    notgate:<name>          the `else` branch of such an `if`
    for:<iterable source>   loop body
    else:<...>              else branch of a recognised guard
    unknown:<source>        anything else (conservative: the hand-written model never treats it as true)

Conservative: the consumers (lean/ProductMD/Model/Structure.lean) only ever conclude "validate() IS called here,
unconditionally, before/after ..." from an exact match; an unrecognised shape can only break an obligation.
"""
import ast, inspect, sys
import translate as T

METHODS = ("serialize", "deserialize", "add", "dump", "dumps", "load", "loads", "_add_1_1")
NESTED = ("serialize", "deserialize", "add", "set_current_version", "_add_1_1", "load", "dump", "parse_file", "build_file", "_get_parser")


def attr_path(node):
    """self.a.b -> 'self.a.b' ; name -> 'name'"""
    parts = []
    while isinstance(node, ast.Attribute):
        parts.append(node.attr); node = node.value
    if isinstance(node, ast.Name):
        parts.append(node.id)
        return ".".join(reversed(parts))
    return None


def is_pure_expr(e):
    if isinstance(e, (ast.Name, ast.Constant)):
        return True
    if isinstance(e, (ast.Dict, ast.List, ast.Tuple, ast.Set)):
        elts = (list(e.keys) + list(e.values)) if isinstance(e, ast.Dict) else list(e.elts)
        return all(x is not None and is_pure_expr(x) for x in elts)
    return False


class Walker(object):
    def __init__(self, modname, clsname, meth):
        self.mod, self.cls, self.meth = modname, clsname, meth
        self.events = []
        self.gate_k = 0

    def guard_of(self, test):
        """-> (guard for body, guard for orelse)"""
        def gates_in(t):
            return [n for n in ast.walk(t) if isinstance(n, ast.Compare) and any(
                isinstance(s, ast.Attribute) and s.attr == "version_tuple" for s in [n.left] + list(n.comparators))]
        gs = gates_in(test)
        if gs:
            names = []
            for _ in gs:
                names.append("gate_%s_%s_%s_%d" % (self.mod, self.owner, self.meth, self.gate_k)); self.gate_k += 1
            if len(gs) == 1 and gs[0] is test:
                return "gate:" + names[0], "notgate:" + names[0]
            return "unknown:" + ast.unparse(test), "unknown:not(" + ast.unparse(test) + ")"
        p = attr_path(test)
        if p is not None:
            return "if:" + p, "ifnot:" + p
        if isinstance(test, ast.UnaryOp) and isinstance(test.op, ast.Not):
            p = attr_path(test.operand)
            if p is not None:
                return "ifnot:" + p, "if:" + p
        if isinstance(test, ast.Compare) and len(test.ops) == 1 and isinstance(test.ops[0], ast.Eq):
            p = attr_path(test.left)
            c = test.comparators[0]
            if p is not None and isinstance(c, ast.Constant) and isinstance(c.value, str):
                return "ifeq:%s=%s" % (p, c.value), "ifne:%s=%s" % (p, c.value)
        src = ast.unparse(test)
        return "unknown:" + src, "unknown:not(" + src + ")"

    def ev(self, kind, what, guards):
        self.events.append({"kind": kind, "what": what, "guards": list(guards)})

    def calls_in(self, node):
        """validate / nested calls inside an expression or simple statement, in evaluation (source) order"""
        out = []
        for n in ast.walk(node):
            if isinstance(n, ast.Call) and isinstance(n.func, ast.Attribute):
                recv = attr_path(n.func.value)
                if n.func.attr == "validate" and recv is not None and not n.args:
                    out.append((n.lineno, n.col_offset, "validate", recv))
                elif (n.func.attr in NESTED or n.func.attr.startswith("deserialize_")) and recv is not None:
                    out.append((n.lineno, n.col_offset, "call", recv + "." + n.func.attr))
                elif (n.func.attr in NESTED) and recv is None:
                    out.append((n.lineno, n.col_offset, "call", "?." + n.func.attr))
        out.sort()
        return [(k, w) for _, _, k, w in out]

    def stmts(self, body, guards, top=False):
        for i, st in enumerate(body):
            if isinstance(st, ast.Expr) and isinstance(st.value, ast.Constant) and isinstance(st.value.value, str):
                continue
            if isinstance(st, ast.If):
                # version gates inside the test are numbered before the body (source order, as gen_gates.py does)
                g_then, g_else = self.guard_of(st.test)
                inner = self.calls_in(st.test)
                for k, w in inner:
                    self.ev(k, w, guards)
                self.stmts(st.body, guards + [g_then])
                if st.orelse:
                    self.stmts(st.orelse, guards + [g_else])
                continue
            if isinstance(st, (ast.For, ast.While)):
                src = ast.unparse(st.iter) if isinstance(st, ast.For) else ast.unparse(st.test)
                for k, w in self.calls_in(st.iter if isinstance(st, ast.For) else st.test):
                    self.ev(k, w, guards)
                self.stmts(st.body, guards + ["for:" + src])
                if st.orelse:
                    self.stmts(st.orelse, guards + ["unknown:loop-else"])
                continue
            if isinstance(st, ast.With):
                for it in st.items:
                    for k, w in self.calls_in(it.context_expr):
                        self.ev(k, w, guards)
                    if not self.calls_in(it.context_expr):
                        self.ev("other", "with", guards)
                self.stmts(st.body, guards)
                continue
            if isinstance(st, ast.Try):
                self.ev("other", "try", guards)
                # the body of a `try` runs like straight-line code PROVIDED no handler can swallow an exception:
                # every handler must end in a bare `raise` (try/finally has no handlers). Otherwise a validate() inside
                # it no longer enforces anything, and the body stays guarded by `unknown:try`.
                reraises = all(h.body and isinstance(h.body[-1], ast.Raise) and h.body[-1].exc is None for h in st.handlers)
                self.stmts(st.body, guards if reraises else guards + ["unknown:try"])
                for h in st.handlers:
                    self.stmts(h.body, guards + ["unknown:except"])
                self.stmts(st.orelse, guards + ["unknown:try-else"])
                self.stmts(st.finalbody, guards + ["unknown:finally"])
                continue
            if isinstance(st, ast.Return):
                if st.value is not None:
                    for k, w in self.calls_in(st.value):
                        self.ev(k, w, guards)
                if top and i == len(body) - 1 and not guards:
                    continue                      # trailing return of the method body
                self.ev("return", "", guards)
                continue
            if isinstance(st, ast.Raise):
                name = ""
                if isinstance(st.exc, ast.Call) and isinstance(st.exc.func, ast.Name):
                    name = st.exc.func.id
                elif isinstance(st.exc, ast.Name):
                    name = st.exc.id
                self.ev("raise", name, guards)
                continue
            if isinstance(st, ast.Pass):
                continue
            inner = self.calls_in(st)
            if inner:
                # a statement that is exactly one recognised call: no other effect; otherwise flag the rest as `other` first
                exact = isinstance(st, ast.Expr) and isinstance(st.value, ast.Call) and len(inner) == 1 and \
                    all(is_pure_expr(a) or attr_path(a) is not None or isinstance(a, ast.Subscript) for a in st.value.args)
                if not exact:
                    self.ev("other", type(st).__name__, guards)
                for k, w in inner:
                    self.ev(k, w, guards)
                continue
            if isinstance(st, ast.Assign) and is_pure_expr(st.value) and all(isinstance(t, ast.Name) for t in st.targets):
                self.ev("pure", "", guards)
                continue
            self.ev("other", type(st).__name__, guards)


def find_method(cls, name):
    for k in cls.__mro__:
        if name in vars(k) and inspect.isfunction(vars(k)[name]):
            src = inspect.getsource(sys.modules[k.__module__])
            for node in ast.walk(ast.parse(src)):
                if isinstance(node, ast.ClassDef) and node.name == k.__name__:
                    for it in node.body:
                        if isinstance(it, ast.FunctionDef) and it.name == name:
                            return k, it
    return None, None


def lq(s):
    return '"' + s.replace("\\", "\\\\").replace('"', '\\"').replace("\n", " ") + '"'


def generate(mods, repo):
    import productmd.common as C
    classes = []
    for mname, module in mods.items():
        for cname, cls in sorted(vars(module).items()):
            if inspect.isclass(cls) and issubclass(cls, C.MetadataBase) and cls.__module__ == module.__name__:
                classes.append((mname, cname, cls))
    out = ["import ProductMD.Model.Structure",
           "/-! GENERATED by tools/gen_structure.py from the current source – do not edit.",
           "Per class and (de)serialiser method: the events of the body in source order (validate calls, nested calls,",
           "early returns, raises, other statements), each with the guards it sits under. -/",
           "namespace PM.Gen", "open PM", ""]
    js, names = {}, []
    for mname, cname, cls in classes:
        # only methods the class defines itself; an inherited method is listed once, under its owner
        meths = [m for m in vars(cls) if m in METHODS or m.startswith("deserialize_")]
        for m in sorted(meths):
            owner, fn = find_method(cls, m)
            if fn is None:
                continue
            omod = owner.__module__.split(".")[-1]
            w = Walker(omod, cname, m)
            w.owner = owner.__name__
            try:
                w.stmts(fn.body, [], top=True)
                events = w.events
                if fn.body and isinstance(fn.body[-1], ast.Raise) and len(fn.body) <= 2:
                    events = [{"kind": "raise", "what": "NotImplementedError", "guards": []}] if "NotImplemented" in ast.unparse(fn.body[-1]) else events
            except Exception as e:   # noqa: conservative
                events = [{"kind": "other", "what": "translator: %s" % type(e).__name__, "guards": ["unknown:translator"]}]
            key = "%s.%s.%s" % (mname, cname, m)
            dn = "struct_%s_%s_%s" % (mname, cname, m)
            body = ",\n   ".join("{ kind := %s, what := %s, guards := [%s] }" % (lq(e["kind"]), lq(e["what"]), ", ".join(lq(g) for g in e["guards"]))
                                 for e in events)
            out.append("/-- %s (defined in %s.%s) -/" % (key, omod, owner.__name__))
            out.append("def %s : List SEvent :=\n  [%s]\n" % (dn, body))
            js[key] = {"owner": "%s.%s" % (omod, owner.__name__), "events": events}
            names.append((key, dn))
    out.append("def allStructure : List (String × List SEvent) :=\n  [%s]\n" % ",\n   ".join('("%s", %s)' % p for p in names))
    out.append("end PM.Gen")
    return [("Structure.lean", "\n".join(out) + "\n", js)]
