#!/usr/bin/env python3
"""Apply each kept seeded change (seeded/<id>/patch.diff) to a checkout of the library, run its demonstration and the
checks of the property it breaks, undo it, and write docs/seeded_results.md.

  tools/run_seeded.py [--repo DIR] [--tier quick] [id ...]

Default --repo is /repo itself (patch applied with `git apply`, undone with `git checkout -- .` straight afterwards).
With another checkout (a scratch worktree) the checks run with PRODUCTMD_REPO pointing at it."""
import argparse, glob, json, os, subprocess, sys, time
ROOT = os.path.dirname(os.path.dirname(os.path.abspath(__file__)))


def sh(cmd, **kw):
    return subprocess.run(cmd, capture_output=True, text=True, **kw)


def main():
    ap = argparse.ArgumentParser()
    ap.add_argument("--repo", default="/repo")
    ap.add_argument("--tier", default="quick")
    ap.add_argument("--props", default=None, help="comma list: run these checks instead of meta.json's property")
    ap.add_argument("ids", nargs="*")
    a = ap.parse_args()
    ids = a.ids or sorted(os.path.basename(d) for d in glob.glob(os.path.join(ROOT, "seeded", "*")) if os.path.isdir(d))
    rows = []
    for sid in ids:
        d = os.path.join(ROOT, "seeded", sid)
        meta = json.load(open(os.path.join(d, "meta.json"))) if os.path.exists(os.path.join(d, "meta.json")) else {}
        props = a.props.split(",") if a.props else meta.get("properties") or [meta.get("property")]
        st = sh(["git", "-C", a.repo, "status", "--porcelain", "--untracked-files=no"])
        assert st.stdout.strip() == "", "checkout %s is not clean" % a.repo
        r = sh(["git", "-C", a.repo, "apply", os.path.join(d, "patch.diff")])
        if r.returncode != 0:
            rows.append((sid, props, "patch does not apply: " + r.stderr.strip()[:100], "", "")); continue
        try:
            demo = ""
            if os.path.exists(os.path.join(d, "demo.py")):
                dr = sh(["/venv/bin/python", os.path.join(d, "demo.py"), a.repo], timeout=300)
                demo = "demo exit %d" % dr.returncode
            for p in props:
                if not p or not os.path.exists(os.path.join(ROOT, "harness", "props", p.lower() + ".py")):
                    rows.append((sid, p, demo, "no check", "")); continue
                t0 = time.time()
                env = dict(os.environ, PRODUCTMD_REPO=a.repo)
                cr = sh([os.path.join(ROOT, "check"), p, "--tier", a.tier], env=env, cwd=ROOT, timeout=3600)
                vio = [l for l in cr.stdout.splitlines() if l.startswith("VIOLATION")]
                verdict = "MISSED" if cr.returncode == 0 else ("infra rc=%d" % cr.returncode if cr.returncode != 1 else
                          "check crashed (rc=1 without a VIOLATION line): " + (cr.stderr.strip().splitlines() or ["?"])[-1][:120] if not vio else
                          ("caught (no-failing-input-found)" if vio and all("no-failing-input-found" in v for v in vio) else "caught with replay"))
                rows.append((sid, p, demo, verdict, "%s (%.0fs)" % (vio[0] if vio else "", time.time() - t0)))
        finally:
            sh(["git", "-C", a.repo, "checkout", "--", "."])
    # evidence files were rewritten by the runs on changed trees: restore them from the unchanged tree
    touched = sorted(set(r[1] for r in rows if isinstance(r[1], str) and os.path.exists(os.path.join(ROOT, "harness", "props", r[1].lower() + ".py"))))
    for p in touched:
        cr = sh([os.path.join(ROOT, "check"), p, "--tier", "quick"], cwd=ROOT, timeout=3600)
        if cr.returncode != 0:
            print("WARNING: clean run of %s exits %d" % (p, cr.returncode))
    out = ["| seeded change | property | demonstration | check verdict | first line |", "|---|---|---|---|---|"]
    for r in rows:
        out.append("| %s | %s | %s | %s | %s |" % r)
    text = "\n".join(out) + "\n"
    print(text)
    if not a.ids:
        open(os.path.join(ROOT, "docs", "seeded_results.md"), "w").write(text)
    return 0


if __name__ == "__main__":
    sys.exit(main())
