"""Translator plugin: the data of the compose-directory resolver (property C20), read from the AST of compose.py.

* per cached property of `Compose` (info / images / rpms / modules): the candidate file names in the order of the
  `paths = [...]` literal, the loader class handed to `_load_metadata`, and whether the body has exactly the caching
  shape `if self._x is not None: return self._x; paths = [..]; self._x = self._load_metadata(paths, cls); return self._x`
  (anything else: `cached = false`);
* the exception classes `_load_metadata` wraps into `RuntimeError('<path> can not be deserialized ..')`: the class tuple
  of its `except` clause (empty when the handler is not exactly a `raise RuntimeError(<format> % (path, ..))`);
* the three probe names of `__init__`: the preferred sub-directory, the file that must exist in it, the name looked
  for in scanned sub-directories (empty when the statements are not recognised).
"""
import ast, os
import translate as T
import alpha


def const_strs(node):
    if isinstance(node, ast.List) and all(isinstance(e, ast.Constant) and isinstance(e.value, str) for e in node.elts):
        return [e.value for e in node.elts]
    return None


def prop_info(fn):
    body = [s for s in fn.body if not (isinstance(s, ast.Expr) and isinstance(s.value, ast.Constant))]
    paths, cls, cached, attr = None, None, False, None
    for st in body:
        if isinstance(st, ast.Assign) and len(st.targets) == 1 and isinstance(st.targets[0], ast.Name) and st.targets[0].id == "paths":
            paths = const_strs(st.value)
    calls = [n for n in ast.walk(fn) if isinstance(n, ast.Call) and isinstance(n.func, ast.Attribute) and n.func.attr == "_load_metadata"]
    if len(calls) == 1 and len(calls[0].args) == 2:
        cls = ast.unparse(calls[0].args[1])
    # exact caching shape
    try:
        s0, s1, s2, s3 = body
        a = ast.unparse(s0.test.left)
        ok = (isinstance(s0, ast.If) and isinstance(s0.test, ast.Compare) and isinstance(s0.test.ops[0], ast.IsNot)
              and isinstance(s0.test.comparators[0], ast.Constant) and s0.test.comparators[0].value is None
              and a.startswith("self._") and len(s0.body) == 1 and isinstance(s0.body[0], ast.Return) and ast.unparse(s0.body[0].value) == a and not s0.orelse
              and isinstance(s1, ast.Assign) and ast.unparse(s1.targets[0]) == "paths"
              and isinstance(s2, ast.Assign) and ast.unparse(s2.targets[0]) == a and s2.value is calls[0]
              and isinstance(s3, ast.Return) and ast.unparse(s3.value) == a)
        if ok:
            cached, attr = True, a
    except Exception:
        cached = False
    return paths, cls, cached, attr


def init_info(fn):
    """-> (subdir, probe, scan_name)"""
    sub = probe = scan = ""
    for n in ast.walk(fn):
        if isinstance(n, ast.Assign) and ast.unparse(n.targets[0]) == "path" and isinstance(n.value, ast.Call) \
                and ast.unparse(n.value.func) == "os.path.join" and len(n.value.args) == 2 and ast.unparse(n.value.args[0]) == "compose_path" \
                and isinstance(n.value.args[1], ast.Constant):
            sub = n.value.args[1].value
        if isinstance(n, ast.If) and isinstance(n.test, ast.Call) and ast.unparse(n.test.func) == "_file_exists" and len(n.test.args) == 1:
            arg = n.test.args[0]
            if isinstance(arg, ast.Call) and ast.unparse(arg.func) == "os.path.join" and len(arg.args) == 2 and ast.unparse(arg.args[0]) == "path" \
                    and isinstance(arg.args[1], ast.Constant) and not probe:
                probe = arg.args[1].value
        if isinstance(n, ast.Assign) and ast.unparse(n.targets[0]) == "metadata_path" and isinstance(n.value, ast.Call) \
                and len(n.value.args) == 2 and isinstance(n.value.args[1], ast.Constant):
            scan = n.value.args[1].value
    return sub, probe, scan


def wrapped_classes(fn):
    """class names of `except (A, B, ..) as exc: raise RuntimeError('%s ..' % (path, exc))` around `obj.load(path)`"""
    if fn is None:
        return []
    tries = [n for n in ast.walk(fn) if isinstance(n, ast.Try)]
    if len(tries) != 1 or len(tries[0].handlers) != 1:
        return []
    t, h = tries[0], tries[0].handlers[0]
    if not (len(t.body) == 1 and isinstance(t.body[0], ast.Expr) and ast.unparse(t.body[0].value) == "obj.load(path)" and not t.orelse and not t.finalbody):
        return []
    body = [b for b in h.body if not isinstance(b, ast.Pass)]
    if not (len(body) == 1 and isinstance(body[0], ast.Raise) and isinstance(body[0].exc, ast.Call) and ast.unparse(body[0].exc.func) == "RuntimeError"
            and len(body[0].exc.args) == 1 and isinstance(body[0].exc.args[0], ast.BinOp) and isinstance(body[0].exc.args[0].op, ast.Mod)
            and isinstance(body[0].exc.args[0].left, ast.Constant) and str(body[0].exc.args[0].left.value).startswith("%s ")
            and isinstance(body[0].exc.args[0].right, ast.Tuple) and ast.unparse(body[0].exc.args[0].right.elts[0]) == "path"):
        return []
    ty = h.type
    elts = ty.elts if isinstance(ty, ast.Tuple) else [ty] if ty is not None else []
    names = []
    for e in elts:
        if not isinstance(e, ast.Name):
            return []
        names.append(e.id)
    return names


LIKE_LOCALS = {"__init__": ["path", "i", "metadata_path"], "_find_metadata_file": ["i", "path"], "_load_metadata": ["path", "obj"]}


def generate(mods, repo):
    path = os.path.join(repo, "productmd", "compose.py")
    tree = ast.parse(open(path).read(), path)
    props, init, wrapped = [], ("", "", ""), []
    for node in tree.body:
        if isinstance(node, ast.ClassDef) and node.name == "Compose":
            for it in node.body:
                if isinstance(it, ast.FunctionDef):
                    # renamed locals are read as the names the recognisers below were written for (tools/alpha.py)
                    like = LIKE_LOCALS.get(it.name, ["paths"] if any(isinstance(d, ast.Name) and d.id == "property" for d in it.decorator_list) else None)
                    if like is not None:
                        it = alpha.canon_locals(it, like)
                if isinstance(it, ast.FunctionDef) and it.name == "__init__":
                    init = init_info(it)
                if isinstance(it, ast.FunctionDef) and it.name == "_load_metadata":
                    wrapped = wrapped_classes(it)
                if isinstance(it, ast.FunctionDef) and any(isinstance(d, ast.Name) and d.id == "property" for d in it.decorator_list):
                    paths, cls, cached, attr = prop_info(it)
                    if paths is not None or cls is not None:
                        props.append(dict(name=it.name, paths=paths or [], cls=cls or "", cached=cached, attr=attr))
    b = lambda x: "true" if x else "false"
    out = ["import ProductMD.Model.Str",
           "/-! GENERATED by tools/gen_composepaths.py from the AST of productmd/compose.py – do not edit. -/",
           "namespace PM.Gen", "open PM", "",
           "/-- per accessor: candidate file names in the order tried, loader class, caching shape recognised -/",
           "def composeAccessors : List (String × List Str × String × Bool) :=\n  [%s]" % ",\n   ".join(
               '("%s", [%s], "%s", %s)' % (p["name"], ", ".join("%s /- %s -/" % (T.lstr(x), x) for x in p["paths"]), p["cls"], b(p["cached"])) for p in props), "",
           "/-- `os.path.join(compose_path, ..)`: the preferred sub-directory -/", "def composeSubdir : Str := %s" % T.lstr(init[0]),
           "/-- the file whose presence selects it -/", "def composeProbe : Str := %s" % T.lstr(init[1]),
           "/-- the name looked for in every scanned sub-directory -/", "def composeScanName : Str := %s" % T.lstr(init[2]), "",
           "/-- exception classes `_load_metadata` turns into `RuntimeError('<path> can not be deserialized ..')` -/",
           "def composeWrapped : List String := [%s]" % ", ".join('"%s"' % n for n in wrapped), "",
           "end PM.Gen"]
    js = dict(accessors=props, subdir=init[0], probe=init[1], scan=init[2], wrapped=wrapped)
    return [("ComposePaths.lean", "\n".join(out) + "\n", js)]
