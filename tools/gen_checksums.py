"""Translator plugin: the constants of the checksum code (property C16), read from the source AST of treeinfo.py.

* `checksumChunkSize`  – the argument of `fo.read(...)` inside `compute_checksum` (evaluated; 0 if not found),
                         `checksumLoops` – whether that read sits inside a `while True:` loop that breaks on an empty chunk;
* `legacyDigestTypes`  – the `len(value) == N` -> `"type"` chain of `Checksums.deserialize` for bare digests;
* `legacyElseRaises`   – whether that chain ends in `else: raise ValueError(...)` (the F3 fix);
* `legacyHexGuard`, `legacyHexDigits` – whether the bare branch begins with
                         `if not all(c in <digits> for c in value): raise ValueError(...)` (the F36 fix) and the characters of
                         `<digits>` (`string.hexdigits` and friends evaluated from the running interpreter's `string` module, or a
                         string literal).  The bare branch must be exactly [guard,] chain: any other statement in it makes the whole
                         chain unrecognised ([] / false);
* `addRefusesAbsolute`, `addNormalises` – `Checksums.add` begins with the absolute-path refusal and `os.path.normpath`.

Anything not recognised yields 0 / [] / false, which can only break an obligation of Properties/C16.lean.
"""
import ast, os
import translate as T


def find_func(tree, cls, name):
    for node in tree.body:
        if cls is None and isinstance(node, ast.FunctionDef) and node.name == name:
            return node
        if isinstance(node, ast.ClassDef) and node.name == cls:
            for it in node.body:
                if isinstance(it, ast.FunctionDef) and it.name == name:
                    return it
    return None


def chunk_info(fn):
    size, loops = 0, False
    if fn is None:
        return size, loops
    for node in ast.walk(fn):
        if isinstance(node, ast.While) and isinstance(node.test, ast.Constant) and node.test.value is True:
            reads = [n for n in ast.walk(node) if isinstance(n, ast.Call) and isinstance(n.func, ast.Attribute) and n.func.attr == "read"]
            brk = [n for n in ast.walk(node) if isinstance(n, ast.If) and isinstance(n.test, ast.UnaryOp) and isinstance(n.test.op, ast.Not)
                   and any(isinstance(b, ast.Break) for b in n.body)]
            upd = [n for n in node.body if isinstance(n, ast.Expr) and isinstance(n.value, ast.Call) and isinstance(n.value.func, ast.Attribute) and n.value.func.attr == "update"]
            if len(reads) == 1 and brk and upd:
                loops = True
    reads = [n for n in ast.walk(fn) if isinstance(n, ast.Call) and isinstance(n.func, ast.Attribute) and n.func.attr == "read"]
    if len(reads) == 1 and len(reads[0].args) == 1:
        try:
            v = eval(compile(ast.Expression(reads[0].args[0]), "<chunk>", "eval"), {"__builtins__": {}})
            if isinstance(v, int) and v > 0:
                size = v
        except Exception:
            size = 0
    return size, loops


def hex_guard(st):
    """`if not all(c in <digits> for c in value): raise ValueError(...)` -> the digit characters, else None"""
    import string
    if not (isinstance(st, ast.If) and not st.orelse and len(st.body) == 1 and isinstance(st.body[0], ast.Raise)):
        return None
    exc = st.body[0].exc
    if not (isinstance(exc, ast.Call) and isinstance(exc.func, ast.Name) and exc.func.id == "ValueError"):
        return None
    t = st.test
    if not (isinstance(t, ast.UnaryOp) and isinstance(t.op, ast.Not) and isinstance(t.operand, ast.Call) and isinstance(t.operand.func, ast.Name)
            and t.operand.func.id == "all" and len(t.operand.args) == 1 and not t.operand.keywords and isinstance(t.operand.args[0], ast.GeneratorExp)):
        return None
    g = t.operand.args[0]
    if not (len(g.generators) == 1 and not g.generators[0].ifs and not g.generators[0].is_async and isinstance(g.generators[0].target, ast.Name)
            and isinstance(g.generators[0].iter, ast.Name) and g.generators[0].iter.id == "value"):
        return None
    var = g.generators[0].target.id
    e = g.elt
    if not (isinstance(e, ast.Compare) and len(e.ops) == 1 and isinstance(e.ops[0], ast.In) and isinstance(e.left, ast.Name) and e.left.id == var):
        return None
    d = e.comparators[0]
    if isinstance(d, ast.Constant) and isinstance(d.value, str):
        return d.value
    if isinstance(d, ast.Attribute) and isinstance(d.value, ast.Name) and d.value.id == "string" and isinstance(getattr(string, d.attr, None), str):
        return getattr(string, d.attr)             # evaluated from the interpreter the library runs under
    return None


def legacy_chain(fn):
    """-> ([(length, type)], else_raises, hex digits of the guard or None)"""
    if fn is None:
        return [], False, None
    for node in ast.walk(fn):
        if isinstance(node, ast.If) and isinstance(node.test, ast.Compare) and len(node.test.ops) == 1 and isinstance(node.test.ops[0], ast.NotIn) \
                and isinstance(node.test.left, ast.Constant) and node.test.left.value == ":":
            digits, body = None, list(node.body)
            if len(body) == 2:
                digits = hex_guard(body[0])
                if digits is None:
                    return [], False, None
                body = body[1:]
            chain, cur, else_raises = [], body[0] if len(body) == 1 else None, False
            while isinstance(cur, ast.If):
                t = cur.test
                ok = (isinstance(t, ast.Compare) and len(t.ops) == 1 and isinstance(t.ops[0], ast.Eq) and isinstance(t.left, ast.Call)
                      and isinstance(t.left.func, ast.Name) and t.left.func.id == "len" and isinstance(t.comparators[0], ast.Constant)
                      and isinstance(t.comparators[0].value, int))
                body_ok = (len(cur.body) == 1 and isinstance(cur.body[0], ast.Assign) and isinstance(cur.body[0].value, ast.Tuple)
                           and len(cur.body[0].value.elts) == 2 and isinstance(cur.body[0].value.elts[0], ast.Constant)
                           and isinstance(cur.body[0].value.elts[0].value, str) and isinstance(cur.body[0].value.elts[1], ast.Name)
                           and cur.body[0].value.elts[1].id == "value")
                if not (ok and body_ok):
                    return [], False, None
                chain.append((t.comparators[0].value, cur.body[0].value.elts[0].value))
                if len(cur.orelse) == 1 and isinstance(cur.orelse[0], ast.If):
                    cur = cur.orelse[0]
                else:
                    if len(cur.orelse) == 1 and isinstance(cur.orelse[0], ast.Raise):
                        exc = cur.orelse[0].exc
                        else_raises = isinstance(exc, ast.Call) and isinstance(exc.func, ast.Name) and exc.func.id == "ValueError"
                    elif cur.orelse:
                        return [], False, None
                    cur = None
            return chain, else_raises, digits
    return [], False, None


def add_info(fn):
    refuses = normalises = False
    if fn is None:
        return refuses, normalises
    body = [s for s in fn.body if not (isinstance(s, ast.Expr) and isinstance(s.value, ast.Constant))]
    if body and isinstance(body[0], ast.If) and ast.unparse(body[0].test) in ("relative_path.startswith('/')",) \
            and len(body[0].body) == 1 and isinstance(body[0].body[0], ast.Raise) and "ValueError" in ast.unparse(body[0].body[0]):
        refuses = True
    if len(body) > 1 and ast.unparse(body[1]) == "relative_path = os.path.normpath(relative_path)":
        normalises = True
    return refuses, normalises


def generate(mods, repo):
    path = os.path.join(repo, "productmd", "treeinfo.py")
    tree = ast.parse(open(path).read(), path)
    size, loops = chunk_info(find_func(tree, None, "compute_checksum"))
    chain, else_raises, digits = legacy_chain(find_func(tree, "Checksums", "deserialize"))
    refuses, normalises = add_info(find_func(tree, "Checksums", "add"))
    b = lambda x: "true" if x else "false"
    out = ["import ProductMD.Model.Str",
           "/-! GENERATED by tools/gen_checksums.py from the AST of productmd/treeinfo.py – do not edit. -/",
           "namespace PM.Gen", "open PM", "",
           "/-- argument of `fo.read(..)` in compute_checksum -/", "def checksumChunkSize : Nat := %d" % size, "",
           "/-- the read sits in `while True:` with `if not chunk: break` and `checksum.update(chunk)` -/", "def checksumLoops : Bool := %s" % b(loops), "",
           "/-- bare (legacy) digests: `len(value) == n` -> type -/",
           "def legacyDigestTypes : List (Nat × Str) :=\n  [%s]" % ", ".join("(%d, %s)" % (n, T.lstr(t)) for n, t in chain), "",
           "/-- the chain ends in `else: raise ValueError` -/", "def legacyElseRaises : Bool := %s" % b(else_raises), "",
           "/-- the bare branch begins with `if not all(c in <digits> for c in value): raise ValueError` -/",
           "def legacyHexGuard : Bool := %s" % b(digits is not None),
           "/-- `<digits>` (`string.hexdigits` of the running interpreter) -/",
           "def legacyHexDigits : Str := %s" % T.lstr(digits or ""), "",
           "def addRefusesAbsolute : Bool := %s" % b(refuses), "def addNormalises : Bool := %s" % b(normalises), "",
           "end PM.Gen"]
    js = dict(chunk_size=size, loops=loops, legacy=chain, else_raises=else_raises, hex_guard=digits is not None, hex_digits=digits or "", add_refuses_absolute=refuses, add_normalises=normalises)
    return [("Checksums.lean", "\n".join(out) + "\n", js)]
