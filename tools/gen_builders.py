"""Translator plugin: what the manifest-builder model (Model/Builders.lean) reads from the source.

* the STATEMENTS of `Rpms.add`, `Modules.add`, `ExtraFiles.add` in source order, each classified against the kinds of
  lean/ProductMD/Model/BuilderScript.lean (`if <test>: raise <Class>` refusals by their test and exception class,
  messages ignored; the binding / normalising statements; the block of `setdefault` calls and the final store, which
  must be the tail of the method verbatim).  Anything else is `unknown`.  The model interprets the list, so removing,
  adding or reordering a refusal changes the model;
* the literal arch lists in `Rpms.add`: `if arch in [...]` and `nevra_dict["arch"] in (...)`.

(The version gates the model needs come from tools/gen_gates.py.)  A list that is not found is emitted empty, an
unrecognised statement as `unknown`: the `decide`d obligations in Proofs/Builders.lean / Properties/C12.lean then stop
compiling (conservative)."""
import ast, copy, inspect, textwrap
import translate as T
import alpha

INSERT = {
    "rpms": ["arches = self.rpms.setdefault(variant, {})", "srpms = arches.setdefault(arch, {})",
             "rpms = srpms.setdefault(srpm_nevra, {})", "rpms[nevra] = {'sigkey': sigkey, 'path': path, 'category': category}"],
    "modules": ["arches = self.modules.setdefault(variant, {})", "uids = arches.setdefault(arch, {})",
                "metadata = uids.setdefault(uid, {})",
                "metadata['metadata'] = {'uid': uid, 'name': name, 'stream': stream, 'version': version, 'context': context, 'koji_tag': koji_tag}",
                "metadata.setdefault('modulemd_path', {})[category] = modulemd_path",
                "metadata.setdefault('rpms', []).extend(list(rpms))"],
    "extra": ["metadata = self.extra_files.setdefault(variant, {}).setdefault(arch, [])",
              "metadata.append({'file': path, 'size': size, 'checksums': checksums})"],
}
# `if <test>: raise <Class>` by unparsed test and class
REFUSALS = {
    ("arch not in productmd.common.RPM_ARCHES", "ValueError"): "archTable",
    ("arch not in RPM_ARCHES", "ValueError"): "archTable",
    ("category not in SUPPORTED_CATEGORIES", "ValueError"): "category",
    ("not path", "ValueError"): "emptyPath",
    ("path.startswith('/')", "ValueError"): "absolutePath",
    ("not variant", "ValueError"): "emptyVariant",
    ("category == 'source' and srpm_nevra is not None", "ValueError"): "sourceWithSrpm",
    ("category != 'source' and srpm_nevra is None", "ValueError"): "binaryWithoutSrpm",
    ("modulemd_path.startswith('/')", "ValueError"): "absoluteMdPath",
    ("not koji_tag", "ValueError"): "kojiTag",
    ("not isinstance(rpms, (list, tuple))", "ValueError"): "rpmsType",
    ("not isinstance(checksums, dict)", "TypeError"): "checksumsType",
}
EXACT = {
    "nevra, nevra_dict = self._check_nevra(nevra)": "nevra",
    "if sigkey is not None:\n    sigkey = sigkey.lower()": "sigkeyLower",
    "if sigkey is not None:\n    if not isinstance(sigkey, six.string_types):\n        raise TypeError\n    sigkey = sigkey.lower()": "sigkeyTyped",
    "if srpm_nevra:\n    srpm_nevra, _ = self._check_nevra(srpm_nevra)\nelse:\n    srpm_nevra = nevra": "srpmCanon",
    "uid, uid_dict = self._check_uid(uid)": "uid",
    "name = uid_dict['module_name']": "assign", "stream = uid_dict['stream']": "assign",
    "version = uid_dict['version']": "assign", "context = uid_dict['context']": "assign",
    "for param_name, param in {'variant': variant, 'koji_tag': koji_tag, 'modulemd_path': modulemd_path}.items():\n"
    "    if not param:\n        raise ValueError": "paramsLoop",
}


# local variables of each recognised method, in order of first binding, as they stood when the expected texts below were
# written: a method whose locals were merely RENAMED is read as if it still used these names (tools/alpha.py)
LIKE_LOCALS = {
    ("Rpms", "add"): ["nevra_dict", "_", "arches", "srpms", "rpms"],
    ("Rpms", "deserialize_0_3"): ["payload", "variant", "arch", "srpm_nevra", "rpms", "srpm_data", "rpm_nevra", "rpm_data", "category"],
    ("Rpms", "_check_nevra"): ["nevra_dict"],
    ("Modules", "add"): ["uid_dict", "name", "stream", "version", "context", "param_name", "param", "arches", "uids", "metadata"],
    ("Modules", "_check_uid"): ["uid_dict"],
    ("ExtraFiles", "add"): ["metadata"],
    ("ExtraFiles", "dump_for_tree"): ["metadata", "item"],
}


def method_ast(cls, name):
    try:
        fn = ast.parse(textwrap.dedent(inspect.getsource(getattr(cls, name)))).body[0]
    except Exception:
        return None
    like = LIKE_LOCALS.get((cls.__name__, name))
    return alpha.canon_locals(fn, like) if like is not None else fn


def str_list(node):
    if isinstance(node, (ast.List, ast.Tuple)) and node.elts and all(isinstance(e, ast.Constant) and isinstance(e.value, str) for e in node.elts):
        return [e.value for e in node.elts]
    return None


def strip_raise_args(node):
    """`raise C(<message>)` -> `raise C`: messages do not matter"""
    class Tr(ast.NodeTransformer):
        def visit_Raise(self, n):
            if isinstance(n.exc, ast.Call) and isinstance(n.exc.func, ast.Name):
                return ast.Raise(exc=ast.Name(id=n.exc.func.id, ctx=ast.Load()), cause=None)
            return n
    return ast.fix_missing_locations(Tr().visit(copy.deepcopy(node)))


def raise_class(body):
    if len(body) == 1 and isinstance(body[0], ast.Raise) and body[0].cause is None:
        e = body[0].exc
        if isinstance(e, ast.Call) and isinstance(e.func, ast.Name):
            return e.func.id
        if isinstance(e, ast.Name):
            return e.id
    return None


def classify(st, lists):
    if isinstance(st, ast.If) and not st.orelse:
        cls = raise_class(st.body)
        if cls is not None:
            t = st.test
            key = (ast.unparse(t), cls)
            if key in REFUSALS:
                return REFUSALS[key]
            if cls == "ValueError" and isinstance(t, ast.Compare) and len(t.ops) == 1:
                # if arch in [<literals>]
                if isinstance(t.ops[0], ast.In) and isinstance(t.left, ast.Name) and t.left.id == "arch":
                    lst = str_list(t.comparators[0])
                    if lst is not None:
                        lists.setdefault("src", []).append(lst)
                        return "srcArch"
                # if (category == 'source') != (nevra_dict['arch'] in (<literals>))
                if isinstance(t.ops[0], ast.NotEq) and ast.unparse(t.left) == "category == 'source'":
                    r = t.comparators[0]
                    if isinstance(r, ast.Compare) and len(r.ops) == 1 and isinstance(r.ops[0], ast.In) \
                            and ast.unparse(r.left) == "nevra_dict['arch']":
                        lst = str_list(r.comparators[0])
                        if lst is not None:
                            lists.setdefault("nevra", []).append(lst)
                            return "categoryArch"
            return "unknown"
    text = ast.unparse(strip_raise_args(st))
    return EXACT.get(text, "unknown")


def script_of(fn, which, lists):
    """-> [(kind, first source line)]"""
    if fn is None:
        return [("unknown", "<method not found>")]
    body = list(fn.body)
    if body and isinstance(body[0], ast.Expr) and isinstance(body[0].value, ast.Constant) and isinstance(body[0].value.value, str):
        body = body[1:]                                                    # docstring
    out = []
    i = 0
    while i < len(body):
        if [ast.unparse(s) for s in body[i:]] == INSERT[which]:
            out.append(("insert", ast.unparse(body[i]) + "  … (%d statements)" % len(INSERT[which])))
            break
        out.append((classify(body[i], lists), ast.unparse(body[i]).splitlines()[0]))
        i += 1
    return out


TREE_HEAD = ["metadata = {'header': {'version': '1.0'}, 'data': []}", "for item in self.extra_files[variant][arch]:",
             "json.dump(metadata, output, sort_keys=True, indent=4, separators=(',', ': '))"]
TREE_BODY = {
    "copy": ["metadata['data'].append({'file': _relative_to(item['file'], basepath), 'size': item['size'], 'checksums': item['checksums']})"],
    "inPlace": ["item['file'] = _relative_to(item['file'], basepath)", "metadata['data'].append(item)"],
}


def tree_mode(fn):
    """shape of `ExtraFiles.dump_for_tree`: the statements around the loop must be the pinned ones, the loop body decides"""
    if fn is None:
        return "unknown"
    body = list(fn.body)
    if body and isinstance(body[0], ast.Expr) and isinstance(body[0].value, ast.Constant) and isinstance(body[0].value.value, str):
        body = body[1:]
    if len(body) != 3 or not isinstance(body[1], ast.For) or body[1].orelse:
        return "unknown"
    head = [ast.unparse(body[0]), ast.unparse(body[1]).splitlines()[0], ast.unparse(body[2])]
    if head != TREE_HEAD:
        return "unknown"
    loop = [ast.unparse(st) for st in body[1].body]
    for mode, text in TREE_BODY.items():
        if loop == text:
            return mode
    return "unknown"


LOADERS = {
    "rpms": [("Rpms", "deserialize", ["self.header.deserialize(data)",
                                      "if self.header.version_tuple <= (0, 3):\n    self.deserialize_0_3(data)\nelse:\n    self.deserialize_1_0(data)",
                                      "self.validate()", "self.header.set_current_version()"]),
             ("Rpms", "deserialize_1_0", ["self.compose.deserialize(data['payload'])", "self.rpms = data['payload']['rpms']"])],
    "modules": [("Modules", "deserialize", ["self.header.deserialize(data)", "self.compose.deserialize(data['payload'])",
                                            "self.modules = data['payload']['modules']", "self.validate()"])],
    "extra_files": [("ExtraFiles", "deserialize", ["self.header.deserialize(data)", "self.compose.deserialize(data['payload'])",
                                                   "self.extra_files = data['payload']['extra_files']", "self.validate()"])],
}


def load_mode(mods, which):
    """`replace` iff the reader's statements are the pinned ones (payload table assigned verbatim); the comparison of the
    version gate's operator/bound is left to tools/gen_gates.py, so it is normalised away here"""
    import re as _re
    for cls, meth, want in LOADERS[which]:
        fn = method_ast(getattr(mods[which], cls), meth)
        if fn is None:
            return "unknown"
        body = list(fn.body)
        if body and isinstance(body[0], ast.Expr) and isinstance(body[0].value, ast.Constant) and isinstance(body[0].value.value, str):
            body = body[1:]
        norm = lambda t: _re.sub(r"version_tuple (<=|<|>=|>|==|!=) \(\d+, \d+\)", "version_tuple <gate>", t)
        if [norm(ast.unparse(st)) for st in body] != [norm(t) for t in want]:
            return "unknown"
    return "replace"


def generate(mods, repo):
    lists = {}
    scripts = {
        "rpms_add_script": script_of(method_ast(mods["rpms"].Rpms, "add"), "rpms", lists),
        "modules_add_script": script_of(method_ast(mods["modules"].Modules, "add"), "modules", lists),
        "extra_add_script": script_of(method_ast(mods["extra_files"].ExtraFiles, "add"), "extra", lists),
    }
    compose_arches = lists["src"][0] if len(lists.get("src", [])) == 1 else []
    nevra_arches = lists["nevra"][0] if len(lists.get("nevra", [])) == 1 else []
    out = ["import ProductMD.Model.Str", "import ProductMD.Model.BuilderScript",
           "/-! GENERATED by tools/gen_builders.py from the current source – do not edit. -/",
           "namespace PM.Gen", "open PM", "",
           "/-- rpms.py `Rpms.add`: `if arch in [...]` – source arches refused as compose arch -/",
           "def RPMS_ADD_SOURCE_ARCHES : List Str := [%s]" % ", ".join(T.lstr(x) for x in compose_arches), "",
           "/-- rpms.py `Rpms.add`: `nevra_dict[\"arch\"] in (...)` – the arches of a source RPM -/",
           "def RPMS_ADD_NEVRA_SOURCE_ARCHES : List Str := [%s]" % ", ".join(T.lstr(x) for x in nevra_arches), ""]
    for name in ("rpms_add_script", "modules_add_script", "extra_add_script"):
        sc = scripts[name]
        out.append("/-- the statements of `%s`, in source order:\n" % {"rpms_add_script": "Rpms.add", "modules_add_script": "Modules.add",
                                                                      "extra_add_script": "ExtraFiles.add"}[name])
        out += ["    %-18s -- %s" % (k, s.replace("-/", "- /")) for k, s in sc]
        out.append("-/")
        out.append("def %s : List BStep :=\n  [%s]\n" % (name, ", ".join("." + k for k, _ in sc)))
    mode = tree_mode(method_ast(mods["extra_files"].ExtraFiles, "dump_for_tree"))
    out.append("/-- the loop body of `ExtraFiles.dump_for_tree` (a fresh dict per entry, or the stored record rewritten in place) -/")
    out.append("def dump_for_tree_mode : TreeMode := .%s\n" % mode)
    loads = dict((k, load_mode(mods, k)) for k in ("rpms", "modules", "extra_files"))
    for k in ("rpms", "modules", "extra_files"):
        out.append("/-- what `%s` does with the payload table -/" % ", ".join("%s.%s" % (c, m_) for c, m_, _ in LOADERS[k]))
        out.append("def load_mode_%s : LoadMode := .%s\n" % (k, loads[k]))
    out.append("end PM.Gen")
    js = {"load_modes": loads, "dump_for_tree_mode": mode, "rpms_add_source_arches": compose_arches, "rpms_add_nevra_source_arches": nevra_arches,
          "scripts": dict((k, [x[0] for x in v]) for k, v in scripts.items())}
    return [("BuilderFacts.lean", "\n".join(out) + "\n", js)]
