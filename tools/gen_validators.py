"""Translator plugin: the validator inventory.

For every MetadataBase subclass: exactly the set of methods `validate()` will run (names starting `_validate`,
sorted), each translated from the restricted idiom into a `List Rule` (lean/ProductMD/Model/Rules.lean).
A body outside the idiom becomes `Rule.custom "<Class>.<method>"` and must be bound by hand in
lean/ProductMD/Model/Customs.lean (checked by a `decide`d theorem), so the translation can only lose
precision towards "unproved", never towards "proved"."""
import ast, inspect, os, sys, json
import translate as T

PYTYPES = {"str": "str", "int": "int", "bool": "bool", "dict": "dict", "list": "list", "float": "float", "NoneType": "none"}


class NotIdiom(Exception):
    pass


def self_attr(node):
    """self.<name> -> name"""
    if isinstance(node, ast.Attribute) and isinstance(node.value, ast.Name) and node.value.id == "self":
        return node.attr
    return None


def const_str(node):
    if isinstance(node, ast.Constant) and isinstance(node.value, str):
        return node.value
    raise NotIdiom("expected string constant")


def tr_cond(node, ns):
    a = self_attr(node)
    if a is not None:
        return ".truthy %s" % T.lstr(a), {"k": "truthy", "f": a}
    if isinstance(node, ast.Compare) and len(node.ops) == 1:
        l, op, r = node.left, node.ops[0], node.comparators[0]
        if isinstance(op, ast.IsNot) and self_attr(l) and isinstance(r, ast.Constant) and r.value is None:
            return ".notNone %s" % T.lstr(self_attr(l)), {"k": "notNone", "f": self_attr(l)}
        if isinstance(op, ast.In) and isinstance(l, ast.Constant) and isinstance(l.value, str) and len(l.value) == 1 and self_attr(r):
            return ".contains %s %s" % (T.lstr(self_attr(r)), T.lstr(l.value)), {"k": "contains", "f": self_attr(r), "c": l.value}
    if isinstance(node, ast.UnaryOp) and isinstance(node.op, ast.Not):
        t, j = tr_cond(node.operand, ns)
        return ".not (%s)" % t, {"k": "not", "c": j}
    if isinstance(node, ast.BoolOp) and isinstance(node.op, ast.And) and len(node.values) == 2:
        t1, j1 = tr_cond(node.values[0], ns)
        t2, j2 = tr_cond(node.values[1], ns)
        return ".and (%s) (%s)" % (t1, t2), {"k": "and", "a": j1, "b": j2}
    if isinstance(node, ast.Call):
        f = node.func
        if isinstance(f, ast.Attribute) and isinstance(f.value, ast.Name) and f.value.id == "re" and f.attr == "match" \
                and len(node.args) == 2 and self_attr(node.args[1]):
            pat = const_str(node.args[0])
            term, _, why = T.tr_pattern(pat)
            return ".reMatch %s %s" % (term, T.lstr(self_attr(node.args[1]))), {"k": "reMatch", "p": pat, "f": self_attr(node.args[1])}
        if isinstance(f, ast.Attribute) and f.attr == "startswith" and self_attr(f.value) and len(node.args) == 1:
            pre = const_str(node.args[0])
            return ".startsWith %s %s" % (T.lstr(self_attr(f.value)), T.lstr(pre)), {"k": "startsWith", "f": self_attr(f.value), "pre": pre}
    raise NotIdiom("condition")


def eval_in(node, ns):
    return eval(compile(ast.Expression(node), "<validator>", "eval"), ns)


def tr_stmt(st, ns):
    """-> list of (lean term, json)"""
    if isinstance(st, ast.Expr) and isinstance(st.value, ast.Constant) and isinstance(st.value.value, str):
        return []                                                   # docstring
    if isinstance(st, ast.Pass):
        return []
    if isinstance(st, ast.Expr) and isinstance(st.value, ast.Call):
        call = st.value
        f = call.func
        if isinstance(f, ast.Attribute) and isinstance(f.value, ast.Name) and f.value.id == "self" and not call.keywords:
            if f.attr == "_assert_type" and len(call.args) == 2:
                field = const_str(call.args[0])
                types = eval_in(call.args[1], ns)
                names = []
                for t in types:
                    if getattr(t, "__name__", None) not in PYTYPES:
                        raise NotIdiom("type %r" % (t,))
                    names.append(PYTYPES[t.__name__])
                return [(".type %s [%s]" % (T.lstr(field), ", ".join("." + n for n in names)), {"k": "type", "f": field, "types": names})]
            if f.attr == "_assert_value" and len(call.args) == 2:
                field = const_str(call.args[0])
                table = list(eval_in(call.args[1], ns))
                if not all(isinstance(x, str) for x in table):
                    raise NotIdiom("value table")
                return [(".value %s [%s]" % (T.lstr(field), ", ".join(T.lstr(x) for x in table)), {"k": "value", "f": field, "table": table})]
            if f.attr == "_assert_not_blank" and len(call.args) == 1:
                field = const_str(call.args[0])
                return [(".notBlank %s" % T.lstr(field), {"k": "notBlank", "f": field})]
            if f.attr == "_assert_matches_re" and len(call.args) == 2:
                field = const_str(call.args[0])
                pats = eval_in(call.args[1], ns)
                terms, strs = [], []
                for p in pats:
                    ps, fl = (p.pattern, p.flags & ~T.re.UNICODE) if isinstance(p, T.re.Pattern) else (p, 0)
                    term, _, why = T.tr_pattern(ps, fl)
                    terms.append(term); strs.append(ps)
                return [(".re %s [%s]" % (T.lstr(field), ", ".join(terms)), {"k": "re", "f": field, "patterns": strs})]
        raise NotIdiom("call")
    if isinstance(st, ast.If) and not st.orelse:
        # `if c: raise ValueError(..)`
        if len(st.body) == 1 and isinstance(st.body[0], ast.Raise):
            exc = st.body[0].exc
            name = exc.func.id if isinstance(exc, ast.Call) and isinstance(exc.func, ast.Name) else None
            if name != "ValueError":
                raise NotIdiom("raise %s" % name)
            t, j = tr_cond(st.test, ns)
            return [(".failIf (%s)" % t, {"k": "failIf", "c": j})]
        t, j = tr_cond(st.test, ns)
        out = []
        for b in st.body:
            for (rt, rj) in tr_stmt(b, ns):
                out.append((".guarded (%s) (%s)" % (t, rt), {"k": "guarded", "c": j, "r": rj}))
        return out
    raise NotIdiom(type(st).__name__)


def harmless_tail(st):
    """`if <attribute == literal>: return` as the LAST statement: no effect whatever the test says"""
    if isinstance(st, ast.If) and not st.orelse and all(isinstance(b, (ast.Return, ast.Pass)) and getattr(b, "value", None) is None for b in st.body):
        t = st.test
        if isinstance(t, ast.Compare) and self_attr(t.left) and len(t.ops) == 1 and isinstance(t.ops[0], (ast.Eq, ast.NotEq)):
            try:
                ast.literal_eval(t.comparators[0])
                return True
            except Exception:
                return False
    return False


def method_ast(cls, name):
    for k in cls.__mro__:
        if name in vars(k):
            src = inspect.getsource(sys.modules[k.__module__])
            tree = ast.parse(src)
            for node in ast.walk(tree):
                if isinstance(node, ast.ClassDef) and node.name == k.__name__:
                    for it in node.body:
                        if isinstance(it, ast.FunctionDef) and it.name == name:
                            return k, it
    return None, None


def generate(mods, repo):
    import productmd.common as C
    classes = []
    for mname, module in mods.items():
        for cname, cls in sorted(vars(module).items()):
            if inspect.isclass(cls) and issubclass(cls, C.MetadataBase) and cls.__module__ == module.__name__:
                classes.append((mname, cname, cls))
    out = ["import ProductMD.Model.Rules", "import ProductMD.Generated.Unicode",
           "/-! GENERATED by tools/gen_validators.py from the current source – do not edit.",
           "Per class: exactly the `_validate*` methods `MetadataBase.validate()` runs, in its (sorted) order. -/",
           "namespace PM.Gen", "open PM", ""]
    js, customs, allnames = {}, [], []
    for mname, cname, cls in classes:
        names = sorted(n for n in dir(cls) if n.startswith("_validate") and callable(getattr(cls, n)))
        meths, jm = [], []
        for n in names:
            owner, fn = method_ast(cls, n)
            ns = dict(vars(sys.modules[owner.__module__]))
            body = list(fn.body)
            if body and harmless_tail(body[-1]):
                body = body[:-1]
            extra_args = len(fn.args.args) > 1 or fn.args.vararg or fn.args.kwarg
            omod = owner.__module__.split(".")[-1]
            try:
                if extra_args:
                    raise NotIdiom("method takes arguments")
                rules = []
                for st in body:
                    try:
                        rules.extend(tr_stmt(st, ns))
                    except NotIdiom:
                        # a plain call statement outside the idiom (e.g. `verify_label(self.label)`) has no effect on
                        # control flow: it becomes a statement-level custom rule; anything else makes the method custom
                        if isinstance(st, ast.Expr) and isinstance(st.value, ast.Call):
                            cn = "%s.%s.%s:%s" % (omod, owner.__name__, n, ast.unparse(st.value))
                            customs.append(cn)
                            rules.append(('.custom %s /- %s -/' % (T.lstr(cn), cn), {"k": "custom", "name": cn, "why": "call outside the idiom"}))
                        else:
                            raise
                meths.append('("%s", [%s])' % (n, ",\n      ".join(t for t, _ in rules)))
                jm.append({"method": n, "defined_in": owner.__name__, "rules": [j for _, j in rules]})
            except (NotIdiom, Exception) as e:   # noqa: conservative – anything unexpected is `custom`
                cn = "%s.%s.%s" % (omod, owner.__name__, n)
                customs.append(cn)
                meths.append('("%s", [.custom %s /- %s -/])' % (n, T.lstr(cn), cn))
                jm.append({"method": n, "defined_in": owner.__name__, "rules": [{"k": "custom", "name": cn, "why": str(e)}]})
        dn = "rules_%s_%s" % (mname, cname)
        out.append("def %s : MethodRules :=\n  [%s]\n" % (dn, ",\n   ".join(meths)))
        js["%s.%s" % (mname, cname)] = jm
        allnames.append(("%s.%s" % (mname, cname), dn))
    out.append("def allClasses : List (String × MethodRules) :=\n  [%s]\n" % ",\n   ".join('("%s", %s)' % p for p in allnames))
    cu = sorted(set(customs))
    out.append("def customNames : List Str :=\n  [%s]\n" % ",\n   ".join("%s /- %s -/" % (T.lstr(c), c) for c in cu))
    out.append("end PM.Gen")
    return [("Validators.lean", "\n".join(out) + "\n", {"classes": js, "customs": cu})]
