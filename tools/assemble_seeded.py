#!/usr/bin/env python3
"""Assemble docs/seeded_results.md from run_seeded.py logs: tools/assemble_seeded.py <log> [<log> ...]
Keeps the FIRST verdict recorded in the existing file (or, for new ids, from --first logs) next to the verdict of these runs."""
import os, re, sys
ROOT = os.path.dirname(os.path.dirname(os.path.abspath(__file__)))
OUT = os.path.join(ROOT, "docs", "seeded_results.md")


def rows_of(path):
    out = {}
    for l in open(path, errors="replace"):
        if l.startswith("| ") and not l.startswith("| seeded change") and not l.startswith("|---"):
            c = [x.strip() for x in l.strip().strip("|").split("|")]
            if len(c) >= 5:
                out[(c[0], c[1])] = c
    return out


def main():
    args = sys.argv[1:]
    first_logs = []
    while "--first" in args:
        i = args.index("--first"); first_logs.append(args[i + 1]); del args[i:i + 2]
    first = {}
    if os.path.exists(OUT):
        for k, c in rows_of(OUT).items():
            if len(c) >= 6:
                first[k] = c[3]
    for p in first_logs:
        for k, c in rows_of(p).items():
            first.setdefault(k, c[3])
    now = {}
    for p in args:
        now.update(rows_of(p))
    for k, c in now.items():
        first.setdefault(k, c[3])
    head = ["# Seeded code changes and what the checks say", "",
            "Each row: a code change kept under `seeded/<id>/` (independent sub-agent seeds: `<PROP>-s..` round 1, `-r..` round 2, `-t..` round 3, `-u..` round 4,",
            "`-v..` round 5, `-w..` round 6, `-x..` round 7; `revert-F*`: reverse patch of a `fix:` commit), the verdict of the FIRST run of the property's check",
            "against it, and the verdict of the check as it is now (after the harnesses were strengthened where a round showed a miss). Produced by",
            "`tools/run_seeded.py` runs (assembled by `tools/assemble_seeded.py`); the checkout the patch is applied to is a scratch worktree at /repo's HEAD,",
            "the checks run with PRODUCTMD_REPO pointing at it.", "",
            "| seeded change | property | demonstration | first verdict | verdict now | first line now |", "|---|---|---|---|---|---|"]
    body = []
    n = {"caught with replay": 0}
    for k in sorted(now):
        c = now[k]
        body.append("| %s | %s | %s | %s | %s | %s |" % (c[0], c[1], c[2], first.get(k, c[3]), c[3], c[4]))
        n[c[3].split(":")[0]] = n.get(c[3].split(":")[0], 0) + 1
    tail = ["", "Totals now: " + ", ".join("%s: %d" % kv for kv in sorted(n.items()))]
    open(OUT, "w").write("\n".join(head + body + tail) + "\n")
    print(tail[1])


if __name__ == "__main__":
    main()
