#!/usr/bin/env python3
"""known_findings.json hygiene after merges: a `known` entry is dropped when a `fixed` entry for the same defect exists
(same property and same id or builder_id), duplicates are removed, one entry per line."""
import json, os
ROOT = os.path.dirname(os.path.dirname(os.path.abspath(__file__)))
p = os.path.join(ROOT, "known_findings.json")
k = json.load(open(p))
fixed = set()
for e in k:
    if e["status"] == "fixed":
        fixed.add((e["property"], e["id"])); fixed.add((e["property"], e.get("builder_id")))
out, seen = [], set()
for e in k:
    if e["status"] == "known" and ((e["property"], e["id"]) in fixed or (e.get("builder_id") and (e["property"], e.get("builder_id")) in fixed)):
        continue
    key = (e["status"], e["property"], e["id"], e.get("match"))
    if key in seen:
        continue
    seen.add(key); out.append(e)
open(p, "w").write("[\n" + ",\n".join(" " + json.dumps(e, ensure_ascii=False) for e in out) + "\n]\n")
print(len(k), "->", len(out))
