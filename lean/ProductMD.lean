import ProductMD.Model.Str
import ProductMD.Model.Regex
import ProductMD.Generated.Unicode
import ProductMD.Generated.Regexes
import ProductMD.Generated.Tables
