/-!
Statement kinds of the three manifest builders' `add` methods (productmd/rpms.py, modules.py, extra_files.py).
`Generated/BuilderFacts.lean` (tools/gen_builders.py) lists the statements of each method in SOURCE ORDER, each
classified against these kinds; `Model/Builders.lean` interprets that list.  Removing, adding or reordering a
refusal therefore changes the model.  A statement outside the recognised shapes is `unknown`: it has no semantics
(the model raises an error of its own class there), so it can only break an obligation.  Core Lean only.
-/
namespace PM

inductive BStep where
  | archTable          -- if arch not in RPM_ARCHES: raise ValueError
  | srcArch            -- if arch in [<literals>]: raise ValueError
  | category           -- if category not in SUPPORTED_CATEGORIES: raise ValueError
  | emptyPath          -- if not path: raise ValueError
  | absolutePath       -- if path.startswith("/"): raise ValueError
  | emptyVariant       -- if not variant: raise ValueError
  | nevra              -- nevra, nevra_dict = self._check_nevra(nevra)
  | sourceWithSrpm     -- if category == "source" and srpm_nevra is not None: raise ValueError
  | binaryWithoutSrpm  -- if category != "source" and srpm_nevra is None: raise ValueError
  | categoryArch       -- if (category == "source") != (nevra_dict["arch"] in (<literals>)): raise ValueError
  | sigkeyLower        -- if sigkey is not None: sigkey = sigkey.lower()                       (before the F42 repair)
  | sigkeyTyped        -- if sigkey is not None: if not isinstance(sigkey, <str types>): raise TypeError; sigkey = sigkey.lower()
  | srpmCanon          -- if srpm_nevra: srpm_nevra, _ = self._check_nevra(srpm_nevra) else: srpm_nevra = nevra
  | uid                -- uid, uid_dict = self._check_uid(uid)
  | assign             -- name / stream / version / context = uid_dict[...]
  | absoluteMdPath     -- if modulemd_path.startswith("/"): raise ValueError
  | kojiTag            -- if not koji_tag: raise ValueError
  | paramsLoop         -- for … in {"variant": …, "koji_tag": …, "modulemd_path": …}.items(): if not param: raise ValueError
  | rpmsType           -- if not isinstance(rpms, (list, tuple)): raise ValueError
  | checksumsType      -- if not isinstance(checksums, dict): raise TypeError
  | insert             -- the chain of setdefault calls and the final store, exactly as in the pinned source
  | unknown            -- anything else
deriving DecidableEq, Repr

/-- how the loop of `ExtraFiles.dump_for_tree` produces an exported entry -/
inductive TreeMode where
  | copy       -- metadata["data"].append({"file": _relative_to(item["file"], basepath), "size": item["size"], "checksums": item["checksums"]})
  | inPlace    -- item["file"] = _relative_to(item["file"], basepath); metadata["data"].append(item)   (rewrites the stored record)
  | unknown    -- anything else
deriving DecidableEq, Repr

/-- what a reader does with the payload table of the document -/
inductive LoadMode where
  | replace    -- self.<table> = data["payload"]["<key>"]   (the whole method body is the pinned one)
  | unknown    -- anything else (e.g. re-filing the records through add() onto whatever the object holds)
deriving DecidableEq, Repr

end PM
