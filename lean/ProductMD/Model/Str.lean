/-
Strings of the model are lists of Unicode scalar values, and every Python `str`
operation the library uses has exactly one definition here.  Core Lean only.
-/
namespace PM

abbrev Str := List Char

namespace Str

/-- Python `s.split(sep)` for a one-character separator: never empty. -/
def splitOn (sep : Char) : Str → List Str
  | [] => [[]]
  | c :: cs =>
    if c = sep then [] :: splitOn sep cs
    else match splitOn sep cs with
      | [] => [[c]]
      | h :: t => (c :: h) :: t

/-- Python `sep.join(parts)` for a one-character separator. -/
def joinWith (sep : Char) : List Str → Str
  | [] => []
  | [x] => x
  | x :: y :: rest => x ++ sep :: joinWith sep (y :: rest)

/-- Python `sep.join(parts)` for a string separator. -/
def joinStr (sep : Str) : List Str → Str
  | [] => []
  | [x] => x
  | x :: y :: rest => x ++ sep ++ joinStr sep (y :: rest)

/-- Python `s.count(c)` for a one-character needle. -/
def count (c : Char) (s : Str) : Nat := (s.filter (· = c)).length

/-- Python `s.rsplit(sep, n)` for a one-character separator. -/
def rsplitN (sep : Char) : Nat → Str → List Str
  | 0, s => [s]
  | n + 1, s =>
    let parts := splitOn sep s
    if parts.length ≤ 1 then [s]
    else rsplitN sep n (joinWith sep parts.dropLast) ++ [parts.getLast!]

/-- Python `s.split(sep, 1)`. -/
def split1 (sep : Char) : Str → List Str
  | [] => [[]]
  | c :: cs =>
    if c = sep then [[], cs]
    else match split1 sep cs with
      | [h] => [c :: h]
      | h :: t => (c :: h) :: t
      | [] => [[c]]

def startsWith (s p : Str) : Bool := p.isPrefixOf s
def endsWith (s p : Str) : Bool := p.isSuffixOf s

/-- Python `s.lstrip(chars)`. -/
def lstripChars (chars : Str) : Str → Str
  | [] => []
  | c :: cs => if chars.contains c then lstripChars chars cs else c :: cs

/-- Python `s.rstrip(chars)`. -/
def rstripChars (chars : Str) (s : Str) : Str := (lstripChars chars s.reverse).reverse

def stripChars (chars : Str) (s : Str) : Str := rstripChars chars (lstripChars chars s)

/-- ASCII lower-casing of A–Z only (what matters for the tables the library
compares against; full Unicode case folding is outside the model). -/
def lowerAscii (s : Str) : Str :=
  s.map fun c => if 'A' ≤ c ∧ c ≤ 'Z' then Char.ofNat (c.toNat + 32) else c

/-- Python `s.replace(c, "")`. -/
def removeChar (c : Char) (s : Str) : Str := s.filter (· ≠ c)

def isAsciiDigit (c : Char) : Bool := '0' ≤ c && c ≤ '9'

def digitChar (d : Nat) : Char := Char.ofNat (48 + d % 10)

/-- decimal rendering of a natural number (Python `"%d" % n`, `str(n)`). -/
def natDigitsAux : Nat → Nat → List Char → List Char
  | 0, _, acc => acc
  | fuel + 1, n, acc =>
    if n < 10 then digitChar n :: acc
    else natDigitsAux fuel (n / 10) (digitChar (n % 10) :: acc)

def natStr (n : Nat) : Str := natDigitsAux (n + 1) n []

def intStr (i : Int) : Str :=
  match i with
  | .ofNat n => natStr n
  | .negSucc n => '-' :: natStr (n + 1)

/-- value of a string of ASCII digits (no sign, no blanks); `none` on anything else or empty. -/
def parseNatAscii (s : Str) : Option Nat :=
  if s.isEmpty then none
  else s.foldl (fun acc c => acc.bind fun a => if isAsciiDigit c then some (a * 10 + (c.toNat - 48)) else none) (some 0)

def lt (a b : Str) : Bool := decide (a < b)
def le (a b : Str) : Bool := decide (a ≤ b)

/-- insertion into a sorted list, dropping duplicates: the model of `sorted(set(...))`. -/
def insertSorted (x : Str) : List Str → List Str
  | [] => [x]
  | y :: ys => if x = y then y :: ys else if lt x y then x :: y :: ys else y :: insertSorted x ys

def sortDedup (l : List Str) : List Str := l.foldr insertSorted []

end Str

/-- literal helper -/
abbrev L (x : String) : Str := x.toList

end PM
