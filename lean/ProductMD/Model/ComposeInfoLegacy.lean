import ProductMD.Model.ComposeInfo
import ProductMD.Model.ComposeId
import ProductMD.Generated.Gates
/-!
# C05: the legacy readers of `productmd/composeinfo.py`, selected by the generated version gates

`Model/ComposeInfo.lean` (C01) models the reader for header versions `>= 1.0` and answers `Err.other` below.  This
file adds, additively, the branches the code takes for older documents:

* `Compose.deserialize_0_3`   (`gate_composeinfo_Compose_deserialize_0`, `< (0, 3)`): date / type / respin are not read
  from the section but decoded from the compose id by `get_date_type_respin` (`Model/ComposeId.lean`, C15);
* `Release.deserialize_0_3`   (`gate_composeinfo_Release_deserialize_0`, `<= (0, 3)`): the section is called `product`,
  there is no `internal` (stays `False`), type defaults to `"ga"`; also used for the release of layered-product variants;
* `Variants.deserialize`      (`gate_composeinfo_Variants_deserialize_0`, `< (1, 0)`): top level = every UID that has no
  `-`, or whose `rsplit("-", 1)` head is not itself a key;
* `Variant.deserialize`       (`gate_composeinfo_Variant_deserialize_0`, `< (1, 0)`): without a `variants` list the children
  are all keys that `startswith(variant_uid + "-")`, in document order.

Each branch is selected by `Gate.eval?` of the gate generated from the source, so flipping `<` to `<=` or moving a bound
changes this model.  Where every gate answers "current" the reader is the C01 reader (`Proofs/C05CI.lean`).
Same typed domain as the C01 model; document order of JSON object keys is the order of the association list.
-/
namespace PM
namespace CI
namespace Legacy

/-- verdicts of the four composeinfo gates on a header version -/
structure Gates where
  compose : Bool      -- `Compose.deserialize_0_3`
  release : Bool      -- `Release.deserialize_0_3`
  variants : Bool     -- legacy top-level detection
  variant : Bool      -- legacy child detection
deriving DecidableEq, Repr

def gatesOf (ver : Nat × Nat) : Except Err Gates :=
  match Gen.gate_composeinfo_Compose_deserialize_0.eval? ver, Gen.gate_composeinfo_Release_deserialize_0.eval? ver,
        Gen.gate_composeinfo_Variants_deserialize_0.eval? ver, Gen.gate_composeinfo_Variant_deserialize_0.eval? ver with
  | some a, some b, some c, some d => .ok ⟨a, b, c, d⟩
  | _, _, _, _ => .error .other          -- a comparison the translator could not read has no semantics

/-- all gates answer "current format" -/
def Gates.current : Gates := ⟨false, false, false, false⟩

/-! ### compose section -/

/-- `get_date_type_respin(self.id)` as the three attribute values -/
def dateTypeRespinOf (id : PyVal) : Except Err (PyVal × PyVal × PyVal) :=
  match id with
  | .str s =>
    match getDateTypeRespin s with
    | .error e => .error e
    | .ok none => .ok (.none, .none, .none)
    | .ok (some (some d, t, r)) => .ok (.str d, .str t, .int r)
    | .ok (some (none, t, r)) => .ok (.none, .str t, .int r)
  | _ => .error .typeError                   -- `pattern.match(non-string)`

/-- `Compose.deserialize_0_3` followed by `validate()` -/
def composeDe03 (payload : PyVal) : Except Err Compose :=
  match sub payload k%"compose" with
  | .error e => .error e
  | .ok s =>
  match sub s k%"id" with
  | .error e => .error e
  | .ok id =>
  match getD s k%"label" .none with
  | .error e => .error e
  | .ok lab0 =>
  let label := orNone lab0
  match sub s k%"type" with                  -- must be there, is overwritten
  | .error e => .error e
  | .ok _ =>
  match dateTypeRespinOf id with
  | .error e => .error e
  | .ok (date, type, respin) =>
  match getD s k%"final" (.bool false) with
  | .error e => .error e
  | .ok fin0 =>
  let final := fin0.truthy
  match validateClass "composeinfo.Compose"
      [(k%"id", id), (k%"type", type), (k%"date", date), (k%"respin", respin), (k%"label", label), (k%"final", .bool final)] with
  | .error e => .error e
  | .ok () =>
  match asStr id, asStr type, asStr date, asInt respin with
  | .ok id, .ok type, .ok date, .ok respin =>
    match label with
    | .none => .ok { id, type, date, respin, label := none, final }
    | .str l => .ok { id, type, date, respin, label := some l, final }
    | _ => .error .other
  | _, _, _, _ => .error .other

/-- `Compose.deserialize` -/
def composeDeL (g : Gates) (payload : PyVal) : Except Err Compose :=
  if g.compose then composeDe03 payload else composeDe Gen.VERSION payload

/-! ### release / product section -/

/-- `Release.deserialize_0_3` followed by `validate()`; `internal` keeps its initial `False` -/
def releaseDe03 (sectionHolder : PyVal) : Except Err Release :=
  match sub sectionHolder k%"product" with
  | .error e => .error e
  | .ok s =>
  match sub s k%"name" with
  | .error e => .error e
  | .ok name =>
  match sub s k%"version" with
  | .error e => .error e
  | .ok version =>
  match sub s k%"short" with
  | .error e => .error e
  | .ok short =>
  match getD s k%"type" (.str k%"ga") with
  | .error e => .error e
  | .ok type0 =>
  match lowerVal type0 with
  | .error e => .error e
  | .ok type =>
  match getD s k%"is_layered" (.bool false) with
  | .error e => .error e
  | .ok lay =>
  match validateClass "composeinfo.Release"
      [(k%"name", name), (k%"short", short), (k%"version", version), (k%"type", type),
       (k%"is_layered", .bool lay.truthy), (k%"internal", .bool false)] with
  | .error e => .error e
  | .ok () =>
  match asStr name, asStr short, asStr version, asStr type with
  | .ok name, .ok short, .ok version, .ok type =>
    .ok { name, short, version, type, isLayered := lay.truthy, internal := false }
  | _, _, _, _ => .error .other

/-- `Release.deserialize` -/
def releaseDeL (g : Gates) (sectionHolder : PyVal) : Except Err Release :=
  if g.release then releaseDe03 sectionHolder else releaseDe Gen.VERSION sectionHolder

def variantReleaseDeL (g : Gates) (type0 data : PyVal) : Except Err (Option Release) :=
  if PyVal.pyEq type0 (.str layeredProduct) then
    match releaseDeL g data with
    | .error e => .error e
    | .ok r => .ok (some r)
  else .ok none

/-! ### the variant forest -/

/-- keys of the flat table that `startswith("%s-" % variant_uid)`, in document order -/
def prefixKids (full : PyVal) (vuid : Str) : List Str :=
  full.keys.filter fun k => Str.startsWith k (vuid ++ ['-'])

/-- the keys under which the children of an entry are looked up -/
def kidKeysL (g : Gates) (full data : PyVal) (uid vuid : Str) : Except Err (List Str) :=
  match data.get? k%"variants" with
  | some _ =>
    match kidIdsOf Gen.VERSION data with
    | .error e => .error e
    | .ok ids => .ok (ids.map fun i => uid ++ '-' :: i)
  | none => if g.variant then .ok (prefixKids full vuid) else .ok []

/-- `Variant.deserialize(full_data, variant_uid)` followed by the caller's `add(variant)`, every format version -/
def buildL (g : Gates) (full : PyVal) : Nat → Ctx → Str → Except Err Variant
  | 0, _, _ => .error .runtimeError
  | fuel + 1, ctx, vuid =>
    match sub full vuid with
    | .error e => .error e
    | .ok data =>
    match sub data k%"id" with
    | .error e => .error e
    | .ok id0 =>
    match sub data k%"uid" with
    | .error e => .error e
    | .ok uid0 =>
    match sub data k%"name" with
    | .error e => .error e
    | .ok name0 =>
    match sub data k%"type" with
    | .error e => .error e
    | .ok type0 =>
    match sub data k%"arches" with
    | .error e => .error e
    | .ok arches0 =>
    match asStrList arches0 with
    | .error e => .error e
    | .ok archesL =>
    let arches := Str.sortDedup archesL
    match variantReleaseDeL g type0 data with
    | .error e => .error e
    | .ok rel =>
    match sub data k%"paths" with
    | .error e => .error e
    | .ok paths0 =>
    match pathsDe arches paths0 with
    | .error e => .error e
    | .ok paths =>
    match validateClass "composeinfo.VariantPaths" [] with
    | .error e => .error e
    | .ok () =>
    match asStr uid0 with
    | .error e => .error e
    | .ok uid =>
    match kidKeysL g full data uid vuid with
    | .error e => .error e
    | .ok kidKeys =>
    match collect (kidKeys.map fun k => buildL g full fuel (some (uid, arches)) k) with
    | .error e => .error e
    | .ok built =>
    match addAll [] built with
    | .error e => .error e
    | .ok kids =>
    match asStr id0, asStr name0, asStr type0 with
    | .ok id, .ok name, .ok type =>
      let v := Variant.mk id id uid name type arches paths rel kids
      match validateClass "composeinfo.Variant" (variantObj ctx v) with
      | .error e => .error e
      | .ok () =>
      match validateClass "composeinfo.Variant" (variantObj ctx v) with
      | .error e => .error e
      | .ok () => .ok v
    | _, _, _ => .error .other

/-- `variant_uid.rsplit("-", 1)[0]` for a UID that contains a dash -/
def legacyHead (u : Str) : Option Str :=
  if u.contains '-' then some (Str.joinWith '-' (Str.splitOn '-' u).dropLast) else none

/-- legacy top-level test: no dash, or the part before the last dash is not a key of the table -/
def isLegacyTop (keys : List Str) (u : Str) : Bool :=
  match legacyHead u with
  | some h => !keys.contains h
  | none => true

/-- `Variants.deserialize`, every format version -/
def variantsDeL (g : Gates) (payload : PyVal) : Except Err (List Variant) :=
  match sub payload k%"variants" with
  | .error e => .error e
  | .ok full =>
  match full with
  | .dict entries =>
    -- `child_variants` is computed for every version (and can fail)
    match childUids entries with
    | .error e => .error e
    | .ok cs =>
    let keys := entries.map (·.1)
    let tops := Str.sortDedup (if g.variants then keys.filter (isLegacyTop keys) else keys.filter (fun u => !cs.contains u))
    match collect (tops.map fun u => buildL g full (entries.length + 1) none u) with
    | .error e => .error e
    | .ok built => addAll [] built
  | _ => .error .attributeError

/-- `ComposeInfo.deserialize(data)`, every format version -/
def deserialize (doc : PyVal) : Except Err ComposeInfo :=
  match headerDe doc with
  | .error e => .error e
  | .ok ver =>
  match gatesOf ver with
  | .error e => .error e
  | .ok g =>
  match sub doc k%"payload" with
  | .error e => .error e
  | .ok payload =>
  match composeDeL g payload with
  | .error e => .error e
  | .ok compose =>
  match releaseDeL g payload with
  | .error e => .error e
  | .ok release =>
  match baseDeIf release.isLayered payload with
  | .error e => .error e
  | .ok base =>
  match variantsDeL g payload with
  | .error e => .error e
  | .ok variants => .ok { compose, release, base, variants }

def loadsDoc (doc : PyVal) : Except Err ComposeInfo :=
  match deserialize doc with
  | .error e => .error e
  | .ok ci =>
    match validateClass "composeinfo.ComposeInfo" [] with
    | .error e => .error e
    | .ok () => .ok ci

/-- load an old document, write it (current format), load what was written, write again -/
def upgradeCycle (doc : PyVal) : Except Err (ComposeInfo × PyVal × ComposeInfo × PyVal) :=
  match loadsDoc doc with
  | .error e => .error e
  | .ok x =>
  match serialize x with
  | .error e => .error e
  | .ok d1 =>
  match loadsDoc d1 with
  | .error e => .error e
  | .ok x2 =>
  match serialize x2 with
  | .error e => .error e
  | .ok d2 => .ok (x, d1, x2, d2)

end Legacy
end CI
end PM
