import ProductMD.Model.Nvra
import ProductMD.Generated.Tables
import ProductMD.Generated.BuilderFacts
/-!
The three manifest builders: `Rpms.add`, `Modules.add` (+ `_check_uid`, `parse_uid`), `ExtraFiles.add`,
and `ExtraFiles.dump_for_tree` / `_relative_to`   (productmd/rpms.py, modules.py, extra_files.py).

State = the public mapping (`.rpms` / `.modules` / `.extra_files`) as a `PyVal`: nested dicts in insertion
order, exactly what `serialize` later emits verbatim and what `deserialize` stores verbatim (so a state may be
ANY JSON value after a load; the error branches for ill-shaped states are modelled too).

The statements of each `add` method are read from the source on every run (`Gen.rpms_add_script`, … in
`Generated/BuilderFacts.lean`, tools/gen_builders.py) and INTERPRETED here (`rpmsRun`, `modulesRun`, `extraRun`):
removing, adding or reordering a refusal changes the model.  `rpmsCheck`, `modulesCheck`, `extraCheck` are the
documented refusals written out by hand; `Proofs/Builders.lean` proves that interpreting the generated list is the
same function (an obligation that stops compiling when the list changes).

Every operation is `State → Args → State × Out` (never `Except State`): what a refused call leaves behind is
part of the result and has to be proved from the order of checks and mutations (`Properties/C12.lean`).

Python's in-place mutation through aliases (`arches = self.rpms.setdefault(variant, {})`, …) is modelled by
`setPathS`: walk down the chain of `setdefault(k, {})` calls, run the leaf update on what is found there (or on
the fresh `{}`), rebuild the spine.  On a failure *below* the spine the `setdefault`s above it have already
happened, and the rebuilt spine says so.
-/
namespace PM.Mf

abbrev Kvs := List (Str × PyVal)
abbrev Out := Except Err Unit

/-- `d.get(k)`: first binding -/
def lookup : Kvs → Str → Option PyVal
  | [], _ => none
  | (k', v) :: rest, k => if k' == k then some v else lookup rest k

def hasKey : Kvs → Str → Bool
  | [], _ => false
  | (k', _) :: rest, k => k' == k || hasKey rest k

/-- `d[k] = v`: replace in place, or append (Python dicts keep insertion order) -/
def put : Kvs → Str → PyVal → Kvs
  | [], k, v => [(k, v)]
  | (k', v') :: rest, k, v => if k' == k then (k, v) :: rest else (k', v') :: put rest k v

/-- `v[k1][k2]…` by `.get` (none when a key is missing or a non-dict is met) -/
def getPath : PyVal → List Str → Option PyVal
  | v, [] => some v
  | .dict kvs, k :: ks =>
    match lookup kvs k with
    | some c => getPath c ks
    | none => none
  | _, _ :: _ => none

/-- `x = v.setdefault(k1, {}).setdefault(k2, {})…; <leaf update on x>` as a state transformer.
`f` returns the leaf afterwards and the outcome; a non-dict met on the way has no `setdefault` (AttributeError). -/
def setPathS (f : PyVal → PyVal × Out) : List Str → PyVal → PyVal × Out
  | [], v => f v
  | k :: ks, .dict kvs =>
    let r := setPathS f ks ((lookup kvs k).getD (.dict []))
    (.dict (put kvs k r.1), r.2)
  | _ :: _, v => (v, .error .attributeError)

/-- the value the leaf update is applied to -/
def leafArg : List Str → PyVal → Option PyVal
  | [], v => some v
  | k :: ks, .dict kvs => leafArg ks ((lookup kvs k).getD (.dict []))
  | _ :: _, _ => none

def optStr : Option Str → PyVal
  | some s => .str s
  | none => .none

def lit (s : String) : Str := s.toList

/-! ### Rpms.add -/

structure RpmsArgs where
  variant : Str
  arch : Str
  nevra : Str
  path : Str
  sigkey : Option Str
  category : Str
  srpm : Option Str := none
deriving Repr

/- `Rpms._check_nevra` is `PM.checkNevra` (Model/Nvra.lean, shared with C13): canonical text and parsed parts. -/

/-- `nevra_dict["arch"] in (...)` for a group that may be `None` -/
def archIn (l : List Str) (arch : Option Str) : Bool :=
  match arch with
  | some a => l.contains a
  | none => false

/-- `if arch in ["src", "nosrc"]`: the literal list in the source, regenerated on every run -/
def srcArches : List Str := Gen.RPMS_ADD_SOURCE_ARCHES
/-- `nevra_dict["arch"] in ("src", "nosrc")`: likewise -/
def nevraSrcArches : List Str := Gen.RPMS_ADD_NEVRA_SOURCE_ARCHES

/-- what is filed where: `(srpm key, rpm key, record)` -/
structure RpmsPlan where
  srpmKey : Str
  key : Str
  record : PyVal
deriving Repr

def rpmRecord (sigkey : Option Str) (path category : Str) : PyVal :=
  .dict [(lit "sigkey", optStr sigkey), (lit "path", .str path), (lit "category", .str category)]

/-- the refusals of `Rpms.add` in source order; none of them touches the manifest -/
def rpmsCheck (a : RpmsArgs) : Except Err RpmsPlan :=
  if !Gen.RPM_ARCHES.contains a.arch then .error .valueError
  else if srcArches.contains a.arch then .error .valueError
  else if !Gen.SUPPORTED_CATEGORIES.contains a.category then .error .valueError
  else if a.path.isEmpty then .error .valueError
  else if Str.startsWith a.path ['/'] then .error .valueError
  else match checkNevra a.nevra with
    | .error e => .error e
    | .ok (nevra, d) =>
      if a.category == lit "source" && a.srpm.isSome then .error .valueError
      else if a.category != lit "source" && a.srpm.isNone then .error .valueError
      else if (a.category == lit "source") != (archIn nevraSrcArches d.arch) then .error .valueError
      else
        let sigkey := a.sigkey.map Str.lowerAscii
        let srpm : Except Err Str :=
          match a.srpm with
          | some s => if s.isEmpty then .ok nevra else (checkNevra s).map (·.1)      -- `if srpm_nevra:`
          | none => .ok nevra
        match srpm with
        | .error e => .error e
        | .ok sk => .ok { srpmKey := sk, key := nevra, record := rpmRecord sigkey a.path a.category }

/-- `rpms[nevra] = {...}` on what `srpms.setdefault(srpm_nevra, {})` returned -/
def rpmsLeaf (key : Str) (record : PyVal) : PyVal → PyVal × Out
  | .dict r => (.dict (put r key record), .ok ())
  | v => (v, .error .typeError)

/-- the documented behaviour written out by hand: the refusals, then the insertion -/
def Rpms.addSpec (s : PyVal) (a : RpmsArgs) : PyVal × Out :=
  match rpmsCheck a with
  | .error e => (s, .error e)
  | .ok p => setPathS (rpmsLeaf p.key p.record) [a.variant, a.arch, p.srpmKey] s

/-- `if <test>: raise ValueError` -/
def refuseIf {α : Type} (c : Bool) (env : α) : Except Err α := if c then .error .valueError else .ok env

/-- the local variables of `Rpms.add` that change while it runs -/
structure REnv where
  nevra : Str                -- `nevra`: the argument, then its canonical form
  dict : Option Nvra         -- `nevra_dict`, once bound
  sigkey : Option Str
  srpm : Option Str          -- `srpm_nevra`
deriving Repr

def REnv.init (a : RpmsArgs) : REnv := { nevra := a.nevra, dict := none, sigkey := a.sigkey, srpm := a.srpm }

/-- one statement of `Rpms.add` that does not touch the manifest -/
def rpmsPure (a : RpmsArgs) (st : BStep) (env : REnv) : Except Err REnv :=
  match st with
  | .archTable => refuseIf (!Gen.RPM_ARCHES.contains a.arch) env
  | .srcArch => refuseIf (srcArches.contains a.arch) env
  | .category => refuseIf (!Gen.SUPPORTED_CATEGORIES.contains a.category) env
  | .emptyPath => refuseIf a.path.isEmpty env
  | .absolutePath => refuseIf (Str.startsWith a.path ['/']) env
  | .nevra =>
    match checkNevra env.nevra with
    | .error e => .error e
    | .ok (c, d) => .ok { env with nevra := c, dict := some d }
  | .sourceWithSrpm => refuseIf (a.category == lit "source" && env.srpm.isSome) env
  | .binaryWithoutSrpm => refuseIf (a.category != lit "source" && env.srpm.isNone) env
  | .categoryArch =>
    match env.dict with
    | none => .error .other                                      -- `nevra_dict` not bound yet
    | some d => refuseIf ((a.category == lit "source") != (archIn nevraSrcArches d.arch)) env
  | .sigkeyLower => .ok { env with sigkey := env.sigkey.map Str.lowerAscii }
  -- with the type test in front (F42 repaired): the argument type of the model is `str or None`, so the test cannot fire here;
  -- the two shapes are told apart so that the statement list (`C12_scripts`) says which one the source contains
  | .sigkeyTyped => .ok { env with sigkey := env.sigkey.map Str.lowerAscii }
  | .srpmCanon =>
    match env.srpm with
    | some t =>
      if t.isEmpty then .ok { env with srpm := some env.nevra }              -- `if srpm_nevra:` is false
      else match checkNevra t with
        | .error e => .error e
        | .ok (c, _) => .ok { env with srpm := some c }
    | none => .ok { env with srpm := some env.nevra }
  | _ => .error .other                    -- `unknown`, or a statement kind that has no meaning in this method

/-- the block of `setdefault` calls and `rpms[nevra] = {...}` -/
def rpmsInsert (a : RpmsArgs) (s : PyVal) (env : REnv) : PyVal × Out :=
  match env.srpm with
  | some k => setPathS (rpmsLeaf env.nevra (rpmRecord env.sigkey a.path a.category)) [a.variant, a.arch, k] s
  | none => (s, .error .other)                                   -- `None` as a key: outside the model

/-- run the statements in order; a raise ends the call with the manifest as it is at that point -/
def rpmsRun (a : RpmsArgs) : List BStep → PyVal → REnv → PyVal × Out
  | [], s, _ => (s, .ok ())
  | st :: rest, s, env =>
    if st = .insert then
      match rpmsInsert a s env with
      | (s', .ok _) => rpmsRun a rest s' env
      | (s', .error e) => (s', .error e)
    else
      match rpmsPure a st env with
      | .ok env' => rpmsRun a rest s env'
      | .error e => (s, .error e)

/-- `Rpms.add`: the statements the source contains now, in its order -/
def Rpms.add (s : PyVal) (a : RpmsArgs) : PyVal × Out := rpmsRun a Gen.rpms_add_script s (REnv.init a)

/-- the statement list the theorems are proved for (`Gen.rpms_add_script` must equal it: `Proofs/Builders.lean`) -/
def specRpmsScript : List BStep :=
  [.archTable, .srcArch, .category, .emptyPath, .absolutePath, .nevra, .sourceWithSrpm, .binaryWithoutSrpm,
   .categoryArch, .sigkeyTyped, .srpmCanon, .insert]

/-! ### Modules.add -/

/-- a Python argument that is expected to be a list or a tuple -/
inductive SeqArg where
  | list (xs : List PyVal)
  | tuple (xs : List PyVal)
  | other
deriving Repr

structure UidParts where
  name : Str
  stream : Str
  version : Str
  context : Str
deriving DecidableEq, Repr

/-- `Modules.parse_uid` -/
def parseUid (uid : PyVal) : Except Err UidParts :=
  match uid with
  | .str s =>
    match pyMatch Gen.re_modules_Modules_parse_uid_0 s with
    | none => .error .valueError
    | some caps =>
      let g (n : String) : Option Str := namedGroup Gen.re_modules_Modules_parse_uid_0_groups caps n
      .ok { name := (g "module_name").getD [], stream := (g "stream").getD [],
            version := (g "version").getD [], context := (g "context").getD [] }
  | _ => .error .valueError

def UidParts.canonical (u : UidParts) : Str :=
  u.name ++ ':' :: u.stream ++ (if u.version.isEmpty then [] else ':' :: u.version)
    ++ (if u.context.isEmpty then [] else ':' :: u.context)

/-- `Modules._check_uid` -/
def checkUid (uid : PyVal) : Except Err (Str × UidParts) :=
  match uid with
  | .str s =>
    if !s.contains ':' then .error .valueError
    else match parseUid uid with
      | .error _ => .error .valueError
      | .ok u => .ok (u.canonical, u)
  | _ => .error .valueError

structure ModulesArgs where
  variant : Str
  arch : Str
  uid : PyVal
  kojiTag : Str
  modulemdPath : Str
  category : Str
  rpms : SeqArg
deriving Repr

structure ModulesPlan where
  uid : Str
  metadata : PyVal
  category : Str
  path : Str
  rpms : List PyVal
deriving Repr

def moduleMetadata (uid : Str) (u : UidParts) (kojiTag : Str) : PyVal :=
  .dict [(lit "uid", .str uid), (lit "name", .str u.name), (lit "stream", .str u.stream),
         (lit "version", .str u.version), (lit "context", .str u.context), (lit "koji_tag", .str kojiTag)]

/-- the refusals of `Modules.add` in source order -/
def modulesCheck (a : ModulesArgs) : Except Err ModulesPlan :=
  if a.variant.isEmpty then .error .valueError
  else if !Gen.RPM_ARCHES.contains a.arch then .error .valueError
  else if !Gen.SUPPORTED_CATEGORIES.contains a.category then .error .valueError
  else match checkUid a.uid with
    | .error e => .error e
    | .ok (uid, u) =>
      -- the loop over variant / koji_tag / modulemd_path comes first (F42 repaired: before any attribute access)
      if a.kojiTag.isEmpty then .error .valueError
      else if a.modulemdPath.isEmpty then .error .valueError
      else if Str.startsWith a.modulemdPath ['/'] then .error .valueError
      else match a.rpms with
        | .other => .error .valueError
        | .list xs | .tuple xs =>                                     -- `list(rpms)`: a tuple is stored as list elements
          .ok { uid := uid, metadata := moduleMetadata uid u a.kojiTag, category := a.category,
                path := a.modulemdPath, rpms := xs }

/-- the three statements that update the entry `metadata = uids.setdefault(uid, {})`:

    metadata["metadata"] = {...}
    metadata.setdefault("modulemd_path", {})[category] = modulemd_path
    metadata.setdefault("rpms", []).extend(list(rpms))

each can fail on an ill-shaped entry (one that was loaded, not built), leaving the earlier ones done -/
def modulesLeaf (p : ModulesPlan) : PyVal → PyVal × Out
  | .dict e =>
    let e1 := put e (lit "metadata") p.metadata
    match (lookup e1 (lit "modulemd_path")).getD (.dict []) with
    | .dict mp =>
      let e2 := put e1 (lit "modulemd_path") (.dict (put mp p.category (.str p.path)))
      match (lookup e2 (lit "rpms")).getD (.list []) with
      | .list l => (.dict (put e2 (lit "rpms") (.list (l ++ p.rpms))), .ok ())
      | _ => (.dict e2, .error .attributeError)         -- "rpms" was there and is not a list: no `extend`
    | _ => (.dict e1, .error .typeError)                -- "modulemd_path" was there and is not a dict
  | v => (v, .error .typeError)

def Modules.addSpec (s : PyVal) (a : ModulesArgs) : PyVal × Out :=
  match modulesCheck a with
  | .error e => (s, .error e)
  | .ok p => setPathS (modulesLeaf p) [a.variant, a.arch, p.uid] s

/-- the local variables of `Modules.add` that change while it runs -/
structure MEnv where
  uid : PyVal                    -- `uid`: the argument, then its canonical form
  parts : Option UidParts        -- `uid_dict`, once bound
deriving Repr

def MEnv.init (a : ModulesArgs) : MEnv := { uid := a.uid, parts := none }

def modulesPure (a : ModulesArgs) (st : BStep) (env : MEnv) : Except Err MEnv :=
  match st with
  | .emptyVariant => refuseIf a.variant.isEmpty env
  | .archTable => refuseIf (!Gen.RPM_ARCHES.contains a.arch) env
  | .category => refuseIf (!Gen.SUPPORTED_CATEGORIES.contains a.category) env
  | .uid =>
    match checkUid env.uid with
    | .error e => .error e
    | .ok (c, u) => .ok { uid := .str c, parts := some u }
  | .assign =>
    match env.parts with
    | none => .error .other                                      -- `uid_dict` not bound yet
    | some _ => .ok env
  | .absoluteMdPath => refuseIf (Str.startsWith a.modulemdPath ['/']) env
  | .kojiTag => refuseIf a.kojiTag.isEmpty env
  | .paramsLoop => refuseIf (a.variant.isEmpty || a.kojiTag.isEmpty || a.modulemdPath.isEmpty) env
  | .rpmsType => refuseIf (match a.rpms with | .other => true | _ => false) env
  | _ => .error .other

def modulesInsert (a : ModulesArgs) (s : PyVal) (env : MEnv) : PyVal × Out :=
  match env.uid, env.parts, a.rpms with
  | .str k, some u, .list xs | .str k, some u, .tuple xs =>
    setPathS (modulesLeaf { uid := k, metadata := moduleMetadata k u a.kojiTag, category := a.category,
                            path := a.modulemdPath, rpms := xs }) [a.variant, a.arch, k] s
  | _, _, _ => (s, .error .other)                     -- unbound names, or `list(rpms)` of a foreign object

def modulesRun (a : ModulesArgs) : List BStep → PyVal → MEnv → PyVal × Out
  | [], s, _ => (s, .ok ())
  | st :: rest, s, env =>
    if st = .insert then
      match modulesInsert a s env with
      | (s', .ok _) => modulesRun a rest s' env
      | (s', .error e) => (s', .error e)
    else
      match modulesPure a st env with
      | .ok env' => modulesRun a rest s env'
      | .error e => (s, .error e)

/-- `Modules.add`: the statements the source contains now, in its order -/
def Modules.add (s : PyVal) (a : ModulesArgs) : PyVal × Out := modulesRun a Gen.modules_add_script s (MEnv.init a)

def specModulesScript : List BStep :=
  [.emptyVariant, .archTable, .category, .uid, .assign, .assign, .assign, .assign, .paramsLoop, .absoluteMdPath,
   .kojiTag, .rpmsType, .insert]

/-! ### ExtraFiles.add -/

structure ExtraArgs where
  variant : Str
  arch : Str
  path : Str
  size : PyVal
  checksums : PyVal
deriving Repr

def extraRecord (a : ExtraArgs) : PyVal :=
  .dict [(lit "file", .str a.path), (lit "size", a.size), (lit "checksums", a.checksums)]

def extraCheck (a : ExtraArgs) : Except Err PyVal :=
  if a.variant.isEmpty then .error .valueError
  else if !Gen.RPM_ARCHES.contains a.arch then .error .valueError
  else if a.path.isEmpty then .error .valueError
  else if Str.startsWith a.path ['/'] then .error .valueError
  else if !a.checksums.isinstance .dict then .error .typeError
  else .ok (extraRecord a)

/-- `.setdefault(arch, []).append(record)` on what `extra_files.setdefault(variant, {})` returned -/
def extraLeaf (arch : Str) (record : PyVal) : PyVal → PyVal × Out
  | .dict am =>
    match (lookup am arch).getD (.list []) with
    | .list l => (.dict (put am arch (.list (l ++ [record]))), .ok ())
    | _ => (.dict am, .error .attributeError)           -- the arch entry was there and is not a list: no `append`
  | v => (v, .error .attributeError)

def ExtraFiles.addSpec (s : PyVal) (a : ExtraArgs) : PyVal × Out :=
  match extraCheck a with
  | .error e => (s, .error e)
  | .ok rec => setPathS (extraLeaf a.arch rec) [a.variant] s

def extraPure (a : ExtraArgs) (st : BStep) : Except Err Unit :=
  match st with
  | .emptyVariant => refuseIf a.variant.isEmpty ()
  | .archTable => refuseIf (!Gen.RPM_ARCHES.contains a.arch) ()
  | .emptyPath => refuseIf a.path.isEmpty ()
  | .absolutePath => refuseIf (Str.startsWith a.path ['/']) ()
  | .checksumsType => if !a.checksums.isinstance .dict then .error .typeError else .ok ()
  | _ => .error .other

def extraRun (a : ExtraArgs) : List BStep → PyVal → PyVal × Out
  | [], s => (s, .ok ())
  | st :: rest, s =>
    if st = .insert then
      match setPathS (extraLeaf a.arch (extraRecord a)) [a.variant] s with
      | (s', .ok _) => extraRun a rest s'
      | (s', .error e) => (s', .error e)
    else
      match extraPure a st with
      | .ok _ => extraRun a rest s
      | .error e => (s, .error e)

/-- `ExtraFiles.add`: the statements the source contains now, in its order -/
def ExtraFiles.add (s : PyVal) (a : ExtraArgs) : PyVal × Out := extraRun a Gen.extra_add_script s

def specExtraScript : List BStep :=
  [.emptyVariant, .archTable, .emptyPath, .absolutePath, .checksumsType, .insert]

/-! ### `_relative_to`, `dump_for_tree` -/

/-- `root.rstrip("/") + "/"` -/
def rootDir (root : Str) : Str := Str.rstripChars ['/'] root ++ ['/']

/-- `_relative_to(path, root)` -/
def relativeTo (path root : Str) : Str :=
  if Str.startsWith path (rootDir root) then path.drop (rootDir root).length else path

/-- `d[k]` -/
def getItem (v : PyVal) (k : Str) : Except Err PyVal :=
  match v with
  | .dict kvs => match lookup kvs k with
    | some x => .ok x
    | none => .error .keyError
  | _ => .error .typeError

/-- `x.get(k, d)` on something that must be a dict -/
def dictGetD (v : PyVal) (k : Str) (d : PyVal) : Except Err PyVal :=
  match v with
  | .dict kvs => .ok ((lookup kvs k).getD d)
  | _ => .error .attributeError

def treeItem (basepath : Str) (item : PyVal) : Except Err PyVal :=
  match getItem item (lit "file") with
  | .error e => .error e
  | .ok file =>
    match file with
    | .str f =>
      match getItem item (lit "size"), getItem item (lit "checksums") with
      | .ok size, .ok cs => .ok (.dict [(lit "file", .str (relativeTo f basepath)), (lit "size", size), (lit "checksums", cs)])
      | .error e, _ => .error e
      | _, .error e => .error e
    | _ => .error .attributeError                     -- `path.startswith` on a non-string

def mapExcept (f : α → Except Err β) : List α → Except Err (List β)
  | [] => .ok []
  | x :: xs => match f x with
    | .error e => .error e
    | .ok y => match mapExcept f xs with
      | .error e => .error e
      | .ok ys => .ok (y :: ys)

/-- the document `dump_for_tree` writes (`json.dump(..., sort_keys=True, indent=4)`) -/
def dumpForTreeDoc (s : PyVal) (variant arch basepath : Str) : Except Err PyVal :=
  match getItem s variant with
  | .error e => .error e
  | .ok av => match getItem av arch with
    | .error e => .error e
    | .ok items =>
      match items with
      | .list l => match mapExcept (treeItem basepath) l with
        | .error e => .error e
        | .ok data => .ok (.dict [(lit "header", .dict [(lit "version", .str (lit "1.0"))]), (lit "data", .list data)])
      | _ => .error .other

def dumpForTree (s : PyVal) (variant arch basepath : Str) : Except Err Str :=
  (dumpForTreeDoc s variant arch basepath).map JsonText.dumps

/-- `item["file"] = _relative_to(item["file"], basepath)` on a stored record (the in-place loop body) -/
def stripInPlace (b : Str) : PyVal → Option PyVal
  | .dict r =>
    match lookup r (lit "file") with
    | some (.str f) => some (.dict (put r (lit "file") (.str (relativeTo f b))))
    | _ => none
  | _ => none

def mapOpt (f : α → Option β) : List α → Option (List β)
  | [] => some []
  | x :: xs => match f x, mapOpt f xs with
    | some y, some ys => some (y :: ys)
    | _, _ => none

/-- `ExtraFiles.dump_for_tree(output, variant, arch, basepath)` as a state transformer: the manifest afterwards and
the text written.  The loop body is read from the source (`Gen.dump_for_tree_mode`): a fresh dict per entry leaves
the manifest alone; rewriting the stored record in place does not (that variant is modelled so that the model keeps
following a library that does it; `C12_dump_for_tree_pure` is what says the current source does not). -/
def ExtraFiles.dumpForTreeS (s : PyVal) (variant arch basepath : Str) : PyVal × Except Err Str :=
  match Gen.dump_for_tree_mode with
  | .copy => (s, dumpForTree s variant arch basepath)
  | .inPlace =>
    match s with
    | .dict top =>
      match lookup top variant with
      | some (.dict am) =>
        match lookup am arch with
        | some (.list l) =>
          match mapOpt (stripInPlace basepath) l with
          | some l' =>
            (.dict (put top variant (.dict (put am arch (.list l')))),
             .ok (JsonText.dumps (.dict [(lit "header", .dict [(lit "version", .str (lit "1.0"))]), (lit "data", .list l')])))
          | none => (s, .error .other)
        | some _ => (s, .error .other)
        | none => (s, .error .keyError)
      | some _ => (s, .error .typeError)
      | none => (s, .error .keyError)
    | _ => (s, .error .typeError)
  | .unknown => (s, .error .other)

/-- `obj[variant]` (`__getitem__`): a read -/
def getVariant (s : PyVal) (variant : Str) : PyVal × Except Err PyVal := (s, getItem s variant)

/-! ### histories -/

inductive Kind where
  | rpms | modules | extraFiles
deriving DecidableEq, Repr

inductive AddOp where
  | rpms (a : RpmsArgs)
  | modules (a : ModulesArgs)
  | extra (a : ExtraArgs)
deriving Repr

def AddOp.kind : AddOp → Kind
  | .rpms _ => .rpms
  | .modules _ => .modules
  | .extra _ => .extraFiles

def step (s : PyVal) : AddOp → PyVal × Out
  | .rpms a => Rpms.add s a
  | .modules a => Modules.add s a
  | .extra a => ExtraFiles.add s a

/-- the mapping of a freshly constructed manifest -/
def empty : PyVal := .dict []

/-- state after a history of calls (refused calls included: they return the state they leave) -/
def runOps (s : PyVal) (ops : List AddOp) : PyVal := ops.foldl (fun st op => (step st op).1) s

/-- mapping after a history of `Rpms.add` calls (refused ones included) -/
def runRpms (s : PyVal) (h : List RpmsArgs) : PyVal := h.foldl (fun st a => (Rpms.add st a).1) s
def runModules (s : PyVal) (h : List ModulesArgs) : PyVal := h.foldl (fun st a => (Modules.add st a).1) s
def runExtra (s : PyVal) (h : List ExtraArgs) : PyVal := h.foldl (fun st a => (ExtraFiles.add st a).1) s

/-- state and outcome after every call -/
def trace (s : PyVal) : List AddOp → List (PyVal × Out)
  | [] => []
  | op :: rest => let r := step s op; r :: trace r.1 rest

end PM.Mf
