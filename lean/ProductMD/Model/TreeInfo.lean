import ProductMD.Model.Ini
import ProductMD.Model.Customs
import ProductMD.Generated.Tables
import ProductMD.Generated.TreeInfoGeneral
import ProductMD.Generated.Checksums
/-!
Model of `productmd/treeinfo.py` for the CURRENT format: the writer (`TreeInfo.serialize`, every section class,
the legacy `[general]` mirror) and the reader for header versions > 0.3 (the `deserialize_1_0` branches).
The version gates of the code are kept visible (`Gate`): the 0.0 and ≤ 0.3 readers are not modelled here and
answer `Err.other` (they belong to C05).

A tree is a typed record (strings, optional strings, integers); every `validate()` the code runs is run here
through the rule lists regenerated from the source (`validateClass`), on the `Obj` view of the record.
Python dicts are association lists in insertion order.  A variant carries the key under which its container
files it (`key`), children are a rose tree (the parent pointer of a child is the variant whose `kids` holds it,
which is the state every `add` produces).

Floats are never computed: a float build timestamp is a token carrying its `repr` and its `int()`;
`int(float(text))` of the reader is a parameter (`FloatOracle`).
-/
namespace PM
namespace TI
open Ini

/-- `int(float(s))` and `repr(float(s))` of CPython, as an opaque parameter -/
structure FloatOracle where
  intOfFloatStr : Str → Except Err Int
  reprOfFloatStr : Str → Except Err Str

/-- `Tree.build_timestamp`: an integer, or a float token (`repr`, `int(x)`) -/
inductive Ts where
  | int (n : Int)
  | float (repr : Str) (toInt : Except Err Int)
  | bool (b : Bool)                -- `build_timestamp = True`: an int to `isinstance` (F43); refused by the repaired `_assert_type`

def Ts.str : Ts → Str | .int n => Str.intStr n | .float r _ => r | .bool b => (if b then "True" else "False").toList
def Ts.toInt : Ts → Except Err Int | .int n => .ok n | .float _ t => t | .bool b => .ok (if b then 1 else 0)
def Ts.py : Ts → PyVal | .int n => .int n | .float r _ => .float r | .bool b => .bool b

structure Product where
  name : Str
  short : Str
  version : Str

structure Tree where
  arch : Str
  ts : Ts
  platforms : List Str            -- a set

inductive Variant where
  | mk (key id uid name type : Str) (paths : List (Str × Str)) (kids : List Variant)

namespace Variant
def key : Variant → Str | .mk k _ _ _ _ _ _ => k
def id : Variant → Str | .mk _ i _ _ _ _ _ => i
def uid : Variant → Str | .mk _ _ u _ _ _ _ => u
def name : Variant → Str | .mk _ _ _ n _ _ _ => n
def type : Variant → Str | .mk _ _ _ _ t _ _ => t
def paths : Variant → List (Str × Str) | .mk _ _ _ _ _ p _ => p
def kids : Variant → List Variant | .mk _ _ _ _ _ _ k => k
end Variant

structure TreeInfo where
  headerVersion : Str
  release : Product
  isLayered : Bool
  baseProduct : Option Product
  tree : Tree
  variants : List Variant
  checksums : List (Str × Str × Str)            -- path ↦ (type, value)
  images : List (Str × List (Str × Str))        -- platform ↦ image ↦ path
  mainimage : Option Str
  instimage : Option Str
  discnum : Option Int
  totaldiscs : Option Int

/-! ### constants -/
def sHeader : Str := "header".toList
def sRelease : Str := "release".toList
def sBase : Str := "base_product".toList
def sTree : Str := "tree".toList
def sChecksums : Str := "checksums".toList
def sStage2 : Str := "stage2".toList
def sMedia : Str := "media".toList
def sGeneral : Str := "general".toList
def kName : Str := "name".toList
def kShort : Str := "short".toList
def kVersion : Str := "version".toList
def kType : Str := "type".toList
def kIsLayered : Str := "is_layered".toList
def kArch : Str := "arch".toList
def kPlatforms : Str := "platforms".toList
def kBuildTs : Str := "build_timestamp".toList
def kVariants : Str := "variants".toList
def kId : Str := "id".toList
def kUid : Str := "uid".toList
def kParent : Str := "parent".toList
def kAddons : Str := "addons".toList
def kMainimage : Str := "mainimage".toList
def kInstimage : Str := "instimage".toList
def kDiscnum : Str := "discnum".toList
def kTotaldiscs : Str := "totaldiscs".toList
def kWarn0 : Str := "; WARNING.0".toList
def kWarn1 : Str := "; WARNING.1".toList
def vWarn0 : Str := "This section provides compatibility with pre-productmd treeinfos.".toList
def vWarn1 : Str := "Read productmd documentation for details about new format.".toList
def kFamily : Str := "family".toList
def kTimestamp : Str := "timestamp".toList
def kPackagedir : Str := "packagedir".toList
def kRepository : Str := "repository".toList
def tAddon : Str := "addon".toList
def tVariant : Str := "variant".toList
def pAddon : Str := "addon-".toList
def pVariant : Str := "variant-".toList
def pImages : Str := "images-".toList

/-- `".".join(str(i) for i in VERSION)` -/
def currentVersion : Str := Str.natStr Gen.VERSION.1 ++ '.' :: Str.natStr Gen.VERSION.2

/-- `Variant._section` -/
def secName (type uid : Str) : Str := if type == tAddon then pAddon ++ uid else pVariant ++ uid

/-! ### `Obj` views for the generated validators -/
def optStr : Option Str → PyVal | some s => .str s | none => .none
def optInt : Option Int → PyVal | some n => .int n | none => .none

def productObj (p : Product) : Obj :=
  [(kName, .str p.name), (kShort, .str p.short), (kVersion, .str p.version)]

def releaseObj (p : Product) (layered : Bool) : Obj := productObj p ++ [(kIsLayered, .bool layered)]

def treeObj (t : Tree) : Obj :=
  [(kArch, .str t.arch), (kBuildTs, t.ts.py), (kPlatforms, .list (t.platforms.map .str))]

def kidSummary (parentNone : Bool) (v : Variant) : Str × PyVal :=
  (v.key, .dict [(kId, .str v.id), (kUid, .str v.uid), (kType, .str v.type), ("parent_none".toList, .bool parentNone)])

def variantObj (parentUid : Option Str) (id uid name type : Str) (kids : List Variant) : Obj :=
  [(kId, .str id), (kUid, .str uid), (kName, .str name), (kType, .str type),
   (kParent, match parentUid with | some p => .dict [(kUid, .str p)] | none => .none),
   (kVariants, .dict (kids.map (kidSummary false)))]

def variantsObj (tops : List Variant) : Obj := [(kVariants, .dict (tops.map (kidSummary true)))]

def imagesObj (images : List (Str × List (Str × Str))) (platforms : List Str) : Obj :=
  [("images".toList, .dict (images.map fun p => (p.1, .dict (p.2.map fun kv => (kv.1, .str kv.2))))),
   ("tree.platforms".toList, .list (platforms.map .str))]

def stage2Obj (m i : Option Str) : Obj := [(kMainimage, optStr m), (kInstimage, optStr i)]

def checksumsObj (cs : List (Str × Str × Str)) : Obj :=
  [(sChecksums, .dict (cs.map fun c => (c.1, .list [.str c.2.1, .str c.2.2])))]

def mediaObj (a b : Option Int) : Obj := [(kDiscnum, optInt a), (kTotaldiscs, optInt b)]

def headerObj (version : Str) : Obj := [(kVersion, .str version)]

/-! ### writer -/

/-- consecutive `parser.set(section, k, v)` calls -/
def sets (d : Ini) (s : Str) : List (Str × Str) → Except Err Ini
  | [] => .ok d
  | kv :: rest => match Ini.set d s kv.1 kv.2 with
    | .ok d' => sets d' s rest
    | .error e => .error e

/-- the options `VariantPaths.serialize` writes: the generated field list, in its order, for fields that are set -/
def pathOpts (paths : List (Str × Str)) : List (Str × Str) :=
  Gen.TREEINFO_PATH_FIELDS.filterMap fun f => (paths.lookup f).map fun v => (f, v)

def serHeader (version : Str) (d : Ini) : Except Err Ini := do
  validateClass "treeinfo.Header" (headerObj version)
  let d ← addSection d sHeader
  sets d sHeader [(kVersion, currentVersion), (kType, Gen.HEADER_TYPE_TreeInfo)]

def serRelease (p : Product) (layered : Bool) (d : Ini) : Except Err Ini := do
  validateClass "treeinfo.Release" (releaseObj p layered)
  let d ← addSection d sRelease
  sets d sRelease ([(kName, p.name), (kVersion, p.version), (kShort, p.short)]
    ++ if layered then [(kIsLayered, "true".toList)] else [])

def serBase (bp : Option Product) (d : Ini) : Except Err Ini :=
  match bp with
  | none => .error .typeError                      -- unset fields are `None`: `_validate_name` refuses
  | some p => do
    validateClass "treeinfo.BaseProduct" (productObj p)
    let d ← addSection d sBase
    sets d sBase [(kName, p.name), (kVersion, p.version), (kShort, p.short)]

/-- `if self.release.is_layered: self.base_product.serialize(parser)` -/
def serBaseIf (layered : Bool) (bp : Option Product) (d : Ini) : Except Err Ini :=
  if layered then serBase bp d else .ok d

/-- `",".join(sorted(platforms | set([arch])))` -/
def platformsStr (t : Tree) : Str := Str.joinWith ',' (Str.sortDedup (t.platforms ++ [t.arch]))

def serTree (t : Tree) (d : Ini) : Except Err Ini := do
  validateClass "treeinfo.Tree" (treeObj t)
  let d ← addSection d sTree
  sets d sTree [(kArch, t.arch), (kPlatforms, platformsStr t), (kBuildTs, t.ts.str)]

/-- `if self.parent: parser.set(section, "parent", self.parent.uid)` -/
def parentOpt : Option Str → List (Str × Str)
  | some p => [(kParent, p)]
  | none => []

mutual
/-- `Variant.serialize` (`pu`: UID of the parent, `none` at top level) -/
def serVariant (pu : Option Str) (d : Ini) : Variant → Except Err Ini
  | .mk _ id uid name type paths kids =>
    match validateClass "treeinfo.Variant" (variantObj pu id uid name type kids) with
    | .error e => .error e
    | .ok () =>
    match addSection d (secName type uid) with
    | .error e => .error e
    | .ok d1 =>
    match sets d1 (secName type uid) ([(kId, id), (kUid, uid), (kName, name), (kType, type)]) with
    | .error e => .error e
    | .ok d2 =>
    match validateClass "treeinfo.VariantPaths" [] with
    | .error e => .error e
    | .ok () =>
    match sets d2 (secName type uid) (pathOpts paths ++ parentOpt pu) with
    | .error e => .error e
    | .ok d3 =>
    match serVariants (some uid) d3 kids with
    | .error e => .error e
    | .ok d4 =>
      if kids.isEmpty then .ok d4
      else Ini.set d4 (secName type uid) kAddons (Str.joinWith ',' (Str.sortDedup (kids.map Variant.uid)))
def serVariants (pu : Option Str) (d : Ini) : List Variant → Except Err Ini
  | [] => .ok d
  | v :: vs => match serVariant pu d v with
    | .error e => .error e
    | .ok d' => serVariants pu d' vs
end

/-- `Variants.serialize` -/
def serTops (tops : List Variant) (d : Ini) : Except Err Ini := do
  validateClass "treeinfo.Variants" (variantsObj tops)
  let d ← Ini.set d sTree kVariants (Str.joinWith ',' (Ini.sortS (tops.map Variant.uid)))
  serVariants none d tops

def serChecksums (cs : List (Str × Str × Str)) (d : Ini) : Except Err Ini := do
  validateClass "treeinfo.Checksums" (checksumsObj cs)
  if cs.isEmpty then .ok d
  else
    let d ← addSection d sChecksums
    sets d sChecksums (cs.map fun c => (c.1, c.2.1 ++ ':' :: c.2.2))

def serImagePlatforms (d : Ini) : List (Str × List (Str × Str)) → Except Err Ini
  | [] => .ok d
  | p :: ps => match addSection d (pImages ++ p.1) with
    | .error e => .error e
    | .ok d1 => match sets d1 (pImages ++ p.1) p.2 with
      | .error e => .error e
      | .ok d2 => serImagePlatforms d2 ps

def serImages (images : List (Str × List (Str × Str))) (platforms : List Str) (d : Ini) : Except Err Ini :=
  if images.isEmpty then .ok d
  else do
    validateClass "treeinfo.Images" (imagesObj images platforms)
    serImagePlatforms d images

def optTruthy : Option Str → Bool | some s => !s.isEmpty | none => false
def intTruthy : Option Int → Bool | some n => n != 0 | none => false

def serStage2 (m i : Option Str) (d : Ini) : Except Err Ini :=
  if !optTruthy m && !optTruthy i then .ok d
  else do
    validateClass "treeinfo.Stage2" (stage2Obj m i)
    let d ← addSection d sStage2
    sets d sStage2 ((if optTruthy m then [(kMainimage, m.getD [])] else [])
      ++ (if optTruthy i then [(kInstimage, i.getD [])] else []))

def serMedia (a b : Option Int) (d : Ini) : Except Err Ini :=
  if !intTruthy a && !intTruthy b then .ok d
  else do
    validateClass "treeinfo.Media" (mediaObj a b)
    let d ← addSection d sMedia
    match a, b with
    | some x, some y => sets d sMedia [(kDiscnum, Str.intStr x), (kTotaldiscs, Str.intStr y)]
    | _, _ => .error .typeError                   -- `int(None)`

/-- `VariantBase.__getitem__` as `General.serialize` uses it on the top-level container (fuel: the name gets
strictly shorter on every descent) -/
def getItem : Nat → List Variant → Str → Except Err Variant
  | 0, _, _ => .error .other
  | f + 1, vs, name =>
    match vs.find? (·.key == name) with
    | some v => .ok v
    | none =>
      if name.contains '-' then
        match vs.find? (·.uid == name) with
        | some v => .ok v
        | none =>
          match Str.split1 '-' name with
          | [head, tail] =>
            match vs.find? (·.key == head) with
            | some v => getItem f v.kids tail
            | none => .error .keyError
          | _ => .error .other
      else .error .keyError

/-- the variant `[general]` describes: `main_variant`, else the first container key in sorted order -/
def chosenKey (tops : List Variant) (mainVariant : Option Str) : Except Err Str :=
  match mainVariant with
  | some m => .ok m
  | none => match Ini.sortS (tops.map Variant.key) with
    | k :: _ => .ok k
    | [] => .error .indexError

/-- the `tree.arch` values for which `General.serialize` falls back from path attribute `field` to `srcField`: the constants
of that `elif`, read from the source by the translator (`Generated/TreeInfoGeneral.lean`); `C17_src_fallback_documented` is the
obligation that they are `src` and nothing else -/
def srcFallbackArches (field srcField : Str) : List Str :=
  ((Gen.TREEINFO_GENERAL_PATH_BRANCHES.find? fun b => b.2.1 == field && b.2.2.1 == srcField).map (·.2.2.2)).getD []

def generalPath (arch : Str) (paths : List (Str × Str)) (field srcField : Str) : Option Str :=
  match paths.lookup field with
  | some p => some p
  | none => if (srcFallbackArches field srcField).contains arch then paths.lookup srcField else none

/-- `if value is not None: parser.set(section, key, value)` -/
def setOpt (d : Ini) (s k : Str) : Option Str → Except Err Ini
  | some p => Ini.set d s k p
  | none => .ok d

/-- `General.serialize` -/
def serGeneral (t : TreeInfo) (mainVariant : Option Str) (d : Ini) : Except Err Ini := do
  let d ← addSection d sGeneral
  let d ← sets d sGeneral
    [(kWarn0, vWarn0),
     (kWarn1, vWarn1),
     (kName, t.release.name ++ ' ' :: t.release.version),
     (kFamily, t.release.name),
     (kVersion, t.release.version),
     (kArch, t.tree.arch),
     (kPlatforms, platformsStr t.tree)]
  let n ← t.tree.ts.toInt
  let d ← Ini.set d sGeneral kTimestamp (Str.intStr n)
  let d ← Ini.set d sGeneral kVariants (Str.joinWith ',' (Ini.sortS (t.variants.map Variant.key)))
  let key ← chosenKey t.variants mainVariant
  let d ← Ini.set d sGeneral tVariant key
  let v ← getItem (key.length + 1) t.variants key
  let d ← setOpt d sGeneral kPackagedir (generalPath t.tree.arch v.paths "packages".toList "source_packages".toList)
  setOpt d sGeneral kRepository (generalPath t.tree.arch v.paths "repository".toList "source_repository".toList)

/-- `TreeInfo.serialize(parser, main_variant)` into the given parser -/
def serializeInto (t : TreeInfo) (mainVariant : Option Str) (d : Ini) : Except Err Ini := do
  validateClass "treeinfo.TreeInfo" []
  let d ← serHeader t.headerVersion d
  let d ← serRelease t.release t.isLayered d
  let d ← serBaseIf t.isLayered t.baseProduct d
  let d ← serTree t.tree d
  let d ← serTops t.variants d
  let d ← serChecksums t.checksums d
  let d ← serImages t.images t.tree.platforms d
  let d ← serStage2 t.mainimage t.instimage d
  let d ← serMedia t.discnum t.totaldiscs d
  serGeneral t mainVariant d

/-- `TreeInfo.dump`: validate, then serialise into a fresh parser (the document `build_file` writes) -/
def serialize (t : TreeInfo) (mainVariant : Option Str) : Except Err Ini := do
  validateClass "treeinfo.TreeInfo" []
  serializeInto t mainVariant []

/-! ### reader (header version > 0.3) -/

/-- the three readers the code selects between by `header.version_tuple` -/
inductive Gate where
  | v0_0        -- `== (0, 0)`: pre-productmd files (C05, not modelled here)
  | v0_3        -- `<= (0, 3)`: `[product]` era (C05, not modelled here)
  | v1_0        -- otherwise: `deserialize_1_0`
deriving DecidableEq, Repr

/-- `Header.version_tuple`: validate, then `split_version` (ASCII digits only in the model) -/
def versionTuple (version : Str) : Except Err (Nat × Nat) := do
  validateClass "treeinfo.Header" (headerObj version)
  match Str.splitOn '.' version with
  | [a, b] =>
    match (Str.pyInt a), (Str.pyInt b) with
    | .ok (.ofNat x), .ok (.ofNat y) => .ok (x, y)
    | _, _ => .error .other
  | _ => .error .other

def tupleLe (a b : Nat × Nat) : Bool := a.1 < b.1 || (a.1 == b.1 && a.2 ≤ b.2)

def gateOf (vt : Nat × Nat) : Gate :=
  if vt == (0, 0) then .v0_0 else if tupleLe vt (0, 3) then .v0_3 else .v1_0

/-- `Header.deserialize`: the version found (or the initial "0.0") -/
def deHeader (d : Ini) : Except Err Str := do
  let version ←
    if hasOption d sHeader kVersion then do
      let v ← get d sHeader kVersion
      let vt ← versionTuple v
      if tupleLe (1, 1) vt then
        let mt ← get d sHeader kType
        if mt != Gen.HEADER_TYPE_TreeInfo then .error .valueError else pure v
      else pure v
    else pure "0.0".toList
  validateClass "treeinfo.Header" (headerObj version)
  pure version

def deRelease (g : Gate) (d : Ini) : Except Err (Product × Bool) :=
  match g with
  | .v0_0 | .v0_3 => .error .other
  | .v1_0 => do
    let name ← get d sRelease kName
    let version ← get d sRelease kVersion
    let short ← if hasOption d sRelease kShort then get d sRelease kShort else pure name
    let layered ← if hasOption d sRelease kIsLayered then getBoolean d sRelease kIsLayered else pure false
    validateClass "treeinfo.Release" (releaseObj ⟨name, short, version⟩ layered)
    pure (⟨name, short, version⟩, layered)

def deBase (d : Ini) : Except Err Product := do
  let name ← get d sBase kName
  let version ← get d sBase kVersion
  let short ← get d sBase kShort
  validateClass "treeinfo.BaseProduct" (productObj ⟨name, short, version⟩)
  pure ⟨name, short, version⟩

def splitNonEmpty (s : Str) : List Str := (Str.splitOn ',' s).filter (!·.isEmpty)

def deTree (fo : FloatOracle) (g : Gate) (d : Ini) : Except Err Tree :=
  match g with
  | .v0_0 => .error .other
  | .v0_3 | .v1_0 => do
    let sec := if hasSection d sTree then sTree else sGeneral
    let arch ← get d sec kArch
    let platforms := splitNonEmpty (← get d sec kPlatforms)
    let ts ← if sec == sTree then (get d sTree kBuildTs).bind fo.intOfFloatStr else pure (-1)
    validateClass "treeinfo.Tree" (treeObj ⟨arch, .int ts, platforms⟩)
    pure ⟨arch, .int ts, platforms⟩

/-- `VariantPaths.deserialize_1_0` -/
def dePaths (d : Ini) (sec : Str) : List Str → Except Err (List (Str × Str))
  | [] => .ok []
  | f :: fs =>
    if hasOption d sec f then
      match get d sec f with
      | .error e => .error e
      | .ok v => match dePaths d sec fs with
        | .error e => .error e
        | .ok rest => .ok ((f, v) :: rest)
    else dePaths d sec fs

/-- `container.add(child)` for a freshly read child: refuse a key that is already filed -/
def addKid (acc : List Variant) (v : Variant) : Except Err (List Variant) :=
  if acc.any (·.key == v.key) then .error .valueError else .ok (acc ++ [v])

/-- the loop `for uid in uids: child = read(uid); container.add(child)` -/
def loopAdd (rd : Str → Except Err Variant) : List Str → List Variant → Except Err (List Variant)
  | [], acc => .ok acc
  | u :: us, acc =>
    match rd u with
    | .error e => .error e
    | .ok v => match addKid acc v with
      | .error e => .error e
      | .ok acc' => loopAdd rd us acc'

/-- the type a variant has before its section is read: `addon=True` for children gives "addon", or "variant" when
there is no `addon-` section (F7); nothing yet for a top-level variant -/
def type0Of (d : Ini) (pu : Option Str) (uid0 : Str) : Str :=
  match pu with
  | some _ => if hasSection d (secName tAddon uid0) then tAddon else tVariant
  | none => []

/-- `Variant.deserialize(parser, uid, addon)` followed by the container's `add` checks on the result
(`pu`: UID of the variant being filled, `none` for the top-level container; fuel bounds the nesting depth) -/
def deVariant (g : Gate) (d : Ini) : Nat → Option Str → Str → Except Err Variant
  | 0, _, _ => .error .runtimeError                       -- recursion limit
  | f + 1, pu, uid0 =>
    match g with
    | .v0_0 | .v0_3 => .error .other
    | .v1_0 =>
    if uid0.isEmpty then .error .valueError else
    let type0 : Str := type0Of d pu uid0
    match get d (secName type0 uid0) kId with
    | .error e => .error e
    | .ok id =>
    match get d (secName type0 uid0) kUid with
    | .error e => .error e
    | .ok uid =>
    match get d (secName type0 uid) kName with
    | .error e => .error e
    | .ok name =>
    match get d (secName type0 uid) kType with
    | .error e => .error e
    | .ok type =>
    match (if hasOption d (secName type uid) kAddons then
             match get d (secName type uid) kAddons with
             | .error e => .error e
             | .ok s => loopAdd (deVariant g d f (some uid)) (splitNonEmpty s) []
           else .ok [] : Except Err (List Variant)) with
    | .error e => .error e
    | .ok kids =>
    match dePaths d (secName type uid) Gen.TREEINFO_PATH_FIELDS with
    | .error e => .error e
    | .ok paths =>
    match validateClass "treeinfo.VariantPaths" [] with
    | .error e => .error e
    | .ok () =>
    -- `add`: parent pointer, `variant.validate()`, key = id under a variant / UID at top level
    match validateClass "treeinfo.Variant" (variantObj pu id uid name type kids) with
    | .error e => .error e
    | .ok () =>
      let key := match pu with
        | some _ => id
        | none => if uid.isEmpty then id else uid
      .ok (.mk key id uid name type paths kids)

/-- `Variants.deserialize` -/
def deTops (g : Gate) (d : Ini) : Except Err (List Variant) :=
  match g with
  | .v0_0 => .error .other
  | .v0_3 | .v1_0 => do
    let uids ← if hasOption d sTree kVariants then (get d sTree kVariants).map (Str.splitOn ',') else pure []
    let tops ← loopAdd (deVariant g d (d.length + 1) none) uids []
    validateClass "treeinfo.Variants" (variantsObj tops)
    pure tops

def checksumOf (value : Str) : Except Err (Str × Str) :=
  if !value.contains ':' then
    -- `if not all(c in string.hexdigits for c in value): raise ValueError` (F36 fix; flag and digits from the source)
    if Gen.legacyHexGuard && !(value.all fun c => Gen.legacyHexDigits.contains c) then .error .valueError
    else if value.length == 32 then .ok ("md5".toList, value)
    else if value.length == 40 then .ok ("sha1".toList, value)
    else if value.length == 64 then .ok ("sha256".toList, value)
    else .error .valueError
  else match Str.splitOn ':' value with
    | [a, b] => .ok (a, b)
    | _ => .error .valueError

def deChecksumItems : List (Str × Str) → List (Str × Str × Str) → Except Err (List (Str × Str × Str))
  | [], acc => .ok acc
  | kv :: rest, acc => match checksumOf kv.2 with
    | .error e => .error e
    | .ok tv => deChecksumItems rest (setKV kv.1 tv acc)

def deChecksums (d : Ini) : Except Err (List (Str × Str × Str)) := do
  let cs ← if hasSection d sChecksums then (items d sChecksums).bind fun its => deChecksumItems its [] else pure []
  validateClass "treeinfo.Checksums" (checksumsObj cs)
  pure cs

/-- platform of an `images-*` section: the tree architecture suffix is dropped -/
def platformOf (arch sec : Str) : Str :=
  let p := sec.drop 7
  if p != arch && Str.endsWith p ('-' :: arch) then p.take (p.length - arch.length - 1) else p

def deImageSections (d : Ini) (arch : Str) :
    List Str → List (Str × List (Str × Str)) → Except Err (List (Str × List (Str × Str)))
  | [], acc => .ok acc
  | s :: ss, acc =>
    if Str.startsWith s pImages then
      match items d s with
      | .error e => .error e
      | .ok its =>
        -- `path = parser.get(section, image)` re-reads each value; `images[platform][image] = path`
        deImageSections d arch ss (setKV (platformOf arch s) (its.foldl (fun m kv => setKV kv.1 kv.2 m) []) acc)
    else deImageSections d arch ss acc

def deImages (d : Ini) (tree : Tree) : Except Err (List (Str × List (Str × Str))) := do
  let images ← deImageSections d tree.arch (sections d) []
  validateClass "treeinfo.Images" (imagesObj images tree.platforms)
  pure images

def deStage2 (d : Ini) : Except Err (Option Str × Option Str) := do
  let m ← if hasOption d sStage2 kMainimage then (get d sStage2 kMainimage).map some else pure none
  let i ← if hasOption d sStage2 kInstimage then (get d sStage2 kInstimage).map some else pure none
  validateClass "treeinfo.Stage2" (stage2Obj m i)
  pure (m, i)

def deMedia (g : Gate) (d : Ini) : Except Err (Option Int × Option Int) :=
  match g with
  | .v0_0 => .error .other
  | .v0_3 | .v1_0 => do
    let r ← if hasSection d sMedia then do
        let a ← (get d sMedia kDiscnum).bind Str.pyInt
        let b ← (get d sMedia kTotaldiscs).bind Str.pyInt
        pure (some a, some b)
      else pure (none, none)
    validateClass "treeinfo.Media" (mediaObj r.1 r.2)
    pure r

/-- `TreeInfo.deserialize(parser)` on a fresh object -/
def deserialize (fo : FloatOracle) (d : Ini) : Except Err TreeInfo := do
  let version ← deHeader d
  let vt ← versionTuple version
  let g := gateOf vt
  let (release, layered) ← deRelease g d
  let bp ← if layered then (deBase d).map some else pure none
  let tree ← deTree fo g d
  let tops ← deTops g d
  let cs ← deChecksums d
  let images ← deImages d tree
  let (m, i) ← deStage2 d
  let (a, b) ← deMedia g d
  validateClass "treeinfo.TreeInfo" []
  pure { headerVersion := currentVersion, release := release, isLayered := layered, baseProduct := bp, tree := tree,
         variants := tops, checksums := cs, images := images, mainimage := m, instimage := i,
         discnum := a, totaldiscs := b }

/-! ### the documented normalisation a write/read cycle applies -/

mutual
/-- a variant as it comes back: filed under its UID at top level and under its id below, only the known path
kinds, children in the order of the `addons` list (sorted UIDs) -/
def normV (top : Bool) : Variant → Variant
  | .mk _ id uid name type paths kids =>
    .mk (if top then uid else id) id uid name type (pathOpts paths) (sortBy Variant.uid (normVs kids))
def normVs : List Variant → List Variant
  | [] => []
  | v :: vs => normV false v :: normVs vs
end

def normTops : List Variant → List Variant
  | [] => []
  | v :: vs => normV true v :: normTops vs

/-- what `loads(dumps(t))` is: header at the current version; base product only when layered; the tree
architecture among the platforms; dictionaries in `SortedDict` order; falsy stage2 / media values unset -/
def norm (t : TreeInfo) : TreeInfo :=
  { headerVersion := currentVersion
    release := t.release
    isLayered := t.isLayered
    baseProduct := if t.isLayered then t.baseProduct else none
    tree := { t.tree with platforms := Str.sortDedup (t.tree.platforms ++ [t.tree.arch]) }
    variants := sortBy Variant.uid (normTops t.variants)
    checksums := sortKV t.checksums
    images := sortKV (t.images.map fun p => (p.1, sortKV p.2))
    mainimage := if optTruthy t.mainimage then t.mainimage else none
    instimage := if optTruthy t.instimage then t.instimage else none
    discnum := if !intTruthy t.discnum && !intTruthy t.totaldiscs then none else t.discnum
    totaldiscs := if !intTruthy t.discnum && !intTruthy t.totaldiscs then none else t.totaldiscs }

end TI
end PM
