/-!
Call structure of the library's (de)serialisers as data (`Generated/Structure.lean`, written by tools/gen_structure.py):
per method the events of the body in source order.  The functions below are the only way the hand-written models read
that data; each of them answers `true` only on an exact, unconditional match, so an unrecognised shape can only break an
obligation.  Core Lean only.
-/
namespace PM

structure SEvent where
  kind : String            -- "validate" | "call" | "return" | "raise" | "pure" | "other"
  what : String            -- receiver of validate / "recv.method" of a nested call / exception class
  guards : List String     -- "if:<path>" "ifnot:<path>" "ifeq:<path>=<lit>" "gate:<name>" "notgate:<name>" "for:<src>" "unknown:<src>"
deriving DecidableEq, Repr

namespace SEvent

def isValidateSelf (e : SEvent) : Bool := e.kind == "validate" && e.what == "self" && e.guards.isEmpty
def isPure (e : SEvent) : Bool := e.kind == "pure"

end SEvent

/-- `self.validate()` is the first thing the method does (only effect-free local assignments before it) -/
def validatesFirst (evs : List SEvent) : Bool :=
  match evs.dropWhile SEvent.isPure with
  | e :: _ => e.isValidateSelf
  | [] => false

/-- `self.validate()` is the last event of the method, unguarded, and no `return` precedes it
(so every normal exit of the method has passed it) -/
def validatesLast (evs : List SEvent) : Bool :=
  match evs.reverse with
  | e :: before => e.isValidateSelf && before.all (fun x => x.kind != "return")
  | [] => false

/-- `self.validate()` is called unguarded somewhere, no `return` before it (every normal exit passes it) -/
def validatesAlways (evs : List SEvent) : Bool :=
  match evs.span (fun e => !e.isValidateSelf) with
  | (before, _ :: _) => before.all (fun x => x.kind != "return")
  | (_, []) => false

/-- `self.validate()` directly after the given unguarded call (`Header.serialize`: set the version, then validate) -/
def validatesAfterCall (evs : List SEvent) (call : String) : Bool :=
  match evs.dropWhile SEvent.isPure with
  | c :: e :: _ => c.kind == "call" && c.what == call && c.guards.isEmpty && e.isValidateSelf
  | _ => false

/-- the method validates after zero or more early exits, each of the exact form `if <guard>: return`, and nothing else
before it (`Stage2/Media/Images.serialize` of treeinfo) -/
def validatesAfterEarlyReturn (evs : List SEvent) (guards : List String) : Bool :=
  match evs.dropWhile SEvent.isPure with
  | r :: e :: _ => r.kind == "return" && r.guards == guards && e.isValidateSelf
  | _ => false

/-- the validate events and nested calls of a method with their guards, everything else dropped -/
def callSeq (evs : List SEvent) : List (String × String × List String) :=
  (evs.filter fun e => e.kind == "validate" || e.kind == "call").map fun e => (e.kind, e.what, e.guards)

def lookupStruct (all : List (String × List SEvent)) (m : String) : List SEvent :=
  ((all.find? (·.1 == m)).map (·.2)).getD []

end PM
