/-!
Statement shapes of `VariantBase.add` (C11).  `tools/gen_forest.py` classifies the statements of the method in the current
source into these constructors (`Generated/ForestStruct.lean`); `Model/Forest.lean` gives each one its meaning and
interprets the generated script, so the ORDER of the mutations in the model is the order in the source.
-/
namespace PM.Forest

inductive AddStep where
  | saveParent        -- `old_parent = variant.parent`
  | parentIfVariant   -- `if hasattr(self, "uid"): variant.parent = self`           (only a `Variant` has a uid)
  | parentOrNone      -- `variant.parent = self if hasattr(self, "uid") else None`
  | validate          -- `variant.validate()`
  | pickKey           -- `variant_id = variant_id or variant.id`
  | cycleCheck        -- `if hasattr(self, "parent"): parents = self._get_all_parents(); if variant in parents: raise ValueError`
  | setdefault        -- `new_variant = self.variants.setdefault(variant_id, variant)`
  | dupRefuse         -- `if new_variant != variant: raise ValueError`               (identity comparison)
  | overwrite         -- `self.variants[variant_id] = variant`
  | unknown           -- anything else: no semantics, always fails
deriving DecidableEq, Repr

structure AddScript where
  pre : List AddStep          -- statements before the `try:` (all statements when there is none)
  body : List AddStep         -- statements of the `try:` block
  restore : Bool              -- handler is `except Exception: variant.parent = old_parent; raise`
  post : List AddStep         -- statements after the `try:`
deriving DecidableEq, Repr

end PM.Forest
