/-!
The statements `Images.add` is made of.  `Generated/ImagesStruct.lean` (tools/gen_images.py) lists the statements of
the current source in their order as a `List AddStep`; `Model/Images.lean` runs that list.  Core Lean only.
-/
namespace PM.Img

inductive AddStep where
  | archTable      -- `if arch not in productmd.common.RPM_ARCHES: raise ValueError`
  | srcRefusal     -- `if arch in [<literals>]: raise ValueError`
  | uniqScan       -- `if self.header.version_tuple <gate>: for … for … for …: if identify_image(cur) == identify_image(image) and cur.checksums != image.checksums: raise ValueError`
  | insert         -- `self.images.setdefault(variant, {}).setdefault(arch, set()).add(image)`
  | unknown        -- any other statement: no semantics (the model raises `Err.other`), treated as fallible and mutating
deriving DecidableEq, Repr

/-- may the statement change `self.images`? -/
def AddStep.mutates : AddStep → Bool
  | .insert | .unknown => true
  | _ => false

/-- may the statement raise? -/
def AddStep.fallible : AddStep → Bool
  | .insert => false
  | _ => true

/-- no statement that can raise comes after a statement that can mutate -/
def safeOrder : List AddStep → Bool
  | [] => true
  | st :: rest => if st.mutates then rest.all (fun r => !r.fallible) else safeOrder rest

/-- every insertion is preceded by a scan (`seen` = a scan has already run) -/
def scanGuard : List AddStep → Bool → Bool
  | [], _ => true
  | .uniqScan :: rest, _ => scanGuard rest true
  | .insert :: rest, seen => seen && scanGuard rest seen
  | _ :: rest, seen => scanGuard rest seen

end PM.Img
