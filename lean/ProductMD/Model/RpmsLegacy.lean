import ProductMD.Model.ManifestIO
import ProductMD.Model.ComposeId
import ProductMD.Model.PyOps
/-!
# C05: the legacy readers of the rpms manifest (`productmd/rpms.py`), selected by the generated gates

`Model/ManifestIO.lean` (C03) answers `Err.other` for `Rpms.deserialize_0_3` (`gate_rpms_Rpms_deserialize_0`,
`<= (0, 3)`) and for `Compose.deserialize_0_3` (`gate_composeinfo_Compose_deserialize_0`, `< (0, 3)`).  This file adds
both:

* the 0.3 manifest lives under `payload.manifest`: variant -> arch -> srpm nevra -> rpm nevra -> {path, sigkey, type};
  source RPMs are filed once per variant under the pseudo-arch `src` (srpm nevra -> {path, sigkey}).  The reader replays
  the manifest through `Rpms.add` (the C12 model, with its nine refusals and canonical NEVRA keys): every binary entry,
  type `package` renamed `binary`, and right after it - when the `src` table knows the source package - the source RPM
  itself with category `source`; the `src` arch is skipped;
* the compose section of documents older than 0.3: date/type/respin from the id (C15).

`deserializeL` is `deserialize` wherever the latter is defined (`Proofs/C05Rpms.lean`).
Out of the model (`Err.other`): a signing key that is neither a string nor null.
-/
namespace PM.Mf
open PM.PyOps (iter subscript item pyEq)

/-! ### compose section, older than 0.3 -/

def dateTypeRespinOf (id : PyVal) : Except Err (PyVal × PyVal × PyVal) :=
  match id with
  | .str s =>
    match getDateTypeRespin s with
    | .error e => .error e
    | .ok none => .ok (.none, .none, .none)
    | .ok (some (d, t, r)) => .ok (optStr d, .str t, .int r)
  | _ => .error .typeError

/-- `Compose.deserialize_0_3` + `validate()` -/
def composeDeserialize03 (data : PyVal) : Except Err Obj :=
  match getItem data (lit "compose") with
  | .error e => .error e
  | .ok sec =>
    match getItem sec (lit "id") with
    | .error e => .error e
    | .ok id =>
      match dictGetD sec (lit "label") .none with
      | .error e => .error e
      | .ok label0 =>
        let label := if label0.truthy then label0 else .none
        match getItem sec (lit "type") with
        | .error e => .error e
        | .ok _ =>
          match dateTypeRespinOf id with
          | .error e => .error e
          | .ok (date, ty, respin) =>
            match dictGetD sec (lit "final") (.bool false) with
            | .error e => .error e
            | .ok fin =>
              let c : Obj := [(lit "id", id), (lit "type", ty), (lit "date", date), (lit "respin", respin),
                              (lit "label", label), (lit "final", .bool fin.truthy)]
              match composeValidate c with
              | .error e => .error e
              | .ok () => .ok c

def composeDeserializeL (t : VTuple) (data : PyVal) : Except Err Obj :=
  match t with
  | .text => .error .typeError
  | .nums l =>
    if gateHolds Gen.gate_composeinfo_Compose_deserialize_0 l then composeDeserialize03 data
    else composeDeserialize t data

/-! ### the 0.3 manifest -/

/-- `Rpms.add(variant, arch, nevra, path, sigkey, category, srpm_nevra)` with path / sigkey / category as they come out of
the document (the checks of `add` in source order, then the typed C12 model) -/
def addDyn (s : PyVal) (variant arch nevra : Str) (path sigkey category : PyVal) (srpm : Option Str) : Except Err PyVal :=
  if !Gen.RPM_ARCHES.contains arch then .error .valueError
  else if srcArches.contains arch then .error .valueError
  else match category with
    | .str cat =>
      if !Gen.SUPPORTED_CATEGORIES.contains cat then .error .valueError else
      if !path.truthy then .error .valueError else          -- `if not path: raise ValueError` (fix c1ab7b7): None, "", 0, [], {} …
      match path with
      | .str p =>
        let sk : Option (Option Str) := match sigkey with
          | .none => some none
          | .str k => some (some k)
          | _ => none
        match sk with
        | none => .error .other                          -- unmodelled: `sigkey.lower()` on a non-string
        | some sigkey =>
          match Rpms.add s { variant, arch, nevra, path := p, sigkey, category := cat, srpm } with
          | (s', .ok ()) => .ok s'
          | (_, .error e) => .error e
      | _ => .error .attributeError                      -- `path.startswith`
    | _ => .error .valueError                            -- not in SUPPORTED_CATEGORIES

/-- `d.items()` -/
def dictItems : PyVal → Except Err (List (Str × PyVal))
  | .dict kvs => .ok kvs
  | _ => .error .attributeError

def sPackage : Str := lit "package"
def sBinary : Str := lit "binary"
def sSource : Str := lit "source"
def sSrcArch : Str := lit "src"

/-- the loop over the RPMs built from one source package -/
def loadRpms03 (variant arch srpm : Str) (srpmData : PyVal) : List (Str × PyVal) → PyVal → Except Err PyVal
  | [], s => .ok s
  | (nevra, data) :: rest, s =>
    match item data (lit "type") with
    | .error e => .error e
    | .ok cat0 =>
    let cat := if pyEq cat0 (.str sPackage) then .str sBinary else cat0
    match item data (lit "path") with
    | .error e => .error e
    | .ok path =>
    match item data (lit "sigkey") with
    | .error e => .error e
    | .ok sigkey =>
    match addDyn s variant arch nevra path sigkey cat (some srpm) with
    | .error e => .error e
    | .ok s1 =>
    match (match srpmData with
           | .none => (.ok s1 : Except Err PyVal)
           | sd =>
             match item sd (lit "path") with
             | .error e => .error e
             | .ok sp =>
             match item sd (lit "sigkey") with
             | .error e => .error e
             | .ok sk => addDyn s1 variant arch srpm sp sk (.str sSource) none) with
    | .error e => .error e
    | .ok s2 => loadRpms03 variant arch srpm srpmData rest s2

/-- the loop over the source packages of one (variant, arch) -/
def loadSrpms03 (variant arch : Str) (srcTable : PyVal) : List (Str × PyVal) → PyVal → Except Err PyVal
  | [], s => .ok s
  | (srpm, rpms) :: rest, s =>
    -- `payload[variant].get("src", {}).get(srpm_nevra, None)`
    match dictGetD srcTable srpm .none with
    | .error e => .error e
    | .ok srpmData =>
    match dictItems rpms with
    | .error e => .error e
    | .ok its =>
    match loadRpms03 variant arch srpm srpmData its s with
    | .error e => .error e
    | .ok s1 => loadSrpms03 variant arch srcTable rest s1

def strKey : PyVal → Except Err Str
  | .str s => .ok s
  | _ => .error .other                                   -- keys of a JSON object are strings

/-- the loop over the arches of one variant; `src` is skipped -/
def loadArches03 (variant : Str) (archs : PyVal) : List PyVal → PyVal → Except Err PyVal
  | [], s => .ok s
  | a :: rest, s =>
    if pyEq a (.str sSrcArch) then loadArches03 variant archs rest s
    else
      match subscript archs a with
      | .error e => .error e
      | .ok cell =>
      match dictItems cell with
      | .error e => .error e
      | .ok its =>
      match dictGetD archs sSrcArch (.dict []) with
      | .error e => .error e
      | .ok srcTable =>
      match strKey a with
      | .error e => .error e
      | .ok arch =>
      match loadSrpms03 variant arch srcTable its s with
      | .error e => .error e
      | .ok s1 => loadArches03 variant archs rest s1

def loadVariants03 (payload : PyVal) : List PyVal → PyVal → Except Err PyVal
  | [], s => .ok s
  | v :: rest, s =>
    match subscript payload v with
    | .error e => .error e
    | .ok archs =>
    match iter archs with
    | .error e => .error e
    | .ok keys =>
    match strKey v with
    | .error e => .error e
    | .ok variant =>
    match loadArches03 variant archs keys s with
    | .error e => .error e
    | .ok s1 => loadVariants03 payload rest s1

/-- the part of `Rpms.deserialize_0_3` after the compose section: `self.rpms` -/
def manifest03 (pl : PyVal) : Except Err PyVal :=
  match getItem pl (lit "manifest") with
  | .error e => .error e
  | .ok payload =>
    match iter payload with
    | .error e => .error e
    | .ok vs => loadVariants03 payload vs empty

/-- `deserialize(data)` on a fresh object, every header version -/
def deserializeL (k : Kind) (doc : PyVal) : Except Err Manifest :=
  match headerDeserialize k doc with
  | .error e => .error e
  | .ok (ver, t) =>
    let legacy : Bool := match k, t with
      | .rpms, .nums l => gateHolds Gen.gate_rpms_Rpms_deserialize_0 l
      | _, _ => false
    match getItem doc (lit "payload") with
    | .error e => .error e
    | .ok pl =>
      match composeDeserializeL t pl with
      | .error e => .error e
      | .ok c =>
        match (if legacy then manifest03 pl else getItem pl k.payloadKey) with
        | .error e => .error e
        | .ok payload =>
          match validateClass k.className [] with
          | .error e => .error e
          | .ok () =>
            .ok { version := (match k with | .rpms => .str currentVersion | _ => ver), compose := c, payload := payload }

end PM.Mf
