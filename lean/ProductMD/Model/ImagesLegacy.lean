import ProductMD.Model.Images
import ProductMD.Model.ComposeId
/-!
# C05: the legacy part of the images reader that `Model/Images.lean` leaves out

`Model/Images.lean` already carries the readers selected by the generated gates `gate_images_Image_deserialize_0`
(`<= (1, 0)`: subvariant defaults to `""`), `gate_images_Images_deserialize_0` (`<= (1, 1)`: `_add_1_1`, `src`
re-filing) and `gate_images_Images_add_0` (`>= (1, 1)`: identity scan).  What it answers with `Err.other` is the
compose section of documents older than 0.3 (`Compose.deserialize_0_3`: date, type and respin are decoded from the
compose id by `get_date_type_respin`, C15).  This file adds that branch and the manifest reader built on it;
`deserializeL` agrees with `deserialize` wherever the latter is defined (`Proofs/C05Images.lean`).
-/
namespace PM.Img
open PM PM.PyOps

def optStrVal : Option Str → PyVal
  | some s => .str s
  | none => .none

/-- `get_date_type_respin(self.id)` on a dynamically typed id: `pattern.match` raises TypeError on a non-string;
no 8-digit run gives `(None, None, None)` -/
def dateTypeRespinOf (id : PyVal) : Except Err (PyVal × PyVal × PyVal) :=
  match id with
  | .str s =>
    match getDateTypeRespin s with
    | .error e => .error e
    | .ok none => .ok (.none, .none, .none)
    | .ok (some (d, t, r)) => .ok (optStrVal d, .str t, .int r)
  | _ => .error .typeError

/-- `Compose.deserialize_0_3(data)`: the stored `type` must exist but is overwritten -/
def Compose.deserialize03 (payload : PyVal) : Except Err Compose := do
  let sec ← item payload (L "compose")
  let id ← item sec (L "id")
  let label0 ← getD sec (L "label") .none
  let _ ← item sec (L "type")
  let (date, type, respin) ← dateTypeRespinOf id
  let final0 ← getD sec (L "final") (.bool false)
  .ok { id, type, date, respin, label := pyOr label0 .none, final := .bool (pyBool final0) }

/-- `Compose.deserialize(data)` with both branches -/
def Compose.deserializeL (ver : PyVal) (payload : PyVal) : Except Err Compose := do
  let vt ← versionTuple ver
  let old ← gateEval Gen.gate_composeinfo_Compose_deserialize_0 vt
  if old then
    let c ← Compose.deserialize03 payload
    c.validate
    .ok c
  else Compose.deserialize ver payload

/-- `Images.deserialize(doc)` on a fresh object, every header version -/
def deserializeL (doc : PyVal) : Except Err ImgState := do
  let ver ← headerDeserialize doc
  let payload ← item doc (L "payload")
  let comp ← Compose.deserializeL ver payload
  let images ← item payload (L "images")
  let vs ← iter images
  let (s, _) ← loadVariants ver images vs ({ version := ver, compose := comp, cells := [] }, 0)
  .ok { s with version := .str currentVersion }

def loadsL (doc : PyVal) : Except Err ImgState := do
  let s ← deserializeL doc
  validateClass "images.Images" []
  .ok s

/-- load an old document, write it, load what was written, write again (documents, not bytes) -/
def upgradeCycle (doc : PyVal) : Except Err (ImgState × PyVal × ImgState × PyVal) := do
  let s ← loadsL doc
  let d1 ← (serialize s).2
  let s2 ← loadsL d1
  let d2 ← (serialize s2).2
  .ok (s, d1, s2, d2)

end PM.Img
