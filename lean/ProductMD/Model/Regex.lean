import ProductMD.Model.Str
/-
Backtracking regular-expression engine in CPython `sre` priority order.

`Re` is exactly the fragment the translator can emit (see DESIGN Appendix B);
anything else becomes `Re.bad`, which matches nothing and is never `safe`.

Three executable semantics over the same syntax:
* `m`    : list of successes (remaining suffixes), in priority order;
* `mc`   : the same with capture groups;
* `cost` : number of matcher nodes visited when every alternative is explored
           (no memoisation) – the upper envelope used by C19.
-/
namespace PM

/-- character class: finite union of closed code-point ranges, possibly negated -/
structure Cls where
  ranges : List (Nat × Nat)
  neg : Bool := false
deriving DecidableEq, Repr

def Cls.mem (k : Cls) (c : Char) : Bool :=
  (k.ranges.any fun r => r.1 ≤ c.toNat && c.toNat ≤ r.2) != k.neg

inductive Re where
  | eps
  | bol                       -- `^` (translator guarantees: only in leading position of a `match`)
  | eol                       -- `$` : at end, or just before a final line feed
  | cls (k : Cls)
  | cat (a b : Re)
  | alt (a b : Re)            -- left alternative first
  | star (a : Re)             -- greedy, body first
  | grp (n : Nat) (a : Re)    -- capture group number n
  | bad                       -- construct outside the modelled fragment
deriving DecidableEq, Repr

def isEol (s : Str) : Bool := s == [] || s == ['\n']

/-- greedy iteration of a body matcher: body first, then stop; an iteration must consume input
(CPython's guard against empty iterations).  Fuel = maximal number of iterations. -/
def starAux (body : Str → List Str) : Nat → Str → List Str
  | 0, s => [s]
  | f+1, s => ((body s).filter (fun s' => s'.length < s.length)).flatMap (starAux body f) ++ [s]

/-- list of successes: the suffix left after each way of matching a prefix of `s`,
most-preferred first.  The first argument is the iteration fuel for `star` (|s| suffices).
Structural recursion on the expression, so the kernel can evaluate it. -/
def m (f : Nat) : Re → Str → List Str
  | .eps, s => [s]
  | .bol, s => [s]
  | .eol, s => if isEol s then [s] else []
  | .cls k, s => match s with
      | c :: cs => if k.mem c then [cs] else []
      | [] => []
  | .cat a b, s => (m f a s).flatMap (m f b)
  | .alt a b, s => m f a s ++ m f b s
  | .star a, s => starAux (m f a) f s
  | .grp _ a, s => m f a s
  | .bad, _ => []

abbrev Caps := List (Nat × Str)

def Caps.get (c : Caps) (n : Nat) : Option Str := (c.find? (·.1 = n)).map (·.2)

def starAuxC (body : Str → Caps → List (Str × Caps)) : Nat → Str → Caps → List (Str × Caps)
  | 0, s, c => [(s, c)]
  | f+1, s, c => ((body s c).filter (fun p => p.1.length < s.length)).flatMap
        (fun p => starAuxC body f p.1 p.2) ++ [(s, c)]

/-- list of successes with capture groups (latest binding first) -/
def mc (f : Nat) : Re → Str → Caps → List (Str × Caps)
  | .eps, s, c => [(s, c)]
  | .bol, s, c => [(s, c)]
  | .eol, s, c => if isEol s then [(s, c)] else []
  | .cls k, s, c => match s with
      | x :: xs => if k.mem x then [(xs, c)] else []
      | [] => []
  | .cat a b, s, c => (mc f a s c).flatMap (fun p => mc f b p.1 p.2)
  | .alt a b, s, c => mc f a s c ++ mc f b s c
  | .star a, s, c => starAuxC (mc f a) f s c
  | .grp n a, s, c =>
      (mc f a s c).map (fun p => (p.1, (n, s.take (s.length - p.1.length)) :: p.2))
  | .bad, _, _ => []

def starCost (body : Str → List Str) (bodyCost : Str → Nat) : Nat → Str → Nat
  | 0, _ => 1
  | f+1, s => 1 + bodyCost s +
      (((body s).filter (fun s' => s'.length < s.length)).map (starCost body bodyCost f)).sum

/-- matcher nodes visited when all alternatives are explored -/
def cost (f : Nat) : Re → Str → Nat
  | .eps, _ => 1
  | .bol, _ => 1
  | .eol, _ => 1
  | .cls _, _ => 1
  | .cat a b, s => 1 + cost f a s + ((m f a s).map (cost f b)).sum
  | .alt a b, s => 1 + cost f a s + cost f b s
  | .star a, s => starCost (m f a) (cost f a) f s
  | .grp _ a, s => cost f a s        -- group marks are bookkeeping, not search
  | .bad, _ => 1

/-- `re.match(p, s) is not None` -/
def pyMatches (r : Re) (s : Str) : Bool := !(m s.length r s).isEmpty

/-- `re.match(p, s)`: captures of the preferred match, or none -/
def pyMatch (r : Re) (s : Str) : Option Caps := ((mc s.length r s []).head?).map (·.2)

/-- total work of a failing or succeeding `re.match` in the cost model -/
def pyCost (r : Re) (s : Str) : Nat := cost s.length r s

/-- `re.split(p, s)` for a pattern that is a single character class -/
def splitCls (k : Cls) : Str → List Str
  | [] => [[]]
  | c :: cs =>
    if k.mem c then [] :: splitCls k cs
    else match splitCls k cs with
      | [] => [[c]]
      | h :: t => (c :: h) :: t

/-! ### small constructors used by the translator -/
def Re.seq : List Re → Re
  | [] => .eps
  | [r] => r
  | r :: rs => .cat r (Re.seq rs)

def Re.alts : List Re → Re
  | [] => .bad
  | [r] => r
  | r :: rs => .alt r (Re.alts rs)

def Re.opt (r : Re) : Re := .alt r .eps
def Re.plus (r : Re) : Re := .cat r (.star r)
def Re.rep : Nat → Re → Re
  | 0, _ => .eps
  | 1, r => r
  | n+1, r => .cat r (Re.rep n r)

def Cls.lit (c : Char) : Cls := { ranges := [(c.toNat, c.toNat)] }
def Re.lit (c : Char) : Re := .cls (Cls.lit c)
def Re.str (s : String) : Re := Re.seq (s.toList.map Re.lit)
/-- `.` without DOTALL -/
def Cls.any : Cls := { ranges := [(10, 10)], neg := true }

end PM
