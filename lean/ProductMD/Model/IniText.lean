import ProductMD.Model.Ini
/-!
Text form of INI documents.

* `IniText.render` reproduces `SortedConfigParser.write` (CPython `RawConfigParser.write` over `SortedDict`s):
  `[DEFAULT]` first when present, then the sections sorted by name; inside a section the options sorted by name,
  each as `key = value` (a line feed inside a value becomes line feed + tab), one blank line after every section.
* `IniText.parse` is a line-based model of `RawConfigParser._read` as configured by the library
  (delimiters `=` and `:`, full-line comment prefixes `#` and `;`, no inline comments, strict, empty lines allowed
  in values, no value-less options): comments, blank lines, continuation lines by indentation, section headers,
  option lines, duplicate section/option and missing-header errors, and the final join of multi-line values.
  Every reader error is `Err.parserError`.
* `IniText.Representable` is the decidable subset of documents on which the reader inverts the writer.
-/
namespace PM
namespace IniText
open Ini

def escNl (v : Str) : Str := v.flatMap fun c => if c = '\n' then ['\n', '\t'] else [c]

def renderOpt (kv : Str × Str) : Str := kv.1 ++ ' ' :: '=' :: ' ' :: escNl kv.2 ++ ['\n']

def renderSec (s : Str × IniSec) : Str :=
  '[' :: s.1 ++ ']' :: '\n' :: (sortKV s.2).flatMap renderOpt ++ ['\n']

/-- the text `parser.write(f)` produces -/
def render (d : Ini) : Str :=
  (match d.lookup DEFAULT with
   | some opts => if opts.isEmpty then [] else renderSec (DEFAULT, opts)
   | none => [])
  ++ (sortKV (d.filter (·.1 != DEFAULT))).flatMap renderSec

/-! #### reader -/

structure PState where
  secs : List (Str × List (Str × List Str)) := []
  cur : Option Str := none          -- current section
  opt : Option Str := none          -- current option (`optname`), `none` also stands for an empty name
  indent : Option Nat := some 0     -- `none` = `sys.maxsize`

/-- number of leading whitespace characters (`NONSPACECRE.search(line).start()`, 0 when there is none) -/
def indentOf (line : Str) : Nat :=
  let n := (line.takeWhile Str.isPySpace).length
  if n = line.length then 0 else n

/-- `SECTCRE.match(value)`: `[` + at least one character + `]` (the last `]` of the line closes) -/
def sectionHeader (value : Str) : Option Str :=
  match value with
  | '[' :: rest =>
    -- drop everything after the last ']'
    let r := rest.reverse.dropWhile (· != ']')
    match r with
    | _ :: hdRev => if hdRev.isEmpty then none else some hdRev.reverse
    | [] => none
  | _ => none

/-- `_optcre.match(value)`: name = text before the first `=`/`:` without trailing blanks, value = text after it
without leading blanks -/
def optionLine (value : Str) : Option (Str × Str) :=
  let name := value.takeWhile (fun c => c != '=' && c != ':')
  match value.dropWhile (fun c => c != '=' && c != ':') with
  | _ :: rest => some (Str.rstrip name, Str.strip rest)
  | [] => none

def appendCont (secs : List (Str × List (Str × List Str))) (s o v : Str) : List (Str × List (Str × List Str)) :=
  secs.map fun sec => if sec.1 == s then (sec.1, sec.2.map fun kv => if kv.1 == o then (kv.1, kv.2 ++ [v]) else kv) else sec

def step (st : PState) (line : Str) : Except Err PState :=
  let stripped := Str.strip line
  let isComment := Str.startsWith stripped ['#'] || Str.startsWith stripped [';']
  let value := if isComment then [] else stripped
  if value.isEmpty then
    -- blank line: part of a multi-line value unless it was a comment
    match isComment, st.cur, st.opt with
    | false, some s, some o => .ok { st with secs := appendCont st.secs s o [] }
    | _, _, _ => .ok st
  else
    let ind := indentOf line
    let deeper : Bool := match st.indent with | some i => decide (ind > i) | none => false
    match st.cur, st.opt, deeper with
    | some s, some o, true => .ok { st with secs := appendCont st.secs s o value }
    | _, _, _ =>
      match sectionHeader value with
      | some name =>
        if name == DEFAULT then
          .ok { secs := if (st.secs.lookup name).isSome then st.secs else st.secs ++ [(name, [])],
                cur := some name, opt := none, indent := some ind }
        else if (st.secs.lookup name).isSome then .error .parserError
        else .ok { secs := st.secs ++ [(name, [])], cur := some name, opt := none, indent := some ind }
      | none =>
        match st.cur with
        | none => .error .parserError                       -- MissingSectionHeaderError
        | some s =>
          match optionLine value with
          | none => .error .parserError                     -- ParsingError
          | some (o, v) =>
            if o.isEmpty then .error .parserError
            else
              let opts := (st.secs.lookup s).getD []
              if (opts.lookup o).isSome then .error .parserError   -- DuplicateOptionError
              else .ok { secs := setKV s (opts ++ [(o, [v])]) st.secs, cur := some s, opt := some o, indent := some ind }

def steps : PState → List Str → Except Err PState
  | st, [] => .ok st
  | st, l :: ls => match step st l with
    | .ok st' => steps st' ls
    | .error e => .error e

/-- `_join_multiline_values` -/
def joinValues (secs : List (Str × List (Str × List Str))) : Ini :=
  secs.map fun sec => (sec.1, sec.2.map fun kv => (kv.1, Str.rstrip (Str.joinWith '\n' kv.2)))

/-- the lines a text file object yields (split at line feeds; the piece after a final line feed is not a line) -/
def linesOf (text : Str) : List Str :=
  let ps := Str.splitOn '\n' text
  if ps.getLast? == some [] then ps.dropLast else ps

/-- `parser.read_file(f)` on a fresh parser -/
def parse (text : Str) : Except Err Ini :=
  (steps {} (linesOf text)).map fun st => joinValues st.secs

/-! #### representable documents -/

def noOuterBlank (s : Str) : Bool :=
  match s with
  | [] => true
  | c :: _ => !Str.isPySpace c && !(match s.getLast? with | some l => Str.isPySpace l | none => false)

def singleLine (s : Str) : Bool := !s.contains '\n'

/-- a value the file syntax can carry: one line, no leading or trailing blank -/
def valueOK (v : Str) : Bool := singleLine v && noOuterBlank v

/-- an option name the file syntax can carry -/
def nameOK (k : Str) : Bool :=
  !k.isEmpty && singleLine k && noOuterBlank k && !k.contains '=' && !k.contains ':'
    && !(Str.startsWith k ['#'] || Str.startsWith k [';'] || Str.startsWith k ['['])

/-- a section name the file syntax can carry -/
def secNameOK (s : Str) : Bool := !s.isEmpty && singleLine s && s != DEFAULT

def nodupKeys {α} : List (Str × α) → Bool
  | [] => true
  | x :: xs => !(xs.any (·.1 == x.1)) && nodupKeys xs

/-- an option whose name starts with a comment prefix is written, but is a comment line to the reader
(the `; WARNING.n` options of `[general]`) -/
def isCommentName (k : Str) : Bool := Str.startsWith k ['#'] || Str.startsWith k [';']

/-- the document without its comment-named options: what the reader can see -/
def dropComments (d : Ini) : Ini := d.map fun sec => (sec.1, sec.2.filter fun kv => !isCommentName kv.1)

/-- the documents on which `parse (render d) = canon (dropComments d)` -/
def Representable (d : Ini) : Bool :=
  nodupKeys d && d.all fun sec =>
    secNameOK sec.1 && nodupKeys sec.2 && sec.2.all fun kv =>
      (isCommentName kv.1 && noOuterBlank kv.1 && singleLine kv.1 && singleLine kv.2) || (nameOK kv.1 && valueOK kv.2)

/-- canonical form of a document: sections and options in `SortedDict` order -/
def canon (d : Ini) : Ini := (sortKV d).map fun sec => (sec.1, sortKV sec.2)

end IniText
end PM
