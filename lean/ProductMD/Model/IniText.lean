import ProductMD.Model.Ini
/-!
Text form of INI documents.

* `IniText.render` reproduces `SortedConfigParser.write` (CPython `RawConfigParser.write` over `SortedDict`s):
  `[DEFAULT]` first when present, then the sections sorted by name; inside a section the options sorted by name,
  each as `key = value` (a line feed inside a value becomes line feed + tab), one blank line after every section.
* the reader is `IniParse.parse` (`Model/IniParse.lean`, proved to invert the writer in `Proofs/IniRoundTrip.lean`);
  `Proofs/TreeInfoText.lean` ties `render` to `IniParse.render` and accounts for comment-named options.
* `IniText.Representable` is the decidable subset of documents on which the reader inverts the writer.
-/
namespace PM
namespace IniText
open Ini

def escNl (v : Str) : Str := v.flatMap fun c => if c = '\n' then ['\n', '\t'] else [c]

def renderOpt (kv : Str × Str) : Str := kv.1 ++ ' ' :: '=' :: ' ' :: escNl kv.2 ++ ['\n']

def renderSec (s : Str × IniSec) : Str :=
  '[' :: s.1 ++ ']' :: '\n' :: (sortKV s.2).flatMap renderOpt ++ ['\n']

/-- the text `parser.write(f)` produces -/
def render (d : Ini) : Str :=
  (match d.lookup DEFAULT with
   | some opts => if opts.isEmpty then [] else renderSec (DEFAULT, opts)
   | none => [])
  ++ (sortKV (d.filter (·.1 != DEFAULT))).flatMap renderSec

/-! #### representable documents -/

def noOuterBlank (s : Str) : Bool :=
  match s with
  | [] => true
  | c :: _ => !Str.isPySpace c && !(match s.getLast? with | some l => Str.isPySpace l | none => false)

def singleLine (s : Str) : Bool := !s.contains '\n'

/-- a value the file syntax can carry: one line, no leading or trailing blank -/
def valueOK (v : Str) : Bool := singleLine v && noOuterBlank v

/-- an option name the file syntax can carry -/
def nameOK (k : Str) : Bool :=
  !k.isEmpty && singleLine k && noOuterBlank k && !k.contains '=' && !k.contains ':'
    && !(Str.startsWith k ['#'] || Str.startsWith k [';'] || Str.startsWith k ['['])

/-- a section name the file syntax can carry -/
def secNameOK (s : Str) : Bool := !s.isEmpty && singleLine s && s != DEFAULT

def nodupKeys {α} : List (Str × α) → Bool
  | [] => true
  | x :: xs => !(xs.any (·.1 == x.1)) && nodupKeys xs

/-- an option whose name starts with a comment prefix is written, but is a comment line to the reader
(the `; WARNING.n` options of `[general]`) -/
def isCommentName (k : Str) : Bool := Str.startsWith k ['#'] || Str.startsWith k [';']

/-- the document without its comment-named options: what the reader can see -/
def dropComments (d : Ini) : Ini := d.map fun sec => (sec.1, sec.2.filter fun kv => !isCommentName kv.1)

/-- the documents on which `parse (render d) = canon (dropComments d)` -/
def Representable (d : Ini) : Bool :=
  nodupKeys d && d.all fun sec =>
    secNameOK sec.1 && nodupKeys sec.2 && sec.2.all fun kv =>
      (isCommentName kv.1 && noOuterBlank kv.1 && singleLine kv.1 && singleLine kv.2) || (nameOK kv.1 && valueOK kv.2)

/-- canonical form of a document: sections and options in `SortedDict` order -/
def canon (d : Ini) : Ini := (sortKV d).map fun sec => (sec.1, sortKV sec.2)

end IniText
end PM
