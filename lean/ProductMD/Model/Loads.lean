import ProductMD.Model.Validation
import ProductMD.Model.RpmsLegacy
import ProductMD.Model.ComposeInfoLegacy
import ProductMD.Model.TreeInfoLegacy
/-!
# Model of `load`/`loads` (C07)

`loads d = fill d >>= fun x => runSteps (checks x) >>= fun _ => pure x`:

* `fill`   – what the readers do apart from validating: key lookups (`KeyError`/`TypeError`), the documented coercions
             (`int()`, `bool()`, `x or None`, `.lower()`), the header (version syntax, integer tuple, type gate — the GENERATED
             gate `Gen.gate_common_Header_deserialize_0`), `Images.add` for every image (arch table, src refusal, identity);
* `checks` – the `validate()` calls of the section readers on what they filled, placed by the GENERATED call structure
             (`validatesLast Gen.struct_*_deserialize`), and the final `self.validate()` of `loads`.

C07 observes only "exception vs normal return", so the interleaving of `fill` and `checks` (which error comes first) is not
modelled: both orders fail on the same documents.  The models are TOTAL over header versions: where a generated version gate
selects a reader of an older format, `fill` takes that branch, built from C05's models of the legacy-specific steps
(`Mf.dateTypeRespinOf` for the compose section below 0.3, the `product` section at ≤ 0.3, `Mf.manifest03` for the rpms manifest
at ≤ 0.3, `CI.Legacy.isLegacyTop` / `prefixKids` for the variant table below 1.0, `TI.Legacy.deserialize` for treeinfo ≤ 0.3 and
files without a header).  The `validate()` calls are the same for every version: each class's `deserialize` dispatches on the
gate and validates AFTER the dispatch (`validatesLast` of the dispatcher, `LFlag.*`), `C07_legacy_dispatch` pins that the legacy
readers are reached only through those dispatchers.
-/
namespace PM.Val.Loads
open PM PM.Val

/-! ### Python operations on parsed JSON -/

/-- `d[k]` for a string key -/
def getItem (d : PyVal) (k : Str) : Except Err PyVal :=
  match d with
  | .dict kvs => match kvs.find? (·.1 == k) with
      | some kv => .ok kv.2
      | none => .error .keyError
  | .other _ => .error .other
  | _ => .error .typeError

/-- `d.get(k, default)` -/
def getD (d : PyVal) (k : Str) (dflt : PyVal) : Except Err PyVal :=
  match d with
  | .dict kvs => .ok (((kvs.find? (·.1 == k)).map (·.2)).getD dflt)
  | .other _ => .error .other
  | _ => .error .attributeError

def orNone (v : PyVal) : PyVal := if v.truthy then v else .none
def pyBool (v : PyVal) : PyVal := .bool v.truthy

def digitVal (c : Char) : Option Nat :=
  (Gen.digitRanges.find? fun r => r.1 ≤ c.toNat && c.toNat ≤ r.2).map fun r => (c.toNat - r.1) % 10

/-- decimal value of a non-empty run of (Unicode) digits -/
def parseDigits (s : Str) : Option Nat :=
  if s.isEmpty then none else s.foldl (fun acc c => acc.bind fun n => (digitVal c).map fun d => 10 * n + d) (some 0)

def isSpace (c : Char) : Bool := c == ' ' || c == '\n' || c == '\t' || c == '\r' || c.toNat == 11 || c.toNat == 12
def strip (s : Str) : Str := ((s.dropWhile isSpace).reverse.dropWhile isSpace).reverse

/-- `int(str)` for the literals without underscores -/
def intOfStr (s : Str) : Except Err Int :=
  let t := strip s
  let (neg, body) := match t with
    | '-' :: r => (true, r)
    | '+' :: r => (false, r)
    | r => (false, r)
  match parseDigits body with
  | some n => .ok (if neg then -(n : Int) else n)
  | none => if body.contains '_' then .error .other else .error .valueError

/-- `int(v)`; floats only in plain `digits.digits` notation (anything else is outside the model) -/
def pyInt (v : PyVal) : Except Err PyVal :=
  match v with
  | .int n => .ok (.int n)
  | .bool b => .ok (.int (if b then 1 else 0))
  | .str s => (intOfStr s).map .int
  | .float r =>
    let (neg, body) := match r with | '-' :: t => (true, t) | t => (false, t)
    match Str.splitOn '.' body with
    | [a, b] => match parseDigits a, parseDigits b with
        | some n, some _ => if a.all Str.isAsciiDigit && b.all Str.isAsciiDigit then .ok (.int (if neg then -(n : Int) else n)) else .error .other
        | _, _ => .error .other
    | _ => .error .other
  | .other _ => .error .other
  | _ => .error .typeError

/-! ### header -/

/-- `Header.version_tuple`: validate, then `split_version` -/
def versionTuple (ver : PyVal) : Except Err (Nat × Nat) := do
  validate2 "common.Header" [(c!"version", ver)]
  match ver with
  | .str s =>
    -- `split_version` decides "not a number" with the ASCII class `^[^0-9].*`, while the validator's `\d` is Unicode-aware: a version
    -- that starts with a non-ASCII digit comes back as `[version]`, and the tuple comparison `("…",) >= (1, 1)` raises TypeError
    match s with
    | c :: _ => if !Str.isAsciiDigit c then .error .typeError else
        match (Str.splitOn '.' (strip s)).map parseDigits with
        | [some a, some b] => .ok (a, b)
        | _ => .error .other
    | [] => .error .other
  | _ => .error .typeError

/-- `Header.deserialize` of the JSON formats, without its final `validate()`; → (header attributes, version tuple) -/
def headerFill (expected : Str) (doc : PyVal) : Except Err (Obj × (Nat × Nat)) := do
  let sec ← getItem doc c!"header"
  let ver ← getItem sec c!"version"
  let vt ← versionTuple ver
  match Gen.gate_common_Header_deserialize_0.eval? vt with
  | some true =>
    let ty ← getItem sec c!"type"
    if PyVal.pyEq ty (.str expected) then .ok ([(c!"version", ver)], vt) else .error .valueError
  | some false => .ok ([(c!"version", ver)], vt)
  | none => .error .other

/-- treeinfo `Header.deserialize` over the parsed INI document (section ↦ option ↦ string) -/
def tiHeaderFill (doc : PyVal) : Except Err (Obj × (Nat × Nat)) := do
  let sec ← getD doc c!"header" (.dict [])
  match ← getD sec c!"version" .none with
  | .none => .error .other                       -- no header: read as a pre-productmd file (0.0), not modelled
  | ver =>
    let vt ← versionTuple ver
    match Gen.gate_treeinfo_Header_deserialize_0.eval? vt with
    | some true =>
      let ty ← getItem sec c!"type"               -- `parser.get`: NoOptionError
      if PyVal.pyEq ty (.str Gen.HEADER_TYPE_TreeInfo) then .ok ([(c!"version", ver)], vt) else .error .valueError
    | some false => .ok ([(c!"version", ver)], vt)
    | none => .error .other

/-! ### compose, release, base product (JSON) -/

def notLegacy (g : Gate) (vt : Nat × Nat) : Except Err Unit :=
  match g.eval? vt with
  | some false => .ok ()
  | _ => .error .other                            -- legacy reader, or a gate the translator did not recognise

/-- the verdict of a generated gate; a comparison the translator could not read has no semantics (`Err.other`) -/
def gateB (g : Gate) (vt : Nat × Nat) : Except Err Bool :=
  match g.eval? vt with
  | some b => .ok b
  | none => .error .other

/-- `Compose.deserialize` without its final `validate()`: `deserialize_0_3` below the generated gate (`< (0, 3)`: date, type and
respin are decoded from the id, C05's `Mf.dateTypeRespinOf` = `get_date_type_respin`; the stored `type` must exist but is
overwritten), `deserialize_1_0` otherwise -/
def composeFill (vt : Nat × Nat) (payload : PyVal) : Except Err Obj := do
  let legacy ← gateB Gen.gate_composeinfo_Compose_deserialize_0 vt
  let sec ← getItem payload c!"compose"
  let id ← getItem sec c!"id"
  let label ← getD sec c!"label" .none
  let ty ← getItem sec c!"type"
  let (date, ty, respin) ← if legacy then Mf.dateTypeRespinOf id else do
    let date ← getItem sec c!"date"
    let respin ← getItem sec c!"respin"
    pure (date, ty, respin)
  let final ← getD sec c!"final" (.bool false)
  .ok [(c!"id", id), (c!"label", orNone label), (c!"type", ty), (c!"date", date), (c!"respin", respin), (c!"final", pyBool final)]

def lowerOf (v : PyVal) : Except Err PyVal :=
  match v with
  | .str s => .ok (.str (s.map fun c => if c.toNat < 128 then c.toLower else c))   -- non-ASCII case folding: outside the tables anyway
  | .other _ => .error .other
  | _ => .error .attributeError

/-- `Release.deserialize` without its final `validate()`: at `<= (0, 3)` (generated gate) the section is called `product` and
`internal` is reset to `False` (`deserialize_0_3`) -/
def ciReleaseFill (vt : Nat × Nat) (data : PyVal) : Except Err Obj := do
  let legacy ← gateB Gen.gate_composeinfo_Release_deserialize_0 vt
  let sec ← getItem data (if legacy then c!"product" else c!"release")
  let name ← getItem sec c!"name"
  let version ← getItem sec c!"version"
  let short ← getItem sec c!"short"
  let ty ← lowerOf (← getD sec c!"type" (.str c!"ga"))
  let lay ← getD sec c!"is_layered" (.bool false)
  let int ← if legacy then pure (.bool false) else getD sec c!"internal" (.bool false)
  .ok [(c!"name", name), (c!"version", version), (c!"short", short), (c!"type", ty), (c!"is_layered", pyBool lay), (c!"internal", pyBool int)]

def ciBaseProductFill (data : PyVal) : Except Err Obj := do
  let sec ← getItem data c!"base_product"
  let name ← getItem sec c!"name"
  let version ← getItem sec c!"version"
  let short ← getItem sec c!"short"
  let ty ← getD sec c!"type" (.str c!"ga")
  .ok [(c!"name", name), (c!"version", version), (c!"short", short), (c!"type", ty)]

/-! ### flags: where the readers validate -/
namespace LFlag
def header : Bool := validatesLast Gen.struct_common_Header_deserialize
def tiHeader : Bool := validatesLast Gen.struct_treeinfo_Header_deserialize
def compose : Bool := validatesLast Gen.struct_composeinfo_Compose_deserialize
def ciRelease : Bool := validatesLast Gen.struct_composeinfo_Release_deserialize
def ciBaseProduct : Bool := validatesLast Gen.struct_composeinfo_BaseProduct_deserialize
def ciVariant : Bool := validatesLast Gen.struct_composeinfo_Variant_deserialize
def image : Bool := validatesLast Gen.struct_images_Image_deserialize
def disc : Bool := validatesLast Gen.struct_discinfo_DiscInfo_deserialize
def loads : Bool := validatesLast Gen.struct_common_MetadataBase_loads
def tiRelease : Bool := validatesLast Gen.struct_treeinfo_Release_deserialize
def tiBaseProduct : Bool := validatesLast Gen.struct_treeinfo_BaseProduct_deserialize
def tiTree : Bool := validatesLast Gen.struct_treeinfo_Tree_deserialize
def tiVariants : Bool := validatesLast Gen.struct_treeinfo_Variants_deserialize
def tiChecksums : Bool := validatesLast Gen.struct_treeinfo_Checksums_deserialize
def tiImages : Bool := validatesLast Gen.struct_treeinfo_Images_deserialize
def tiStage2 : Bool := validatesLast Gen.struct_treeinfo_Stage2_deserialize
def tiMedia : Bool := validatesLast Gen.struct_treeinfo_Media_deserialize
/-- `VariantBase.add` validates the variant it is given, unguarded, before anything else can return -/
def addValidates : Bool :=
  Gen.struct_composeinfo_VariantBase_add.any (fun e => e.kind == "validate" && e.what == "variant" && e.guards.isEmpty)
    && (Gen.struct_composeinfo_VariantBase_add.takeWhile (fun e => !(e.kind == "validate"))).all (fun e => e.kind != "return")
end LFlag

/-! ### rpms / modules / extra_files -/

def simpleFill (cls : String) (expected table : Str) (legacy : Option Gate) (doc : PyVal) : Except Err SimpleM := do
  let (h, vt) ← headerFill expected doc
  let old ← match legacy with
    | some g => gateB g vt
    | none => pure false
  let payload ← getItem doc c!"payload"
  let compose ← composeFill vt payload
  -- rpms `deserialize_0_3` (C05's model): the 0.3 manifest is replayed through `Rpms.add`, which refuses unknown arches / categories,
  -- blank or absolute paths, malformed NEVRAs; `deserialize_1_0` stores the table as given
  let _ ← if old then Mf.manifest03 payload else getItem payload table
  .ok ⟨cls, h, compose⟩

def simpleChecks (m : SimpleM) : List Step :=
  vstep LFlag.header "common.Header" m.header ++ vstep LFlag.compose "composeinfo.Compose" m.compose ++ vstep LFlag.loads m.cls []

/-- the parts of a loaded object (the header as read; the reader resets it to the current version afterwards) -/
def simpleLoadedParts (m : SimpleM) : List Part := [⟨"common.Header", m.header⟩, ⟨"composeinfo.Compose", m.compose⟩]

def loadsWith {α} (fill : PyVal → Except Err α) (checks : α → List Step) (doc : PyVal) : Except Err α :=
  match fill doc with
  | .error e => .error e
  | .ok x => match runSteps (checks x) with
      | .ok () => .ok x
      | .error e => .error e

def rpmsLoads := loadsWith (simpleFill "rpms.Rpms" Gen.HEADER_TYPE_Rpms c!"rpms" (some Gen.gate_rpms_Rpms_deserialize_0)) simpleChecks
def modulesLoads := loadsWith (simpleFill "modules.Modules" Gen.HEADER_TYPE_Modules c!"modules" none) simpleChecks
def extraFilesLoads := loadsWith (simpleFill "extra_files.ExtraFiles" Gen.HEADER_TYPE_ExtraFiles c!"extra_files" none) simpleChecks

/-! ### images -/

/-- iterate a JSON container the way `for k in d` / `for x in l` does; empty lists and strings iterate zero times -/
def iterDict (v : PyVal) : Except Err (List (Str × PyVal)) :=
  match v with
  | .dict kvs => .ok kvs
  | .list [] => .ok []
  | .str [] => .ok []
  | .other _ => .error .other
  | _ => .error .typeError

def iterList (v : PyVal) : Except Err (List PyVal) :=
  match v with
  | .list xs => .ok xs
  | .dict [] => .ok []
  | .str [] => .ok []
  | .other _ => .error .other
  | _ => .error .typeError

def imageFill (vt : Nat × Nat) (d : PyVal) : Except Err Obj := do
  let path ← getItem d c!"path"
  let mtime ← pyInt (← getItem d c!"mtime")
  let size ← pyInt (← getItem d c!"size")
  let vol ← getItem d c!"volume_id"
  let ty ← getItem d c!"type"
  let fmt ← getD d c!"format" (.str c!"iso")
  let arch ← getItem d c!"arch"
  let dn ← pyInt (← getItem d c!"disc_number")
  let dc ← pyInt (← getItem d c!"disc_count")
  let cks ← getItem d c!"checksums"
  let md5 ← getItem d c!"implant_md5"
  let boot ← getItem d c!"bootable"
  let sub ← match Gen.gate_images_Image_deserialize_0.eval? vt with
    | some true => getD d c!"subvariant" (.str [])
    | some false => getItem d c!"subvariant"
    | none => .error .other
  let uni ← getD d c!"unified" (.bool false)
  let av ← getD d c!"additional_variants" (.list [])
  .ok [(c!"path", path), (c!"mtime", mtime), (c!"size", size), (c!"volume_id", vol), (c!"type", ty), (c!"format", fmt), (c!"arch", arch),
       (c!"disc_number", dn), (c!"disc_count", dc), (c!"checksums", cks), (c!"implant_md5", md5), (c!"bootable", pyBool boot),
       (c!"subvariant", sub), (c!"unified", uni), (c!"additional_variants", av)]

/-- `identify_image` -/
def identity (o : Obj) : List PyVal :=
  Gen.UNIQUE_IMAGE_ATTRIBUTES.map fun a =>
    let v := o.get a
    if a == c!"unified" then (if v.truthy then v else .bool false)
    else if a == c!"additional_variants" then (if v.truthy then v else .list [])
    else v

def sameIdentity (a b : Obj) : Bool :=
  let ia := identity a; let ib := identity b
  ia.length == ib.length && (ia.zip ib).all fun p => PyVal.pyEq p.1 p.2

/-- `Images.add` -/
def imagesAdd (vt : Nat × Nat) (cells : List (Str × Str × Obj)) (variant arch : Str) (img : Obj) : Except Err (List (Str × Str × Obj)) := do
  if !Gen.RPM_ARCHES.contains arch then throw .valueError
  if arch == c!"src" || arch == c!"nosrc" then throw .valueError
  match Gen.gate_images_Images_add_0.eval? vt with
  | some true =>
    if cells.any (fun c => sameIdentity c.2.2 img && !(PyVal.pyEq (c.2.2.get c!"checksums") (img.get c!"checksums"))) then throw .valueError
  | some false => pure ()
  | none => throw .other
  .ok (cells ++ [(variant, arch, img)])

def imagesFill (doc : PyVal) : Except Err ImagesM := do
  let (h, vt) ← headerFill Gen.HEADER_TYPE_Images doc
  let payload ← getItem doc c!"payload"
  let compose ← composeFill vt payload
  let vs ← iterDict (← getItem payload c!"images")
  let legacy ← match Gen.gate_images_Images_deserialize_0.eval? vt with
    | some b => pure b
    | none => throw .other
  let mut cells : List (Str × Str × Obj) := []
  for (variant, arches) in vs do
    let as ← iterDict arches
    for (arch, imgs) in as do
      for d in ← iterList imgs do
        let img ← imageFill vt d
        if legacy && arch == c!"src" then
          for (a2, _) in as do
            if a2 != c!"src" then cells ← imagesAdd vt cells variant a2 img
        else
          cells ← imagesAdd vt cells variant arch img
  .ok ⟨h, compose, cells.map fun c => (c.1, [(c.2.1, [c.2.2])])⟩

def imagesChecks (m : ImagesM) : List Step :=
  vstep LFlag.header "common.Header" m.header ++ vstep LFlag.compose "composeinfo.Compose" m.compose
    ++ m.all.flatMap (vstep LFlag.image "images.Image") ++ vstep LFlag.loads "images.Images" []

def imagesLoadedParts (m : ImagesM) : List Part :=
  [⟨"common.Header", m.header⟩, ⟨"composeinfo.Compose", m.compose⟩] ++ m.all.map (⟨"images.Image", ·⟩)

def imagesLoads := loadsWith imagesFill imagesChecks

/-! ### discinfo (document = the stripped lines) -/

/-- `digit (["_"] digit)*` : the rest after the longest such prefix, `none` if there is no digit at the start -/
def digitPart : Str → Option Str
  | c :: rest =>
    if Str.isAsciiDigit c then
      let rec go : Str → Str
        | d :: r => if Str.isAsciiDigit d then go r
                    else if d == '_' then (match r with
                      | d2 :: r2 => if Str.isAsciiDigit d2 then go r2 else d :: r
                      | [] => d :: r)
                    else d :: r
        | [] => []
      some (go rest)
    else none
  | [] => none

/-- CPython's float literal grammar (ASCII): `[sign] (digitpart ["." [digitpart]] | "." digitpart) [("e"|"E") [sign] digitpart]` -/
def floatSyntaxOk (body : Str) : Bool :=
  let afterMantissa : Option Str :=
    match digitPart body with
    | some r => (match r with
        | '.' :: r2 => (match digitPart r2 with | some r3 => some r3 | none => some r2)
        | _ => some r)
    | none => (match body with
        | '.' :: r2 => digitPart r2
        | _ => none)
  match afterMantissa with
  | none => false
  | some [] => true
  | some (e :: r) =>
    if e == 'e' || e == 'E' then
      let r' := match r with | '+' :: t => t | '-' :: t => t | t => t
      digitPart r' == some []
    else false

/-- `float(s)`: a syntax error is ValueError (exact, CPython's grammar for ASCII input); the VALUE is modelled for plain decimal
notation only (`Err.other` for exponents, underscores, inf/nan, non-ASCII digits) -/
def floatOk (s : Str) : Except Err Str :=
  let t := strip s
  let body := match t with | '-' :: r => r | '+' :: r => r | r => r
  let low := Str.lowerAscii body
  if low == c!"inf" || low == c!"nan" || low == c!"infinity" then .error .other
  else if body.any (fun c => c.toNat ≥ 128) then .error .other
  else if !floatSyntaxOk body then .error .valueError
  else match Str.splitOn '.' body with
    | [a] => if a.all Str.isAsciiDigit then .ok (t ++ c!".0") else .error .other
    | [a, b] => if a.all Str.isAsciiDigit && b.all Str.isAsciiDigit && !a.isEmpty && !b.isEmpty then .ok t else .error .other
    | _ => .error .other

def isZeroFloat (s : Str) : Bool := s.all fun c => c == '0' || c == '.' || c == '-' || c == '+'

def discFill (doc : PyVal) : Except Err DiscM := do
  let lines ← iterList doc
  let strs := lines.filterMap fun l => match l with | .str s => some s | _ => none
  match strs with
  | l0 :: l1 :: l2 :: rest =>
    let ts ← floatOk l0
    let descr := Str.stripChars c!"\"'" (strip l1)
    let arch := strip l2
    let dn := match rest with | l3 :: _ => strip l3 | [] => []
    let nums ← if dn.isEmpty || dn == c!"ALL" then pure [PyVal.str c!"ALL"] else
      (Str.splitOn ',' dn).mapM fun i => (intOfStr i).map PyVal.int
    .ok ⟨[(c!"timestamp", .float (if isZeroFloat ts then c!"0.0" else ts)), (c!"description", .str descr), (c!"arch", .str arch), (c!"disc_numbers", .list nums)]⟩
  | _ => .error .indexError

def discChecks (m : DiscM) : List Step :=
  vstep LFlag.disc "discinfo.DiscInfo" m.obj ++ vstep LFlag.loads "discinfo.DiscInfo" m.obj

def discLoads := loadsWith discFill discChecks

/-! ### composeinfo / treeinfo: leading sections; the rest of the reader is a parameter -/

structure CIFront where
  header : Obj
  vt : Nat × Nat
  compose : Obj
  release : Obj
  baseProduct : Option Obj

def ciFrontFill (doc : PyVal) : Except Err CIFront := do
  let (h, vt) ← headerFill Gen.HEADER_TYPE_ComposeInfo doc
  let payload ← getItem doc c!"payload"
  let compose ← composeFill vt payload
  let release ← ciReleaseFill vt payload
  let bp ← if (release.get c!"is_layered").truthy then (ciBaseProductFill payload).map some else pure none
  let _ ← getItem payload c!"variants"
  .ok ⟨h, vt, compose, release, bp⟩

def ciFrontChecks (f : CIFront) : List Step :=
  vstep LFlag.header "common.Header" f.header ++ vstep LFlag.compose "composeinfo.Compose" f.compose
    ++ vstep LFlag.ciRelease "composeinfo.Release" f.release
    ++ (match f.baseProduct with | some bp => vstep LFlag.ciBaseProduct "composeinfo.BaseProduct" bp | none => [])

def ciFrontParts (f : CIFront) : List Part :=
  [⟨"common.Header", f.header⟩, ⟨"composeinfo.Compose", f.compose⟩, ⟨"composeinfo.Release", f.release⟩]
    ++ (match f.baseProduct with | some bp => [⟨"composeinfo.BaseProduct", bp⟩] | none => [])

def ciFrontLoads := loadsWith ciFrontFill ciFrontChecks

/-- every variant the reader builds is validated at the end of its `deserialize` and again by `add` -/
def ciVariantChecks (events : List Ev) : List Step :=
  events.flatMap fun ev => match ev with
    | .exit o => vstep (LFlag.ciVariant || LFlag.addValidates) "composeinfo.Variant" o
    | .enter o rel => if isLayeredProduct o then vstep LFlag.ciRelease "composeinfo.Release" rel else []

structure TIFront where
  header : Obj
  vt : Nat × Nat
  release : Obj
  baseProduct : Option Obj
  tree : Obj

/-- `getboolean` -/
def iniBool (v : PyVal) : Except Err PyVal :=
  match v with
  | .str s =>
    let t := Str.lowerAscii s
    if t == c!"1" || t == c!"yes" || t == c!"true" || t == c!"on" then .ok (.bool true)
    else if t == c!"0" || t == c!"no" || t == c!"false" || t == c!"off" then .ok (.bool false)
    else .error .valueError
  | _ => .error .other

def tiFrontFill (doc : PyVal) : Except Err TIFront := do
  let (h, vt) ← tiHeaderFill doc
  notLegacy Gen.gate_treeinfo_Release_deserialize_0 vt
  notLegacy Gen.gate_treeinfo_Release_deserialize_1 vt
  notLegacy Gen.gate_treeinfo_Tree_deserialize_0 vt
  let rs ← getItem doc c!"release"
  let name ← getItem rs c!"name"
  let version ← getItem rs c!"version"
  let short ← getD rs c!"short" name
  let lay ← match ← getD rs c!"is_layered" .none with
    | .none => pure (.bool false)
    | v => iniBool v
  let release : Obj := [(c!"name", name), (c!"version", version), (c!"short", short), (c!"is_layered", lay)]
  let bp ← if lay.truthy then do
      let bs ← getItem doc c!"base_product"
      pure (some [(c!"name", ← getItem bs c!"name"), (c!"version", ← getItem bs c!"version"), (c!"short", ← getItem bs c!"short")])
    else pure none
  -- [tree]; without it the reader falls back to [general] (build_timestamp = -1)
  let (ts, sec) ← match ← getD doc c!"tree" .none with
    | .none => do pure (PyVal.int (-1), ← getItem doc c!"general")
    | sec => do
        let raw ← getItem sec c!"build_timestamp"
        match raw with
        | .str s => match floatOk s with
            | .ok t => match pyInt (.float t) with
                | .ok v => pure (v, sec)
                | .error e => throw e
            | .error e => throw e
        | _ => throw .other
  let arch ← getItem sec c!"arch"
  let plats ← getItem sec c!"platforms"
  let platforms := match plats with
    | .str s => PyVal.list (((Str.splitOn ',' s).filter (!·.isEmpty)).map .str)
    | _ => .list []
  .ok ⟨h, vt, release, bp, [(c!"arch", arch), (c!"build_timestamp", ts), (c!"platforms", platforms)]⟩

def tiFrontChecks (f : TIFront) : List Step :=
  vstep LFlag.tiHeader "treeinfo.Header" f.header ++ vstep LFlag.tiRelease "treeinfo.Release" f.release
    ++ (match f.baseProduct with | some bp => vstep LFlag.tiBaseProduct "treeinfo.BaseProduct" bp | none => [])
    ++ vstep LFlag.tiTree "treeinfo.Tree" f.tree

def tiFrontParts (f : TIFront) : List Part :=
  [⟨"treeinfo.Header", f.header⟩, ⟨"treeinfo.Release", f.release⟩]
    ++ (match f.baseProduct with | some bp => [⟨"treeinfo.BaseProduct", bp⟩] | none => [])
    ++ [⟨"treeinfo.Tree", f.tree⟩]

def tiFrontLoads := loadsWith tiFrontFill tiFrontChecks

end PM.Val.Loads
