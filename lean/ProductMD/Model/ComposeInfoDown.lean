import ProductMD.Model.ComposeInfo
/-!
# C05: the documented down-conversion of a compose description to an older composeinfo format (specification side)

`CI.down vs ver keepInternal ci` is the document a writer of format `ver` (header text `vs`) would have produced for `ci`,
written from the format documentation (doc/composeinfo-1.0.rst, -1.1.rst) and the property text, NOT from the reader:

* header: `type` only from 1.1 on;
* `release.internal` did not exist before 1.2 (`keepInternal`: a 1.x writer that already knew it — the reader accepts both;
  the `product` section of ≤ 0.3 never carries it);
* `type` of release / base product / per-variant release: new in 1.1;
* explicit child lists (`variants`) on the entries: new in 1.0 — before, variants are related only by UID prefix;
* ≤ 0.3: the release section (top level and in layered-product variants) is called `product`;
* < 0.3: the compose section has no `date` / `respin` (derivable only from the id; `type` is there but redundant).

It is the same function as `harness/formats/legacy.py: ci_down(ci_doc(norm(spec)), version, keep_internal)`; the two are
compared on every generated case (driver op `c05_ci_down`).  The flat uid-keyed table is the one the current writer builds
(`variantsSer`: every variant validated, entries in normal form), so `down` is defined exactly on the descriptions the
current writer accepts.  `expected` is the documented result of loading it: the normal form with the stated losses.
-/
namespace PM
namespace CI

/-- which fields the format `ver` has (documentation side; compared as pairs of naturals) -/
structure DownFmt where
  headerTyped : Bool      -- >= 1.1
  relTyped : Bool         -- >= 1.1: `type` in release / base_product
  relInternal : Bool      -- `internal` written
  product : Bool          -- <= 0.3: section `product`
  kidLists : Bool         -- >= 1.0: `variants` lists
  composeFull : Bool      -- >= 0.3: `date`, `respin`
deriving DecidableEq, Repr

def vLt (a b : Nat × Nat) : Bool := a.1 < b.1 || (a.1 == b.1 && a.2 < b.2)
def vLe (a b : Nat × Nat) : Bool := a.1 < b.1 || (a.1 == b.1 && a.2 ≤ b.2)

def downFmt (ver : Nat × Nat) (keepInternal : Bool) : DownFmt :=
  { headerTyped := vLe (1, 1) ver
    relTyped := vLe (1, 1) ver
    relInternal := vLe (1, 2) ver || keepInternal
    product := vLe ver (0, 3)
    kidLists := vLe (1, 0) ver
    composeFull := vLe (0, 3) ver }

def sGa : Str := k%"ga"

def downHeaderVal (D : DownFmt) (vs : Str) : PyVal :=
  .dict ((if D.headerTyped then [(k%"type", .str Gen.HEADER_TYPE_ComposeInfo)] else []) ++ [(k%"version", .str vs)])

def downComposeVal (D : DownFmt) (c : Compose) : PyVal :=
  .dict ([(k%"id", .str c.id), (k%"type", .str c.type)]
    ++ (if D.composeFull then [(k%"date", .str c.date), (k%"respin", .int c.respin)] else [])
    ++ match c.label with
       | some (ch :: cs) => [(k%"label", .str (ch :: cs)), (k%"final", .bool c.final)]
       | _ => [])

def downReleaseVal (D : DownFmt) (r : Release) : PyVal :=
  .dict ([(k%"name", .str r.name), (k%"version", .str r.version), (k%"short", .str r.short)]
    ++ (if D.relTyped then [(k%"type", .str r.type)] else [])
    ++ (if r.isLayered then [(k%"is_layered", .bool true)] else [])
    ++ (if D.relInternal then [(k%"internal", .bool r.internal)] else []))

def downBaseVal (D : DownFmt) (b : BaseProduct) : PyVal :=
  .dict ([(k%"name", .str b.name), (k%"version", .str b.version), (k%"short", .str b.short)]
    ++ (if D.relTyped then [(k%"type", .str b.type)] else []))

def relKey (D : DownFmt) : Str := if D.product then k%"product" else k%"release"

def downEntryVal (D : DownFmt) (e : Entry) : PyVal :=
  .dict ([(k%"id", .str e.id), (k%"uid", .str e.uid), (k%"name", .str e.name), (k%"type", .str e.type),
          (k%"arches", strList e.arches)]
    ++ (match e.release with | some r => [(relKey D, downReleaseVal D r)] | none => [])
    ++ [(k%"paths", pathsVal e.paths)]
    ++ (if D.kidLists && !e.kids.isEmpty then [(k%"variants", strList e.kids)] else []))

def downFlatVal (D : DownFmt) (d : Flat) : PyVal := .dict (d.map fun (k, e) => (k, downEntryVal D e))

/-- the document of format `ver` (header text `vs`) for a description the current writer accepts -/
def down (vs : Str) (ver : Nat × Nat) (keepInternal : Bool) (ci : ComposeInfo) : Except Err PyVal :=
  let D := downFmt ver keepInternal
  match serialize ci with                     -- the current writer's refusals (every validator) define the domain
  | .error e => .error e
  | .ok _ =>
  match variantsSer ci.variants with
  | .error e => .error e
  | .ok d =>
    .ok (.dict [(k%"header", downHeaderVal D vs),
      (k%"payload", .dict ([(k%"compose", downComposeVal D ci.compose), (relKey D, downReleaseVal D ci.release)]
        ++ (match ci.release.isLayered, ci.base with
            | true, some b => [(k%"base_product", downBaseVal D b)]
            | _, _ => [])
        ++ [(k%"variants", downFlatVal D d)]))])

/-! ### the documented result of loading it -/

/-- what is lost in a release section: no type -> "ga"; no internal -> False -/
def lossRelease (D : DownFmt) (r : Release) : Release :=
  { r with type := if D.relTyped then r.type else sGa, internal := if D.relInternal && !D.product then r.internal else false }

def lossBase (D : DownFmt) (b : BaseProduct) : BaseProduct := { b with type := if D.relTyped then b.type else sGa }

mutual
def lossV (D : DownFmt) : Variant → Variant
  | .mk key id uid name type arches paths rel kids => .mk key id uid name type arches paths (rel.map (lossRelease D)) (lossVs D kids)
def lossVs (D : DownFmt) : List Variant → List Variant
  | [] => []
  | v :: vs => lossV D v :: lossVs D vs
end

/-- the object the documented mapping prescribes: the normal form of `ci` with the stated losses -/
def expected (ver : Nat × Nat) (keepInternal : Bool) (ci : ComposeInfo) : ComposeInfo :=
  let D := downFmt ver keepInternal
  let n := ci.norm
  { compose := n.compose, release := lossRelease D n.release, base := n.base.map (lossBase D), variants := lossVs D n.variants }

end CI
end PM
