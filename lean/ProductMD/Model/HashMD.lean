import ProductMD.Model.Str
/-!
# Block-buffered hash functions (property C16): `hashlib` objects as a model

What `hashlib.new(name)` hands to `compute_checksum`: an object with `update(bytes)` and `hexdigest()`.
Every algorithm the library meets by name has the same outer shape, which is modelled ONCE here:

* state = (chaining value `S`, pending bytes – fewer than one block –, total length so far);
* `update` appends the data to the pending bytes and feeds every complete block to `compress : S → block → S`;
* `digest` pads what is pending (the total length goes into the padding) and finalises.

This covers the Merkle–Damgård hashes (md5, sha1, sha2 family: `mdAlg`) and sponge absorption (sha3: the chaining
value is the sponge state, `compress` xors a rate-sized block in and permutes, `finish` pads and squeezes) alike.
The streaming law `update (update h a) b = update h (a ++ b)` is proved in `Proofs/HashMD.lean` for EVERY block
size > 0 and EVERY `compress`/`finish`; md5, sha1, sha224, sha256, sha384, sha512 are given as executable
instances (compared with `hashlib` on every C16 run, test vectors checked by the kernel in `Properties/C16.lean`).
-/
namespace PM
namespace HashMD

abbrev Bytes := List UInt8

/-- a block-buffered hash: everything that differs between algorithms -/
structure Alg (S : Type) where
  blockSize : Nat
  iv : S
  /-- only ever applied to blocks of exactly `blockSize` bytes -/
  compress : S → Bytes → S
  /-- chaining value, pending bytes (`< blockSize`), total number of bytes fed ↦ hex digest -/
  finish : S → Bytes → Nat → Str

/-- the hash object -/
structure State (S : Type) where
  cv : S
  pending : Bytes
  total : Nat

/-- feed complete blocks while there is one; what is left (shorter than a block) stays pending.
`fuel`: the buffer length is always enough when `bs > 0`. -/
def absorb {S : Type} (bs : Nat) (f : S → Bytes → S) : Nat → S → Bytes → S × Bytes
  | 0, s, buf => (s, buf)
  | fuel + 1, s, buf =>
    let blk := buf.take bs
    if blk.length = bs then absorb bs f fuel (f s blk) (buf.drop bs) else (s, buf)

def absorbAll {S : Type} (bs : Nat) (f : S → Bytes → S) (s : S) (buf : Bytes) : S × Bytes :=
  absorb bs f buf.length s buf

/-- `hashlib.new(name)` -/
def init {S : Type} (A : Alg S) : State S := ⟨A.iv, [], 0⟩

/-- `h.update(data)` -/
def update {S : Type} (A : Alg S) (st : State S) (data : Bytes) : State S :=
  let r := absorbAll A.blockSize A.compress st.cv (st.pending ++ data)
  ⟨r.1, r.2, st.total + data.length⟩

/-- `h.hexdigest()` -/
def digest {S : Type} (A : Alg S) (st : State S) : Str := A.finish st.cv st.pending st.total

/-- `hashlib.new(name, data).hexdigest()` -/
def hashBytes {S : Type} (A : Alg S) (data : Bytes) : Str := digest A (update A (init A) data)

/-! ### Merkle–Damgård strengthening -/

def natToBytesLE : Nat → Nat → Bytes
  | _, 0 => []
  | n, k + 1 => UInt8.ofNat (n % 256) :: natToBytesLE (n / 256) k

def natToBytesBE (n k : Nat) : Bytes := (natToBytesLE n k).reverse

/-- pending ++ 0x80 ++ 0…0 ++ bit length (`lenBytes` bytes, big or little endian): a whole number of blocks -/
def mdPad (bs lenBytes : Nat) (bigEndian : Bool) (pending : Bytes) (total : Nat) : Bytes :=
  let k := (bs - (pending.length + 1 + lenBytes) % bs) % bs
  pending ++ 0x80 :: List.replicate k 0
    ++ (if bigEndian then natToBytesBE (total * 8) lenBytes else natToBytesLE (total * 8) lenBytes)

def mdAlg {S : Type} (bs lenBytes : Nat) (bigEndian : Bool) (iv : S) (compress : S → Bytes → S) (out : S → Str) : Alg S :=
  { blockSize := bs, iv := iv, compress := compress,
    finish := fun cv pending total => out (absorbAll bs compress cv (mdPad bs lenBytes bigEndian pending total)).1 }

/-! ### bytes, words, hex -/

def hexDigit (n : Nat) : Char :=
  ['0', '1', '2', '3', '4', '5', '6', '7', '8', '9', 'a', 'b', 'c', 'd', 'e', 'f'].getD n '0'

def hexOfBytes : Bytes → Str
  | [] => []
  | b :: rest => hexDigit (b.toNat / 16) :: hexDigit (b.toNat % 16) :: hexOfBytes rest

def word32LE : Bytes → UInt32
  | [b0, b1, b2, b3] => b0.toUInt32 ||| (b1.toUInt32 <<< 8) ||| (b2.toUInt32 <<< 16) ||| (b3.toUInt32 <<< 24)
  | _ => 0

def word32BE : Bytes → UInt32
  | [b0, b1, b2, b3] => (b0.toUInt32 <<< 24) ||| (b1.toUInt32 <<< 16) ||| (b2.toUInt32 <<< 8) ||| b3.toUInt32
  | _ => 0

def word64BE : Bytes → UInt64
  | [b0, b1, b2, b3, b4, b5, b6, b7] =>
    (b0.toUInt64 <<< 56) ||| (b1.toUInt64 <<< 48) ||| (b2.toUInt64 <<< 40) ||| (b3.toUInt64 <<< 32)
      ||| (b4.toUInt64 <<< 24) ||| (b5.toUInt64 <<< 16) ||| (b6.toUInt64 <<< 8) ||| b7.toUInt64
  | _ => 0

/-- cut into groups of `k` bytes (`n` of them) -/
def groups (k : Nat) : Nat → Bytes → List Bytes
  | 0, _ => []
  | n + 1, b => b.take k :: groups k n (b.drop k)

def bytesOf32LE (w : UInt32) : Bytes :=
  [w.toUInt8, (w >>> 8).toUInt8, (w >>> 16).toUInt8, (w >>> 24).toUInt8]

def bytesOf32BE (w : UInt32) : Bytes :=
  [(w >>> 24).toUInt8, (w >>> 16).toUInt8, (w >>> 8).toUInt8, w.toUInt8]

def bytesOf64BE (w : UInt64) : Bytes :=
  [(w >>> 56).toUInt8, (w >>> 48).toUInt8, (w >>> 40).toUInt8, (w >>> 32).toUInt8,
   (w >>> 24).toUInt8, (w >>> 16).toUInt8, (w >>> 8).toUInt8, w.toUInt8]

def rotl32 (x : UInt32) (n : UInt32) : UInt32 := (x <<< n) ||| (x >>> (32 - n))
def rotr32 (x : UInt32) (n : UInt32) : UInt32 := (x >>> n) ||| (x <<< (32 - n))
def rotr64 (x : UInt64) (n : UInt64) : UInt64 := (x >>> n) ||| (x <<< (64 - n))

/-! ### MD5 (RFC 1321) -/

structure S4 where
  a : UInt32
  b : UInt32
  c : UInt32
  d : UInt32

def md5K : List UInt32 :=
  [0xd76aa478, 0xe8c7b756, 0x242070db, 0xc1bdceee, 0xf57c0faf, 0x4787c62a, 0xa8304613, 0xfd469501,
   0x698098d8, 0x8b44f7af, 0xffff5bb1, 0x895cd7be, 0x6b901122, 0xfd987193, 0xa679438e, 0x49b40821,
   0xf61e2562, 0xc040b340, 0x265e5a51, 0xe9b6c7aa, 0xd62f105d, 0x02441453, 0xd8a1e681, 0xe7d3fbc8,
   0x21e1cde6, 0xc33707d6, 0xf4d50d87, 0x455a14ed, 0xa9e3e905, 0xfcefa3f8, 0x676f02d9, 0x8d2a4c8a,
   0xfffa3942, 0x8771f681, 0x6d9d6122, 0xfde5380c, 0xa4beea44, 0x4bdecfa9, 0xf6bb4b60, 0xbebfbc70,
   0x289b7ec6, 0xeaa127fa, 0xd4ef3085, 0x04881d05, 0xd9d4d039, 0xe6db99e5, 0x1fa27cf8, 0xc4ac5665,
   0xf4292244, 0x432aff97, 0xab9423a7, 0xfc93a039, 0x655b59c3, 0x8f0ccc92, 0xffeff47d, 0x85845dd1,
   0x6fa87e4f, 0xfe2ce6e0, 0xa3014314, 0x4e0811a1, 0xf7537e82, 0xbd3af235, 0x2ad7d2bb, 0xeb86d391]

def md5S : List UInt32 :=
  [7, 12, 17, 22, 7, 12, 17, 22, 7, 12, 17, 22, 7, 12, 17, 22,
   5, 9, 14, 20, 5, 9, 14, 20, 5, 9, 14, 20, 5, 9, 14, 20,
   4, 11, 16, 23, 4, 11, 16, 23, 4, 11, 16, 23, 4, 11, 16, 23,
   6, 10, 15, 21, 6, 10, 15, 21, 6, 10, 15, 21, 6, 10, 15, 21]

/-- step number, additive constant, rotation -/
def md5Steps : List (Nat × UInt32 × UInt32) := (List.range 64).zip (md5K.zip md5S)

def md5Round (m : List UInt32) (s : S4) (step : Nat × UInt32 × UInt32) : S4 :=
  let i := step.1
  let fg : UInt32 × Nat :=
    if i < 16 then ((s.b &&& s.c) ||| (~~~ s.b &&& s.d), i)
    else if i < 32 then ((s.d &&& s.b) ||| (~~~ s.d &&& s.c), (5 * i + 1) % 16)
    else if i < 48 then (s.b ^^^ s.c ^^^ s.d, (3 * i + 5) % 16)
    else (s.c ^^^ (s.b ||| ~~~ s.d), (7 * i) % 16)
  let f := fg.1 + s.a + step.2.1 + m.getD fg.2 0
  ⟨s.d, s.b + rotl32 f step.2.2, s.b, s.c⟩

def md5Compress (s : S4) (block : Bytes) : S4 :=
  let m := (groups 4 16 block).map word32LE
  let r := md5Steps.foldl (md5Round m) s
  ⟨s.a + r.a, s.b + r.b, s.c + r.c, s.d + r.d⟩

def md5Out (s : S4) : Str :=
  hexOfBytes (bytesOf32LE s.a ++ bytesOf32LE s.b ++ bytesOf32LE s.c ++ bytesOf32LE s.d)

def md5 : Alg S4 :=
  mdAlg 64 8 false ⟨0x67452301, 0xefcdab89, 0x98badcfe, 0x10325476⟩ md5Compress md5Out

/-! ### SHA-1 (FIPS 180-4) -/

structure S5 where
  a : UInt32
  b : UInt32
  c : UInt32
  d : UInt32
  e : UInt32

/-- message schedule, NEWEST FIRST: `w` holds `W[t-1], W[t-2], …`; `n` more words are appended -/
def sha1Sched : Nat → List UInt32 → List UInt32
  | 0, w => w
  | n + 1, w => sha1Sched n (rotl32 (w.getD 2 0 ^^^ w.getD 7 0 ^^^ w.getD 13 0 ^^^ w.getD 15 0) 1 :: w)

def sha1Round (s : S5) (tw : Nat × UInt32) : S5 :=
  let t := tw.1
  let fk : UInt32 × UInt32 :=
    if t < 20 then ((s.b &&& s.c) ||| (~~~ s.b &&& s.d), 0x5a827999)
    else if t < 40 then (s.b ^^^ s.c ^^^ s.d, 0x6ed9eba1)
    else if t < 60 then ((s.b &&& s.c) ||| (s.b &&& s.d) ||| (s.c &&& s.d), 0x8f1bbcdc)
    else (s.b ^^^ s.c ^^^ s.d, 0xca62c1d6)
  ⟨rotl32 s.a 5 + fk.1 + s.e + fk.2 + tw.2, s.a, rotl32 s.b 30, s.c, s.d⟩

def sha1Compress (s : S5) (block : Bytes) : S5 :=
  let w := (sha1Sched 64 ((groups 4 16 block).map word32BE).reverse).reverse
  let r := ((List.range 80).zip w).foldl sha1Round s
  ⟨s.a + r.a, s.b + r.b, s.c + r.c, s.d + r.d, s.e + r.e⟩

def sha1Out (s : S5) : Str :=
  hexOfBytes (bytesOf32BE s.a ++ bytesOf32BE s.b ++ bytesOf32BE s.c ++ bytesOf32BE s.d ++ bytesOf32BE s.e)

def sha1 : Alg S5 :=
  mdAlg 64 8 true ⟨0x67452301, 0xefcdab89, 0x98badcfe, 0x10325476, 0xc3d2e1f0⟩ sha1Compress sha1Out

/-! ### SHA-224 / SHA-256 (FIPS 180-4) -/

structure S8 (W : Type) where
  a : W
  b : W
  c : W
  d : W
  e : W
  f : W
  g : W
  h : W

def sha256K : List UInt32 :=
  [0x428a2f98, 0x71374491, 0xb5c0fbcf, 0xe9b5dba5, 0x3956c25b, 0x59f111f1, 0x923f82a4, 0xab1c5ed5,
   0xd807aa98, 0x12835b01, 0x243185be, 0x550c7dc3, 0x72be5d74, 0x80deb1fe, 0x9bdc06a7, 0xc19bf174,
   0xe49b69c1, 0xefbe4786, 0x0fc19dc6, 0x240ca1cc, 0x2de92c6f, 0x4a7484aa, 0x5cb0a9dc, 0x76f988da,
   0x983e5152, 0xa831c66d, 0xb00327c8, 0xbf597fc7, 0xc6e00bf3, 0xd5a79147, 0x06ca6351, 0x14292967,
   0x27b70a85, 0x2e1b2138, 0x4d2c6dfc, 0x53380d13, 0x650a7354, 0x766a0abb, 0x81c2c92e, 0x92722c85,
   0xa2bfe8a1, 0xa81a664b, 0xc24b8b70, 0xc76c51a3, 0xd192e819, 0xd6990624, 0xf40e3585, 0x106aa070,
   0x19a4c116, 0x1e376c08, 0x2748774c, 0x34b0bcb5, 0x391c0cb3, 0x4ed8aa4a, 0x5b9cca4f, 0x682e6ff3,
   0x748f82ee, 0x78a5636f, 0x84c87814, 0x8cc70208, 0x90befffa, 0xa4506ceb, 0xbef9a3f7, 0xc67178f2]

/-- newest first, as `sha1Sched` -/
def sha256Sched : Nat → List UInt32 → List UInt32
  | 0, w => w
  | n + 1, w =>
    let w15 := w.getD 14 0
    let w2 := w.getD 1 0
    let s0 := rotr32 w15 7 ^^^ rotr32 w15 18 ^^^ (w15 >>> 3)
    let s1 := rotr32 w2 17 ^^^ rotr32 w2 19 ^^^ (w2 >>> 10)
    sha256Sched n ((w.getD 15 0 + s0 + w.getD 6 0 + s1) :: w)

def sha256Round (s : S8 UInt32) (kw : UInt32 × UInt32) : S8 UInt32 :=
  let s1 := rotr32 s.e 6 ^^^ rotr32 s.e 11 ^^^ rotr32 s.e 25
  let ch := (s.e &&& s.f) ^^^ (~~~ s.e &&& s.g)
  let t1 := s.h + s1 + ch + kw.1 + kw.2
  let s0 := rotr32 s.a 2 ^^^ rotr32 s.a 13 ^^^ rotr32 s.a 22
  let maj := (s.a &&& s.b) ^^^ (s.a &&& s.c) ^^^ (s.b &&& s.c)
  ⟨t1 + (s0 + maj), s.a, s.b, s.c, s.d + t1, s.e, s.f, s.g⟩

def sha256Compress (s : S8 UInt32) (block : Bytes) : S8 UInt32 :=
  let w := (sha256Sched 48 ((groups 4 16 block).map word32BE).reverse).reverse
  let r := (sha256K.zip w).foldl sha256Round s
  ⟨s.a + r.a, s.b + r.b, s.c + r.c, s.d + r.d, s.e + r.e, s.f + r.f, s.g + r.g, s.h + r.h⟩

def sha256Bytes (s : S8 UInt32) : Bytes :=
  bytesOf32BE s.a ++ bytesOf32BE s.b ++ bytesOf32BE s.c ++ bytesOf32BE s.d
    ++ bytesOf32BE s.e ++ bytesOf32BE s.f ++ bytesOf32BE s.g ++ bytesOf32BE s.h

def sha256 : Alg (S8 UInt32) :=
  mdAlg 64 8 true ⟨0x6a09e667, 0xbb67ae85, 0x3c6ef372, 0xa54ff53a, 0x510e527f, 0x9b05688c, 0x1f83d9ab, 0x5be0cd19⟩
    sha256Compress (fun s => hexOfBytes (sha256Bytes s))

def sha224 : Alg (S8 UInt32) :=
  mdAlg 64 8 true ⟨0xc1059ed8, 0x367cd507, 0x3070dd17, 0xf70e5939, 0xffc00b31, 0x68581511, 0x64f98fa7, 0xbefa4fa4⟩
    sha256Compress (fun s => hexOfBytes ((sha256Bytes s).take 28))

/-! ### SHA-384 / SHA-512 (FIPS 180-4) -/

def sha512K : List UInt64 :=
  [0x428a2f98d728ae22, 0x7137449123ef65cd, 0xb5c0fbcfec4d3b2f, 0xe9b5dba58189dbbc,
   0x3956c25bf348b538, 0x59f111f1b605d019, 0x923f82a4af194f9b, 0xab1c5ed5da6d8118,
   0xd807aa98a3030242, 0x12835b0145706fbe, 0x243185be4ee4b28c, 0x550c7dc3d5ffb4e2,
   0x72be5d74f27b896f, 0x80deb1fe3b1696b1, 0x9bdc06a725c71235, 0xc19bf174cf692694,
   0xe49b69c19ef14ad2, 0xefbe4786384f25e3, 0x0fc19dc68b8cd5b5, 0x240ca1cc77ac9c65,
   0x2de92c6f592b0275, 0x4a7484aa6ea6e483, 0x5cb0a9dcbd41fbd4, 0x76f988da831153b5,
   0x983e5152ee66dfab, 0xa831c66d2db43210, 0xb00327c898fb213f, 0xbf597fc7beef0ee4,
   0xc6e00bf33da88fc2, 0xd5a79147930aa725, 0x06ca6351e003826f, 0x142929670a0e6e70,
   0x27b70a8546d22ffc, 0x2e1b21385c26c926, 0x4d2c6dfc5ac42aed, 0x53380d139d95b3df,
   0x650a73548baf63de, 0x766a0abb3c77b2a8, 0x81c2c92e47edaee6, 0x92722c851482353b,
   0xa2bfe8a14cf10364, 0xa81a664bbc423001, 0xc24b8b70d0f89791, 0xc76c51a30654be30,
   0xd192e819d6ef5218, 0xd69906245565a910, 0xf40e35855771202a, 0x106aa07032bbd1b8,
   0x19a4c116b8d2d0c8, 0x1e376c085141ab53, 0x2748774cdf8eeb99, 0x34b0bcb5e19b48a8,
   0x391c0cb3c5c95a63, 0x4ed8aa4ae3418acb, 0x5b9cca4f7763e373, 0x682e6ff3d6b2b8a3,
   0x748f82ee5defb2fc, 0x78a5636f43172f60, 0x84c87814a1f0ab72, 0x8cc702081a6439ec,
   0x90befffa23631e28, 0xa4506cebde82bde9, 0xbef9a3f7b2c67915, 0xc67178f2e372532b,
   0xca273eceea26619c, 0xd186b8c721c0c207, 0xeada7dd6cde0eb1e, 0xf57d4f7fee6ed178,
   0x06f067aa72176fba, 0x0a637dc5a2c898a6, 0x113f9804bef90dae, 0x1b710b35131c471b,
   0x28db77f523047d84, 0x32caab7b40c72493, 0x3c9ebe0a15c9bebc, 0x431d67c49c100d4c,
   0x4cc5d4becb3e42b6, 0x597f299cfc657e2a, 0x5fcb6fab3ad6faec, 0x6c44198c4a475817]

def sha512Sched : Nat → List UInt64 → List UInt64
  | 0, w => w
  | n + 1, w =>
    let w15 := w.getD 14 0
    let w2 := w.getD 1 0
    let s0 := rotr64 w15 1 ^^^ rotr64 w15 8 ^^^ (w15 >>> 7)
    let s1 := rotr64 w2 19 ^^^ rotr64 w2 61 ^^^ (w2 >>> 6)
    sha512Sched n ((w.getD 15 0 + s0 + w.getD 6 0 + s1) :: w)

def sha512Round (s : S8 UInt64) (kw : UInt64 × UInt64) : S8 UInt64 :=
  let s1 := rotr64 s.e 14 ^^^ rotr64 s.e 18 ^^^ rotr64 s.e 41
  let ch := (s.e &&& s.f) ^^^ (~~~ s.e &&& s.g)
  let t1 := s.h + s1 + ch + kw.1 + kw.2
  let s0 := rotr64 s.a 28 ^^^ rotr64 s.a 34 ^^^ rotr64 s.a 39
  let maj := (s.a &&& s.b) ^^^ (s.a &&& s.c) ^^^ (s.b &&& s.c)
  ⟨t1 + (s0 + maj), s.a, s.b, s.c, s.d + t1, s.e, s.f, s.g⟩

def sha512Compress (s : S8 UInt64) (block : Bytes) : S8 UInt64 :=
  let w := (sha512Sched 64 ((groups 8 16 block).map word64BE).reverse).reverse
  let r := (sha512K.zip w).foldl sha512Round s
  ⟨s.a + r.a, s.b + r.b, s.c + r.c, s.d + r.d, s.e + r.e, s.f + r.f, s.g + r.g, s.h + r.h⟩

def sha512Bytes (s : S8 UInt64) : Bytes :=
  bytesOf64BE s.a ++ bytesOf64BE s.b ++ bytesOf64BE s.c ++ bytesOf64BE s.d
    ++ bytesOf64BE s.e ++ bytesOf64BE s.f ++ bytesOf64BE s.g ++ bytesOf64BE s.h

def sha512 : Alg (S8 UInt64) :=
  mdAlg 128 16 true
    ⟨0x6a09e667f3bcc908, 0xbb67ae8584caa73b, 0x3c6ef372fe94f82b, 0xa54ff53a5f1d36f1,
     0x510e527fade682d1, 0x9b05688c2b3e6c1f, 0x1f83d9abfb41bd6b, 0x5be0cd19137e2179⟩
    sha512Compress (fun s => hexOfBytes (sha512Bytes s))

def sha384 : Alg (S8 UInt64) :=
  mdAlg 128 16 true
    ⟨0xcbbb9d5dc1059ed8, 0x629a292a367cd507, 0x9159015a3070dd17, 0x152fecd8f70e5939,
     0x67332667ffc00b31, 0x8eb44a8768581511, 0xdb0c2e0d64f98fa7, 0x47b5481dbefa4fa4⟩
    sha512Compress (fun s => hexOfBytes ((sha512Bytes s).take 48))

end HashMD
end PM
