import ProductMD.Model.TreeInfoLegacy
/-!
# C17: a pre-productmd reader on the compatibility sections

The last sentence of C17: *a pre-productmd reader given only the compatibility sections sees the same tree*.  The stand-in
for such a reader is the library's own reader for files without `[header]` (`Legacy.deserialize` at header version 0.0).
This file holds the statement-level definitions: which sections are handed over (`compatDoc`) and, in closed form, the
tree the 0.0 reader builds from them (`legacyTree`); `Proofs/C17Legacy.lean` proves that it does.
-/
namespace PM
namespace TI
open Ini Legacy

/-- the sections of a written `.treeinfo` that a pre-productmd file also has -/
def compatSec (s : Str) : Bool := s == sGeneral || s == sStage2 || s == sChecksums || Str.startsWith s pImages

/-- the written document restricted to them: no `[header]`, `[release]`, `[tree]`, `[variant-*]`, `[addon-*]`,
`[media]`, `[base_product]` -/
def compatDoc (d : Ini) : Ini := d.filter fun s => compatSec s.1

/-- `Release.deserialize_0_0` on the version string: the last part between `-` / `_` that is a dotted number, else everything -/
def legacyVersion (version : Str) : Str :=
  (splitCls { ranges := [(45, 45), (95, 95)], neg := false } version).foldl
    (fun v i => if pyMatches Gen.re_treeinfo_Release_deserialize_0_0_1 i then i else v) version

/-- the release a 0.0 reader makes of `[general] family / version`: known families are normalised and get their short name -/
def legacyRelease (t : TreeInfo) : Product :=
  ⟨(releaseShort00 t.release.name).1, (releaseShort00 t.release.name).2, legacyVersion t.release.version⟩

/-- `set.add` in insertion order -/
def dedupe (l : List Str) : List Str := l.foldl (fun acc p => if acc.contains p then acc else acc ++ [p]) []

/-- the platforms a 0.0 reader knows: the tree architecture and one per `[images-*]` section
(`[general] platforms` is not consulted) -/
def legacyPlatforms (t : TreeInfo) : List Str := dedupe ([t.tree.arch] ++ (sortKV t.images).map (·.1))

/-- `a if a is not None else b` -/
def orOpt (a b : Option Str) : Option Str := match a with | some r => some r | none => b

/-- `VariantPaths.deserialize_0_0` when only `[general]` can answer: `repo` / `pkgdir` are `[general] repository` /
`packagedir` (absent = `none`).  A missing repository is `.`, a missing package directory is the repository; trailing `/`
and a trailing `/repodata` go; RHEL 3–6 and Fedora get their historical layouts; in a `src` tree both land in the
`source_*` fields. -/
def legacyPathVals (c : VCtx) (id : Str) (repo pkgdir : Option Str) : PathVals :=
  let repo0 : Option Str := orOpt repo (some ".".toList)
  let repo1 := orStr (some (rstripSlash (repo0.getD []))) ".".toList
  let repo2 := if Str.endsWith repo1 "/repodata".toList then repo1.take (repo1.length - 9) else repo1
  let repo3 : Option Str :=
    if repo2 == ".".toList then
      let r56 : Option Str := if isRhelMajor c ["5".toList, "6".toList] then some id else some repo2
      if isRhelMajor c ["3".toList, "4".toList] then none else r56
    else some repo2
  let pk0 : Option Str := orOpt pkgdir repo3
  let pk1 := orStr (some (rstripSlash (orStr pk0 []))) ".".toList
  let pk2 : Str :=
    if isRhelMajor c ["5".toList] then id
    else if isRhelMajor c ["3".toList, "4".toList] then "RedHat/RPMS".toList
    else if c.relShort == sFedora then (if pk1 == ".".toList then "Packages".toList else pk1)
    else pk1
  let blank : PathVals := Gen.TREEINFO_PATH_FIELDS.map fun f => (f, none)
  let vals := setVal kPackages (some pk2) (setVal kRepository repo3 blank)
  setVal kIdentity none (if c.arch == sSrc then srcSwap vals else vals)

/-- the one variant a 0.0 reader builds -/
def legacyVariant (c : VCtx) (key : Str) (repo pkgdir : Option Str) : Variant :=
  .mk key key key key tVariant (valsToPaths (legacyPathVals c key repo pkgdir)) []

def legacyCtx (t : TreeInfo) : VCtx :=
  ⟨(legacyRelease t).name, (legacyRelease t).short, (legacyRelease t).version, t.tree.arch⟩

/-- **what the 0.0 reader makes of the compatibility sections** of the document written for `t`, where `[general]` names
the variant `key` (designating `chosen`) and carries the timestamp the reader turns into `n'` -/
def legacyTree (t : TreeInfo) (n' : Int) (key : Str) (chosen : Variant) : TreeInfo :=
  { headerVersion := currentVersion, release := legacyRelease t, isLayered := false, baseProduct := none,
    tree := ⟨t.tree.arch, .int n', legacyPlatforms t⟩,
    variants := [legacyVariant (legacyCtx t) key
      (generalPath t.tree.arch chosen.paths "repository".toList "source_repository".toList)
      (generalPath t.tree.arch chosen.paths "packages".toList "source_packages".toList)],
    checksums := (norm t).checksums, images := (norm t).images,
    mainimage := (norm t).mainimage, instimage := (norm t).instimage, discnum := none, totaldiscs := none }

end TI
end PM
