import ProductMD.Model.Customs
import ProductMD.Model.Chars
import ProductMD.Model.Structure
import ProductMD.Model.Gate
import ProductMD.Generated.Structure
import ProductMD.Generated.Gates
import ProductMD.Generated.Tables
/-!
# Model of `dump`/`dumps` (C06) as a walk over the parts of an object

An object of one of the seven formats is a skeleton (sections, the variant forest, the image cells) whose nodes carry
the attributes the validators read as `Obj` (attribute ↦ `PyVal`); everything the writers copy verbatim (path tables,
payload tables, platform sets) is not part of the model.  `dumps` is the list of `Step`s the writer performs up to the
end of `serialize`, first failure wins:

* `Step.validate p`   – a `x.validate()` call, placed exactly where the GENERATED call structure says the writer of that
                        class calls it (`Gen.struct_*`, read only through `validatesFirst/…` of `Model/Structure.lean`);
* `Step.check r`      – a non-validator failure source of the writer that involves a validated attribute
                        (`sorted(self.arches)`, unhashable/duplicate UID in `setdefault`, `int(None)` in treeinfo Media,
                        `variants[0]` on an empty tree, `"variant-" + uid`).

Not modelled (stated in the theorems' domain): the text rendering (`build_file`: C01–C04 are about that), failure
sources inside unvalidated attributes (non-string treeinfo variant `name`, path tables, platform sets of a foreign type,
non-serialisable payload), the `new_dump != dump` exemption for two variants with equal UID *and* equal content,
duplicate INI sections.
-/
namespace PM.Val
open PM

/-! ### customs: the shared bindings of `Model/Customs.lean`, refined / completed where C06 needs more -/

def isInfixB (t : Str) : Str → Bool
  | [] => t.isEmpty
  | c :: cs => t.isPrefixOf (c :: cs) || isInfixB t cs

/-- `x in container` -/
def pyContains (container x : PyVal) : Except Err Bool :=
  match container with
  | .list xs => .ok (xs.any (PyVal.pyEq x ·))
  | .dict kvs => match x with
      | .str s => .ok (kvs.any (·.1 == s))
      | .list _ | .dict _ => .error .typeError           -- unhashable
      | _ => .ok false
  | .str s => match x with
      | .str t => .ok (isInfixB t s)
      | _ => .error .typeError
  | .none | .bool _ | .int _ | .float _ => .error .typeError
  | .other _ => .error .other

/-- every arch of the child is `in` the parent's arch container; first failure wins -/
def allIn (container : PyVal) : List PyVal → Except Err Unit
  | [] => .ok ()
  | a :: rest => match pyContains container a with
      | .ok true => allIn container rest
      | .ok false => .error .valueError
      | .error e => .error e

def isNoneV : PyVal → Bool | .none => true | _ => false
def isForeign : PyVal → Bool | .other _ => true | _ => false

/-- pseudo-attribute `parent.<f>` -/
def parentAttr (o : Obj) (f : Str) : PyVal := ((o.get c!"parent").get? f).getD .none

/-- composeinfo `Variant._validate_parent_arch`, with Python's `in` for every kind of parent arch container -/
def ciVariantParentArch2 (o : Obj) : Except Err Unit :=
  if isNoneV (o.get c!"parent") then .ok () else
  match pyIter (o.get c!"arches") with
  | none => .error .typeError
  | some arches => allIn (parentAttr o c!"arches") arches

/-- `"%s-%s" % (self.parent.uid, self.id)` compared with the (string) uid; `Err.other` = the model cannot format a list, a
dict or a foreign object (Python can: the outcome is then "equal or ValueError", which of the two is not modelled) -/
def alignedWith (o : Obj) (u : Str) : Except Err Unit :=
  match pyFormat (parentAttr o c!"uid"), pyFormat (o.get c!"id") with
  | some pu, some i => if u == pu ++ '-' :: i then .ok () else .error .valueError
  | _, _ => .error .other

/-- composeinfo `Variant._validate_uid` (with the F23 repair: `_assert_type("uid", str)` comes first) -/
def ciVariantUid2 (o : Obj) : Except Err Unit :=
  match o.get c!"uid" with
  | .str u =>
    if isNoneV (o.get c!"parent") then
      (if PyVal.pyEq (.str (Str.removeChar '-' u)) (o.get c!"id") then .ok () else .error .valueError)
    else alignedWith o u
  | _ => .error .typeError

/-- treeinfo `Variant._validate_uid`: a non-string uid under a parent differs from every formatted string -/
def tiVariantUid2 (o : Obj) : Except Err Unit :=
  if isNoneV (o.get c!"parent") then .ok () else
  match o.get c!"uid" with
  | .str u => alignedWith o u
  | _ => .error .valueError

/-- treeinfo `Checksums._validate_checksum_paths` (exists since the F4 repair); a container that is not a dict is a
wrong-shape skeleton (`Err.other`: the writer fails later on `.items()`, not modelled) -/
def tiChecksumPaths (o : Obj) : Except Err Unit :=
  match o.get c!"checksums" with
  | .dict kvs => if kvs.any (fun kv => Str.startsWith kv.1 ['/']) then .error .valueError else .ok ()
  | .none | .bool _ | .int _ | .float _ => .error .typeError
  | _ => .error .other

/-- one platform table of treeinfo `Images`: every path a relative string (F23 repair: TypeError for a non-string) -/
def pathsOk : List (Str × PyVal) → Except Err Unit
  | [] => .ok ()
  | (_, .str s) :: rest => if Str.startsWith s ['/'] then .error .valueError else pathsOk rest
  | _ :: _ => .error .typeError

/-- treeinfo `Images._validate_image_paths`; a platform table that is not a dict is a wrong-shape skeleton
(`self.images[platform].items()` raises AttributeError) -/
def platsOk : List (Str × PyVal) → Except Err Unit
  | [] => .ok ()
  | (_, .dict kv) :: rest => match pathsOk kv with
      | .ok () => platsOk rest
      | .error e => .error e
  | _ :: _ => .error .attributeError

def tiImagePaths2 (o : Obj) : Except Err Unit :=
  match o.get c!"images" with
  | .dict plats => platsOk plats
  | _ => .ok ()

/-- interpretation of `Rule.custom` for C06/C07: the nine hand-bound validator bodies (own statements of the shared bindings of
`Model/Customs.lean`, with `in` / `%s` / container shapes spelled out); anything else is unbound and can never pass -/
def customs2 (n : Str) (o : Obj) : Except Err Unit :=
  if n == c!"composeinfo.Compose._validate_label:verify_label(self.label)" then verifyLabel (o.get c!"label")
  else if n == c!"composeinfo.Variant._validate_parent_arch" then ciVariantParentArch2 o
  else if n == c!"composeinfo.Variant._validate_uid" then ciVariantUid2 o
  else if n == c!"composeinfo.VariantBase._validate_variants" then validateVariantKeys o
  else if n == c!"discinfo.DiscInfo._validate_timestamp" then discTimestamp o
  else if n == c!"treeinfo.Checksums._validate_checksum_paths" then tiChecksumPaths o
  else if n == c!"treeinfo.Images._validate_image_paths" then tiImagePaths2 o
  else if n == c!"treeinfo.Images._validate_platforms" then tiImagePlatforms o
  else if n == c!"treeinfo.Variant._validate_uid" then tiVariantUid2 o
  else .error .other

def genRules (cls : String) : List Rule := ((Gen.allClasses.find? (·.1 == cls)).map (·.2.flat)).getD []

/-- `obj.validate()` for an object of the named class: the generated rule list, in the order `validate()` runs it -/
def validate2 (cls : String) (o : Obj) : Except Err Unit := runRules customs2 o (genRules cls)

/-! ### steps -/

structure Part where
  cls : String
  obj : Obj

inductive Step where
  | validate (p : Part)
  | check (r : Except Err Unit)

def Step.run : Step → Except Err Unit
  | .validate p => validate2 p.cls p.obj
  | .check r => r

def runSteps : List Step → Except Err Unit
  | [] => .ok ()
  | s :: rest => match s.run with
      | .ok () => runSteps rest
      | .error e => .error e

def vstep (flag : Bool) (cls : String) (o : Obj) : List Step := if flag then [.validate ⟨cls, o⟩] else []

/-! ### small Python operations on validated attributes -/

def isStr : PyVal → Bool | .str _ => true | _ => false
def isNum : PyVal → Bool | .int _ | .bool _ | .float _ => true | _ => false

/-- `sorted(v)`: does it raise?  (elements must be pairwise comparable: all strings or all numbers; the arch SET of a real
object travels as a list, so a foreign object here is not iterable) -/
def pySortedOk : PyVal → Except Err Unit
  | .list xs => if xs.length ≤ 1 || xs.all isStr || xs.all isNum then .ok () else .error .typeError
  | .str _ | .dict _ => .ok ()
  | _ => .error .typeError

/-- `d[k] = …` / `d.get(k)`: a list or dict key is unhashable -/
def hashable : PyVal → Except Err Unit
  | .list _ | .dict _ => .error .typeError
  | _ => .ok ()

def hashableElems : PyVal → Except Err Unit
  | .list xs => if xs.all (fun x => match x with | .list _ | .dict _ => false | _ => true) then .ok () else .error .typeError
  | _ => .ok ()

/-- `int(v)` for the values that pass Media's validators -/
def pyIntOk : PyVal → Except Err Unit
  | .none => .error .typeError
  | _ => .ok ()

def currentVersion : Str := Str.natStr Gen.VERSION.1 ++ '.' :: Str.natStr Gen.VERSION.2

def withCurrentVersion (h : Obj) : Obj := (c!"version", PyVal.str currentVersion) :: h.filter (·.1 != c!"version")

/-! ### flags read from the generated call structure -/
namespace Flag
def headerJsonSetsThenValidates : Bool := validatesAfterCall Gen.struct_common_Header_serialize "self.set_current_version"
def headerJsonValidatesFirst : Bool := validatesFirst Gen.struct_common_Header_serialize
def compose : Bool := validatesFirst Gen.struct_composeinfo_Compose_serialize
def ciRelease : Bool := validatesFirst Gen.struct_composeinfo_Release_serialize
def ciBaseProduct : Bool := validatesFirst Gen.struct_composeinfo_BaseProduct_serialize
def ciVariants : Bool := validatesFirst Gen.struct_composeinfo_Variants_serialize
def ciVariantLast : Bool := validatesLast Gen.struct_composeinfo_Variant_serialize
def image : Bool := validatesFirst Gen.struct_images_Image_serialize
def dumpTop : Bool := validatesFirst Gen.struct_common_MetadataBase_dump
def tiDumpTop : Bool := validatesFirst Gen.struct_treeinfo_TreeInfo_dump
def tiHeader : Bool := validatesFirst Gen.struct_treeinfo_Header_serialize
def tiRelease : Bool := validatesFirst Gen.struct_treeinfo_Release_serialize
def tiBaseProduct : Bool := validatesFirst Gen.struct_treeinfo_BaseProduct_serialize
def tiTree : Bool := validatesFirst Gen.struct_treeinfo_Tree_serialize
def tiVariants : Bool := validatesFirst Gen.struct_treeinfo_Variants_serialize
def tiVariant : Bool := validatesFirst Gen.struct_treeinfo_Variant_serialize
def tiChecksums : Bool := validatesFirst Gen.struct_treeinfo_Checksums_serialize
def tiImages : Bool := validatesAfterEarlyReturn Gen.struct_treeinfo_Images_serialize ["ifnot:self.images"]
def tiStage2 : Bool := validatesAfterEarlyReturn Gen.struct_treeinfo_Stage2_serialize ["unknown:not self.mainimage and (not self.instimage)"]
def tiMedia : Bool := validatesAfterEarlyReturn Gen.struct_treeinfo_Media_serialize ["unknown:not self.discnum and (not self.totaldiscs)"]
def disc : Bool := validatesFirst Gen.struct_discinfo_DiscInfo_serialize
end Flag

/-- `Header.serialize` of the JSON formats: the current version is stored first, then the header validates -/
def jsonHeaderSteps (h : Obj) : List Step :=
  if Flag.headerJsonSetsThenValidates then [.validate ⟨"common.Header", withCurrentVersion h⟩]
  else vstep Flag.headerJsonValidatesFirst "common.Header" h

/-! ### rpms / modules / extra_files: header and compose -/

structure SimpleM where
  cls : String            -- "rpms.Rpms" | "modules.Modules" | "extra_files.ExtraFiles"
  header : Obj
  compose : Obj

def SimpleM.parts (m : SimpleM) : List Part :=
  [⟨"common.Header", withCurrentVersion m.header⟩, ⟨"composeinfo.Compose", m.compose⟩]

def SimpleM.steps (m : SimpleM) : List Step :=
  vstep Flag.dumpTop m.cls [] ++ jsonHeaderSteps m.header ++ vstep Flag.compose "composeinfo.Compose" m.compose

def SimpleM.dumps (m : SimpleM) : Except Err Unit := runSteps m.steps

/-! ### images -/

structure ImagesM where
  header : Obj
  compose : Obj
  cells : List (Str × List (Str × List Obj))     -- variant ↦ arch ↦ images, in iteration order

def ImagesM.all (m : ImagesM) : List Obj := m.cells.flatMap fun c => c.2.flatMap (·.2)

def ImagesM.parts (m : ImagesM) : List Part :=
  [⟨"common.Header", withCurrentVersion m.header⟩, ⟨"composeinfo.Compose", m.compose⟩] ++ m.all.map (⟨"images.Image", ·⟩)

def ImagesM.steps (m : ImagesM) : List Step :=
  vstep Flag.dumpTop "images.Images" [] ++ jsonHeaderSteps m.header ++ vstep Flag.compose "composeinfo.Compose" m.compose
    ++ m.all.flatMap (vstep Flag.image "images.Image")

def ImagesM.dumps (m : ImagesM) : Except Err Unit := runSteps m.steps

/-! ### composeinfo -/

/-- a variant: its key in the parent's container, its own attributes, its own release (used for layered products), children
in the iteration order of `self.variants.values()` -/
inductive CIVar where
  | mk (key : Str) (attrs : Obj) (release : Obj) (kids : List CIVar)

instance : Inhabited CIVar := ⟨.mk [] [] [] []⟩

def CIVar.key : CIVar → Str | .mk k _ _ _ => k
def CIVar.attrs : CIVar → Obj | .mk _ a _ _ => a
def CIVar.release : CIVar → Obj | .mk _ _ r _ => r
def CIVar.kids : CIVar → List CIVar | .mk _ _ _ ks => ks

structure ComposeInfoM where
  header : Obj
  compose : Obj
  release : Obj
  baseProduct : Obj
  variants : List CIVar            -- top level, any order (the writer sorts by key)

/-- pseudo-attribute `variants` of a container: key ↦ summary of the child -/
def kidSummary (parentNone : Bool) (key : Str) (attrs : Obj) : Str × PyVal :=
  (key, .dict [(c!"id", attrs.get c!"id"), (c!"uid", attrs.get c!"uid"), (c!"type", attrs.get c!"type"),
               (c!"parent_none", .bool parentNone)])

def ciKidsPseudo (parentNone : Bool) (kids : List CIVar) : PyVal :=
  .dict (kids.map fun k => kidSummary parentNone k.key k.attrs)

def parentPseudo (attrs : Obj) : PyVal := .dict [(c!"uid", attrs.get c!"uid"), (c!"arches", attrs.get c!"arches")]

/-- the attributes of a variant as its validators see them -/
def ciVarObj (parent : PyVal) (attrs : Obj) (kids : List CIVar) : Obj :=
  (c!"parent", parent) :: (c!"variants", ciKidsPseudo false kids) :: attrs

/-- what `Variant.serialize` does with one variant: `enter` before its children are written, `exit` after -/
inductive Ev where
  | enter (o : Obj) (release : Obj)
  | exit (o : Obj)

mutual
def CIVar.events (parent : PyVal) : CIVar → List Ev
  | .mk _ attrs rel kids =>
    .enter (ciVarObj parent attrs kids) rel :: (eventsList (parentPseudo attrs) kids ++ [.exit (ciVarObj parent attrs kids)])
def eventsList (parent : PyVal) : List CIVar → List Ev
  | [] => []
  | v :: vs => v.events parent ++ eventsList parent vs
end

def isLayeredProduct (o : Obj) : Bool := PyVal.pyEq (o.get c!"type") (.str c!"layered-product")

/-- the release of a layered-product variant as written: `self.release.is_layered = True` precedes its `serialize` -/
def layeredRelease (rel : Obj) : Obj := (c!"is_layered", PyVal.bool true) :: rel.filter (·.1 != c!"is_layered")

def evSteps : List PyVal → List Ev → List Step
  | _, [] => []
  | seen, .enter o rel :: rest =>
      [Step.check (pySortedOk (o.get c!"arches"))]
        ++ (if isLayeredProduct o then vstep Flag.ciRelease "composeinfo.Release" (layeredRelease rel) else [])
        ++ [Step.check (hashableElems (o.get c!"arches"))]
        ++ evSteps seen rest
  | seen, .exit o :: rest =>
      [Step.check (hashable (o.get c!"uid")),
       Step.check (if seen.any (PyVal.pyEq (o.get c!"uid")) then .error .valueError else .ok ())]
        ++ vstep Flag.ciVariantLast "composeinfo.Variant" o
        ++ evSteps (o.get c!"uid" :: seen) rest

def evParts : Ev → List Part
  | .enter o rel => if isLayeredProduct o then [⟨"composeinfo.Release", layeredRelease rel⟩] else []
  | .exit o => [⟨"composeinfo.Variant", o⟩]

def ComposeInfoM.sorted (m : ComposeInfoM) : List CIVar := m.variants.mergeSort (fun a b => Str.le a.key b.key)

def ComposeInfoM.events (m : ComposeInfoM) : List Ev := eventsList .none m.sorted

def ComposeInfoM.containerObj (m : ComposeInfoM) : Obj := [(c!"variants", ciKidsPseudo true m.variants)]

def ComposeInfoM.layered (m : ComposeInfoM) : Bool := (m.release.get c!"is_layered").truthy

def ComposeInfoM.parts (m : ComposeInfoM) : List Part :=
  [⟨"common.Header", withCurrentVersion m.header⟩, ⟨"composeinfo.Compose", m.compose⟩, ⟨"composeinfo.Release", m.release⟩]
    ++ (if m.layered then [⟨"composeinfo.BaseProduct", m.baseProduct⟩] else [])
    ++ [⟨"composeinfo.Variants", m.containerObj⟩]
    ++ m.events.flatMap evParts

def ComposeInfoM.steps (m : ComposeInfoM) : List Step :=
  vstep Flag.dumpTop "composeinfo.ComposeInfo" [] ++ jsonHeaderSteps m.header
    ++ vstep Flag.compose "composeinfo.Compose" m.compose
    ++ vstep Flag.ciRelease "composeinfo.Release" m.release
    ++ (if m.layered then vstep Flag.ciBaseProduct "composeinfo.BaseProduct" m.baseProduct else [])
    ++ vstep Flag.ciVariants "composeinfo.Variants" m.containerObj
    ++ evSteps [] m.events

def ComposeInfoM.dumps (m : ComposeInfoM) : Except Err Unit := runSteps m.steps

/-! ### treeinfo -/

inductive TIVar where
  | mk (key : Str) (attrs : Obj) (kids : List TIVar)

instance : Inhabited TIVar := ⟨.mk [] [] []⟩

def TIVar.key : TIVar → Str | .mk k _ _ => k
def TIVar.attrs : TIVar → Obj | .mk _ a _ => a
def TIVar.kids : TIVar → List TIVar | .mk _ _ ks => ks

structure TreeInfoM where
  header : Obj
  release : Obj
  baseProduct : Obj
  tree : Obj                    -- includes `platforms` (list of str)
  variants : List TIVar         -- top level, in the iteration order of `self.variants.values()`
  checksums : Obj
  images : Obj
  stage2 : Obj
  media : Obj

def tiKidsPseudo (parentNone : Bool) (kids : List TIVar) : PyVal :=
  .dict (kids.map fun k => kidSummary parentNone k.key k.attrs)

def tiVarObj (parent : PyVal) (attrs : Obj) (kids : List TIVar) : Obj :=
  (c!"parent", parent) :: (c!"variants", tiKidsPseudo false kids) :: attrs

mutual
/-- the variants in the order their `serialize` starts (parent before children) -/
def TIVar.flat (parent : PyVal) : TIVar → List Obj
  | .mk _ attrs kids => tiVarObj parent attrs kids :: tiFlatList (.dict [(c!"uid", attrs.get c!"uid")]) kids
def tiFlatList (parent : PyVal) : List TIVar → List Obj
  | [] => []
  | v :: vs => v.flat parent ++ tiFlatList parent vs
end

def floatBody (r : Str) : Str := Str.lowerAscii (match r with | '-' :: t => t | t => t)

/-- `int(v)` of a float that is not finite: `nan` ValueError, `inf` OverflowError (`Err.other`) -/
def nonFinite : PyVal → Option Err
  | .float r => if floatBody r == c!"nan" then some .valueError else if floatBody r == c!"inf" then some .other else none
  | _ => none

namespace TreeInfoM
variable (m : TreeInfoM)

def layered : Bool := (m.release.get c!"is_layered").truthy
def containerObj : Obj := [(c!"variants", tiKidsPseudo true m.variants)]
def flat : List Obj := tiFlatList .none m.variants
def imagesObj : Obj := (c!"tree.platforms", m.tree.get c!"platforms") :: m.images.filter (·.1 != c!"tree.platforms")
def hasImages : Bool := (m.images.get c!"images").truthy
def hasStage2 : Bool := (m.stage2.get c!"mainimage").truthy || (m.stage2.get c!"instimage").truthy
def hasMedia : Bool := (m.media.get c!"discnum").truthy || (m.media.get c!"totaldiscs").truthy

def parts : List Part :=
  [⟨"treeinfo.Header", m.header⟩, ⟨"treeinfo.Release", m.release⟩]
    ++ (if m.layered then [⟨"treeinfo.BaseProduct", m.baseProduct⟩] else [])
    ++ [⟨"treeinfo.Tree", m.tree⟩, ⟨"treeinfo.Variants", m.containerObj⟩]
    ++ m.flat.map (⟨"treeinfo.Variant", ·⟩)
    ++ [⟨"treeinfo.Checksums", m.checksums⟩]
    ++ (if m.hasImages then [⟨"treeinfo.Images", m.imagesObj⟩] else [])
    ++ (if m.hasStage2 then [⟨"treeinfo.Stage2", m.stage2⟩] else [])
    ++ (if m.hasMedia then [⟨"treeinfo.Media", m.media⟩] else [])

/-- `General.serialize`: `str(int(build_timestamp))` — a float that is not finite cannot be converted (`nan`: ValueError; `inf`:
OverflowError, a class `Err` does not have: `Err.other`) — then `variants[0]` on an empty tree (IndexError) -/
def generalOk : Except Err Unit :=
  match nonFinite (m.tree.get c!"build_timestamp") with
  | some e => .error e
  | none => if m.variants.isEmpty then .error .indexError else .ok ()

def variantSteps (o : Obj) : List Step :=
  vstep Flag.tiVariant "treeinfo.Variant" o
    ++ [Step.check (if isStr (o.get c!"uid") then .ok () else .error .typeError)]      -- `"variant-" + self.uid`

def steps : List Step :=
  vstep Flag.tiDumpTop "treeinfo.TreeInfo" [] ++ vstep Flag.tiHeader "treeinfo.Header" m.header
    ++ vstep Flag.tiRelease "treeinfo.Release" m.release
    ++ (if m.layered then vstep Flag.tiBaseProduct "treeinfo.BaseProduct" m.baseProduct else [])
    ++ vstep Flag.tiTree "treeinfo.Tree" m.tree
    ++ vstep Flag.tiVariants "treeinfo.Variants" m.containerObj
    ++ m.flat.flatMap variantSteps
    ++ vstep Flag.tiChecksums "treeinfo.Checksums" m.checksums
    ++ (if m.hasImages then vstep Flag.tiImages "treeinfo.Images" m.imagesObj else [])
    ++ (if m.hasStage2 then vstep Flag.tiStage2 "treeinfo.Stage2" m.stage2 else [])
    ++ (if m.hasMedia then vstep Flag.tiMedia "treeinfo.Media" m.media
          ++ [Step.check (pyIntOk (m.media.get c!"discnum")), Step.check (pyIntOk (m.media.get c!"totaldiscs"))] else [])
    ++ [Step.check m.generalOk]

def dumps : Except Err Unit := runSteps m.steps

end TreeInfoM

/-! ### discinfo -/

structure DiscM where
  obj : Obj

def DiscM.parts (m : DiscM) : List Part := [⟨"discinfo.DiscInfo", m.obj⟩]
def DiscM.steps (m : DiscM) : List Step :=
  vstep Flag.dumpTop "discinfo.DiscInfo" m.obj ++ vstep Flag.disc "discinfo.DiscInfo" m.obj
def DiscM.dumps (m : DiscM) : Except Err Unit := runSteps m.steps

end PM.Val
