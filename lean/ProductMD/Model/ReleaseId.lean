import ProductMD.Model.Regex
import ProductMD.Model.Py
import ProductMD.Generated.Regexes
import ProductMD.Generated.Tables
/-!
Release identifiers (`productmd/common.py`): the three validity predicates, `create_release_id`,
`parse_release_id` and `_parse_release_id_part`, statement by statement.

The patterns and the table of known release types are the generated ones (`Gen.*`), so the model follows the
source.  Every exception the code can raise here is a `ValueError` (unpacking a `split` of the wrong arity, the
explicit `raise`s) except `re.match(None)` → `TypeError` when a base-product part is left at its `None` default.
-/
namespace PM

/-- `is_valid_release_short(short)` -/
def isValidReleaseShort (s : Str) : Bool := pyMatches Gen.re_common_RELEASE_SHORT_RE s
/-- `is_valid_release_version(version)` -/
def isValidReleaseVersion (s : Str) : Bool := pyMatches Gen.re_common_RELEASE_VERSION_RE s
/-- `is_valid_release_type(release_type)` -/
def isValidReleaseType (s : Str) : Bool := pyMatches Gen.re_common_RELEASE_TYPE_RE s

/-- the three parts of a release (or base product) identifier -/
structure Rel where
  short : Str
  version : Str
  type : Str
deriving DecidableEq, Repr, Inhabited

/-- the implicit release type -/
def GA : Str := ['g', 'a']

/-- `create_release_id(short, version, type)` without a base product; `version`/`type` may be Python `None`
(the defaults of `bp_version`/`bp_type`), on which `re.match` raises `TypeError`. -/
def createPartO (short : Str) (version type : Option Str) : Except Err Str :=
  if !isValidReleaseShort short then .error .valueError else
  match version with
  | none => .error .typeError
  | some v =>
    if !isValidReleaseVersion v then .error .valueError else
    match type with
    | none => .error .typeError
    | some t =>
      if !isValidReleaseType t then .error .valueError else
      if t = GA then .ok (short ++ '-' :: v)
      else .ok (short ++ '-' :: v ++ '-' :: t)

def createPart (short version type : Str) : Except Err Str := createPartO short (some version) (some type)

/-- `create_release_id(short, version, type, bp_short=None, bp_version=None, bp_type=None)`;
`if bp_short:` is Python truthiness (`None` and `""` both mean "no base product"). -/
def createReleaseId (short version type : Str) (bpShort bpVersion bpType : Option Str) : Except Err Str :=
  match createPart short version type with
  | .error e => .error e
  | .ok result =>
    match bpShort with
    | none => .ok result
    | some b =>
      if b.isEmpty then .ok result else
      match createPartO b bpVersion bpType with
      | .error e => .error e
      | .ok bp => .ok (result ++ '@' :: bp)

/-- `_parse_release_id_part(release_id)` (the `prefix` only renames the keys of the result) -/
def parseReleaseIdPart (rid : Str) : Except Err Rel :=
  if Str.count '-' rid = 1 then
    -- short, version = release_id.split("-")
    match Str.splitOn '-' rid with
    | [short, version] => .ok ⟨short, version, GA⟩
    | _ => .error .valueError
  else
    -- first known type that is a suffix; `if release_type:` / `release_type or …` are truthiness tests
    let found := Gen.RELEASE_TYPES.find? (fun t => Str.endsWith rid t)
    let rtype : Option Str := found.filter (fun t => !t.isEmpty)
    -- release_id[:-len(release_type)]
    let rid' := match rtype with
      | some t => rid.take (rid.length - t.length)
      | none => rid
    -- short, version, release_type_extracted = release_id.rsplit("-", 2)
    match Str.rsplitN '-' 2 rid' with
    | [short, version, ext] => .ok ⟨short, version, rtype.getD ext⟩
    | _ => .error .valueError

/-- `parse_release_id(release_id)`: the main parts and, if there is an `@`, the `bp_` parts -/
def parseReleaseId (rid : Str) : Except Err (Rel × Option Rel) :=
  if rid.contains '@' then
    -- release, base_product = release_id.split("@")
    match Str.splitOn '@' rid with
    | [release, bp] =>
      match parseReleaseIdPart release with
      | .error e => .error e
      | .ok r =>
        match parseReleaseIdPart bp with
        | .error e => .error e
        | .ok b => .ok (r, some b)
    | _ => .error .valueError
  else
    match parseReleaseIdPart rid with
    | .error e => .error e
    | .ok r => .ok (r, none)

end PM
