import ProductMD.Model.ComposeInfo
/-!
`ComposeInfo.dumps()` as a state transformer (C08, repeated dumps).

A dump changes the object in two documented ways: `Header.serialize` sets `header.version` to the current version, and
`Variant.serialize` of a layered-product variant sets `release.is_layered = True` before it writes the release.  This file
threads the object through the writer of `Model/ComposeInfo.lean` in the code's order, so that the object left behind by a
dump that FAILS half-way is the partially changed one.  The text produced is that of the pure writer (`CI.dumps`), see
`Proofs/C08CIRepeat.lean`.
-/
namespace PM
namespace CI

structure CIState where
  version : Str                 -- `header.version`
  ci : ComposeInfo

mutual
/-- `Variant.serialize(data)`: the variant afterwards, and the table (or the exception) -/
def Variant.serSt (ctx : Ctx) : Variant → Flat → Variant × Except Err Flat
  | .mk key id uid name type arches paths rel kids, d =>
    -- `self.release.is_layered = True` is the first thing that happens to a layered product
    let rel' := if type = layeredProduct then rel.map forceLayered else rel
    match (if type = layeredProduct then validateClass "composeinfo.Release" (variantReleaseObj rel) else .ok ()) with
    | .error e => (.mk key id uid name type arches paths rel' kids, .error e)
    | .ok () =>
    match validateClass "composeinfo.VariantPaths" [] with
    | .error e => (.mk key id uid name type arches paths rel' kids, .error e)
    | .ok () =>
    match sersSt (some (uid, Str.sortDedup arches)) kids d with
    | (kids', .error e) => (.mk key id uid name type arches paths rel' kids', .error e)
    | (kids', .ok d1) =>
    match putEntry uid (entryOf (.mk key id uid name type arches paths rel kids)) d1 with
    | .error e => (.mk key id uid name type arches paths rel' kids', .error e)
    | .ok d2 =>
    match validateClass "composeinfo.Variant" (variantObj ctx (.mk key id uid name type arches paths rel kids)) with
    | .error e => (.mk key id uid name type arches paths rel' kids', .error e)
    | .ok () => (.mk key id uid name type arches paths rel' kids', .ok d2)
def sersSt (ctx : Ctx) : List Variant → Flat → List Variant × Except Err Flat
  | [], d => ([], .ok d)
  | v :: vs, d =>
    match Variant.serSt ctx v d with
    | (v', .error e) => (v' :: vs, .error e)
    | (v', .ok d1) =>
      match sersSt ctx vs d1 with
      | (vs', r) => (v' :: vs', r)
end

/-- put the variant back under its key (first entry with that key) -/
def replaceKey (k : Str) (v' : Variant) : List Variant → List Variant
  | [] => []
  | v :: vs => if v.key = k then v' :: vs else v :: replaceKey k v' vs

/-- the loop of `Variants.serialize` over the sorted keys; the dict keeps its order, the objects change in place -/
def topLoop : List Str → List Variant → Flat → List Variant × Except Err Flat
  | [], vs, d => (vs, .ok d)
  | k :: ks, vs, d =>
    match findKey k vs with
    | none => topLoop ks vs d
    | some v =>
      match Variant.serSt none v d with
      | (v', .error e) => (replaceKey k v' vs, .error e)
      | (v', .ok d1) => topLoop ks (replaceKey k v' vs) d1

def variantsSerSt (vs : List Variant) : List Variant × Except Err Flat :=
  match validateClass "composeinfo.Variants" (containerObj vs) with
  | .error e => (vs, .error e)
  | .ok () => topLoop (Str.sortDedup (vs.map Variant.key)) vs []

/-- `ComposeInfo.dumps()` on the object: the object afterwards and the text (or the exception class) -/
def dumpsSt (s : CIState) : CIState × Except Err Str :=
  match validateClass "composeinfo.ComposeInfo" [] with
  | .error e => (s, .error e)
  | .ok () =>
  let s1 : CIState := { s with version := currentVersion }          -- `set_current_version()` comes before anything can fail
  match validateClass "common.Header" (headerObj (.str currentVersion)) with
  | .error e => (s1, .error e)
  | .ok () =>
  match validateClass "composeinfo.Compose" (composeObj s.ci.compose) with
  | .error e => (s1, .error e)
  | .ok () =>
  match validateClass "composeinfo.Release" (releaseObj s.ci.release) with
  | .error e => (s1, .error e)
  | .ok () =>
  match (if s.ci.release.isLayered then validateClass "composeinfo.BaseProduct" (baseObj s.ci.base) else .ok ()) with
  | .error e => (s1, .error e)
  | .ok () =>
  match variantsSerSt s.ci.variants with
  | (vs', .error e) => ({ s1 with ci := { s.ci with variants := vs' } }, .error e)
  | (vs', .ok d) =>
    ({ s1 with ci := { s.ci with variants := vs' } },
     .ok (JsonText.dumps (.dict [(k%"header", headerVal),
      (k%"payload", .dict ([(k%"compose", composeVal s.ci.compose), (k%"release", releaseVal s.ci.release)]
        ++ (match s.ci.release.isLayered, s.ci.base with
            | true, some b => [(k%"base_product", baseVal b)]
            | _, _ => [])
        ++ [(k%"variants", flatVal d)]))])))

end CI
end PM
