import ProductMD.Model.Customs
import ProductMD.Generated.ForestStruct
/-!
# The composeinfo variant forest (C11): `VariantBase.add`, `__getitem__`, `_get_all_parents`, `get_variants`

Objects with identity live in an arena.  The *attributes* of a variant object (`id`, `uid`, `name`, `type`,
`arches`) are never written by any operation the property quantifies over (histories of `add` calls), so the
universe of variant objects is a parameter `U : Nat → Attrs` (object number ↦ attributes; any number of objects,
all "already constructed").  The mutable part – what `add` writes – is the `State`:

* `parent i`  – the attribute `Variant.parent` of object `i` (`None` or another object);
* `kids i`    – the dict `Variant.variants` of object `i`, in insertion order (key ↦ object);
* `top`       – the dict `ComposeInfo.variants.variants` (class `Variants`, the top-level container).

A container is `Cont = Option Nat`: `none` is the top-level `Variants` object (no `uid` attribute, `parent` always
`None`), `some i` is variant `i`.  `add` returns the new state **and** the outcome, never `Except State`, so that "a
refused call changes nothing" has to be proved from the order of the mutations (the parent pointer is written
before anything is checked, exactly as in the code).

Recursion over parent pointers / children uses fuel: Python has a recursion limit; running out of fuel is
`RecursionError` (class `runtimeError`).  Core Lean only; everything is structurally recursive.
-/
namespace PM.Forest

structure Attrs where
  id : Str
  uid : Str
  name : Str
  type : Str
  arches : List Str
deriving Repr, Inhabited, DecidableEq

structure State where
  parent : Nat → Option Nat
  kids : Nat → List (Str × Nat)
  top : List (Str × Nat)

def State.empty : State := ⟨fun _ => none, fun _ => [], []⟩

abbrev Cont := Option Nat

def State.kidsOf (s : State) : Cont → List (Str × Nat)
  | none => s.top
  | some i => s.kids i

def State.setKids (s : State) (c : Cont) (l : List (Str × Nat)) : State :=
  match c with
  | none => { s with top := l }
  | some i => { s with kids := fun j => if j = i then l else s.kids j }

def State.setParent (s : State) (v : Nat) (p : Option Nat) : State :=
  { s with parent := fun j => if j = v then p else s.parent j }

/-- `d.get(k)` on an insertion-ordered dict -/
def dget (k : Str) : List (Str × Nat) → Option Nat
  | [] => none
  | kv :: r => if kv.1 = k then some kv.2 else dget k r

/-! ### what `variant.validate()` sees -/

def strList (l : List Str) : PyVal := .list (l.map .str)

/-- pseudo-attribute `parent` (see `Model/Customs.lean`) -/
def parentVal (U : Nat → Attrs) (s : State) (v : Nat) : PyVal :=
  match s.parent v with
  | none => .none
  | some p => .dict [(['u','i','d'], .str (U p).uid), (['a','r','c','h','e','s'], strList (U p).arches)]

def childVal (U : Nat → Attrs) (s : State) (kv : Str × Nat) : Str × PyVal :=
  (kv.1, .dict [(['i','d'], .str (U kv.2).id), (['u','i','d'], .str (U kv.2).uid), (['t','y','p','e'], .str (U kv.2).type),
                (['p','a','r','e','n','t','_','n','o','n','e'], .bool (s.parent kv.2).isNone)])

/-- the object handed to the generated rule list of `composeinfo.Variant` -/
def toObj (U : Nat → Attrs) (s : State) (v : Nat) : Obj :=
  [(['i','d'], .str (U v).id),
   (['u','i','d'], .str (U v).uid),
   (['n','a','m','e'], .str (U v).name),
   (['t','y','p','e'], .str (U v).type),
   (['a','r','c','h','e','s'], strList (U v).arches),
   (['p','a','r','e','n','t'], parentVal U s v),
   (['v','a','r','i','a','n','t','s'], .dict ((s.kids v).map (childVal U s)))]

/-- `variant.validate()`: the rule list translated from the source on every run -/
def validate (U : Nat → Attrs) (s : State) (v : Nat) : Except Err Unit :=
  validateClass "composeinfo.Variant" (toObj U s v)

/-! ### `_get_all_parents`

```
result = [self]
if self.parent:                       # truthiness: `Variant.__len__` – a parent with no children is falsy
    result.extend(self.parent._get_all_parents())
```
-/
def allParents (s : State) : Nat → Cont → Option (List Cont)
  | 0, _ => none
  | f + 1, c =>
    match c.bind s.parent with
    | none => some [c]
    | some p =>
      if (s.kids p).isEmpty then some [c]
      else (allParents s f (some p)).map (c :: ·)

/-- `variant_id = variant_id or variant.id`; `Variant.add(variant)` has no key parameter -/
def addKey (U : Nat → Attrs) (c : Cont) (v : Nat) (key : Option Str) : Str :=
  match c, key with
  | none, some k => if k.isEmpty then (U v).id else k
  | _, _ => (U v).id

/-- `d[k] = v`: replace in place, or append -/
def dset (k : Str) (v : Nat) : List (Str × Nat) → List (Str × Nat)
  | [] => [(k, v)]
  | kv :: r => if kv.1 = k then (k, v) :: r else kv :: dset k v r

/-- local variables of one call of `add` next to the forest -/
structure Ctx where
  s : State
  old : Option (Option Nat) := none     -- `old_parent`, once saved
  key : Option Str := none              -- `variant_id` after `variant_id = variant_id or variant.id`
  newv : Option Nat := none             -- `new_variant`

/-- meaning of one statement of `VariantBase.add(self=c, variant=v, variant_id=keyArg)`; `some e` = it raised -/
def execStep (U : Nat → Attrs) (fuel : Nat) (c : Cont) (v : Nat) (keyArg : Option Str) (x : Ctx) : AddStep → Ctx × Option Err
  | .saveParent => ({ x with old := some (x.s.parent v) }, none)
  | .parentIfVariant =>
    match c with
    | some p => ({ x with s := x.s.setParent v (some p) }, none)
    | none => (x, none)
  | .parentOrNone => ({ x with s := x.s.setParent v c }, none)
  | .validate =>
    match validate U x.s v with
    | .ok () => (x, none)
    | .error e => (x, some e)
  | .pickKey => ({ x with key := some (addKey U c v keyArg) }, none)
  | .cycleCheck =>
    match allParents x.s fuel c with
    | none => (x, some .runtimeError)
    | some ps => if ps.contains (some v) then (x, some .valueError) else (x, none)
  | .setdefault =>
    let k := x.key.getD (keyArg.getD [])
    match dget k (x.s.kidsOf c) with
    | some w => ({ x with newv := some w }, none)
    | none => ({ x with s := x.s.setKids c (x.s.kidsOf c ++ [(k, v)]), newv := some v }, none)
  | .dupRefuse =>
    match x.newv with
    | some w => if w = v then (x, none) else (x, some .valueError)
    | none => (x, some .other)
  | .overwrite =>
    let k := x.key.getD (keyArg.getD [])
    ({ x with s := x.s.setKids c (dset k v (x.s.kidsOf c)) }, none)
  | .unknown => (x, some .other)

/-- statements in order; the first one that raises ends the block (its earlier mutations stay) -/
def execSteps (U : Nat → Attrs) (fuel : Nat) (c : Cont) (v : Nat) (keyArg : Option Str) : List AddStep → Ctx → Ctx × Option Err
  | [], x => (x, none)
  | st :: rest, x =>
    match execStep U fuel c v keyArg x st with
    | (x', some e) => (x', some e)
    | (x', none) => execSteps U fuel c v keyArg rest x'

/-- a whole script: `pre`, then the `try:` block – on an exception the handler restores the saved parent pointer when the
source has that handler – then `post` -/
def runScript (U : Nat → Attrs) (fuel : Nat) (sc : AddScript) (s : State) (c : Cont) (v : Nat) (keyArg : Option Str) :
    State × Except Err Unit :=
  match execSteps U fuel c v keyArg sc.pre { s := s } with
  | (x1, some e) => (x1.s, .error e)
  | (x1, none) =>
    match execSteps U fuel c v keyArg sc.body x1 with
    | (x2, some e) =>
      if sc.restore then
        match x2.old with
        | some o => (x2.s.setParent v o, .error e)
        | none => (x2.s, .error .other)
      else (x2.s, .error e)
    | (x2, none) =>
      match execSteps U fuel c v keyArg sc.post x2 with
      | (x3, some e) => (x3.s, .error e)
      | (x3, none) => (x3.s, .ok ())

/-- `VariantBase.add(self=c, variant=v, variant_id=key)`: the script read from the source on this run.  At the current
source (`Forest.script_here`): save the old parent pointer; `variant.parent = self` (or `None` in the top-level container);
then, inside `try`, validate / key / ancestor check / `setdefault` / duplicate refusal; any exception restores the old
parent pointer and is re-raised. -/
def add (U : Nat → Attrs) (fuel : Nat) (s : State) (c : Cont) (v : Nat) (key : Option Str) : State × Except Err Unit :=
  runScript U fuel Gen.forest_add_script s c v key

structure Op where
  c : Cont
  v : Nat
  key : Option Str := none
deriving Repr

def step (U : Nat → Attrs) (fuel : Nat) (s : State) (o : Op) : State := (add U fuel s o.c o.v o.key).1

/-- the state after a history of `add` calls, refused or not -/
def run (U : Nat → Attrs) (fuel : Nat) (ops : List Op) : State := ops.foldl (step U fuel) State.empty

/-! ### `__getitem__`

```
if name not in self.variants and "-" in name:
    for i in self.variants:                       # insertion order
        if self.variants[i].uid == name: return it
    head, tail = name.split("-", 1)
    return self.variants[head][tail]              # KeyError / recursion into the child
return self.variants[name]
```
The recursion is on a strictly shorter name; `getitem` gives it `name.length + 1` units of fuel. -/
def getitemF (U : Nat → Attrs) (s : State) : Nat → Cont → Str → Except Err Nat
  | 0, _, _ => .error .runtimeError
  | f + 1, c, name =>
    let kids := s.kidsOf c
    if (dget name kids).isNone && name.contains '-' then
      match kids.find? (fun kv => (U kv.2).uid = name) with
      | some kv => .ok kv.2
      | none =>
        match Str.split1 '-' name with
        | [head, tail] =>
          match dget head kids with
          | none => .error .keyError
          | some h => getitemF U s f (some h) tail
        | _ => .error .valueError
    else
      match dget name kids with
      | some v => .ok v
      | none => .error .keyError

def getitem (U : Nat → Attrs) (s : State) (c : Cont) (name : Str) : Except Err Nat :=
  getitemF U s (name.length + 1) c name

/-! ### `get_variants` -/

/-- stable insertion sort by UID: `result.sort(key=lambda x: x.uid)` (a stable sort's output is unique) -/
def insertByUid (U : Nat → Attrs) (x : Nat) : List Nat → List Nat
  | [] => [x]
  | y :: ys => if (U x).uid ≤ (U y).uid then x :: y :: ys else y :: insertByUid U x ys

def sortByUid (U : Nat → Attrs) (l : List Nat) : List Nat := l.foldr (insertByUid U) []

def selfT : Str := ['s','e','l','f']
def srcA : Str := ['s','r','c']

/-- `if types and variant.type not in types: continue` / `if arch and arch not in variant.arches.union(["src"]): continue` -/
def passes (U : Nat → Attrs) (arch : Option Str) (types : List Str) (v : Nat) : Bool :=
  (types.isEmpty || types.contains (U v).type) &&
  (match arch with
   | none => true
   | some a => a.isEmpty || (U v).arches.contains a || a = srcA)

/-- the loop over `self.variants.values()` (insertion order); `one v` is what one child contributes; the first
exception ends the call -/
def gvKids (one : Nat → Except Err (List Nat)) : List (Str × Nat) → Except Err (List Nat)
  | [] => .ok []
  | kv :: r =>
    match one kv.2 with
    | .error e => .error e
    | .ok a =>
      match gvKids one r with
      | .error e => .error e
      | .ok b => .ok (a ++ b)

/--
```
types = types or []; result = []
if "self" in types: result.append(self)
for variant in self.variants.values():
    if <filtered out>: continue
    result.append(variant)
    if recursive: result.extend(variant.get_variants(arch=arch, types=[i for i in types if i != "self"], recursive=True))
result.sort(key=lambda x: x.uid)          # AttributeError when `self` is the top-level container (no uid)
```
-/
def getVariants (U : Nat → Attrs) (s : State) : Nat → Cont → Option Str → List Str → Bool → Except Err (List Nat)
  | 0, _, _, _, _ => .error .runtimeError
  | f + 1, c, arch, types, recursive =>
    let one : Nat → Except Err (List Nat) := fun v =>
      if passes U arch types v then
        if recursive then
          match getVariants U s f (some v) arch (types.filter (· ≠ selfT)) true with
          | .ok sub => .ok (v :: sub)
          | .error e => .error e
        else .ok [v]
      else .ok []
    match gvKids one (s.kidsOf c) with
    | .error e => .error e
    | .ok body =>
      if types.contains selfT then
        match c with
        | none => .error .attributeError
        | some i => .ok (sortByUid U (i :: body))
      else .ok (sortByUid U body)

end PM.Forest
