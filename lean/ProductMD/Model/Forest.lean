import ProductMD.Model.Customs
/-!
# The composeinfo variant forest (C11): `VariantBase.add`, `__getitem__`, `_get_all_parents`, `get_variants`

Objects with identity live in an arena.  The *attributes* of a variant object (`id`, `uid`, `name`, `type`,
`arches`) are never written by any operation the property quantifies over (histories of `add` calls), so the
universe of variant objects is a parameter `U : Nat → Attrs` (object number ↦ attributes; any number of objects,
all "already constructed").  The mutable part – what `add` writes – is the `State`:

* `parent i`  – the attribute `Variant.parent` of object `i` (`None` or another object);
* `kids i`    – the dict `Variant.variants` of object `i`, in insertion order (key ↦ object);
* `top`       – the dict `ComposeInfo.variants.variants` (class `Variants`, the top-level container).

A container is `Cont = Option Nat`: `none` is the top-level `Variants` object (no `uid` attribute, `parent` always
`None`), `some i` is variant `i`.  `add` returns the new state **and** the outcome, never `Except State`, so that "a
refused call changes nothing" has to be proved from the order of the mutations (the parent pointer is written
before anything is checked, exactly as in the code).

Recursion over parent pointers / children uses fuel: Python has a recursion limit; running out of fuel is
`RecursionError` (class `runtimeError`).  Core Lean only; everything is structurally recursive.
-/
namespace PM.Forest

structure Attrs where
  id : Str
  uid : Str
  name : Str
  type : Str
  arches : List Str
deriving Repr, Inhabited, DecidableEq

structure State where
  parent : Nat → Option Nat
  kids : Nat → List (Str × Nat)
  top : List (Str × Nat)

def State.empty : State := ⟨fun _ => none, fun _ => [], []⟩

abbrev Cont := Option Nat

def State.kidsOf (s : State) : Cont → List (Str × Nat)
  | none => s.top
  | some i => s.kids i

def State.setKids (s : State) (c : Cont) (l : List (Str × Nat)) : State :=
  match c with
  | none => { s with top := l }
  | some i => { s with kids := fun j => if j = i then l else s.kids j }

def State.setParent (s : State) (v : Nat) (p : Option Nat) : State :=
  { s with parent := fun j => if j = v then p else s.parent j }

/-- `d.get(k)` on an insertion-ordered dict -/
def dget (k : Str) : List (Str × Nat) → Option Nat
  | [] => none
  | kv :: r => if kv.1 = k then some kv.2 else dget k r

/-! ### what `variant.validate()` sees -/

def strList (l : List Str) : PyVal := .list (l.map .str)

/-- pseudo-attribute `parent` (see `Model/Customs.lean`) -/
def parentVal (U : Nat → Attrs) (s : State) (v : Nat) : PyVal :=
  match s.parent v with
  | none => .none
  | some p => .dict [(['u','i','d'], .str (U p).uid), (['a','r','c','h','e','s'], strList (U p).arches)]

def childVal (U : Nat → Attrs) (s : State) (kv : Str × Nat) : Str × PyVal :=
  (kv.1, .dict [(['i','d'], .str (U kv.2).id), (['u','i','d'], .str (U kv.2).uid), (['t','y','p','e'], .str (U kv.2).type),
                (['p','a','r','e','n','t','_','n','o','n','e'], .bool (s.parent kv.2).isNone)])

/-- the object handed to the generated rule list of `composeinfo.Variant` -/
def toObj (U : Nat → Attrs) (s : State) (v : Nat) : Obj :=
  [(['i','d'], .str (U v).id),
   (['u','i','d'], .str (U v).uid),
   (['n','a','m','e'], .str (U v).name),
   (['t','y','p','e'], .str (U v).type),
   (['a','r','c','h','e','s'], strList (U v).arches),
   (['p','a','r','e','n','t'], parentVal U s v),
   (['v','a','r','i','a','n','t','s'], .dict ((s.kids v).map (childVal U s)))]

/-- `variant.validate()`: the rule list translated from the source on every run -/
def validate (U : Nat → Attrs) (s : State) (v : Nat) : Except Err Unit :=
  validateClass "composeinfo.Variant" (toObj U s v)

/-! ### `_get_all_parents`

```
result = [self]
if self.parent:                       # truthiness: `Variant.__len__` – a parent with no children is falsy
    result.extend(self.parent._get_all_parents())
```
-/
def allParents (s : State) : Nat → Cont → Option (List Cont)
  | 0, _ => none
  | f + 1, c =>
    match c.bind s.parent with
    | none => some [c]
    | some p =>
      if (s.kids p).isEmpty then some [c]
      else (allParents s f (some p)).map (c :: ·)

/-- `variant_id = variant_id or variant.id`; `Variant.add(variant)` has no key parameter -/
def addKey (U : Nat → Attrs) (c : Cont) (v : Nat) (key : Option Str) : Str :=
  match c, key with
  | none, some k => if k.isEmpty then (U v).id else k
  | _, _ => (U v).id

/-- step 1 of `add`: `if hasattr(self, "uid"): variant.parent = self` (a `Variants` container has no uid) -/
def pre (s : State) (c : Cont) (v : Nat) : State :=
  match c with
  | some p => s.setParent v (some p)
  | none => s

/-- `VariantBase.add(self=c, variant=v, variant_id=key)` in the code's order:
1. `if hasattr(self, "uid"): variant.parent = self`   (only a `Variant` has a uid; **before** any check)
2. `variant.validate()`
3. `variant_id = variant_id or variant.id`
4. `if variant in self._get_all_parents(): raise ValueError`
5. `new = self.variants.setdefault(variant_id, variant); if new != variant: raise ValueError` (identity comparison) -/
def add (U : Nat → Attrs) (fuel : Nat) (s : State) (c : Cont) (v : Nat) (key : Option Str) : State × Except Err Unit :=
  let s1 := pre s c v
  match validate U s1 v with
  | .error e => (s1, .error e)
  | .ok () =>
    let k := addKey U c v key
    match allParents s1 fuel c with
    | none => (s1, .error .runtimeError)
    | some ps =>
      if ps.contains (some v) then (s1, .error .valueError)
      else
        match dget k (s1.kidsOf c) with
        | some w => if w = v then (s1, .ok ()) else (s1, .error .valueError)
        | none => (s1.setKids c (s1.kidsOf c ++ [(k, v)]), .ok ())

structure Op where
  c : Cont
  v : Nat
  key : Option Str := none
deriving Repr

def step (U : Nat → Attrs) (fuel : Nat) (s : State) (o : Op) : State := (add U fuel s o.c o.v o.key).1

/-- the state after a history of `add` calls, refused or not -/
def run (U : Nat → Attrs) (fuel : Nat) (ops : List Op) : State := ops.foldl (step U fuel) State.empty

/-! ### `__getitem__`

```
if name not in self.variants and "-" in name:
    for i in self.variants:                       # insertion order
        if self.variants[i].uid == name: return it
    head, tail = name.split("-", 1)
    return self.variants[head][tail]              # KeyError / recursion into the child
return self.variants[name]
```
The recursion is on a strictly shorter name; `getitem` gives it `name.length + 1` units of fuel. -/
def getitemF (U : Nat → Attrs) (s : State) : Nat → Cont → Str → Except Err Nat
  | 0, _, _ => .error .runtimeError
  | f + 1, c, name =>
    let kids := s.kidsOf c
    if (dget name kids).isNone && name.contains '-' then
      match kids.find? (fun kv => (U kv.2).uid = name) with
      | some kv => .ok kv.2
      | none =>
        match Str.split1 '-' name with
        | [head, tail] =>
          match dget head kids with
          | none => .error .keyError
          | some h => getitemF U s f (some h) tail
        | _ => .error .valueError
    else
      match dget name kids with
      | some v => .ok v
      | none => .error .keyError

def getitem (U : Nat → Attrs) (s : State) (c : Cont) (name : Str) : Except Err Nat :=
  getitemF U s (name.length + 1) c name

/-! ### `get_variants` -/

/-- stable insertion sort by UID: `result.sort(key=lambda x: x.uid)` (a stable sort's output is unique) -/
def insertByUid (U : Nat → Attrs) (x : Nat) : List Nat → List Nat
  | [] => [x]
  | y :: ys => if (U x).uid ≤ (U y).uid then x :: y :: ys else y :: insertByUid U x ys

def sortByUid (U : Nat → Attrs) (l : List Nat) : List Nat := l.foldr (insertByUid U) []

def selfT : Str := ['s','e','l','f']
def srcA : Str := ['s','r','c']

/-- `if types and variant.type not in types: continue` / `if arch and arch not in variant.arches.union(["src"]): continue` -/
def passes (U : Nat → Attrs) (arch : Option Str) (types : List Str) (v : Nat) : Bool :=
  (types.isEmpty || types.contains (U v).type) &&
  (match arch with
   | none => true
   | some a => a.isEmpty || (U v).arches.contains a || a = srcA)

/-- the loop over `self.variants.values()` (insertion order); `one v` is what one child contributes; the first
exception ends the call -/
def gvKids (one : Nat → Except Err (List Nat)) : List (Str × Nat) → Except Err (List Nat)
  | [] => .ok []
  | kv :: r =>
    match one kv.2 with
    | .error e => .error e
    | .ok a =>
      match gvKids one r with
      | .error e => .error e
      | .ok b => .ok (a ++ b)

/--
```
types = types or []; result = []
if "self" in types: result.append(self)
for variant in self.variants.values():
    if <filtered out>: continue
    result.append(variant)
    if recursive: result.extend(variant.get_variants(arch=arch, types=[i for i in types if i != "self"], recursive=True))
result.sort(key=lambda x: x.uid)          # AttributeError when `self` is the top-level container (no uid)
```
-/
def getVariants (U : Nat → Attrs) (s : State) : Nat → Cont → Option Str → List Str → Bool → Except Err (List Nat)
  | 0, _, _, _, _ => .error .runtimeError
  | f + 1, c, arch, types, recursive =>
    let one : Nat → Except Err (List Nat) := fun v =>
      if passes U arch types v then
        if recursive then
          match getVariants U s f (some v) arch (types.filter (· ≠ selfT)) true with
          | .ok sub => .ok (v :: sub)
          | .error e => .error e
        else .ok [v]
      else .ok []
    match gvKids one (s.kidsOf c) with
    | .error e => .error e
    | .ok body =>
      if types.contains selfT then
        match c with
        | none => .error .attributeError
        | some i => .ok (sortByUid U (i :: body))
      else .ok (sortByUid U body)

end PM.Forest
