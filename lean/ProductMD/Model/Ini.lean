import ProductMD.Model.Py
/-!
INI documents as `SortedConfigParser` (common.py) holds them, with the operations the library uses.

`Ini` is an association list in *insertion* order (Python dicts keep insertion order); everything that iterates
a `SortedDict` (`sections()`, `items()`, `write`) sorts on the way out, as `SortedDict.keys` does.
`optionxform` is the identity (common.py overrides it), interpolation is off (`interpolation=None`, F16), so
`set`/`get` store and return values verbatim.  A section literally named `DEFAULT` plays the role of
`ConfigParser._defaults`: `add_section` refuses the name, the reader files a `[DEFAULT]` block there and
`get`/`has_option`/`items` fall back to it.  configparser's own exception classes (`NoSectionError`,
`NoOptionError`, `DuplicateSectionError`, …) are all `Err.parserError`.
-/
namespace PM

abbrev IniSec := List (Str × Str)
abbrev Ini := List (Str × IniSec)

namespace Ini

def DEFAULT : Str := "DEFAULT".toList

/-- insertion sort by a string key (code-point order, what `sorted(...)` gives; stable) -/
def insertBy {α} (key : α → Str) (x : α) : List α → List α
  | [] => [x]
  | y :: ys => if Str.lt (key y) (key x) then y :: insertBy key x ys else x :: y :: ys

def sortBy {α} (key : α → Str) (l : List α) : List α := l.foldr (insertBy key) []

/-- a dictionary in `SortedDict` iteration order (keys are unique in a dict) -/
def sortKV {α} (l : List (Str × α)) : List (Str × α) := sortBy (·.1) l

/-- `sorted(list_of_str)` -/
def sortS (l : List Str) : List Str := sortBy id l

def find (d : Ini) (s : Str) : Option IniSec := d.lookup s

def defaults (d : Ini) : IniSec := (d.lookup DEFAULT).getD []

/-- `parser.has_section(s)` (the default section is not acknowledged) -/
def hasSection (d : Ini) (s : Str) : Bool := s != DEFAULT && (d.lookup s).isSome

/-- `parser.sections()`: `list(self._sections.keys())`, a `SortedDict` -/
def sections (d : Ini) : List Str := sortS ((d.map (·.1)).filter (· != DEFAULT))

/-- `parser.add_section(s)` -/
def addSection (d : Ini) (s : Str) : Except Err Ini :=
  if s == DEFAULT then .error .valueError
  else if (d.lookup s).isSome then .error .parserError
  else .ok (d ++ [(s, [])])

/-- `dict[k] = v`: in place when the key exists, appended otherwise -/
def setKV {α} (k : Str) (v : α) : List (Str × α) → List (Str × α)
  | [] => [(k, v)]
  | x :: xs => if x.1 == k then (k, v) :: xs else x :: setKV k v xs

/-- `parser.set(s, k, v)` for a string value (other value types are refused earlier, by the typed model) -/
def set (d : Ini) (s k v : Str) : Except Err Ini :=
  match d.lookup s with
  | none => .error .parserError
  | some opts => .ok (setKV s (setKV k v opts) d)

/-- `parser.has_option(s, k)` -/
def hasOption (d : Ini) (s k : Str) : Bool :=
  if s.isEmpty || s == DEFAULT then ((defaults d).lookup k).isSome
  else match d.lookup s with
    | none => false
    | some opts => (opts.lookup k).isSome || ((defaults d).lookup k).isSome

/-- `parser.get(s, k)` -/
def get (d : Ini) (s k : Str) : Except Err Str :=
  match d.lookup s with
  | none =>
    if s == DEFAULT then
      match (defaults d).lookup k with | some v => .ok v | none => .error .parserError
    else .error .parserError
  | some opts =>
    match opts.lookup k with
    | some v => .ok v
    | none => match (defaults d).lookup k with | some v => .ok v | none => .error .parserError

/-- `parser.items(s)`: defaults (their own order, values overridden by the section) then the section's remaining
options in `SortedDict` order -/
def items (d : Ini) (s : Str) : Except Err (List (Str × Str)) :=
  let defs := defaults d
  match (if s == DEFAULT then some [] else d.lookup s) with
  | none => .error .parserError
  | some opts =>
    .ok ((defs.map fun kv => (kv.1, (opts.lookup kv.1).getD kv.2))
          ++ (sortKV opts).filter (fun kv => (defs.lookup kv.1).isNone))

/-- `parser.option_lookup(list, default)` -/
def optionLookup (d : Ini) : List (Str × Str) → Option Str → Except Err (Option Str)
  | [], dflt => .ok dflt
  | (s, k) :: rest, dflt => if hasOption d s k then (get d s k).map some else optionLookup d rest dflt

/-- `RawConfigParser.BOOLEAN_STATES` applied to `value.lower()` -/
def toBoolean (v : Str) : Except Err Bool :=
  let l := Str.lowerAscii v
  if l == "1".toList || l == "yes".toList || l == "true".toList || l == "on".toList then .ok true
  else if l == "0".toList || l == "no".toList || l == "false".toList || l == "off".toList then .ok false
  else .error .valueError

def getBoolean (d : Ini) (s k : Str) : Except Err Bool := (get d s k).bind toBoolean

/-- the value stored under option `k` of section `s`, if any -/
def opt (d : Ini) (s k : Str) : Option Str := (d.lookup s).bind (·.lookup k)

/-- no `[DEFAULT]` block: what every document built through `add_section` satisfies -/
def NoDefault (d : Ini) : Prop := d.lookup DEFAULT = none

end Ini

/-! ### Python whitespace and `int()` -/
namespace Str

/-- `str.isspace` for one character (`Py_UNICODE_ISSPACE`): what `str.strip()` removes -/
def isPySpace (c : Char) : Bool :=
  let n := c.toNat
  (9 ≤ n && n ≤ 13) || (28 ≤ n && n ≤ 32) || n == 0x85 || n == 0xA0 || n == 0x1680
    || (0x2000 ≤ n && n ≤ 0x200A) || n == 0x2028 || n == 0x2029 || n == 0x202F || n == 0x205F || n == 0x3000

def lstrip : Str → Str
  | [] => []
  | c :: cs => if isPySpace c then lstrip cs else c :: cs

def rstrip (s : Str) : Str := (lstrip s.reverse).reverse

/-- `s.strip()` -/
def strip (s : Str) : Str := rstrip (lstrip s)

/-- digits with single underscores between them (`int()` grammar), value accumulated -/
def intDigits : Str → Bool → Nat → Option Nat
  | [], prevDigit, acc => if prevDigit then some acc else none
  | c :: cs, prevDigit, acc =>
    if isAsciiDigit c then intDigits cs true (acc * 10 + (c.toNat - 48))
    else if c == '_' && prevDigit then
      match cs with
      | d :: _ => if isAsciiDigit d then intDigits cs false acc else none
      | [] => none
    else none

/-- Python `int(s)` for a string, ASCII digits only (other Unicode decimal digits, which CPython also accepts,
are outside the model and rejected) -/
def pyInt (s : Str) : Except Err Int :=
  match strip s with
  | '-' :: ds => match intDigits ds false 0 with | some n => .ok (-(n : Int)) | none => .error .valueError
  | '+' :: ds => match intDigits ds false 0 with | some n => .ok (n : Int) | none => .error .valueError
  | ds => match intDigits ds false 0 with | some n => .ok (n : Int) | none => .error .valueError

end Str

end PM
