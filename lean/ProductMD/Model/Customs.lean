import ProductMD.Model.Rules
import ProductMD.Generated.Regexes
import ProductMD.Generated.Validators
/-!
Hand-written bindings for the validator bodies outside the translated idiom (`Rule.custom`).

Context that a validator reads through other objects is passed in the `Obj` as pseudo-attributes:

* `parent`        – `.none`, or `.dict [("uid", str), ("arches", list of str)]` for a variant with a parent;
* `variants`      – `.dict key ↦ .dict [("id", _), ("uid", _), ("type", _), ("parent_none", bool)]` (children of a
                    variant or of the top-level container);
* `images`        – `.dict platform ↦ .dict image ↦ path` (treeinfo `Images`);
* `tree.platforms`– list of str (treeinfo `Images`).

Each binding is validated against the real method by the correspondence check of C06.
-/
namespace PM

/-- `"%s" % v` for the scalar values the generators use -/
def pyFormat : PyVal → Option Str
  | .none => some "None".toList
  | .bool true => some "True".toList
  | .bool false => some "False".toList
  | .int n => some (Str.intStr n)
  | .float r => some r
  | .str s => some s
  | _ => none

/-- `verify_label(self.label)` -/
def verifyLabel (v : PyVal) : Except Err Unit :=
  match v with
  | .none => .ok ()
  | .str s => if Gen.re_composeinfo_LABEL_RE_LIST.any (pyMatches · s) then .ok () else .error .valueError
  | _ => .error .typeError

/-- composeinfo `Variant._validate_uid` (with the F23 repair: `_assert_type("uid", str)` comes first) -/
def ciVariantUid (o : Obj) : Except Err Unit :=
  if !(o.get "uid".toList).isinstance .str then .error .typeError else
  match o.get "parent".toList with
  | .none =>
    match o.get "uid".toList with
    | .str u => if PyVal.pyEq (.str (Str.removeChar '-' u)) (o.get "id".toList) then .ok () else .error .valueError
    | _ => .error .attributeError                      -- `self.uid.replace` on a non-string
  | p =>
    match pyFormat ((p.get? "uid".toList).getD .none), pyFormat (o.get "id".toList) with
    | some pu, some i =>
      if PyVal.pyEq (o.get "uid".toList) (.str (pu ++ '-' :: i)) then .ok () else .error .valueError
    | _, _ => .error .other

/-- the elements a `for x in v` loop visits, when `v` is iterable -/
def pyIter : PyVal → Option (List PyVal)
  | .list xs => some xs
  | .str s => some (s.map fun c => .str [c])
  | .dict kvs => some (kvs.map fun kv => .str kv.1)
  | _ => none

/-- composeinfo `Variant._validate_parent_arch` (after the F18 repair: `if self.parent is None: return`) -/
def ciVariantParentArch (o : Obj) : Except Err Unit :=
  match o.get "parent".toList with
  | .none => .ok ()
  | p =>
    match pyIter (o.get "arches".toList), (p.get? "arches".toList) with
    | some arches, some (.list pa) =>
      if arches.all (fun a => pa.any (PyVal.pyEq a ·)) then .ok () else .error .valueError
    | none, _ => .error .typeError
    | _, _ => .error .other

/-- `VariantBase._validate_variants` (composeinfo and treeinfo containers alike) -/
def validateVariantKeys (o : Obj) : Except Err Unit :=
  match o.get "variants".toList with
  | .dict kvs =>
    let bad := kvs.any fun (key, child) =>
      let parentNone := (child.get? "parent_none".toList).getD (.bool true) |>.truthy
      let ty := (child.get? "type".toList).getD .none
      let key' := if parentNone && key.contains '-' && !(PyVal.pyEq ty (.str "optional".toList))
                  then Str.removeChar '-' key else key
      !(PyVal.pyEq ((child.get? "id".toList).getD .none) (.str key'))
        && !(PyVal.pyEq ((child.get? "uid".toList).getD .none) (.str key'))
    if bad then .error .valueError else .ok ()
  | _ => .ok ()

/-- treeinfo `Variant._validate_uid` (after the F18 repair: `if self.parent is not None`) -/
def tiVariantUid (o : Obj) : Except Err Unit :=
  match o.get "parent".toList with
  | .none => .ok ()
  | p =>
    match pyFormat ((p.get? "uid".toList).getD .none), pyFormat (o.get "id".toList) with
    | some pu, some i =>
      if PyVal.pyEq (o.get "uid".toList) (.str (pu ++ '-' :: i)) then .ok () else .error .valueError
    | _, _ => .error .other

/-- treeinfo `Images._validate_image_paths` -/
def tiImagePaths (o : Obj) : Except Err Unit :=
  match o.get "images".toList with
  | .dict plats =>
    plats.foldl (fun acc (_, imgs) => acc.bind fun _ =>
      match imgs with
      | .dict kv => kv.foldl (fun acc2 (_, path) => acc2.bind fun _ =>
          match path with
          | .str s => if Str.startsWith s ['/'] then .error .valueError else .ok ()
          | _ => .error .typeError) (.ok ())          -- F23 repair: explicit isinstance check
      | _ => .error .attributeError) (.ok ())
  | _ => .ok ()

/-- treeinfo `Images._validate_platforms` -/
def tiImagePlatforms (o : Obj) : Except Err Unit :=
  match o.get "images".toList, o.get "tree.platforms".toList with
  | .dict plats, .list tp =>
    if plats.all (fun (p, _) => tp.any (PyVal.pyEq (.str p) ·)) then .ok () else .error .valueError
  | _, _ => .ok ()

/-- `DiscInfo._validate_timestamp` -/
def discTimestamp (o : Obj) : Except Err Unit :=
  let v := o.get "timestamp".toList
  if !v.truthy then .error .valueError
  else if v.isinstance .float then .ok () else .error .typeError

/-- treeinfo `Checksums._validate_checksum_paths` (runs since the F4 repair): every key of `checksums` is relative -/
def tiChecksumPaths (o : Obj) : Except Err Unit :=
  match o.get "checksums".toList with
  | .dict kvs => if kvs.any (fun kv => Str.startsWith kv.1 ['/']) then .error .valueError else .ok ()
  | _ => .ok ()

def customTable : List (Str × (Obj → Except Err Unit)) :=
  [("composeinfo.Compose._validate_label:verify_label(self.label)".toList, fun o => verifyLabel (o.get "label".toList)),
   ("composeinfo.Variant._validate_parent_arch".toList, ciVariantParentArch),
   ("composeinfo.Variant._validate_uid".toList, ciVariantUid),
   ("composeinfo.VariantBase._validate_variants".toList, validateVariantKeys),
   ("discinfo.DiscInfo._validate_timestamp".toList, discTimestamp),
   ("treeinfo.Checksums._validate_checksum_paths".toList, tiChecksumPaths),
   ("treeinfo.Images._validate_image_paths".toList, tiImagePaths),
   ("treeinfo.Images._validate_platforms".toList, tiImagePlatforms),
   ("treeinfo.Variant._validate_uid".toList, tiVariantUid)]

def customBound (n : Str) : Bool := customTable.any (·.1 == n)

/-- interpretation of `Rule.custom`; an unbound name is an error of its own class so that it can never pass -/
def customs (n : Str) (o : Obj) : Except Err Unit :=
  match customTable.find? (·.1 == n) with
  | some (_, f) => f o
  | none => .error .other

/-- `obj.validate()` for an object of the named generated class -/
def validateClass (cls : String) (o : Obj) : Except Err Unit :=
  match Gen.allClasses.find? (·.1 == cls) with
  | some (_, ms) => validateWith customs ms o
  | none => .error .other

end PM
