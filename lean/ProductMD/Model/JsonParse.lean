import ProductMD.Model.Py
/-!
Model of CPython 3.12 `json.loads(text)` (default decoder: `strict=True`, no hooks; the C scanner `_json.c`
`scan_once_unicode` / `scanstring_unicode` / `_match_number_unicode`, which is what `json.load` runs) for the value
universe of `PyVal`.  It is the inverse direction of `JsonText.render`; `Proofs/JsonRoundTrip.lean` proves
`parse (JsonText.render lvl v) = .ok v`, `harness/json_diff.py` validates the model differentially against the real
`json.loads` on printer output, on other layouts and on mutated/junk texts.

What is modelled, exactly as CPython does it:
* whitespace is space, `\t`, `\n`, `\r` only (before/after the document, around `:` `,` and brackets);
* objects → `.dict` in the order of the text; a repeated key keeps the position of its first occurrence and takes
  the last value (`PyDict_SetItem`) — `PyVal.setKey`; arrays → `.list`;
* strings: any character ≥ U+0020 except `"` and `\` stands for itself (also non-ASCII: `ensure_ascii=False` texts),
  raw control characters are rejected (strict mode), escapes `\" \\ \/ \b \f \n \r \t \uXXXX` (hex digits of either
  case); a high surrogate escape directly followed by a low surrogate escape is combined into one scalar value;
* `true false null`, and `NaN Infinity -Infinity` (CPython accepts them);
* numbers `-?(0|[1-9][0-9]*)(\.[0-9]+)?([eE][-+]?[0-9]+)?` with ASCII digits, longest match with backtracking over an
  incomplete fraction/exponent (`1.` and `1e+` are the integer `1` followed by extra data).  Without fraction and
  exponent the result is `.int` of any size, except that `int()` refuses more than `lim` digits
  (`sys.get_int_max_str_digits()`, default 4300; `lim = 0` is CPython's "no limit" setting; the check only applies
  above 640 digits, as in `long_from_non_binary_base`) with a `ValueError`.  With fraction or exponent the result is
  `.float tok` where `tok` IS THE LITERAL TEXT of the number: float values are never computed (the harness compares
  `repr(float(tok))` with the real result); `NaN`/`Infinity`/`-Infinity` give `.float` of that very word;
* anything after the document except whitespace is rejected ("Extra data"); a leading BOM is rejected (it is not a
  value start);
* every rejection is one class, `Err.valueError` (`json.JSONDecodeError` is a `ValueError`, and so is the int limit).

Outside the model (answer `Err.other`):
* a `\uXXXX` escape of a surrogate that is not part of a high+low pair.  CPython yields a `str` with a lone
  surrogate, which is not a Unicode scalar value and so not a Lean `Char`.  The answer is given at the escape; CPython
  might still reject the text further on (`ValueError`).
* (`Err.other` is also the out-of-fuel answer; it never decides the answer of `parseWith`/`parseString`:
  `Proofs/JsonFuel.lean` proves that any fuel above the length of the text gives the same answer — `parseWith_fuel`,
  `parseString_fuel` — and the differential harness accepts `Other` only on texts that contain a surrogate escape.)
Not modelled at all: the interpreter's recursion limit (`RecursionError` for nesting deeper than ~ a thousand levels).

Core Lean only; structural recursion on fuel/lists only, so the kernel can evaluate everything.
-/
namespace PM.JsonParse
open PM

def isWs (c : Char) : Bool := c == ' ' || c == '\t' || c == '\n' || c == '\r'

def skipWs : Str → Str
  | [] => []
  | c :: cs => if isWs c then skipWs cs else c :: cs

/-! ### strings -/

def hexVal (c : Char) : Option Nat :=
  if 48 ≤ c.toNat ∧ c.toNat ≤ 57 then some (c.toNat - 48)          -- 0-9
  else if 97 ≤ c.toNat ∧ c.toNat ≤ 102 then some (c.toNat - 87)    -- a-f
  else if 65 ≤ c.toNat ∧ c.toNat ≤ 70 then some (c.toNat - 55)     -- A-F
  else none

/-- four hex digits -/
def hex4? : Str → Option (Nat × Str)
  | a :: b :: c :: d :: r =>
    match hexVal a, hexVal b, hexVal c, hexVal d with
    | some a, some b, some c, some d => some (a * 4096 + b * 256 + c * 16 + d, r)
    | _, _, _, _ => none
  | _ => none

def isHigh (n : Nat) : Bool := 0xD800 ≤ n && n ≤ 0xDBFF
def isLow (n : Nat) : Bool := 0xDC00 ≤ n && n ≤ 0xDFFF

/-- the text after a backslash: the character it stands for and the rest -/
def unescape : Str → Except Err (Char × Str)
  | [] => .error .valueError
  | e :: cs =>
    if e = 'u' then
      match hex4? cs with
      | none => .error .valueError
      | some (hi, r) =>
        if isHigh hi then
          match r with
          | b :: u :: r2 =>
            if b = '\\' ∧ u = 'u' then
              match hex4? r2 with
              | none => .error .valueError
              | some (lo, r3) =>
                if isLow lo then .ok (Char.ofNat (0x10000 + (hi - 0xD800) * 1024 + (lo - 0xDC00)), r3)
                else .error .other                                  -- lone high surrogate
            else .error .other
          | _ => .error .other
        else if isLow hi then .error .other                         -- lone low surrogate
        else .ok (Char.ofNat hi, r)
    else if e = '"' then .ok ('"', cs)
    else if e = '\\' then .ok ('\\', cs)
    else if e = '/' then .ok ('/', cs)
    else if e = 'b' then .ok (Char.ofNat 8, cs)
    else if e = 'f' then .ok (Char.ofNat 12, cs)
    else if e = 'n' then .ok ('\n', cs)
    else if e = 'r' then .ok ('\r', cs)
    else if e = 't' then .ok ('\t', cs)
    else .error .valueError

/-- `scanstring` after the opening quote: the decoded string (accumulated in reverse) and the text after the
closing quote -/
def scanStr : Nat → Str → Str → Except Err (Str × Str)
  | 0, _, _ => .error .other
  | _ + 1, _, [] => .error .valueError                                -- unterminated
  | f + 1, acc, c :: cs =>
    if c = '"' then .ok (acc.reverse, cs)
    else if c = '\\' then
      match unescape cs with
      | .ok (ch, rest) => scanStr f (ch :: acc) rest
      | .error e => .error e
    else if c.toNat < 32 then .error .valueError                      -- strict: raw control character
    else scanStr f (c :: acc) cs

/-- a string literal, the opening quote already consumed -/
def parseString (s : Str) : Except Err (Str × Str) := scanStr (s.length + 1) [] s

/-! ### numbers -/

def spanDigits : Str → Str × Str
  | [] => ([], [])
  | c :: cs => if Str.isAsciiDigit c then ((c :: (spanDigits cs).1), (spanDigits cs).2) else ([], c :: cs)

/-- `0` alone or a digit string not starting with `0` -/
def scanInt : Str → Option (Str × Str)
  | [] => none
  | c :: cs =>
    if c = '0' then some (['0'], cs)
    else if Str.isAsciiDigit c then some (c :: (spanDigits cs).1, (spanDigits cs).2)
    else none

/-- `.` and at least one digit, or nothing -/
def scanFrac : Str → Str × Str
  | [] => ([], [])
  | [c] => ([], [c])
  | p :: c :: cs =>
    if p = '.' ∧ Str.isAsciiDigit c = true then (p :: c :: (spanDigits cs).1, (spanDigits cs).2) else ([], p :: c :: cs)

def isSign (c : Char) : Bool := c == '+' || c == '-'

/-- `e`/`E`, an optional sign and at least one digit, or nothing (backtracking) -/
def scanExp : Str → Str × Str
  | [] => ([], [])
  | e :: cs =>
    if e = 'e' ∨ e = 'E' then
      match cs with
      | [] => ([], e :: cs)
      | c :: r =>
        if isSign c then
          (if (spanDigits r).1.isEmpty then ([], e :: cs) else (e :: c :: (spanDigits r).1, (spanDigits r).2))
        else
          (if (spanDigits cs).1.isEmpty then ([], e :: cs) else (e :: (spanDigits cs).1, (spanDigits cs).2))
    else ([], e :: cs)

structure Num where
  neg : Bool
  ip : Str          -- integer digits
  fp : Str          -- `.ddd` or empty
  ep : Str          -- `e±ddd` or empty
  rest : Str
deriving Repr, DecidableEq

def Num.tok (n : Num) : Str := (if n.neg then ['-'] else []) ++ n.ip ++ n.fp ++ n.ep
def Num.isFloat (n : Num) : Bool := !(n.fp.isEmpty && n.ep.isEmpty)

/-- `_match_number_unicode` -/
def scanNumber (s : Str) : Option Num :=
  let neg := s.head? == some '-'
  let s1 := if neg then s.tail else s
  match scanInt s1 with
  | none => none
  | some (ip, s2) =>
    let f := scanFrac s2
    let e := scanExp f.2
    some { neg := neg, ip := ip, fp := f.1, ep := e.1, rest := e.2 }

def digitsToNat (ds : Str) : Nat := ds.foldl (fun a c => a * 10 + (c.toNat - 48)) 0

/-- `int(digits)` under `sys.set_int_max_str_digits(lim)` -/
def intLimited (lim : Nat) (digits : Nat) : Bool := 640 < digits && 0 < lim && lim < digits

def number (lim : Nat) (s : Str) : Except Err (PyVal × Str) :=
  match scanNumber s with
  | none => .error .valueError
  | some n =>
    if n.isFloat then .ok (.float n.tok, n.rest)
    else if intLimited lim n.ip.length then .error .valueError
    else .ok (.int (if n.neg then -(digitsToNat n.ip : Int) else (digitsToNat n.ip : Int)), n.rest)

/-! ### literals -/

def dropPrefix? : Str → Str → Option Str
  | [], s => some s
  | _ :: _, [] => none
  | p :: ps, c :: cs => if p = c then dropPrefix? ps cs else none

def literals : List (Str × PyVal) :=
  [("null".toList, .none), ("true".toList, .bool true), ("false".toList, .bool false),
   ("NaN".toList, .float "NaN".toList), ("Infinity".toList, .float "Infinity".toList),
   ("-Infinity".toList, .float "-Infinity".toList)]

def literal? (s : Str) : Option (PyVal × Str) :=
  literals.findSome? fun p => (dropPrefix? p.1 s).map fun r => (p.2, r)

/-! ### values -/

/-- the character a closing bracket / separator test looks at -/
def headIs (s : Str) (c : Char) : Bool := s.head? == some c

mutual
/-- `scan_once` at a position where whitespace has been skipped -/
def value (lim : Nat) : Nat → Str → Except Err (PyVal × Str)
  | 0, _ => .error .other
  | _ + 1, [] => .error .valueError
  | f + 1, c :: cs =>
    if c = '"' then
      match parseString cs with
      | .ok (t, r) => .ok (.str t, r)
      | .error e => .error e
    else if c = '[' then
      if headIs (skipWs cs) ']' then .ok (.list [], (skipWs cs).tail)
      else match value lim f (skipWs cs) with
        | .ok (v, r) => itemsTail lim f [v] r
        | .error e => .error e
    else if c = '{' then
      if headIs (skipWs cs) '}' then .ok (.dict [], (skipWs cs).tail)
      else match member lim f (skipWs cs) with
        | .ok (k, v, r) => membersTail lim f [(k, v)] r
        | .error e => .error e
    else match literal? (c :: cs) with
      | some p => .ok p
      | none => number lim (c :: cs)
/-- after an array element: `]` or `,` and the next element (elements accumulated in reverse) -/
def itemsTail (lim : Nat) : Nat → List PyVal → Str → Except Err (PyVal × Str)
  | 0, _, _ => .error .other
  | f + 1, acc, s =>
    if headIs (skipWs s) ']' then .ok (.list acc.reverse, (skipWs s).tail)
    else if headIs (skipWs s) ',' then
      match value lim f (skipWs (skipWs s).tail) with
      | .ok (v, r) => itemsTail lim f (v :: acc) r
      | .error e => .error e
    else .error .valueError
/-- `"key" : value` -/
def member (lim : Nat) : Nat → Str → Except Err (Str × PyVal × Str)
  | 0, _ => .error .other
  | f + 1, s =>
    if headIs s '"' then
      match parseString s.tail with
      | .error e => .error e
      | .ok (k, r) =>
        if headIs (skipWs r) ':' then
          match value lim f (skipWs (skipWs r).tail) with
          | .ok (v, r2) => .ok (k, v, r2)
          | .error e => .error e
        else .error .valueError
    else .error .valueError
/-- after an object member: `}` or `,` and the next member -/
def membersTail (lim : Nat) : Nat → List (Str × PyVal) → Str → Except Err (PyVal × Str)
  | 0, _, _ => .error .other
  | f + 1, acc, s =>
    if headIs (skipWs s) '}' then .ok (.dict acc, (skipWs s).tail)
    else if headIs (skipWs s) ',' then
      match member lim f (skipWs (skipWs s).tail) with
      | .ok (k, v, r) => membersTail lim f (PyVal.setKey acc k v) r
      | .error e => .error e
    else .error .valueError
end

/-- `json.loads(text)` with `sys.set_int_max_str_digits(lim)` -/
def parseWith (lim : Nat) (text : Str) : Except Err PyVal :=
  match value lim (text.length + 1) (skipWs text) with
  | .error e => .error e
  | .ok (v, r) => if (skipWs r).isEmpty then .ok v else .error .valueError

/-- CPython's default configuration -/
def defaultLimit : Nat := 4300

def parse (text : Str) : Except Err PyVal := parseWith defaultLimit text

/-! ### which values come back unchanged: side conditions on numbers

`floatTok r`: the number scanner reads all of `r` as one number with a fraction or an exponent (or `r` is one of the
three words) — every finite `float.__repr__` is of this form (`1.5`, `-0.0`, `1e+16`, `2.5e-07`), and
`json.dumps` writes `NaN`/`Infinity`/`-Infinity` for the others.  `intFits lim n`: `int()` accepts the digits of `n`. -/

def floatTok (r : Str) : Bool :=
  r == "NaN".toList || r == "Infinity".toList || r == "-Infinity".toList ||
  match scanNumber r with
  | some n => n.rest.isEmpty && n.isFloat
  | none => false

def intFits (lim : Nat) (n : Int) : Bool := !(intLimited lim (Str.natStr n.natAbs).length)

mutual
def numsOk (lim : Nat) : PyVal → Bool
  | .int n => intFits lim n
  | .float r => floatTok r
  | .list xs => numsOkList lim xs
  | .dict kvs => numsOkKvs lim kvs
  | _ => true
def numsOkList (lim : Nat) : List PyVal → Bool
  | [] => true
  | x :: xs => numsOk lim x && numsOkList lim xs
def numsOkKvs (lim : Nat) : List (Str × PyVal) → Bool
  | [] => true
  | (_, v) :: rest => numsOk lim v && numsOkKvs lim rest
end

end PM.JsonParse
