import ProductMD.Model.Py
/-!
Line-based model of CPython 3.12 `configparser.RawConfigParser._read` + `_join_multiline_values` as the library
configures it (`SortedConfigParser`: default delimiters `=`/`:`, comment prefixes `#`/`;`, no inline comments,
`strict=True`, `empty_lines_in_values=True`, case-preserving `optionxform`, `interpolation=None`), and of
`RawConfigParser.write`.  All reader exceptions (`ParsingError`, `MissingSectionHeaderError`, `DuplicateSectionError`,
`DuplicateOptionError`) are one class here (`Err.parserError`): Python defers `ParsingError` to the end of the file, so
which of them surfaces depends on later lines, but *whether* the file is rejected does not.  A `[DEFAULT]` header is
outside the model (`Err.other`).  Also the model of
`RawConfigParser.write` (`_write_section`).  The whitespace predicate `sp` (CPython's `str.isspace`) is a parameter.
Core Lean only.
-/
namespace PM.IniParse

/-- a document: sections in file order, each with its options in file order -/
abbrev Doc := List (Str × List (Str × Str))

section
variable (sp : Char → Bool)

def lstrip : Str → Str
  | [] => []
  | c :: cs => if sp c then lstrip cs else c :: cs

def rstrip (s : Str) : Str := (lstrip sp s.reverse).reverse
def strip (s : Str) : Str := rstrip sp (lstrip sp s)

def indentOf : Str → Nat
  | [] => 0
  | c :: cs => if sp c then indentOf cs + 1 else 0

def isDelim (c : Char) : Bool := c == '=' || c == ':'

/-- split at the first delimiter -/
def breakDelim : Str → Option (Str × Str)
  | [] => none
  | c :: cs => if isDelim c then some ([], cs) else (breakDelim cs).map fun p => (c :: p.1, p.2)

/-- `OPTCRE.match(value)`: lazy option name, optional blanks, first `=`/`:`, blanks, value; then
`optname.rstrip()` and `optval.strip()` -/
def splitOption (v : Str) : Option (Str × Str) :=
  (breakDelim v).map fun p => (rstrip sp p.1, strip sp p.2)

/-- index of the last `]` -/
def lastBracket : Str → Option Nat
  | [] => none
  | c :: cs => match lastBracket cs with
    | some j => some (j + 1)
    | none => if c == ']' then some 0 else none

/-- `SECTCRE.match(value)`: `\[(?P<header>.+)\]` anchored at the start only, `.+` greedy -/
def sectionHeader : Str → Option Str
  | '[' :: rest => match lastBracket rest with
    | some (j + 1) => some (rest.take (j + 1))
    | _ => none
  | _ => none

abbrev RawSec := Str × List (Str × List Str)

structure St where
  secs : List RawSec := []
  hasOpt : Bool := false
  indent : Nat := 0
deriving Repr

def appendToLast (secs : List RawSec) (ln : Str) : List RawSec :=
  match secs.reverse with
  | [] => []
  | (name, opts) :: before =>
    match opts.reverse with
    | [] => secs
    | (k, ls) :: optsBefore => (((name, (((k, ls ++ [ln]) :: optsBefore).reverse)) :: before).reverse)

def addOption (secs : List RawSec) (k v : Str) : List RawSec :=
  match secs.reverse with
  | [] => []
  | (name, opts) :: before => ((name, opts ++ [(k, [v])]) :: before).reverse

def lastKeys (secs : List RawSec) : List Str :=
  match secs.reverse with
  | [] => []
  | (_, opts) :: _ => opts.map (·.1)

/-- one physical line (without its line feed) -/
def step (st : St) (line : Str) : Except Err St :=
  let v := strip sp line
  let isComment := match v with | c :: _ => c == '#' || c == ';' | [] => false
  if isComment || v.isEmpty then
    if !isComment && !st.secs.isEmpty && st.hasOpt then .ok { st with secs := appendToLast st.secs [] }
    else .ok st
  else
    let ind := indentOf sp line
    if !st.secs.isEmpty && st.hasOpt && ind > st.indent then .ok { st with secs := appendToLast st.secs v }
    else match sectionHeader v with
      | some name =>
        if st.secs.any (·.1 == name) then .error .parserError      -- DuplicateSectionError
        else if name == "DEFAULT".toList then .error .other         -- the default section is outside the model
        else .ok { secs := st.secs ++ [(name, [])], hasOpt := false, indent := ind }
      | none =>
        if st.secs.isEmpty then .error .parserError                 -- MissingSectionHeaderError
        else match splitOption sp v with
          | some (k, val) =>
            if k.isEmpty then .error .parserError
            else if (lastKeys st.secs).contains k then .error .parserError   -- DuplicateOptionError
            else .ok { secs := addOption st.secs k val, hasOpt := true, indent := ind }
          | none => .error .parserError

def steps : St → List Str → Except Err St
  | st, [] => .ok st
  | st, l :: ls => match step sp st l with
    | .ok st' => steps st' ls
    | .error e => .error e

/-- `'\n'.join(val).rstrip()` -/
def joinValue (ls : List Str) : Str := rstrip sp (Str.joinWith '\n' ls)

def finish (secs : List RawSec) : Doc :=
  secs.map fun (name, opts) => (name, opts.map fun (k, ls) => (k, joinValue sp ls))

/-- the lines a text file iterator yields, without their line feeds -/
def fileLines (text : Str) : List Str :=
  let parts := Str.splitOn '\n' text
  if parts.getLast? == some [] then parts.dropLast else parts

def parse (text : Str) : Except Err Doc :=
  match steps sp {} (fileLines text) with
  | .ok st => .ok (finish sp st.secs)
  | .error e => .error e

end

/-- `_write_section` for one option (`value.replace('\n', '\n\t')`, delimiter `" = "`) -/
def renderOption (kv : Str × Str) : Str :=
  kv.1 ++ " = ".toList ++ kv.2.flatMap (fun c => if c == '\n' then ['\n', '\t'] else [c]) ++ ['\n']

def renderSection (s : Str × List (Str × Str)) : Str :=
  '[' :: s.1 ++ ']' :: '\n' :: s.2.flatMap renderOption ++ ['\n']

/-- `RawConfigParser.write` for a document without defaults, sections and options in the given order -/
def render (d : Doc) : Str := d.flatMap renderSection

end PM.IniParse
