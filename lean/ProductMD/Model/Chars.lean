
import ProductMD.Model.Str
/-!
`c!"abc"` elaborates to the explicit list `['a', 'b', 'c'] : Str` at elaboration time.  Unlike `"abc".toList` it costs the kernel
nothing to evaluate (the literal-to-list conversion of the byte-array based `String` is slow under `decide +kernel`).
-/
namespace PM
open Lean in
macro:max "c!" s:str : term => do
  let elems : Array (TSyntax `term) := (s.getString.toList.map fun c => (Syntax.mkCharLit c : TSyntax `term)).toArray
  `(([ $elems,* ] : Str))
end PM
