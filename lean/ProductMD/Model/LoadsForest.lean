import ProductMD.Model.Loads
/-!
# The forest readers of composeinfo and treeinfo for C07, in the fill + checks style of `Model/Loads.lean`

`fill` rebuilds the variant forest (and, for treeinfo, the remaining sections) from a current-format document with the
attributes kept as `PyVal` (a corrupted document may put any JSON value anywhere); `checks` are the `validate()` calls the
readers make on what they built, placed by the GENERATED call structure (`LFlag.*`).  C07 observes ok/err only.

The readers selected by a version gate for older documents are part of the model: composeinfo below 1.0 (top-level detection
and child lookup by UID prefix: C05's `isLegacyTop` / `prefixKids`), treeinfo ≤ 0.3 and files without a header (C05's
`TI.Legacy.deserialize`, whose result is converted to the `TreeInfoM` vocabulary and then checked like any other load).
Not modelled (`Err.other`): `%s` of a list/dict/foreign uid; configparser's `[DEFAULT]` section; `float()` beyond plain decimals.
-/
namespace PM.Val.Loads
open PM PM.Val

/-! ### composeinfo -/

/-- `set(v)` / `for x in v`: the elements, when `v` is iterable and its elements hashable -/
def setOf (v : PyVal) : Except Err (List PyVal) :=
  match pyIter v with
  | none => match v with
      | .other _ => .error .other
      | _ => .error .typeError
  | some xs => match hashableElems (.list xs) with
      | .ok () => .ok xs
      | .error e => .error e

/-- `"%s-%s" % (a, b)` -/
def fmt2 (a b : PyVal) : Except Err Str :=
  match pyFormat a, pyFormat b with
  | some x, some y => .ok (x ++ '-' :: y)
  | _, _ => .error .other

def isDict : PyVal → Bool | .dict _ => true | _ => false

/-- `VariantPaths.deserialize`: `paths.get(name, {}).get(arch, None)` for every arch and field — only the shapes matter -/
def pathsShapeOk (arches : List PyVal) (paths : PyVal) : Except Err Unit :=
  match pySortedOk (.list arches) with
  | .error e => .error e
  | .ok () =>
    if arches.isEmpty then .ok () else
    match paths with
    | .dict kvs =>
      if Gen.COMPOSEINFO_PATH_FIELDS.all (fun f => match kvs.find? (·.1 == f) with
          | some kv => isDict kv.2
          | none => true) then .ok () else .error .attributeError
    | .other _ => .error .other
    | _ => .error .attributeError

def keyOf : PyVal → Str | .str s => s | _ => []

/-- `VariantBase.add` after `validate()`: `setdefault(variant.id, variant)` refuses a second object under the same id -/
def addKid (acc : List CIVar) (v : CIVar) : Except Err (List CIVar) :=
  match hashable (v.attrs.get c!"id") with
  | .error e => .error e
  | .ok () =>
    if acc.any (fun w => PyVal.pyEq (w.attrs.get c!"id") (v.attrs.get c!"id")) then .error .valueError else .ok (acc ++ [v])

/-- `Variant.deserialize(full_data, variant_uid)`; fuel = recursion depth (a reference cycle ends in RecursionError).
Each child is built (its own `deserialize`) and then handed to `self.add(child)`. -/
def ciBuild (vt : Nat × Nat) (full : PyVal) : Nat → Str → Except Err CIVar
  | 0, _ => .error .runtimeError
  | fuel + 1, vuid => do
    let d ← getItem full vuid
    let id ← getItem d c!"id"
    let uid ← getItem d c!"uid"
    let name ← getItem d c!"name"
    let ty ← getItem d c!"type"
    let arches ← setOf (← getItem d c!"arches")
    let rel ← if PyVal.pyEq ty (.str c!"layered-product") then ciReleaseFill vt d else pure []
    let paths ← getItem d c!"paths"
    pathsShapeOk arches paths
    let kidUids ← match d with
      | .dict kvs => match kvs.find? (·.1 == c!"variants") with
          | some kv => do
              let ids ← setOf kv.2
              match pySortedOk (.list ids) with
              | .error e => throw e
              | .ok () => ids.mapM fun i => fmt2 uid i
          | none => do
              -- documents below the generated gate (`< (1, 0)`) carry no child lists: every key that starts with `variant_uid + "-"`
              -- is read as a child (C05's `prefixKids`, document order)
              if ← gateB Gen.gate_composeinfo_Variant_deserialize_0 vt then pure (CI.Legacy.prefixKids full vuid) else pure []
      | _ => pure []
    let kids ← kidUids.foldlM (fun acc u => do
      let v ← ciBuild vt full fuel u
      addKid acc v) []
    pure (.mk (keyOf id) [(c!"id", id), (c!"uid", uid), (c!"name", name), (c!"type", ty), (c!"arches", .list arches)] rel kids)

/-- the set `child_variants` of `Variants.deserialize`: `"%s-%s" % (var["uid"], child) for child in var.get("variants", [])` -/
def childRefs (entries : List (Str × PyVal)) : Except Err (List Str) :=
  entries.foldlM (fun acc kv => do
    let kids ← getD kv.2 c!"variants" (.list [])
    let ids ← setOf kids
    if ids.isEmpty then pure acc else do
      let uid ← getItem kv.2 c!"uid"
      let refs ← ids.mapM fun i => fmt2 uid i
      pure (acc ++ refs)) []

/-- `Variants.deserialize`, every format version -/
def ciVariantsFill (vt : Nat × Nat) (payload : PyVal) : Except Err (List CIVar) := do
  let full ← getItem payload c!"variants"
  match full with
  | .dict entries =>
    let refs ← childRefs entries
    -- below the generated gate (`< (1, 0)`) the top level is found from the UIDs (C05's `isLegacyTop`: no dash, or the part before
    -- the last dash is not a key), from 1.0 on from the explicit child lists
    let legacy ← gateB Gen.gate_composeinfo_Variants_deserialize_0 vt
    let keys := entries.map (·.1)
    let tops := Str.sortDedup (if legacy then keys.filter (CI.Legacy.isLegacyTop keys) else keys.filter fun u => !refs.contains u)
    tops.foldlM (fun acc u => do
      let v ← ciBuild vt full (entries.length + 1) u
      addKid acc v) []
  | .other _ => .error .other
  | _ => .error .attributeError

def ciFill (doc : PyVal) : Except Err ComposeInfoM := do
  let f ← ciFrontFill doc
  let payload ← getItem doc c!"payload"
  let variants ← ciVariantsFill f.vt payload
  pure ⟨f.header, f.compose, f.release, f.baseProduct.getD [], variants⟩

/-- the `validate()` calls of the composeinfo reader on the object it built: the section readers (last statement each), every
variant at the end of its own `deserialize` and again in `add`, the release of a layered product; `loads()` at the end -/
def ciChecks (m : ComposeInfoM) : List Step :=
  vstep LFlag.header "common.Header" m.header ++ vstep LFlag.compose "composeinfo.Compose" m.compose
    ++ vstep LFlag.ciRelease "composeinfo.Release" m.release
    ++ (if m.layered then vstep LFlag.ciBaseProduct "composeinfo.BaseProduct" m.baseProduct else [])
    ++ ciVariantChecks (eventsList .none m.variants)
    ++ vstep LFlag.loads "composeinfo.ComposeInfo" []

/-- the parts of a loaded compose: every section and every variant of the forest at any depth (the top-level container's
key rule is not validated on load: the reader keys every variant by its id itself) -/
def ciLoadedParts (m : ComposeInfoM) : List Part :=
  [⟨"common.Header", m.header⟩, ⟨"composeinfo.Compose", m.compose⟩, ⟨"composeinfo.Release", m.release⟩]
    ++ (if m.layered then [⟨"composeinfo.BaseProduct", m.baseProduct⟩] else [])
    ++ (eventsList .none m.variants).flatMap fun ev => match ev with
        | .exit o => [(⟨"composeinfo.Variant", o⟩ : Part)]
        | .enter o rel => if isLayeredProduct o then [⟨"composeinfo.Release", rel⟩] else []

def ciLoads := loadsWith ciFill ciChecks

/-! ### treeinfo (document = configparser's parse: section ↦ option ↦ string, both sorted as `SortedConfigParser` iterates them) -/

def hasSection (doc : PyVal) (s : Str) : Bool := (doc.get? s).isSome
def hasOption (doc : PyVal) (s o : Str) : Bool := match doc.get? s with | some sec => (sec.get? o).isSome | none => false
/-- `parser.get(section, option)`: NoSectionError / NoOptionError (any exception rejects the document) -/
def iniGet (doc : PyVal) (s o : Str) : Except Err Str :=
  match doc.get? s with
  | none => .error .keyError
  | some sec => match sec.get? o with
      | some (.str v) => .ok v
      | some _ => .error .other
      | none => .error .keyError

def sectionOf (uid : Str) (ty : Option Str) : Str :=
  if ty == some c!"addon" then c!"addon-" ++ uid else c!"variant-" ++ uid

def splitNonEmpty (s : Str) : List Str := (Str.splitOn ',' s).filter (!·.isEmpty)

def addTiKid (acc : List TIVar) (key : Str) (v : TIVar) : Except Err (List TIVar) :=
  if acc.any (fun w => w.key == key) then .error .valueError else .ok (acc ++ [match v with | .mk _ a k => .mk key a k])

/-- `Variant.deserialize(parser, uid, addon)` for documents newer than 0.3: the section name follows the CURRENT uid and type
while the four options are read one after the other -/
def tiBuild (vt : Nat × Nat) (doc : PyVal) : Nat → Str → Bool → Except Err TIVar
  | 0, _, _ => .error .runtimeError
  | fuel + 1, uid0, addon => do
    if uid0.isEmpty then throw .valueError
    let ty0 : Option Str ← if addon then
        match Gen.gate_treeinfo_Variant_deserialize_0.eval? vt with
        | some true => pure (if hasSection doc (c!"addon-" ++ uid0) then some c!"addon" else some c!"variant")
        | some false => pure (some c!"addon")
        | none => throw .other
      else pure none
    notLegacy Gen.gate_treeinfo_Variant_deserialize_1 vt
    notLegacy Gen.gate_treeinfo_Variant_deserialize_2 vt
    let id ← iniGet doc (sectionOf uid0 ty0) c!"id"
    let uid ← iniGet doc (sectionOf uid0 ty0) c!"uid"
    let name ← iniGet doc (sectionOf uid ty0) c!"name"
    let ty ← iniGet doc (sectionOf uid ty0) c!"type"
    let sec := sectionOf uid (some ty)
    let kidUids ← if hasOption doc sec c!"addons" then (iniGet doc sec c!"addons").map splitNonEmpty else pure []
    let kids ← kidUids.foldlM (fun acc u => do
      let v ← tiBuild vt doc fuel u true
      addTiKid acc ((v.attrs.get c!"id") |> keyOf) v) []
    notLegacy Gen.gate_treeinfo_VariantPaths_deserialize_0 vt
    notLegacy Gen.gate_treeinfo_VariantPaths_deserialize_1 vt
    pure (.mk (keyOf (.str id)) [(c!"id", .str id), (c!"uid", .str uid), (c!"name", .str name), (c!"type", .str ty)] kids)

def tiVariantsFill (vt : Nat × Nat) (doc : PyVal) : Except Err (List TIVar) := do
  notLegacy Gen.gate_treeinfo_Variants_deserialize_0 vt
  if !hasOption doc c!"tree" c!"variants" then pure [] else do
    let ids := Str.splitOn ',' (← iniGet doc c!"tree" c!"variants")
    let nsec := match doc with | .dict l => l.length | _ => 0
    ids.foldlM (fun acc u => do
      let v ← tiBuild vt doc (nsec + 1) u false
      addTiKid acc (keyOf (v.attrs.get c!"uid")) v) []

def checksumEntry (value : Str) : Except Err PyVal :=
  if !value.contains ':' then
    (if value.length == 32 then .ok (.list [.str c!"md5", .str value])
     else if value.length == 40 then .ok (.list [.str c!"sha1", .str value])
     else if value.length == 64 then .ok (.list [.str c!"sha256", .str value])
     else .error .valueError)
  else match Str.splitOn ':' value with
    | [t, v] => .ok (.list [.str t, .str v])
    | _ => .error .valueError

def tiChecksumsFill (doc : PyVal) : Except Err Obj :=
  match doc.get? c!"checksums" with
  | some (.dict items) => do
      let kvs ← items.mapM fun kv => match kv.2 with
        | .str v => (checksumEntry v).map fun e => (kv.1, e)
        | _ => .error .other
      pure [(c!"checksums", .dict kvs)]
  | some _ => .error .other
  | none => pure [(c!"checksums", .dict [])]

def tiImagesFill (doc : PyVal) (arch : PyVal) : Except Err Obj :=
  match doc, arch with
  | .dict secs, .str a =>
    let plats := secs.foldl (fun acc sec =>
      if Str.startsWith sec.1 c!"images-" then
        let p0 := sec.1.drop 7
        let p := if p0 != a && Str.endsWith p0 ('-' :: a) then p0.take (p0.length - a.length - 1) else p0
        PyVal.setKey acc p sec.2
      else acc) []
    .ok [(c!"images", .dict plats)]
  | _, _ => .error .other

def tiStage2Fill (doc : PyVal) : Obj :=
  let g (o : Str) : PyVal := match doc.get? c!"stage2" with
    | some sec => (sec.get? o).getD .none
    | none => .none
  [(c!"mainimage", g c!"mainimage"), (c!"instimage", g c!"instimage")]

def tiMediaFill (vt : Nat × Nat) (doc : PyVal) : Except Err Obj := do
  notLegacy Gen.gate_treeinfo_Media_deserialize_0 vt
  if hasSection doc c!"media" then do
    let d ← intOfStr (← iniGet doc c!"media" c!"discnum")
    let t ← intOfStr (← iniGet doc c!"media" c!"totaldiscs")
    pure [(c!"discnum", .int d), (c!"totaldiscs", .int t)]
  else pure [(c!"discnum", .none), (c!"totaldiscs", .none)]

/-- the reader for documents newer than 0.3 (every treeinfo gate answers "current"; `Err.other` otherwise) -/
def tiFillCurrent (doc : PyVal) : Except Err TreeInfoM := do
  let f ← tiFrontFill doc
  let variants ← tiVariantsFill f.vt doc
  let checksums ← tiChecksumsFill doc
  let images ← tiImagesFill doc (f.tree.get c!"arch")
  let media ← tiMediaFill f.vt doc
  pure ⟨f.header, f.release, f.baseProduct.getD [], f.tree, variants, checksums, images, tiStage2Fill doc, media⟩

/-! #### documents ≤ 0.3 and files without a header: C05's reader, converted -/

/-- configparser's parse as the typed INI document of C04/C05 (every value of a parsed file is a string) -/
def iniOf (doc : PyVal) : Except Err Ini :=
  match doc with
  | .dict secs => secs.mapM fun (s : Str × PyVal) => match s.2 with
      | .dict opts => (opts.mapM fun (o : Str × PyVal) => match o.2 with
          | .str v => (.ok (o.1, v) : Except Err (Str × Str))
          | _ => .error .other).map fun os => (s.1, os)
      | _ => .error .other
  | _ => .error .other

/-- `int(float(text))`: the syntax errors of `float()` exactly, the value for plain decimal notation (`Err.other` beyond) -/
def floatOracle : TI.FloatOracle :=
  { intOfFloatStr := fun s => match floatOk s with
      | .error e => .error e
      | .ok t => match pyInt (.float t) with
          | .ok (.int n) => .ok n
          | .ok _ => .error .other
          | .error e => .error e
    reprOfFloatStr := floatOk }

def tiVarOf : TI.Variant → TIVar
  | .mk key id uid name type _ kids =>
    .mk key [(c!"id", .str id), (c!"uid", .str uid), (c!"name", .str name), (c!"type", .str type)] (tiVarsOf kids)
where tiVarsOf : List TI.Variant → List TIVar
  | [] => []
  | v :: vs => tiVarOf v :: tiVarsOf vs

def tiProductObj (p : TI.Product) : Obj := [(c!"name", .str p.name), (c!"version", .str p.version), (c!"short", .str p.short)]

/-- the object C05's reader returns, in the vocabulary of `TreeInfoM` (attribute ↦ value, as the validators read them); the header
is the one READ (`0.0` for a file without `[header]`), as for current documents -/
def tiOfLegacy (version : Str) (t : TI.TreeInfo) : TreeInfoM :=
  { header := [(c!"version", .str version)]
    release := tiProductObj t.release ++ [(c!"is_layered", .bool t.isLayered)]
    baseProduct := match t.baseProduct with | some bp => tiProductObj bp | none => []
    tree := [(c!"arch", .str t.tree.arch), (c!"build_timestamp", t.tree.ts.py), (c!"platforms", .list (t.tree.platforms.map .str))]
    variants := tiVarOf.tiVarsOf t.variants
    checksums := [(c!"checksums", .dict (t.checksums.map fun c => (c.1, .list [.str c.2.1, .str c.2.2])))]
    images := [(c!"images", .dict (t.images.map fun p => (p.1, .dict (p.2.map fun kv => (kv.1, .str kv.2)))))]
    stage2 := [(c!"mainimage", TI.optStr t.mainimage), (c!"instimage", TI.optStr t.instimage)]
    media := [(c!"discnum", TI.optInt t.discnum), (c!"totaldiscs", TI.optInt t.totaldiscs)] }

/-- the header version as read: the option when present, `0.0` for a file without one (`Header.deserialize` of treeinfo) -/
def tiVersionRead (doc : PyVal) : Except Err (Option PyVal) := do
  let sec ← getD doc c!"header" (.dict [])
  match ← getD sec c!"version" .none with
  | .none => pure none
  | v => pure (some v)

/-- does any class of the treeinfo reader take a legacy branch at this version?  (C05's `selsOf` of the generated gates) -/
def tiIsLegacy (vt : Nat × Nat) : Except Err Bool := do
  let S ← TI.Legacy.selsOf vt
  pure (!({ S with headerTyped := true } == TI.Legacy.Sels.current))

def tiFillLegacy (version : Str) (doc : PyVal) : Except Err TreeInfoM := do
  let d ← iniOf doc
  let t ← TI.Legacy.deserialize floatOracle d
  pure (tiOfLegacy version t)

/-- `TreeInfo.deserialize`, every header version and files without a header -/
def tiFill (doc : PyVal) : Except Err TreeInfoM := do
  match ← tiVersionRead doc with
  | none => tiFillLegacy c!"0.0" doc
  | some ver =>
    let vt ← versionTuple ver
    if ← tiIsLegacy vt then
      match ver with
      | .str v => tiFillLegacy v doc
      | _ => .error .other
    else tiFillCurrent doc

/-- the `validate()` calls of the treeinfo reader: every section reader ends with one (unconditionally — also for an empty
images/stage2/media section), `add` validates every variant it is given, the container validates after the loop -/
def tiChecks (m : TreeInfoM) : List Step :=
  vstep LFlag.tiHeader "treeinfo.Header" m.header ++ vstep LFlag.tiRelease "treeinfo.Release" m.release
    ++ (if m.layered then vstep LFlag.tiBaseProduct "treeinfo.BaseProduct" m.baseProduct else [])
    ++ vstep LFlag.tiTree "treeinfo.Tree" m.tree
    ++ m.flat.flatMap (vstep LFlag.addValidates "treeinfo.Variant")
    ++ vstep LFlag.tiVariants "treeinfo.Variants" m.containerObj
    ++ vstep LFlag.tiChecksums "treeinfo.Checksums" m.checksums
    ++ vstep LFlag.tiImages "treeinfo.Images" m.imagesObj
    ++ vstep LFlag.tiStage2 "treeinfo.Stage2" m.stage2
    ++ vstep LFlag.tiMedia "treeinfo.Media" m.media
    ++ vstep LFlag.loads "treeinfo.TreeInfo" []

/-- the parts of a loaded tree: every section (present or not) and every variant at any depth -/
def tiLoadedParts (m : TreeInfoM) : List Part :=
  [⟨"treeinfo.Header", m.header⟩, ⟨"treeinfo.Release", m.release⟩]
    ++ (if m.layered then [⟨"treeinfo.BaseProduct", m.baseProduct⟩] else [])
    ++ [⟨"treeinfo.Tree", m.tree⟩]
    ++ m.flat.map (⟨"treeinfo.Variant", ·⟩)
    ++ [⟨"treeinfo.Variants", m.containerObj⟩, ⟨"treeinfo.Checksums", m.checksums⟩, ⟨"treeinfo.Images", m.imagesObj⟩,
        ⟨"treeinfo.Stage2", m.stage2⟩, ⟨"treeinfo.Media", m.media⟩]

def tiLoads := loadsWith tiFill tiChecks

end PM.Val.Loads
