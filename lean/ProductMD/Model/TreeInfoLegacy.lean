import ProductMD.Model.TreeInfo
import ProductMD.Generated.Gates
import ProductMD.Generated.Regexes
/-!
# C05: every reader of `productmd/treeinfo.py`, selected by the generated version gates

`Model/TreeInfo.lean` (C04) models the reader for header versions > 0.3 and answers `Err.other` for the two legacy
families.  This file models `TreeInfo.deserialize` for *every* header version:

* `== (0, 0)`  pre-productmd files (no `[header]`): everything comes from `[general]` and whatever sections exist, with the
  RHEL / Fedora / CentOS / EulerOS special cases, the RHEL 5 addon table, `_fix_path` for absolute paths, the `option_lookup`
  chains of `VariantPaths.deserialize_0_0`;
* `<= (0, 3)`  `[product]` instead of `[release]`, variant sections found by `has_section`, children listed under `addons`
  or `variants`, path fields through `option_lookup` over `variant-UID / variant-ID / addon-UID / addon-ID`, the `src` swap;
* otherwise    `deserialize_1_0` (the C04 reader; equality with it is proved in `Proofs/C05TreeInfo.lean`).

Every class consults its *own* gate (`Gen.gate_treeinfo_*`), as the code does, so that a flipped operator or moved bound in
one class changes exactly that selection here.  Reading a variant (`readVariant` = `Variant.deserialize`) is kept apart
from filing it (`fileChild` / `fileTop` = the container's `add`) because the 0.0 reader overwrites the type of a child
between the two.
-/
namespace PM
namespace TI
namespace Legacy
open Ini

/-- three-way selection of a class: `deserialize_0_0` / `deserialize_0_3` / `deserialize_1_0` -/
inductive Sel where
  | v00 | v03 | v10
deriving DecidableEq, Repr

/-- the verdicts of all treeinfo gates on one header version -/
structure Sels where
  headerTyped : Bool        -- Header.deserialize: `>= (1, 1)`
  release : Sel
  tree00 : Bool
  variants00 : Bool
  paths : Sel
  addonFallback : Bool      -- Variant.deserialize: `> (0, 3)`
  variant : Sel
  fixImages : Bool
  fixStage2 : Bool
  fixChecksums : Bool
  media00 : Bool
deriving DecidableEq, Repr

def gateB (g : PM.Gate) (vt : Nat × Nat) : Except Err Bool :=
  match g.eval? vt with
  | some b => .ok b
  | none => .error .other        -- a comparison the translator could not read has no semantics

/-- `if g0: 0.0 elif g1: 0.3 else: 1.0` -/
def sel2 (g0 g1 : PM.Gate) (vt : Nat × Nat) : Except Err Sel := do
  if ← gateB g0 vt then pure .v00
  else if ← gateB g1 vt then pure .v03
  else pure .v10

def selsOf (vt : Nat × Nat) : Except Err Sels := do
  let headerTyped ← gateB Gen.gate_treeinfo_Header_deserialize_0 vt
  let release ← sel2 Gen.gate_treeinfo_Release_deserialize_0 Gen.gate_treeinfo_Release_deserialize_1 vt
  let tree00 ← gateB Gen.gate_treeinfo_Tree_deserialize_0 vt
  let variants00 ← gateB Gen.gate_treeinfo_Variants_deserialize_0 vt
  let paths ← sel2 Gen.gate_treeinfo_VariantPaths_deserialize_0 Gen.gate_treeinfo_VariantPaths_deserialize_1 vt
  let addonFallback ← gateB Gen.gate_treeinfo_Variant_deserialize_0 vt
  let variant ← sel2 Gen.gate_treeinfo_Variant_deserialize_1 Gen.gate_treeinfo_Variant_deserialize_2 vt
  let fixImages ← gateB Gen.gate_treeinfo_Images__fix_path_0 vt
  let fixStage2 ← gateB Gen.gate_treeinfo_Stage2__fix_path_0 vt
  let fixChecksums ← gateB Gen.gate_treeinfo_Checksums__fix_path_0 vt
  let media00 ← gateB Gen.gate_treeinfo_Media_deserialize_0 vt
  pure { headerTyped, release, tree00, variants00, paths, addonFallback, variant, fixImages, fixStage2, fixChecksums, media00 }

/-- every class takes its current-format reader -/
def Sels.current : Sels :=
  { headerTyped := true, release := .v10, tree00 := false, variants00 := false, paths := .v10, addonFallback := true,
    variant := .v10, fixImages := false, fixStage2 := false, fixChecksums := false, media00 := false }

/-! ### strings -/
def sProduct : Str := "product".toList
def sRHEL : Str := "RHEL".toList
def sFedora : Str := "Fedora".toList
def sSrc : Str := "src".toList
def kFamilyS : Str := "family".toList
def kPackages : Str := "packages".toList
def kSourcePackages : Str := "source_packages".toList
def kSourceRepository : Str := "source_repository".toList
def kIdentity : Str := "identity".toList
def kPackagedirs : Str := "packagedirs".toList

/-- `needle in s` -/
def hasSub (needle : Str) : Str → Bool
  | [] => needle.isEmpty
  | c :: cs => needle.isPrefixOf (c :: cs) || hasSub needle cs

/-- `s.find(needle)` for a needle known to occur: index of the first occurrence -/
def findSub (needle : Str) : Str → Nat
  | [] => 0
  | c :: cs => if needle.isPrefixOf (c :: cs) then 0 else findSub needle cs + 1

/-- `s.rstrip("/")` -/
def rstripSlash (s : Str) : Str := Str.rstripChars ['/'] s

/-- the three copies of `_fix_path` (0.0 only): an absolute path is cut after its first `/os/`, else loses its leading slashes -/
def fixPath (on : Bool) (path : Str) : Str :=
  if on && Str.startsWith path ['/'] then
    if hasSub "/os/".toList path then path.drop (findSub "/os/".toList path + 4)
    else Str.lstripChars ['/'] path
  else path

/-- `get_major_version`: first dot-separated component -/
def majorVersion (version : Str) : Str := (Str.splitOn '.' version).headD []
/-- `get_minor_version`: second component or `None` -/
def minorVersion (version : Str) : Option Str := (Str.splitOn '.' version)[1]?

/-- `re.split(p, s)` for a generated pattern that is one character class (anything else has no semantics here) -/
def splitRe (r : Re) (s : Str) : Except Err (List Str) :=
  match r with
  | .cls k => .ok (splitCls k s)
  | _ => .error .other

/-! ### header -/

def deHeaderL (d : Ini) : Except Err Str := do
  let version ←
    if hasOption d sHeader kVersion then do
      let v ← get d sHeader kVersion
      let vt ← versionTuple v
      if ← gateB Gen.gate_treeinfo_Header_deserialize_0 vt then
        let mt ← get d sHeader kType
        if mt != Gen.HEADER_TYPE_TreeInfo then .error .valueError else pure v
      else pure v
    else pure "0.0".toList
  validateClass "treeinfo.Header" (headerObj version)
  pure version

/-! ### release -/

/-- the family names `Release.deserialize_0_0` knows: (test, is-prefix-test, new name or keep, short) -/
def releaseShort00 (family : Str) : Str × Str :=
  if Str.startsWith family "Red Hat Enterprise Linux".toList then ("Red Hat Enterprise Linux".toList, sRHEL)
  else if family == "Subscription Asset Manager".toList then (family, "SAM".toList)
  else if family == "Red Hat Storage".toList then (family, "RHS".toList)
  else if family == "JBEAP".toList then (family, "JBEAP".toList)
  else if family == "Red Hat Storage Software Appliance".toList then (family, "SSA".toList)
  else if Str.startsWith family sFedora then (sFedora, sFedora)
  else if Str.startsWith family "CentOS".toList then ("CentOS".toList, "CentOS".toList)
  else if Str.startsWith family "EulerOS".toList then ("EulerOS".toList, "EulerOS".toList)
  else (family, [])

/-- `for i in re.split(r"[-_]", version): if re.match(r"^\d+(\.\d+)*$", i): version = i` (the last matching part wins) -/
def version00 (version : Str) : Except Err Str := do
  let parts ← splitRe Gen.re_treeinfo_Release_deserialize_0_0_0 version
  pure (parts.foldl (fun v i => if pyMatches Gen.re_treeinfo_Release_deserialize_0_0_1 i then i else v) version)

def deReleaseL (s : Sel) (d : Ini) : Except Err (Product × Bool) :=
  match s with
  | .v10 => deRelease .v1_0 d
  | .v03 => do
    let name ← get d sProduct kName
    let version ← get d sProduct kVersion
    let short ← get d sProduct kShort
    let layered ← if hasOption d sProduct kIsLayered then getBoolean d sProduct kIsLayered else pure false
    validateClass "treeinfo.Release" (releaseObj ⟨name, short, version⟩ layered)
    pure (⟨name, short, version⟩, layered)
  | .v00 => do
    let family ← get d sGeneral kFamilyS
    let version0 ← get d sGeneral kVersion
    let version ← version00 version0
    let (name, short) := releaseShort00 family
    validateClass "treeinfo.Release" (releaseObj ⟨name, short, version⟩ false)
    pure (⟨name, short, version⟩, false)

/-! ### tree -/

/-- the platform an `images-*` section name stands for -/
def imagePlatforms (arch : Str) (secs : List Str) : List Str :=
  (secs.filter (Str.startsWith · pImages)).map (platformOf arch)

def deTreeL (fo : FloatOracle) (old : Bool) (d : Ini) : Except Err Tree :=
  if !old then deTree fo .v1_0 d
  else do
    let arch ← get d sGeneral kArch
    let own ← if (sections d).contains arch then (get d arch kPlatforms).map splitNonEmpty else pure []
    -- a set: the order of insertion is the order below, repeated members are dropped
    let platforms := (([arch] ++ own ++ imagePlatforms arch (sections d)).foldl (fun acc p => if acc.contains p then acc else acc ++ [p]) [])
    let ts ← if hasOption d sGeneral kTimestamp then (get d sGeneral kTimestamp).bind fo.intOfFloatStr else pure (-1)
    validateClass "treeinfo.Tree" (treeObj ⟨arch, .int ts, platforms⟩)
    pure ⟨arch, .int ts, platforms⟩

/-! ### variants -/

/-- what the 0.0 readers look at besides the parser: the release just read and the tree architecture -/
structure VCtx where
  relName : Str
  relShort : Str
  relVersion : Str
  arch : Str

def isRhelMajor (c : VCtx) (majors : List Str) : Bool :=
  c.relShort == sRHEL && majors.contains (majorVersion c.relVersion)

/-- the value a path attribute has after the reader ran (`None` = unset) -/
abbrev PathVals := List (Str × Option Str)

def setVal (name : Str) (v : Option Str) : PathVals → PathVals
  | [] => []                                   -- an attribute outside `_fields` is never written: not tracked
  | kv :: rest => if kv.1 == name then (name, v) :: rest else kv :: setVal name v rest

def getVal (name : Str) (vals : PathVals) : Option Str := (vals.lookup name).join

/-- `source_packages = packages; source_repository = repository; packages = None; repository = None` -/
def srcSwap (vals : PathVals) : PathVals :=
  let p := getVal kPackages vals
  let r := getVal kRepository vals
  setVal kRepository none (setVal kPackages none (setVal kSourceRepository r (setVal kSourcePackages p vals)))

def valsToPaths (vals : PathVals) : List (Str × Str) :=
  vals.filterMap fun kv => kv.2.map fun v => (kv.1, v)

/-- `VariantPaths.deserialize_0_3`: one `option_lookup` chain per field -/
def pathVals03 (d : Ini) (id uid : Str) : List Str → Except Err PathVals
  | [] => .ok []
  | f :: fs =>
    match optionLookup d [(pVariant ++ uid, f), (pVariant ++ id, f), (pAddon ++ uid, f), (pAddon ++ id, f)] none with
    | .error e => .error e
    | .ok v => match pathVals03 d id uid fs with
      | .error e => .error e
      | .ok rest => .ok ((f, v) :: rest)

/-- `x or y` on optional strings -/
def orStr (x : Option Str) (y : Str) : Str :=
  match x with
  | some s => if s.isEmpty then y else s
  | none => y

/-- `VariantPaths.deserialize_0_0` -/
def pathVals00 (c : VCtx) (d : Ini) (id uid : Str) : Except Err PathVals := do
  -- repository
  let repo0 ← optionLookup d [(pVariant ++ id, kRepository), (pAddon ++ id, kRepository), (sGeneral, kRepository)] (some ".".toList)
  let repo1 := orStr (some (rstripSlash (repo0.getD []))) ".".toList
  let repo2 := if Str.endsWith repo1 "/repodata".toList then repo1.take (repo1.length - 9) else repo1
  let repo3 : Option Str :=
    if repo2 == ".".toList then
      let r56 : Option Str := if isRhelMajor c ["5".toList, "6".toList] then some id else some repo2
      if isRhelMajor c ["3".toList, "4".toList] then none else r56
    else some repo2
  -- packages
  let pk0 ← optionLookup d
    [(pVariant ++ uid, kPackages), (pVariant ++ uid, kPackagedir), (pAddon ++ uid, kPackages), (pAddon ++ uid, kPackagedir),
     (pVariant ++ id, kPackages), (pVariant ++ id, kPackagedir), (pAddon ++ id, kPackages), (pAddon ++ id, kPackagedir),
     (sGeneral, kPackages), (sGeneral, kPackagedir), (sGeneral, kPackagedirs)] repo3
  let pk1 := orStr (some (rstripSlash (orStr pk0 []))) ".".toList
  let pk2 : Str :=
    if isRhelMajor c ["5".toList] then id
    else if isRhelMajor c ["3".toList, "4".toList] then "RedHat/RPMS".toList
    else if c.relShort == sFedora then (if pk1 == ".".toList then "Packages".toList else pk1)
    else pk1
  -- identity
  let ident ← optionLookup d
    [(pVariant ++ uid, kIdentity), (pAddon ++ uid, kIdentity), (pVariant ++ id, kIdentity), (pAddon ++ id, kIdentity),
     (sGeneral, kIdentity)] none
  let blank : PathVals := Gen.TREEINFO_PATH_FIELDS.map fun f => (f, none)
  let vals := setVal kPackages (some pk2) (setVal kRepository repo3 blank)
  pure (setVal kIdentity ident (if c.arch == sSrc then srcSwap vals else vals))

/-- `VariantPaths.deserialize` followed by its `validate()` -/
def dePathsL (s : Sel) (c : VCtx) (d : Ini) (id uid type : Str) : Except Err (List (Str × Str)) := do
  let paths ← match s with
    | .v10 => dePaths d (secName type uid) Gen.TREEINFO_PATH_FIELDS
    | .v03 => do
      let vals ← pathVals03 d id uid Gen.TREEINFO_PATH_FIELDS
      pure (valsToPaths (if c.arch == sSrc then srcSwap vals else vals))
    | .v00 => (pathVals00 c d id uid).map valsToPaths
  validateClass "treeinfo.VariantPaths" []
  pure paths

/-- `parent.add(child)`: the parent pointer is set, the child validates, it is filed under its id -/
def fileChild (pu : Str) : Variant → Except Err Variant
  | .mk _ id uid name type paths kids =>
    match validateClass "treeinfo.Variant" (variantObj (some pu) id uid name type kids) with
    | .error e => .error e
    | .ok () => .ok (.mk id id uid name type paths kids)

/-- `variants.add(variant, variant_id=variant.uid)`: no parent, filed under `uid or id` -/
def fileTop : Variant → Except Err Variant
  | .mk _ id uid name type paths kids =>
    match validateClass "treeinfo.Variant" (variantObj none id uid name type kids) with
    | .error e => .error e
    | .ok () => .ok (.mk (if uid.isEmpty then id else uid) id uid name type paths kids)

def withType (t : Str) : Variant → Variant
  | .mk k id uid name _ paths kids => .mk k id uid name t paths kids

/-- the first of the four candidate sections that decides the type (`deserialize_0_0`): the section the loop stopped at
(the last candidate when it ran to the end) and the type found (`[]` = still unset) -/
def scanSections00 (d : Ini) (id : Str) (type0 : Str) : List Str → Str → Except Err (Str × Str)
  | [], last => .ok (last, type0)
  | sec :: rest, _ =>
    if hasOption d sec kType then
      match get d sec kType with
      | .error e => .error e
      | .ok t => .ok (sec, t)
    else if hasSection d sec then
      .ok (sec, if hasSub tAddon sec then tAddon else if hasSub "optional".toList id then "optional".toList else tVariant)
    else scanSections00 d id type0 rest sec

/-- the RHEL 5 addon table of `deserialize_0_0` -/
def rhel5Addons (c : VCtx) (uid : Str) (addons : List Str) : List Str :=
  if !isRhelMajor c ["5".toList] then addons else
  let a1 := if uid == "Client".toList then ["VT".toList, "Workstation".toList] else addons
  if uid == "Server".toList then
    if ["i386".toList, "ia64".toList, "x86_64".toList].contains c.arch then ["Cluster".toList, "ClusterStorage".toList, "VT".toList]
    else if c.arch == "ppc".toList then
      (if minorVersion c.relVersion == some "0".toList then [] else ["Cluster".toList, "ClusterStorage".toList])
    else if c.arch == "s390x".toList then []
    else a1
  else a1

/-- the loop `for u in uids: child = read(u); <file>(child)` with the duplicate-key refusal of `add` -/
def loopFile (rd : Str → Except Err Variant) : List Str → List Variant → Except Err (List Variant)
  | [], acc => .ok acc
  | u :: us, acc =>
    match rd u with
    | .error e => .error e
    | .ok v => match addKid acc v with
      | .error e => .error e
      | .ok acc' => loopFile rd us acc'

/-- `Variant.deserialize(parser, uid, addon)` (including `self.paths.deserialize`); the result is not yet filed.
`[]` stands for a type that is still `None`.  Fuel bounds the nesting depth (`RecursionError` when it runs out). -/
def readVariant (S : Sels) (c : VCtx) (d : Ini) : Nat → Bool → Str → Except Err Variant
  | 0, _, _ => .error .runtimeError
  | f + 1, addon, uid0 =>
    if uid0.isEmpty then .error .valueError else
    let type0 : Str :=
      if addon then (if S.addonFallback && !hasSection d (secName tAddon uid0) then tVariant else tAddon) else []
    match S.variant with
    | .v10 =>
      match get d (secName type0 uid0) kId with
      | .error e => .error e
      | .ok id =>
      match get d (secName type0 uid0) kUid with
      | .error e => .error e
      | .ok uid =>
      match get d (secName type0 uid) kName with
      | .error e => .error e
      | .ok name =>
      match get d (secName type0 uid) kType with
      | .error e => .error e
      | .ok type =>
      match (if hasOption d (secName type uid) kAddons then
               match get d (secName type uid) kAddons with
               | .error e => .error e
               | .ok s => loopFile (fun u => (readVariant S c d f true u).bind (fileChild uid)) (splitNonEmpty s) []
             else .ok [] : Except Err (List Variant)) with
      | .error e => .error e
      | .ok kids =>
      match dePathsL S.paths c d id uid type with
      | .error e => .error e
      | .ok paths => .ok (.mk [] id uid name type paths kids)
    | .v03 =>
      let sec := if hasSection d (pVariant ++ uid0) then pVariant ++ uid0 else pAddon ++ uid0
      match get d sec kId with
      | .error e => .error e
      | .ok id =>
      match get d sec kUid with
      | .error e => .error e
      | .ok uid =>
      match get d sec kName with
      | .error e => .error e
      | .ok name =>
      match get d sec kType with
      | .error e => .error e
      | .ok type =>
      match (if hasOption d sec kAddons then get d sec kAddons
             else if hasOption d sec kVariants then get d sec kVariants
             else .ok []) with
      | .error e => .error e
      | .ok addons =>
      match loopFile (fun u => (readVariant S c d f true u).bind (fileChild uid)) (splitNonEmpty addons) [] with
      | .error e => .error e
      | .ok kids =>
      match dePathsL S.paths c d id uid type with
      | .error e => .error e
      | .ok paths => .ok (.mk [] id uid name type paths kids)
    | .v00 =>
      let id := (Str.splitOn '-' uid0).getLastD []
      let uid := uid0
      match scanSections00 d id type0 [pAddon ++ uid, pAddon ++ id, pVariant ++ uid, pVariant ++ id] [] with
      | .error e => .error e
      | .ok (sec, type1) =>
      -- `if not self.type`: fall back to the `addon` argument (name, uid, id are reassigned to what they already are)
      let type := if type1.isEmpty then (if addon then tAddon else tVariant) else type1
      match (if hasOption d sec kName then get d sec kName else .ok id) with
      | .error e => .error e
      | .ok name =>
      match (if type == tVariant then
               match optionLookup d [(sec, kAddons), (sec, kVariants), (sGeneral, kAddons)] (some []) with
               | .error e => .error e
               | .ok s =>
                 let addons := rhel5Addons c uid (splitNonEmpty (s.getD []))
                 let uids := addons.map fun a => if Str.startsWith a (uid ++ ['-']) then a else uid ++ '-' :: a
                 -- `addon.deserialize(parser, addon_uid)`; `addon.type = "addon"`; `self.add(addon)`
                 loopFile (fun u => (readVariant S c d f false u).bind fun v => fileChild uid (withType tAddon v)) uids []
             else .ok [] : Except Err (List Variant)) with
      | .error e => .error e
      | .ok kids =>
      match dePathsL S.paths c d id uid type with
      | .error e => .error e
      | .ok paths => .ok (.mk [] id uid name type paths kids)

/-- `Variants.deserialize_0_0`: the top-level variant ids of a pre-productmd file -/
def topIds00 (c : VCtx) (d : Ini) : Except Err (List Str) := do
  let hasV := hasOption d sGeneral tVariant
  let named : Str ←
    if !hasV then do
      let fam ← get d sGeneral kFamilyS
      if fam == "Red Hat Enterprise Linux Server".toList then pure "Server".toList
      else if fam == "Red Hat Enterprise Linux Client".toList then pure "Client".toList
      else if fam == "CentOS".toList then pure "CentOS".toList
      else get d sGeneral tVariant
    else get d sGeneral tVariant
  let ids : List Str :=
    if !named.isEmpty then [named]
    else (((sections d).filter (Str.startsWith · pVariant)).map (·.drop 8)).filter (!·.contains '-')
  pure (if ids.isEmpty then [c.relShort] else ids)

/-- `Variants.deserialize` -/
def deTopsL (S : Sels) (c : VCtx) (d : Ini) : Except Err (List Variant) := do
  let uids ←
    if S.variants00 then topIds00 c d
    else if hasOption d sTree kVariants then (get d sTree kVariants).map (Str.splitOn ',') else pure []
  let tops ← loopFile (fun u => (readVariant S c d (d.length + 1) false u).bind fileTop) uids []
  validateClass "treeinfo.Variants" (variantsObj tops)
  pure tops

/-! ### checksums, images, stage2, media -/

def deChecksumItemsL (fix : Bool) : List (Str × Str) → List (Str × Str × Str) → Except Err (List (Str × Str × Str))
  | [], acc => .ok acc
  | kv :: rest, acc => match checksumOf kv.2 with
    | .error e => .error e
    | .ok tv => deChecksumItemsL fix rest (setKV (fixPath fix kv.1) tv acc)

def deChecksumsL (fix : Bool) (d : Ini) : Except Err (List (Str × Str × Str)) := do
  let cs ← if hasSection d sChecksums then (items d sChecksums).bind fun its => deChecksumItemsL fix its [] else pure []
  validateClass "treeinfo.Checksums" (checksumsObj cs)
  pure cs

def deImageSectionsL (fix : Bool) (d : Ini) (arch : Str) :
    List Str → List (Str × List (Str × Str)) → Except Err (List (Str × List (Str × Str)))
  | [], acc => .ok acc
  | s :: ss, acc =>
    if Str.startsWith s pImages then
      match items d s with
      | .error e => .error e
      | .ok its =>
        deImageSectionsL fix d arch ss
          (setKV (platformOf arch s) (its.foldl (fun m kv => setKV kv.1 (fixPath fix kv.2) m) []) acc)
    else deImageSectionsL fix d arch ss acc

def deImagesL (fix : Bool) (d : Ini) (tree : Tree) : Except Err (List (Str × List (Str × Str))) := do
  let images ← deImageSectionsL fix d tree.arch (sections d) []
  validateClass "treeinfo.Images" (imagesObj images tree.platforms)
  pure images

def deStage2L (fix : Bool) (d : Ini) : Except Err (Option Str × Option Str) := do
  let m ← if hasOption d sStage2 kMainimage then (get d sStage2 kMainimage).map (some ∘ fixPath fix) else pure none
  let i ← if hasOption d sStage2 kInstimage then (get d sStage2 kInstimage).map (some ∘ fixPath fix) else pure none
  validateClass "treeinfo.Stage2" (stage2Obj m i)
  pure (m, i)

def deMediaL (old : Bool) (d : Ini) : Except Err (Option Int × Option Int) :=
  if !old then deMedia .v1_0 d
  else do
    let hn := hasOption d sGeneral kDiscnum
    let ht := hasOption d sGeneral kTotaldiscs
    let r ← if hn || ht then do
        let a ← if hn then (get d sGeneral kDiscnum).bind Str.pyInt else pure 1
        let b ← if ht then (get d sGeneral kTotaldiscs).bind Str.pyInt else pure a
        pure (some a, some b)
      else pure (none, none)
    validateClass "treeinfo.Media" (mediaObj r.1 r.2)
    pure r

/-! ### the whole reader -/

/-- `TreeInfo.deserialize(parser)` on a fresh object, every header version -/
def deserialize (fo : FloatOracle) (d : Ini) : Except Err TreeInfo := do
  let version ← deHeaderL d
  let vt ← versionTuple version
  let S ← selsOf vt
  let (release, layered) ← deReleaseL S.release d
  let bp ← if layered then (deBase d).map some else pure none
  let tree ← deTreeL fo S.tree00 d
  let c : VCtx := ⟨release.name, release.short, release.version, tree.arch⟩
  let tops ← deTopsL S c d
  let cs ← deChecksumsL S.fixChecksums d
  let images ← deImagesL S.fixImages d tree
  let (m, i) ← deStage2L S.fixStage2 d
  let (a, b) ← deMediaL S.media00 d
  validateClass "treeinfo.TreeInfo" []
  pure { headerVersion := currentVersion, release := release, isLayered := layered, baseProduct := bp, tree := tree,
         variants := tops, checksums := cs, images := images, mainimage := m, instimage := i,
         discnum := a, totaldiscs := b }

end Legacy
end TI
end PM
