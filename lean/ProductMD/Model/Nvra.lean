import ProductMD.Model.Regex
import ProductMD.Model.Py
import ProductMD.Generated.Regexes
import ProductMD.Generated.Tables
/-!
`productmd.common.parse_nvra` as coded: strip a trailing `.rpm`, `RPM_NVRA_RE.match`, `groupdict()`,
`epoch or 0`, `int()`.  The pattern and its group table are the generated ones, so the model is driven by the
regex the source contains now.  Also the pieces of CPython the parsers rely on (`int()` on a `\d+` capture).
-/
namespace PM

/-- CPython refuses decimal strings longer than this in `int()` (`sys.get_int_max_str_digits()`, 3.11+). -/
def intMaxStrDigits : Nat := 4300

/-- the `\d` class of CPython's `re` for `str` patterns (`Py_UNICODE_ISDECIMAL`), from the generated table -/
def digitCls : Cls := { ranges := Gen.digitRanges, neg := false }

/-- decimal value of a character of the `\d` class: every range of the table starts at a zero digit
(checked against `int(c)` for all 0x110000 code points when the model was written; re-checked by correspondence) -/
def digitVal (c : Char) : Option Nat :=
  (Gen.digitRanges.find? fun r => r.1 ≤ c.toNat && c.toNat ≤ r.2).map fun r => (c.toNat - r.1) % 10

def digitsVal : Str → Nat → Option Nat
  | [], acc => some acc
  | c :: cs, acc => match digitVal c with
    | some d => digitsVal cs (acc * 10 + d)
    | none => none

/-- Python `int(s)` for a string captured by `\d+`: Unicode decimal digits allowed, `ValueError` beyond the
interpreter's digit limit.  (Signs, blanks and underscores, which `int()` also accepts, cannot occur in a `\d+`
capture; on such input this model answers `ValueError`.) -/
def pyIntDigits (s : Str) : Except Err Nat :=
  if s.isEmpty then .error .valueError
  else if intMaxStrDigits < s.length then .error .valueError
  else match digitsVal s 0 with
    | some n => .ok n
    | none => .error .valueError

/-- `match.groupdict()[name]` : `none` = Python `None` (group did not take part) -/
def namedGroup (groups : List (String × Nat)) (caps : Caps) (nm : String) : Option Str :=
  (groups.lookup nm).bind caps.get

/-- the dictionary `parse_nvra` returns -/
structure Nvra where
  name : Option Str
  epoch : Nat
  version : Option Str
  release : Option Str
  arch : Option Str
deriving DecidableEq, Repr

/-- `if nvra.endswith(".rpm"): nvra = nvra[:-4]` -/
def stripRpm (s : Str) : Str :=
  if Str.endsWith s ['.', 'r', 'p', 'm'] then s.take (s.length - 4) else s

/-- the part of `parse_nvra` after the match -/
def nvraOfCaps (caps : Caps) : Except Err Nvra :=
  let g := namedGroup Gen.re_common_RPM_NVRA_RE_groups caps
  if (Gen.re_common_RPM_NVRA_RE_groups.lookup "epoch").isNone then .error .keyError else
  let ep : Except Err Nat := match g "epoch" with
    | none => .ok 0
    | some [] => .ok 0
    | some d => pyIntDigits d
  ep.map fun e => { name := g "name", epoch := e, version := g "version", release := g "release", arch := g "arch" }

def parseNvra (s : Str) : Except Err Nvra :=
  match pyMatch Gen.re_common_RPM_NVRA_RE (stripRpm s) with
  | none => .error .valueError
  | some caps => nvraOfCaps caps

/-- `"%s" % v` for a value that is a string or `None` -/
def pctS (o : Option Str) : Str := o.getD ['N', 'o', 'n', 'e']

/-- canonical re-formatting, `Rpms._check_nevra`: `"%(name)s-%(epoch)s:%(version)s-%(release)s.%(arch)s"` -/
def canonNvra (p : Nvra) : Str :=
  pctS p.name ++ '-' :: Str.natStr p.epoch ++ ':' :: pctS p.version ++ '-' :: pctS p.release ++ '.' :: pctS p.arch

/-- `Rpms._check_nevra`: refuse a string without `:`, parse (any `ValueError` is re-raised as `ValueError`), return the
canonical string together with the parts (`epoch or 0` is the identity on the integer already there) -/
def checkNevra (nevra : Str) : Except Err (Str × Nvra) :=
  if !nevra.contains ':' then .error .valueError
  else match parseNvra nevra with
    | .error .valueError => .error .valueError
    | .error e => .error e
    | .ok p => .ok (canonNvra p, p)

end PM
