import ProductMD.Model.Py
import ProductMD.Model.Regex
import ProductMD.Generated.Regexes
/-!
`productmd.common.parse_nvra`, defined through the regular expression the code contains NOW
(`Gen.re_common_RPM_NVRA_RE`, regenerated from the source on every run) and the backtracking engine model.

    if nvra.endswith(".rpm"): nvra = nvra[:-4]
    match = RPM_NVRA_RE.match(nvra)
    if match is None: raise ValueError
    result = match.groupdict()
    result["epoch"] = result["epoch"] or 0
    result["epoch"] = int(result["epoch"])

(builder `builders`, for C12/C03; the C13 builder owns the directly written parser and the equivalence proof —
this file only needs the executable definition.)
-/
namespace PM

/-- value of a decimal digit character (any Unicode `Nd`, which is what `\d` matches and `int()` accepts):
every block of the generated table starts at a zero digit and holds whole decades -/
def digitVal (c : Char) : Option Nat :=
  (Gen.digitRanges.find? fun r => r.1 ≤ c.toNat && c.toNat ≤ r.2).map fun r => (c.toNat - r.1) % 10

/-- `int(s)` for a non-empty string of decimal digits (no sign, blanks or underscores) -/
def pyIntDigits (s : Str) : Option Nat :=
  if s.isEmpty then none
  else s.foldl (fun acc c => acc.bind fun a => (digitVal c).map (a * 10 + ·)) (some 0)

structure Nvra where
  name : Str
  epoch : Nat
  version : Str
  release : Str
  arch : Str
deriving DecidableEq, Repr

/-- number of a named group of a generated pattern (0 = not there, which never captures) -/
def groupNo (groups : List (String × Nat)) (name : String) : Nat :=
  ((groups.find? (·.1 == name)).map (·.2)).getD 0

/-- `s[:-4]` when `s.endswith(".rpm")` -/
def stripRpmSuffix (s : Str) : Str :=
  if Str.endsWith s ".rpm".toList then s.take (s.length - 4) else s

def parseNvra (s : Str) : Except Err Nvra :=
  match pyMatch Gen.re_common_RPM_NVRA_RE (stripRpmSuffix s) with
  | none => .error .valueError
  | some caps =>
    let g (n : String) : Option Str := caps.get (groupNo Gen.re_common_RPM_NVRA_RE_groups n)
    let epoch : Option Nat :=
      match g "epoch" with
      | none => some 0
      | some e => if e.isEmpty then some 0 else pyIntDigits e
    match epoch with
    | none => .error .valueError                -- `int()` refusing the text (cannot happen for `\d+`)
    | some ep =>
      .ok { name := (g "name").getD [], epoch := ep, version := (g "version").getD [],
            release := (g "release").getD [], arch := (g "arch").getD [] }

/-- `"%(name)s-%(epoch)s:%(version)s-%(release)s.%(arch)s" % nevra_dict` -/
def Nvra.canonical (d : Nvra) : Str :=
  d.name ++ '-' :: Str.natStr d.epoch ++ ':' :: d.version ++ '-' :: d.release ++ '.' :: d.arch

end PM
