import ProductMD.Model.Py
/-!
Python built-ins the (de)serialisers apply to parsed JSON values: subscripting, iteration, `int()`, `bool()`,
`==` with `bool <: int`, and the JSON-serialisability test of `json.dump`.  Core Lean only; namespace `PM.PyOps`.

Out of the model (an explicit `Err.other`, never a default): `int()` of a float token or of a string containing
non-ASCII characters (Python accepts any Unicode decimal digit and Unicode blanks there).
-/
namespace PM.PyOps
open PM

/-- `v[k]` -/
def subscript (v k : PyVal) : Except Err PyVal :=
  match v, k with
  | .dict kvs, .str key =>
    match kvs.find? (·.1 == key) with
    | some kv => .ok kv.2
    | none => .error .keyError
  | .dict _, .list _ => .error .typeError          -- unhashable key
  | .dict _, .dict _ => .error .typeError
  | .dict _, _ => .error .keyError
  | .list xs, .int n =>
    let i : Int := if n < 0 then n + xs.length else n
    if i < 0 then .error .indexError
    else match xs[i.toNat]? with
      | some x => .ok x
      | none => .error .indexError
  | .list xs, .bool b =>
    match xs[(if b then 1 else 0)]? with
    | some x => .ok x
    | none => .error .indexError
  | .str s, .int n =>
    let i : Int := if n < 0 then n + s.length else n
    if i < 0 then .error .indexError
    else match s[i.toNat]? with
      | some c => .ok (.str [c])
      | none => .error .indexError
  | .str s, .bool b =>
    match s[(if b then 1 else 0)]? with
    | some c => .ok (.str [c])
    | none => .error .indexError
  | _, _ => .error .typeError

/-- `v["key"]` -/
def item (v : PyVal) (key : Str) : Except Err PyVal := subscript v (.str key)

/-- `v.get("key", dflt)` on a value already known to be a dict; on anything else `AttributeError` -/
def getD (v : PyVal) (key : Str) (dflt : PyVal) : Except Err PyVal :=
  match v with
  | .dict kvs =>
    match kvs.find? (·.1 == key) with
    | some kv => .ok kv.2
    | none => .ok dflt
  | _ => .error .attributeError

/-- the values a `for x in v` loop visits -/
def iter : PyVal → Except Err (List PyVal)
  | .dict kvs => .ok (kvs.map fun kv => .str kv.1)
  | .list xs => .ok xs
  | .str s => .ok (s.map fun c => .str [c])
  | _ => .error .typeError

def isAsciiSpace (c : Char) : Bool :=
  c.toNat == 32 || (9 ≤ c.toNat && c.toNat ≤ 13) || (28 ≤ c.toNat && c.toNat ≤ 31)

/-- digits with single underscores between them (`int("1_000")`) -/
def digitsVal : Str → Option Nat → Bool → Option Nat
  | [], acc, prevUnderscore => if prevUnderscore then none else acc
  | c :: cs, acc, prevUnderscore =>
    if Str.isAsciiDigit c then digitsVal cs (some ((acc.getD 0) * 10 + (c.toNat - 48))) false
    else if c == '_' then
      (if prevUnderscore || acc.isNone then none else digitsVal cs acc true)
    else none

/-- `int(s)` for a string: blanks stripped, optional sign, decimal digits -/
def intOfStr (s : Str) : Except Err Int :=
  if s.any (fun c => c.toNat ≥ 128) then .error .other           -- unmodelled: Unicode digits / blanks
  else
    let t := (s.dropWhile isAsciiSpace).reverse.dropWhile isAsciiSpace |>.reverse
    let (neg, body) := match t with
      | '-' :: r => (true, r)
      | '+' :: r => (false, r)
      | r => (false, r)
    match digitsVal body none false with
    | some n => .ok (if neg then -(n : Int) else n)
    | none => .error .valueError

/-- `int(x)` for a float given by its `repr`: truncation towards zero for the plain decimal form `[-]ddd.ddd`;
exponent forms, `inf`, `nan` are outside the model (`Err.other`) -/
def intOfFloatRepr (r : Str) : Except Err Int :=
  let (neg, body) := match r with
    | '-' :: t => (true, t)
    | t => (false, t)
  match Str.splitOn '.' body with
  | [ip, fp] =>
    if ip.isEmpty || fp.isEmpty || !(ip.all Str.isAsciiDigit) || !(fp.all Str.isAsciiDigit) then .error .other
    else match Str.parseNatAscii ip with
      | some n => .ok (if neg then -(n : Int) else n)
      | none => .error .other
  | _ => .error .other

/-- `int(v)` -/
def pyInt : PyVal → Except Err Int
  | .int n => .ok n
  | .bool b => .ok (if b then 1 else 0)
  | .str s => intOfStr s
  | .float r => intOfFloatRepr r
  | _ => .error .typeError

/-- `bool(v)` -/
def pyBool (v : PyVal) : Bool := v.truthy

/-- `a or b` -/
def pyOr (a b : PyVal) : PyVal := if a.truthy then a else b

mutual
/-- replace every `bool` by the `int` it equals (`True == 1`), so that structural equality of the results is `==` -/
def numNorm : PyVal → PyVal
  | .bool b => .int (if b then 1 else 0)
  | .list xs => .list (numNormList xs)
  | .dict kvs => .dict (numNormKvs kvs)
  | v => v
def numNormList : List PyVal → List PyVal
  | [] => []
  | x :: xs => numNorm x :: numNormList xs
def numNormKvs : List (Str × PyVal) → List (Str × PyVal)
  | [] => []
  | (k, v) :: rest => (k, numNorm v) :: numNormKvs rest
end

/-- the canonical representative of a value's `==` class (floats compared as tokens: `1 == 1.0` is outside the model) -/
def eqKey (v : PyVal) : PyVal := PyVal.canon (numNorm v)

/-- Python `a == b` -/
def pyEq (a b : PyVal) : Bool := PyVal.beq (eqKey a) (eqKey b)

mutual
/-- can `json.dump` write the value? (it raises TypeError on a foreign object) -/
def jsonSafe : PyVal → Bool
  | .other _ => false
  | .list xs => jsonSafeList xs
  | .dict kvs => jsonSafeKvs kvs
  | _ => true
def jsonSafeList : List PyVal → Bool
  | [] => true
  | x :: xs => jsonSafe x && jsonSafeList xs
def jsonSafeKvs : List (Str × PyVal) → Bool
  | [] => true
  | (_, v) :: rest => jsonSafe v && jsonSafeKvs rest
end

end PM.PyOps

namespace PM.PyOps
/-- results of model functions can be compared by `decide` when their payload can -/
instance instDecEqExceptErr {α : Type} [DecidableEq α] : DecidableEq (Except Err α)
  | .ok a, .ok b => if h : a = b then isTrue (by rw [h]) else isFalse (by intro e; cases e; exact h rfl)
  | .error a, .error b => if h : a = b then isTrue (by rw [h]) else isFalse (by intro e; cases e; exact h rfl)
  | .ok _, .error _ => isFalse (by intro e; cases e)
  | .error _, .ok _ => isFalse (by intro e; cases e)
end PM.PyOps
