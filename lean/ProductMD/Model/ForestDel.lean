import ProductMD.Model.Forest
/-!
# `VariantBase.__delitem__` (C11): one more operation of the arena model

```
def __delitem__(self, name):
    if name not in self.variants and "-" in name:
        head, tail = name.split("-", 1)          # FIRST dash
        del self.variants[head][tail]            # KeyError when `head` is no key; else `Variant.__delitem__(tail)`
    else:
        del self.variants[name]                  # KeyError when `name` is no key
```

What the code does NOT do, and the model therefore does not do either: the removed object's `parent` attribute is not reset
(it keeps naming its former parent), its own children dict is not touched (the subtree stays attached to the removed object),
and – unlike `__getitem__` – the children's UIDs are never compared with the name.  Nothing is written before the last
statement, so a call that raises has changed nothing.

The delegation is on a strictly shorter name: `delitem` hands `name.length + 1` units of fuel and never runs out.
-/
namespace PM.Forest

/-- `del d[k]` on an insertion-ordered dict whose keys are distinct: the entry goes, the order of the others stays -/
def derase (k : Str) : List (Str × Nat) → List (Str × Nat)
  | [] => []
  | kv :: r => if kv.1 = k then r else kv :: derase k r

/-- `c.__delitem__(name)` as coded: the new state and the outcome (never `Except State`: that a refused call changes nothing
is a theorem, not a definition) -/
def delitemF (s : State) : Nat → Cont → Str → State × Except Err Unit
  | 0, _, _ => (s, .error .runtimeError)
  | f + 1, c, name =>
    let kids := s.kidsOf c
    if (dget name kids).isNone && name.contains '-' then
      match Str.split1 '-' name with
      | [head, tail] =>
        match dget head kids with
        | none => (s, .error .keyError)
        | some h => delitemF s f (some h) tail
      | _ => (s, .error .valueError)
    else
      match dget name kids with
      | some _ => (s.setKids c (derase name kids), .ok ())
      | none => (s, .error .keyError)

def delitem (s : State) (c : Cont) (name : Str) : State × Except Err Unit :=
  delitemF s (name.length + 1) c name

/-- which entry `del c[name]` designates: (container, key, object) – the same walk without the final mutation -/
def delResolveF (s : State) : Nat → Cont → Str → Except Err (Cont × Str × Nat)
  | 0, _, _ => .error .runtimeError
  | f + 1, c, name =>
    let kids := s.kidsOf c
    if (dget name kids).isNone && name.contains '-' then
      match Str.split1 '-' name with
      | [head, tail] =>
        match dget head kids with
        | none => .error .keyError
        | some h => delResolveF s f (some h) tail
      | _ => .error .valueError
    else
      match dget name kids with
      | some v => .ok (c, name, v)
      | none => .error .keyError

def delResolve (s : State) (c : Cont) (name : Str) : Except Err (Cont × Str × Nat) :=
  delResolveF s (name.length + 1) c name

/-- histories of `add` calls (accepted or refused) and `del` statements (successful or raising) -/
inductive HOp where
  | add (o : Op)
  | del (c : Cont) (name : Str)
deriving Repr

def hstep (U : Nat → Attrs) (fuel : Nat) (s : State) : HOp → State
  | .add o => step U fuel s o
  | .del c name => (delitem s c name).1

def hrun (U : Nat → Attrs) (fuel : Nat) (ops : List HOp) : State := ops.foldl (hstep U fuel) State.empty

end PM.Forest
