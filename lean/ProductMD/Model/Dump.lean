import ProductMD.Model.Py
/-!
# Effect model of `dump` (property C18)

`MetadataBase.dump` / `TreeInfo.dump` are sequences of five kinds of statements.  The sequence itself is NOT written
here: it is read from the source on every run (`Generated/Effects.lean`, `tools/gen_effects.py`).  This file gives
each statement kind its meaning over an abstract file system and an abstract object:

* `validate`   – `self.validate()`: may raise (top-level `_validate*` methods only);
* `getParser`  – `parser = self._get_parser()`: fresh empty parser (treated as fallible: it is a method call);
* `serialize`  – `self.serialize(parser)`: runs every nested section writer, each of which validates its own object,
                 so it may raise at ANY nested validator; needs the parser variable;
* `openW`      – `with open_file_obj(f, "w") as f`: creates / TRUNCATES the destination at once;
* `buildFile`  – `self.build_file(parser, f)` on the OPENED DESTINATION: writes the text of the parser; it can itself
                 fail half-way (`json.dump` meets a value it cannot encode) – whatever was written before stays
                 in the file (the shape before the F19 fix);
* `newBuf`     – `content = six.StringIO()`: a fresh memory buffer;
* `buildMem`   – `self.build_file(parser, content)`: the same encoder, into the memory buffer: may fail, touches no file;
* `writeBuf`   – `f.write(content.getvalue())`: writes the already built text to the opened destination;
* `unlink`     – `os.unlink` / `os.remove` / `os.rename` / `os.replace` / `shutil.*` reaching the destination: what was
                 at the path is gone from it (modelled in the worst case: unconditionally);
* `readBack`   – a `load` / `loads` / `deserialize` / `parse_file` call inside dump (reading the written file back into a
                 fresh instance): a second validation pass by the READER, which may refuse what every writer accepted;
* `unknown`    – any statement outside the idiom: may raise (assumed not to touch the file system).
-/
namespace PM

inductive Eff where
  | validate | openW | getParser | serialize | buildFile | newBuf | buildMem | writeBuf | unlink | readBack | unknown
deriving DecidableEq, Repr, Inhabited

namespace Eff

def name : Eff → String
  | validate => "validate" | openW => "openW" | getParser => "getParser"
  | serialize => "serialize" | buildFile => "buildFile" | newBuf => "newBuf" | buildMem => "buildMem"
  | writeBuf => "writeBuf" | unlink => "unlink" | readBack => "readBack" | unknown => "unknown"

def ofName : String → Eff
  | "validate" => validate | "openW" => openW | "getParser" => getParser
  | "serialize" => serialize | "buildFile" => buildFile | "newBuf" => newBuf | "buildMem" => buildMem
  | "writeBuf" => writeBuf | "unlink" => unlink | "readBack" => readBack | _ => unknown

/-- statements that run code of the object and can therefore refuse it: validators, section writers, the encoder
(`build_file`, wherever it writes to), anything unrecognised.  `openW` (I/O error: nothing is created then), `newBuf`
and `writeBuf` (a plain write of a string that already exists) are not. -/
def fallible : Eff → Bool
  | validate | getParser | serialize | unknown | buildMem | buildFile | readBack => true
  | openW | newBuf | writeBuf | unlink => false

/-- statements that destroy what is at the destination as soon as they run: the open for writing (truncates) and any
removal / renaming of the destination -/
def destructive : Eff → Bool
  | openW | unlink => true
  | _ => false

end Eff

abbrev Path := Str
abbrev Content := Str
/-- abstract file system: what is stored at each path -/
abbrev FS := Path → Option Content

def FS.write (fs : FS) (p : Path) (c : Content) : FS := fun q => if q = p then some c else fs q

/-- What a dump can observe of the object being written: the outcome of each step that runs the object's code.
Every field is arbitrary, so quantifying over `DumpObj` quantifies over every failure point. -/
structure DumpObj where
  /-- `self.validate()` at top level -/
  validate : Except Err Unit := .ok ()
  /-- `self._get_parser()`: the text an empty parser would be written as -/
  getParser : Except Err Content := .ok []
  /-- `self.serialize(parser)`: error of the first nested validator that refuses, else the text `build_file` writes -/
  serialize : Except Err Content := .ok []
  /-- an unrecognised statement -/
  unknown : Except Err Unit := .ok ()
  /-- loading the written text back into a fresh instance -/
  readBack : Except Err Unit := .ok ()
  /-- `open(path, "w")` refused by the operating system (nothing is created or truncated then) -/
  openErr : Option Err := none
  /-- `build_file` fails after having written this many characters -/
  buildFail : Option (Nat × Err) := none

/-- the failing statement and the exception class -/
abbrev Failure := Eff × Err

structure DumpSt where
  fs : FS
  /-- the local variable `parser`: unbound, or the text it would be written as -/
  parser : Option Content := none
  /-- the destination has been opened for writing -/
  opened : Bool := false
  /-- the local memory buffer `content`: unbound, or what has been written into it -/
  buffer : Option Content := none

def liftErr (eff : Eff) : Except Err α → Except Failure α
  | .ok a => .ok a
  | .error e => .error (eff, e)

/-- one statement -/
def step (o : DumpObj) (path : Path) (st : DumpSt) : Eff → DumpSt × Except Failure Unit
  | .validate => (st, liftErr .validate o.validate)
  | .unknown => (st, liftErr .unknown o.unknown)
  | .readBack => (st, liftErr .readBack o.readBack)
  | .getParser =>
    match o.getParser with
    | .ok t => ({ st with parser := some t }, .ok ())
    | .error e => (st, .error (.getParser, e))
  | .serialize =>
    match st.parser with
    | none => (st, .error (.serialize, .other))                  -- UnboundLocalError: parser
    | some _ =>
      match o.serialize with
      | .ok t => ({ st with parser := some t }, .ok ())
      | .error e => (st, .error (.serialize, e))
  | .openW =>
    match o.openErr with
    | some e => (st, .error (.openW, e))
    | none => ({ st with fs := st.fs.write path [], opened := true }, .ok ())
  | .buildFile =>
    match st.parser with
    | none => (st, .error (.buildFile, .other))                  -- UnboundLocalError: parser
    | some t =>
      if st.opened then
        let cur := (st.fs path).getD []
        match o.buildFail with
        | none => ({ st with fs := st.fs.write path (cur ++ t) }, .ok ())
        | some (n, e) => ({ st with fs := st.fs.write path (cur ++ t.take n) }, .error (.buildFile, e))
      else (st, .error (.buildFile, .attributeError))            -- `f` is still the path string: no `.write`
  | .unlink => ({ st with fs := fun q => if q = path then none else st.fs q }, .ok ())
  | .newBuf => ({ st with buffer := some [] }, .ok ())
  | .buildMem =>
    match st.parser, st.buffer with
    | some t, some b =>
      match o.buildFail with
      | none => ({ st with buffer := some (b ++ t) }, .ok ())
      | some (n, e) => ({ st with buffer := some (b ++ t.take n) }, .error (.buildMem, e))
    | _, _ => (st, .error (.buildMem, .other))                   -- UnboundLocalError
  | .writeBuf =>
    match st.buffer with
    | none => (st, .error (.writeBuf, .other))                   -- UnboundLocalError: content
    | some b =>
      if st.opened then ({ st with fs := st.fs.write path ((st.fs path).getD [] ++ b) }, .ok ())
      else (st, .error (.writeBuf, .attributeError))             -- `f` is still the path string

structure Outcome where
  st : DumpSt
  result : Except Failure Unit
  /-- statements executed, the failing one included -/
  trace : List Eff

/-- run a script until the first failure -/
def exec (o : DumpObj) (path : Path) : List Eff → DumpSt → Outcome
  | [], st => ⟨st, .ok (), []⟩
  | e :: rest, st =>
    match step o path st e with
    | (st', .ok ()) => let r := exec o path rest st'; ⟨r.st, r.result, e :: r.trace⟩
    | (st', .error f) => ⟨st', .error f, [e]⟩

/-- `obj.dump(path)` as an interpretation of the effect script: final file system and result -/
def run (sc : List Eff) (o : DumpObj) (fs : FS) (path : Path) : FS × Except Failure Unit :=
  let r := exec o path sc { fs := fs }
  (r.st.fs, r.result)

def runTrace (sc : List Eff) (o : DumpObj) (fs : FS) (path : Path) : List Eff :=
  (exec o path sc { fs := fs }).trace

/-- The safe shape: once something destructive has happened to the destination nothing fallible is executed any
more – after the open for writing nothing that runs code of the object; after a removal of the destination not even
the open (which can fail and would leave the path empty). -/
def noFallibleAfterOpen : List Eff → Bool
  | [] => true
  | .openW :: rest => rest.all (fun e => !e.fallible && e != .unlink)
  | .unlink :: rest => rest.all (fun e => !e.fallible && e != .openW)
  | _ :: rest => noFallibleAfterOpen rest

/-! ### the standard shape of a dump

`validate`* `getParser` `validate`* `serialize` `validate`* `newBuf` `buildMem` `openW` `writeBuf` – the shape both
`dump` methods have since the F19 fix (with `validate` calls allowed anywhere before the buffer is created).
Decidable; used to state, for every script of this shape at once, that ANY refusal – validator, section writer or
encoder – happens before the open and that a successful dump writes the text. -/
inductive Phase where
  | init | parsed | serialized | buffered | built | opened | done
deriving DecidableEq, Repr

def phaseStep : Phase → Eff → Option Phase
  | .init, .validate => some .init
  | .init, .getParser => some .parsed
  | .parsed, .validate => some .parsed
  | .parsed, .serialize => some .serialized
  | .serialized, .validate => some .serialized
  | .serialized, .newBuf => some .buffered
  | .buffered, .buildMem => some .built
  | .built, .openW => some .opened
  | .opened, .writeBuf => some .done
  | _, _ => none

def phases : Phase → List Eff → Option Phase
  | p, [] => some p
  | p, e :: rest => match phaseStep p e with
    | some q => phases q rest
    | none => none

def standardShape (sc : List Eff) : Bool := phases .init sc == some .done

/-- the interpreter state a standard script is in at each phase (all steps so far succeeded) -/
def stateAt (fs : FS) (path : Path) (t0 t : Content) : Phase → DumpSt
  | .init => { fs := fs }
  | .parsed => { fs := fs, parser := some t0 }
  | .serialized => { fs := fs, parser := some t }
  | .buffered => { fs := fs, parser := some t, buffer := some [] }
  | .built => { fs := fs, parser := some t, buffer := some t }
  | .opened => { fs := fs.write path [], parser := some t, opened := true, buffer := some t }
  | .done => { fs := fs.write path t, parser := some t, opened := true, buffer := some t }

/-- the shape before the F19 fix: the encoder runs on the opened destination -/
def preF19Shape : List Eff := [.validate, .getParser, .serialize, .openW, .buildFile]

/-! ### nested sections: where `serialize` can fail

A metadata object is a tree of sections; each section writer first validates its own object (a list of field
validators, each may refuse) and then calls the writers of its sub-sections.  `Sect.check` is the first refusal in
that order; it is what `serialize` raises. -/
inductive Sect where
  | node (validators : List (Except Err Unit)) (kids : List Sect)

def firstErr : List (Except Err Unit) → Except Err Unit
  | [] => .ok ()
  | .ok () :: rest => firstErr rest
  | .error e :: _ => .error e

mutual
def Sect.check : Sect → Except Err Unit
  | .node vs kids => match firstErr vs with
    | .ok () => Sect.checkAll kids
    | .error e => .error e
def Sect.checkAll : List Sect → Except Err Unit
  | [] => .ok ()
  | s :: rest => match Sect.check s with
    | .ok () => Sect.checkAll rest
    | .error e => .error e
end

def Sect.validators : Sect → List (Except Err Unit)
  | .node vs _ => vs

/-- the object seen by `dump` when its sections are `top` and its text is `text`:
`validate()` runs the top-level validators only, `serialize` every reached one -/
def DumpObj.ofSect (top : Sect) (text : Content) (empty : Content := []) : DumpObj :=
  { validate := firstErr top.validators,
    getParser := .ok empty,
    serialize := match top.check with | .ok () => .ok text | .error e => .error e }

end PM
