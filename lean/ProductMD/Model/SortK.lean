import ProductMD.Model.Str
/-! Generic stable insertion sort of key/value lists by string key (what `sorted(d)` / `SortedDict` / `sort_keys` do
with pairwise distinct keys). Structural recursion: kernel-reducible. -/
namespace PM

def insertK {α} (kv : Str × α) : List (Str × α) → List (Str × α)
  | [] => [kv]
  | x :: xs => if Str.lt kv.1 x.1 then kv :: x :: xs else x :: insertK kv xs

def sortK {α} (l : List (Str × α)) : List (Str × α) := l.foldr insertK []

/-- sorted list of strings (no values) -/
def sortStrs (l : List Str) : List Str := (sortK (l.map fun s => (s, ()))).map (·.1)

end PM
