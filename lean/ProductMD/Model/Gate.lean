/-!
Version gates: `self.header.version_tuple <op> (a, b)`.  `Generated/Gates.lean` (tools/gen_gates.py) lists every such
comparison of the source with its operator and bound; the hand-written readers/writers consume them, so flipping
`<=` to `<` or moving a bound changes the model and every theorem that depends on the gate is re-checked.
Core Lean only.
-/
namespace PM

inductive GateOp where
  | lt | le | eq | ne | ge | gt | unknown
deriving DecidableEq, Repr

structure Gate where
  op : GateOp
  bound : Nat × Nat
deriving DecidableEq, Repr

/-- Python tuple comparison of two pairs of naturals -/
def verLt (a b : Nat × Nat) : Bool := a.1 < b.1 || (a.1 == b.1 && a.2 < b.2)
def verLe (a b : Nat × Nat) : Bool := a.1 < b.1 || (a.1 == b.1 && a.2 ≤ b.2)

/-- the gate's verdict on a version; an operator the translator did not recognise has no semantics (`none`) -/
def Gate.eval? (g : Gate) (v : Nat × Nat) : Option Bool :=
  match g.op with
  | .lt => some (verLt v g.bound)
  | .le => some (verLe v g.bound)
  | .eq => some (v == g.bound)
  | .ne => some (v != g.bound)
  | .ge => some (verLe g.bound v)
  | .gt => some (verLt g.bound v)
  | .unknown => none

end PM
