import ProductMD.Model.Checksum
import ProductMD.Generated.ComposePaths
/-!
# Compose directory resolution (property C20)

Mirrors `productmd/compose.py`: `Compose.__init__` (layout probing), `_find_metadata_file`, `_load_metadata`, and the
four cached accessors as a state machine that logs every `obj.load(path)`.

The world is abstract: `exists` is `_file_exists`, `listdir` is `os.listdir` (`none`: not a directory – the OSError
propagates), `load kind path` is the outcome of `cls().load(path)` (document text or exception class).  Theorems
quantify over every world, in particular over every listing ORDER.  `World.ofTree` is the concrete world of a set of
normalised paths, used by the driver with the real `os.listdir` orders.  Candidate file names, loader classes, the
caching shape and the probe names come from `Generated/ComposePaths.lean`.
-/
namespace PM
namespace ComposeDir
open Checksum (pathJoin)

abbrev Kind := String

structure World where
  «exists» : Str → Bool
  listdir : Str → Option (List Str)
  load : Kind → Str → Except Err Str

/-- `needle in s` -/
def containsSub (needle : Str) : Str → Bool
  | [] => needle.isEmpty
  | c :: cs => needle.isPrefixOf (c :: cs) || containsSub needle cs

def scheme : Str := [':', '/', '/']

/-- `Compose.__init__`: the resolved `self.compose_path` -/
def resolve (w : World) (cp : Str) : Except Err Str :=
  let path := pathJoin cp Gen.composeSubdir
  if w.exists (pathJoin path Gen.composeProbe) then .ok path
  else if !containsSub scheme cp && w.exists cp then
    match w.listdir cp with
    | none => .error .other                                       -- NotADirectoryError from os.listdir
    | some ls =>
      match ls.find? (fun i => w.exists (pathJoin (pathJoin cp i) Gen.composeScanName)) with
      | some i => .ok (pathJoin cp i)
      | none => .ok cp
  else .ok cp

/-- errors of the accessors: RuntimeError carries the location it names -/
inductive CErr where
  | runtime (named : Str)
  | other (e : Err)
deriving DecidableEq, Repr

/-- `_find_metadata_file(paths)` -/
def find (w : World) (composePath : Str) (paths : List Str) : Except CErr Str :=
  match paths.find? (fun i => w.exists (pathJoin composePath i)) with
  | some i => .ok (pathJoin composePath i)
  | none => .error (.runtime composePath)

def candidates (k : Kind) : List Str :=
  match Gen.composeAccessors.find? (·.1 == k) with
  | some a => a.2.1
  | none => []

def cachedKind (k : Kind) : Bool :=
  match Gen.composeAccessors.find? (·.1 == k) with
  | some a => a.2.2.2
  | none => false

/-- the classes an `except` clause must name to catch an exception of class `e` (the class itself and its bases) -/
def errBases : Err → List String
  | .valueError => ["ValueError", "Exception", "BaseException"]
  | .keyError => ["KeyError", "LookupError", "Exception", "BaseException"]
  | .indexError => ["IndexError", "LookupError", "Exception", "BaseException"]
  | .typeError => ["TypeError", "Exception", "BaseException"]
  | .attributeError => ["AttributeError", "Exception", "BaseException"]
  | .runtimeError => ["RuntimeError", "Exception", "BaseException"]
  | .parserError => ["Error", "Exception", "BaseException"]
  | .other => ["Exception", "BaseException"]

/-- `_load_metadata` turns this exception of `obj.load(path)` into the RuntimeError naming the file: it is an instance
of one of the classes of the `except` clause as read from the source -/
def wrapped (e : Err) : Bool := (errBases e).any (fun c => Gen.composeWrapped.contains c)

/-- a loaded metadata object: `id` is its identity (fresh per load), `path` the file it came from -/
structure Obj where
  id : Nat
  kind : Kind
  path : Str
  text : Str
deriving DecidableEq, Repr

structure State where
  composePath : Str
  cache : Kind → Option Obj := fun _ => none
  /-- every `obj.load(path)` performed so far, failed ones included -/
  loads : List (Kind × Str) := []

/-- one access of `compose.<k>` -/
def access (w : World) (s : State) (k : Kind) : State × Except CErr Obj :=
  match s.cache k with
  | some o => (s, .ok o)
  | none =>
    match find w s.composePath (candidates k) with
    | .error e => (s, .error e)
    | .ok path =>
      let s1 : State := { s with loads := s.loads ++ [(k, path)] }
      match w.load k path with
      | .ok text =>
        let o : Obj := ⟨s.loads.length, k, path, text⟩
        if cachedKind k then ({ s1 with cache := fun k' => if k' = k then some o else s.cache k' }, .ok o)
        else (s1, .ok o)
      | .error e =>
        if wrapped e then (s1, .error (.runtime path))            -- "… can not be deserialized"
        else (s1, .error (.other e))                              -- anything else propagates unchanged

def accessAll (w : World) : State → List Kind → State × List (Except CErr Obj)
  | s, [] => (s, [])
  | s, k :: ks =>
    let r := access w s k
    let rest := accessAll w r.1 ks
    (rest.1, r.2 :: rest.2)

def loadCount (s : State) (k : Kind) : Nat := (s.loads.filter (fun l => l.1 == k)).length

/-! ### the concrete world of a set of normalised paths -/

/-- components of a path: empty ones (`//`, trailing `/`) dropped; the flag says "absolute" -/
def key (p : Str) : Bool × List Str :=
  (Str.startsWith p ['/'], (Str.splitOn '/' p).filter (fun c => !c.isEmpty))

/-- `nodes`: existing paths (as keys) with "is a directory"; `orders`: what `os.listdir` returned for a directory;
`loads`: outcome of loading a file as a given kind -/
def World.ofTree (nodes : List ((Bool × List Str) × Bool)) (orders : List ((Bool × List Str) × List Str))
    (loads : List ((Kind × (Bool × List Str)) × Except Err Str)) : World :=
  { «exists» := fun p =>
      match nodes.lookup (key p) with
      | some isDir => isDir || !(Str.endsWith p ['/'])             -- "file/" does not exist
      | none => false,
    listdir := fun p =>
      match nodes.lookup (key p) with
      | some true => some ((orders.lookup (key p)).getD [])
      | _ => none,
    load := fun k p =>
      match loads.lookup (k, key p) with
      | some r => r
      | none => .error .other }

/-- the same world after the paths `gone` (as keys) have been removed from the file system -/
def World.without (w : World) (gone : List (Bool × List Str)) : World :=
  { w with «exists» := fun p => !gone.contains (key p) && w.exists p }

end ComposeDir
end PM
