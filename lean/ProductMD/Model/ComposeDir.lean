import ProductMD.Model.Checksum
import ProductMD.Generated.ComposePaths
import ProductMD.Generated.UrlLoc
/-!
# Compose directory resolution (property C20)

Mirrors `productmd/compose.py`: `Compose.__init__` (layout probing), `_find_metadata_file`, `_load_metadata`, and the
four cached accessors as a state machine that logs every `obj.load(path)`.

The world is abstract: `exists` is `_file_exists`, `listdir` is `os.listdir` (`none`: not a directory – the OSError
propagates), `load kind path` is the outcome of `cls().load(path)` (document text or exception class).  Theorems
quantify over every world, in particular over every listing ORDER.  `World.ofTree` is the concrete world of a set of
normalised paths, used by the driver with the real `os.listdir` orders.  Candidate file names, loader classes, the
caching shape and the probe names come from `Generated/ComposePaths.lean`.
-/
namespace PM
namespace ComposeDir
open Checksum (pathJoin)

abbrev Kind := String

structure World where
  «exists» : Str → Bool
  listdir : Str → Option (List Str)
  load : Kind → Str → Except Err Str

/-- `needle in s` -/
def containsSub (needle : Str) : Str → Bool
  | [] => needle.isEmpty
  | c :: cs => needle.isPrefixOf (c :: cs) || containsSub needle cs

def scheme : Str := [':', '/', '/']

/-- `Compose.__init__`: the resolved `self.compose_path` -/
def resolve (w : World) (cp : Str) : Except Err Str :=
  let path := pathJoin cp Gen.composeSubdir
  if w.exists (pathJoin path Gen.composeProbe) then .ok path
  else if !containsSub scheme cp && w.exists cp then
    match w.listdir cp with
    | none => .error .other                                       -- NotADirectoryError from os.listdir
    | some ls =>
      match ls.find? (fun i => w.exists (pathJoin (pathJoin cp i) Gen.composeScanName)) with
      | some i => .ok (pathJoin cp i)
      | none => .ok cp
  else .ok cp

/-- errors of the accessors: RuntimeError carries the location it names -/
inductive CErr where
  | runtime (named : Str)
  | other (e : Err)
deriving DecidableEq, Repr

/-- `_find_metadata_file(paths)` -/
def find (w : World) (composePath : Str) (paths : List Str) : Except CErr Str :=
  match paths.find? (fun i => w.exists (pathJoin composePath i)) with
  | some i => .ok (pathJoin composePath i)
  | none => .error (.runtime composePath)

def candidates (k : Kind) : List Str :=
  match Gen.composeAccessors.find? (·.1 == k) with
  | some a => a.2.1
  | none => []

def cachedKind (k : Kind) : Bool :=
  match Gen.composeAccessors.find? (·.1 == k) with
  | some a => a.2.2.2
  | none => false

/-- the classes an `except` clause must name to catch an exception of class `e` (the class itself and its bases) -/
def errBases : Err → List String
  | .valueError => ["ValueError", "Exception", "BaseException"]
  | .keyError => ["KeyError", "LookupError", "Exception", "BaseException"]
  | .indexError => ["IndexError", "LookupError", "Exception", "BaseException"]
  | .typeError => ["TypeError", "Exception", "BaseException"]
  | .attributeError => ["AttributeError", "Exception", "BaseException"]
  | .runtimeError => ["RuntimeError", "Exception", "BaseException"]
  | .parserError => ["Error", "Exception", "BaseException"]
  | .other => ["Exception", "BaseException"]

/-- `_load_metadata` turns this exception of `obj.load(path)` into the RuntimeError naming the file: it is an instance
of one of the classes of the `except` clause as read from the source -/
def wrapped (e : Err) : Bool := (errBases e).any (fun c => Gen.composeWrapped.contains c)

/-- a loaded metadata object: `id` is its identity (fresh per load), `path` the file it came from -/
structure Obj where
  id : Nat
  kind : Kind
  path : Str
  text : Str
deriving DecidableEq, Repr

structure State where
  composePath : Str
  cache : Kind → Option Obj := fun _ => none
  /-- every `obj.load(path)` performed so far, failed ones included -/
  loads : List (Kind × Str) := []

/-- one access of `compose.<k>` -/
def access (w : World) (s : State) (k : Kind) : State × Except CErr Obj :=
  match s.cache k with
  | some o => (s, .ok o)
  | none =>
    match find w s.composePath (candidates k) with
    | .error e => (s, .error e)
    | .ok path =>
      let s1 : State := { s with loads := s.loads ++ [(k, path)] }
      match w.load k path with
      | .ok text =>
        let o : Obj := ⟨s.loads.length, k, path, text⟩
        if cachedKind k then ({ s1 with cache := fun k' => if k' = k then some o else s.cache k' }, .ok o)
        else (s1, .ok o)
      | .error e =>
        if wrapped e then (s1, .error (.runtime path))            -- "… can not be deserialized"
        else (s1, .error (.other e))                              -- anything else propagates unchanged

def accessAll (w : World) : State → List Kind → State × List (Except CErr Obj)
  | s, [] => (s, [])
  | s, k :: ks =>
    let r := access w s k
    let rest := accessAll w r.1 ks
    (rest.1, r.2 :: rest.2)

def loadCount (s : State) (k : Kind) : Nat := (s.loads.filter (fun l => l.1 == k)).length

/-! ### the concrete world of a set of normalised paths -/

/-- components of a path: empty ones (`//`, trailing `/`) dropped; the flag says "absolute" -/
def key (p : Str) : Bool × List Str :=
  (Str.startsWith p ['/'], (Str.splitOn '/' p).filter (fun c => !c.isEmpty))

/-- `nodes`: existing paths (as keys) with "is a directory"; `orders`: what `os.listdir` returned for a directory;
`loads`: outcome of loading a file as a given kind -/
def World.ofTree (nodes : List ((Bool × List Str) × Bool)) (orders : List ((Bool × List Str) × List Str))
    (loads : List ((Kind × (Bool × List Str)) × Except Err Str)) : World :=
  { «exists» := fun p =>
      match nodes.lookup (key p) with
      | some isDir => isDir || !(Str.endsWith p ['/'])             -- "file/" does not exist
      | none => false,
    listdir := fun p =>
      match nodes.lookup (key p) with
      | some true => some ((orders.lookup (key p)).getD [])
      | _ => none,
    load := fun k p =>
      match loads.lookup (k, key p) with
      | some r => r
      | none => .error .other }

/-- the same world after the paths `gone` (as keys) have been removed from the file system -/
def World.without (w : World) (gone : List (Bool × List Str)) : World :=
  { w with «exists» := fun p => !gone.contains (key p) && w.exists p }

/-! ## remote locations (http / https / ftp)

`_file_exists(p)` and `open_file_obj(p)` fetch `p` with `_urlopen` when it starts with one of the prefixes read from
the source (`Gen.urlSchemesExists` / `Gen.urlSchemesOpen`); everything else is the local file system above.  The net is
abstract: `fetch url i` is the outcome of the `i`-th `_urlopen(url)` (so a server may answer differently each time),
`parse kind resp` the outcome of `parse_file(resp)` + `deserialize` on the response object handed out.  There is no
listing over URLs.  Every fetch is logged with "the library closed the response before the operation returned". -/

inductive Fetch where
  /-- a response object; `resp` identifies it (what it delivers, through which reader branch) -/
  | ok (resp : Str)
  /-- `urllib.error.URLError` or a subclass (HTTPError 404, connection refused, unknown host) -/
  | urlError
  /-- any other exception of `_urlopen`: socket timeout while reading, `http.client` exceptions (InvalidURL,
  RemoteDisconnected), `ValueError` (invalid IPv6 URL) -/
  | other (e : Err)
deriving DecidableEq, Repr

structure Net where
  fetch : Str → Nat → Fetch
  parse : Kind → Str → Except Err Str

structure FetchRec where
  url : Str
  closed : Bool
deriving DecidableEq, Repr

abbrev FLog := List FetchRec

/-- `p.startswith((..))` -/
def isUrl (schemes : List Str) (p : Str) : Bool := schemes.any (fun s => Str.startsWith p s)

/-- number of earlier fetches of this URL -/
def seen (log : FLog) (url : Str) : Nat := (log.filter (fun r => r.url == url)).length

/-- classes an `except` clause must name to catch this failure -/
def fetchBases : Fetch → List String
  | .ok _ => []
  | .urlError => ["URLError", "OSError", "Exception", "BaseException"]
  | .other e => errBases e

/-- the exception class a failed fetch propagates as -/
def fetchErr : Fetch → Err
  | .other e => e
  | _ => .other                                                   -- URLError is an OSError

/-- `_file_exists(p)`: for a URL "the fetch succeeds"; a failure of a class named in the except clause means absent,
any other exception propagates -/
def existsU (w : World) (n : Net) (log : FLog) (p : Str) : FLog × Except Err Bool :=
  if isUrl Gen.urlSchemesExists p then
    match n.fetch p (seen log p) with
    | .ok _ => (log ++ [⟨p, true⟩], .ok true)
    | f =>
      if (fetchBases f).any (fun c => Gen.urlExistsCatches.contains c) then (log ++ [⟨p, false⟩], .ok false)
      else (log ++ [⟨p, false⟩], .error (fetchErr f))
  else (log, .ok (w.exists p))

/-- the legacy scan `for i in os.listdir(compose_path)` -/
def scanU (w : World) (n : Net) (cp : Str) : FLog → List Str → FLog × Except Err (Option Str)
  | log, [] => (log, .ok none)
  | log, i :: rest =>
    match existsU w n log (pathJoin (pathJoin cp i) Gen.composeScanName) with
    | (l, .error e) => (l, .error e)
    | (l, .ok true) => (l, .ok (some i))
    | (l, .ok false) => scanU w n cp l rest

/-- `Compose.__init__` with remote locations: the fetches made and the resolved `compose_path` (or the exception that
leaves the constructor) -/
def resolveU (w : World) (n : Net) (cp : Str) : FLog × Except Err Str :=
  let path := pathJoin cp Gen.composeSubdir
  match existsU w n [] (pathJoin path Gen.composeProbe) with
  | (l, .error e) => (l, .error e)
  | (l, .ok true) => (l, .ok path)
  | (l, .ok false) =>
    if !containsSub Gen.composeUrlMark cp && w.exists cp then       -- `os.path.exists`, never a fetch
      match w.listdir cp with
      | none => (l, .error .other)
      | some ls =>
        match scanU w n cp l ls with
        | (l2, .error e) => (l2, .error e)
        | (l2, .ok (some i)) => (l2, .ok (pathJoin cp i))
        | (l2, .ok none) => (l2, .ok cp)
    else (l, .ok cp)

/-- `_find_metadata_file(paths)` -/
def findU (w : World) (n : Net) (composePath : Str) : FLog → List Str → FLog × Except CErr Str
  | log, [] => (log, .error (.runtime composePath))
  | log, i :: rest =>
    match existsU w n log (pathJoin composePath i) with
    | (l, .error e) => (l, .error (.other e))
    | (l, .ok true) => (l, .ok (pathJoin composePath i))
    | (l, .ok false) => findU w n composePath l rest

/-- `cls().load(path)`: `open_file_obj` fetches a URL once; the response is closed after the body of the `with` returned
normally and NOT when it raised (no try/finally) -/
def loadU (w : World) (n : Net) (log : FLog) (k : Kind) (path : Str) : FLog × Except Err Str :=
  if isUrl Gen.urlSchemesOpen path then
    match n.fetch path (seen log path) with
    | .ok resp =>
      match n.parse k resp with
      | .ok text => (log ++ [⟨path, true⟩], .ok text)
      | .error e => (log ++ [⟨path, false⟩], .error e)
    | f => (log ++ [⟨path, false⟩], .error (fetchErr f))
  else (log, w.load k path)

structure UState where
  composePath : Str
  cache : Kind → Option Obj := fun _ => none
  loads : List (Kind × Str) := []
  fetches : FLog := []

/-- one access of `compose.<k>` -/
def accessU (w : World) (n : Net) (s : UState) (k : Kind) : UState × Except CErr Obj :=
  match s.cache k with
  | some o => (s, .ok o)
  | none =>
    match findU w n s.composePath s.fetches (candidates k) with
    | (l, .error e) => ({ s with fetches := l }, .error e)
    | (l, .ok path) =>
      match loadU w n l k path with
      | (l2, .ok text) =>
        let o : Obj := ⟨s.loads.length, k, path, text⟩
        if cachedKind k then
          ({ s with loads := s.loads ++ [(k, path)], fetches := l2, cache := fun k' => if k' = k then some o else s.cache k' }, .ok o)
        else ({ s with loads := s.loads ++ [(k, path)], fetches := l2 }, .ok o)
      | (l2, .error e) =>
        if wrapped e then ({ s with loads := s.loads ++ [(k, path)], fetches := l2 }, .error (.runtime path))
        else ({ s with loads := s.loads ++ [(k, path)], fetches := l2 }, .error (.other e))

def accessAllU (w : World) (n : Net) : UState → List Kind → UState × List (Except CErr Obj)
  | s, [] => (s, [])
  | s, k :: ks =>
    let r := accessU w n s k
    let rest := accessAllU w n r.1 ks
    (rest.1, r.2 :: rest.2)

/-- a net that answers the same every time -/
def Net.stationary (n : Net) : Prop := ∀ u i, n.fetch u i = n.fetch u 0

/-- a concrete net: per URL the list of answers (the last one repeats; a URL not listed does not exist), per
(kind, response) the parse outcome -/
def Net.ofTable (answers : List (Str × List Fetch)) (parses : List ((Kind × Str) × Except Err Str)) : Net :=
  { fetch := fun u i =>
      match answers.lookup u with
      | some (a :: as) => (a :: as).getD i ((a :: as).getLast?.getD a)
      | _ => .urlError,
    parse := fun k r =>
      match parses.lookup (k, r) with
      | some x => x
      | none => .error .other }

/-- the world with no local files at all -/
def World.empty : World := { «exists» := fun _ => false, listdir := fun _ => none, load := fun _ _ => .error .other }

end ComposeDir
end PM
