import ProductMD.Model.Str
/-!
Python values as far as the library handles them, and JSON text.

`PyVal` is both the type of a dynamically typed attribute (C06/C07 are about *type* errors) and the type of a
parsed JSON document (`json.load` yields exactly dict/list/str/int/float/bool/None).  Floats are never computed:
a float is an opaque token carrying its Python `repr`.  Dicts are association lists in insertion order;
`canon` sorts them (what `sort_keys=True` does when writing).
-/
namespace PM

inductive Err where
  | typeError | valueError | keyError | attributeError | indexError | runtimeError | parserError | other
deriving DecidableEq, Repr, Inhabited

def Err.name : Err → String
  | .typeError => "TypeError" | .valueError => "ValueError" | .keyError => "KeyError"
  | .attributeError => "AttributeError" | .indexError => "IndexError" | .runtimeError => "RuntimeError"
  | .parserError => "ParserError" | .other => "Other"

inductive PyVal where
  | none
  | bool (b : Bool)
  | int (n : Int)
  | float (repr : Str)
  | str (s : Str)
  | list (xs : List PyVal)
  | dict (kvs : List (Str × PyVal))
  | other (truthy : Bool)         -- any object outside this universe (sets, tuples, instances …)
deriving Repr, Inhabited

inductive PyType where
  | none | bool | int | float | str | list | dict
deriving DecidableEq, Repr

namespace PyVal

/-- `isinstance(v, t)`; note `bool <: int` -/
def isinstance : PyVal → PyType → Bool
  | .none, .none => true
  | .bool _, .bool => true
  | .bool _, .int => true
  | .int _, .int => true
  | .float _, .float => true
  | .str _, .str => true
  | .list _, .list => true
  | .dict _, .dict => true
  | _, _ => false

/-- `isinstance(v, bool)` -/
def isBool : PyVal → Bool
  | .bool _ => true
  | _ => false

/-- what `MetadataBase._assert_type` accepts: `strict` (generated from the method's body, `Gen.assertTypeBoolStrict`) =
`if not isinstance(value, bool) or bool in expected_types:` guards the isinstance loop -/
def assertTypeOk (strict : Bool) (v : PyVal) (ts : List PyType) : Bool :=
  if strict then (!v.isBool || ts.contains .bool) && ts.any (v.isinstance ·) else ts.any (v.isinstance ·)

/-- Python truthiness -/
def truthy : PyVal → Bool
  | .none => false
  | .bool b => b
  | .int n => n != 0
  | .float r => !(r == "0.0".toList || r == "-0.0".toList)
  | .str s => !s.isEmpty
  | .list xs => !xs.isEmpty
  | .dict kvs => !kvs.isEmpty
  | .other t => t

mutual
/-- structural equality, dicts compared in the given order (use on `canon`ical values for Python `==`) -/
def beq : PyVal → PyVal → Bool
  | .none, .none => true
  | .bool a, .bool b => a == b
  | .int a, .int b => a == b
  | .float a, .float b => a == b
  | .str a, .str b => a == b
  | .list a, .list b => beqList a b
  | .dict a, .dict b => beqKvs a b
  | .other a, .other b => a == b
  | _, _ => false
def beqList : List PyVal → List PyVal → Bool
  | [], [] => true
  | x :: xs, y :: ys => beq x y && beqList xs ys
  | _, _ => false
def beqKvs : List (Str × PyVal) → List (Str × PyVal) → Bool
  | [], [] => true
  | (k, x) :: xs, (l, y) :: ys => k == l && beq x y && beqKvs xs ys
  | _, _ => false
end

instance : BEq PyVal := ⟨beq⟩

/-- `d[k]` / `d.get(k)` on a dict value; first binding wins (keys are unique in well-formed values) -/
def get? (v : PyVal) (k : Str) : Option PyVal :=
  match v with
  | .dict kvs => (kvs.find? (·.1 == k)).map (·.2)
  | _ => Option.none

def keys : PyVal → List Str
  | .dict kvs => kvs.map (·.1)
  | _ => []

/-- insertion sort of an association list by key (stable; keys unique in well-formed values) -/
def insertKv (kv : Str × PyVal) : List (Str × PyVal) → List (Str × PyVal)
  | [] => [kv]
  | x :: xs => if Str.lt kv.1 x.1 then kv :: x :: xs else x :: insertKv kv xs

def sortKvs (l : List (Str × PyVal)) : List (Str × PyVal) := l.foldr insertKv []

mutual
/-- keys sorted recursively -/
def canon : PyVal → PyVal
  | .list xs => .list (canonList xs)
  | .dict kvs => .dict (sortKvs (canonKvs kvs))
  | v => v
def canonList : List PyVal → List PyVal
  | [] => []
  | x :: xs => canon x :: canonList xs
def canonKvs : List (Str × PyVal) → List (Str × PyVal)
  | [] => []
  | (k, v) :: rest => (k, canon v) :: canonKvs rest
end

/-- Python `a == b` for values of this universe (dict order is irrelevant) -/
def pyEq (a b : PyVal) : Bool := beq (canon a) (canon b)

/-- `d[k] = v` (replace in place or append) -/
def setKey (kvs : List (Str × PyVal)) (k : Str) (v : PyVal) : List (Str × PyVal) :=
  if kvs.any (·.1 == k) then kvs.map (fun p => if p.1 == k then (k, v) else p) else kvs ++ [(k, v)]

end PyVal

/-! ### JSON text: `json.dump(obj, f, indent=4, sort_keys=True, separators=(",", ": "))` -/
namespace JsonText

def hexDigit (n : Nat) : Char := if n < 10 then Char.ofNat (48 + n) else Char.ofNat (87 + n)   -- lower case
def hex4 (n : Nat) : Str := [hexDigit (n / 4096 % 16), hexDigit (n / 256 % 16), hexDigit (n / 16 % 16), hexDigit (n % 16)]

/-- `ensure_ascii=True` escaping of one character -/
def escChar (c : Char) : Str :=
  if c = '"' then "\\\"".toList
  else if c = '\\' then "\\\\".toList
  else if c = '\n' then "\\n".toList
  else if c = '\r' then "\\r".toList
  else if c = '\t' then "\\t".toList
  else if c.toNat = 8 then "\\b".toList
  else if c.toNat = 12 then "\\f".toList
  else if c.toNat < 32 then '\\' :: 'u' :: hex4 c.toNat
  else if c.toNat < 127 then [c]
  else if c.toNat < 0x10000 then '\\' :: 'u' :: hex4 c.toNat
  else
    let v := c.toNat - 0x10000
    ('\\' :: 'u' :: hex4 (0xD800 + v / 1024)) ++ ('\\' :: 'u' :: hex4 (0xDC00 + v % 1024))

def quote (s : Str) : Str := '"' :: (s.flatMap escChar) ++ ['"']

def indentStr (n : Nat) : Str := List.replicate (4 * n) ' '

mutual
def render (lvl : Nat) : PyVal → Str
  | .none => "null".toList
  | .bool true => "true".toList
  | .bool false => "false".toList
  | .int n => Str.intStr n
  | .float r => r
  | .str s => quote s
  | .other _ => "<unserializable>".toList
  | .list [] => "[]".toList
  | .list (x :: xs) =>
      '[' :: '\n' :: indentStr (lvl + 1) ++ render (lvl + 1) x ++ renderItems (lvl + 1) xs
        ++ '\n' :: indentStr lvl ++ [']']
  | .dict [] => "{}".toList
  | .dict ((k, v) :: rest) =>
      '{' :: '\n' :: indentStr (lvl + 1) ++ quote k ++ ':' :: ' ' :: render (lvl + 1) v
        ++ renderKvs (lvl + 1) rest ++ '\n' :: indentStr lvl ++ ['}']
def renderItems (lvl : Nat) : List PyVal → Str
  | [] => []
  | x :: xs => ',' :: '\n' :: indentStr lvl ++ render lvl x ++ renderItems lvl xs
def renderKvs (lvl : Nat) : List (Str × PyVal) → Str
  | [] => []
  | (k, v) :: rest => ',' :: '\n' :: indentStr lvl ++ quote k ++ ':' :: ' ' :: render lvl v ++ renderKvs lvl rest
end

/-- the bytes `dumps()` returns for a JSON document (keys sorted at every level) -/
def dumps (v : PyVal) : Str := render 0 (PyVal.canon v)

end JsonText

end PM
