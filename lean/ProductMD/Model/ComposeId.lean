import ProductMD.Model.Nvra
/-!
Compose ids (`productmd/composeinfo.py`): `ComposeInfo.create_compose_id`, `Compose.type_suffix` (through the
generated encoder table), `BaseProduct.type_suffix`, `get_date_type_respin` (through the generated pattern and
decoder table), the compose-id validator pattern.  Attributes that may still be `None` are `Option`s and are
formatted the way `"%s"` formats them.
-/
namespace PM

/-- the attributes of `Release` / `BaseProduct` that `create_compose_id` reads -/
structure Product where
  short : Option Str := none
  version : Option Str := none
  type : Option Str := none
deriving DecidableEq, Repr

/-- `BaseProduct.major_version` -/
def Product.majorVersion (p : Product) : Option Str :=
  p.version.map fun v => (Str.splitOn '.' v).headD []

/-- `BaseProduct.type_suffix`: `''` if `not type` or `type.lower() == 'ga'`, else `'-' + type.lower()`
(ASCII lower-casing; other scripts are outside the model) -/
def Product.typeSuffix (p : Product) : Str :=
  match p.type with
  | none => []
  | some t => if t.isEmpty || Str.lowerAscii t == ['g', 'a'] then [] else '-' :: Str.lowerAscii t

/-- `Compose.type_suffix`, as the table obtained by evaluating it for every compose type; anything else raises -/
def composeTypeSuffix (t : Option Str) : Except Err Str :=
  match t.bind (fun t => Gen.COMPOSE_TYPE_ENCODER.lookup t) with
  | some s => .ok s
  | none => .error .valueError

structure ComposeIdArgs where
  release : Product
  isLayered : Bool := false
  baseProduct : Product := {}
  /-- keys of `ci.variants.variants` -/
  variants : List Str := []
  date : Option Str
  ctype : Option Str
  respin : Option Int
deriving Repr

/-- smallest string of a non-empty list: `sorted(keys)[0]` -/
def minStr : List Str → Option Str
  | [] => none
  | x :: xs => some (xs.foldl (fun a b => if Str.lt b a then b else a) x)

def RHEL : Str := ['R', 'H', 'E', 'L']

/-- the RHEL-5 hack: `-Client` / `-Server` appended when release and base product are both RHEL 5 -/
def rhel5Part (a : ComposeIdArgs) : Str :=
  let r5 := (a.release.short == some RHEL && a.release.majorVersion == some ['5'])
         && (a.baseProduct.short == some RHEL && a.baseProduct.majorVersion == some ['5'])
  if r5 then
    match minStr a.variants with
    | some v => if v == ['C','l','i','e','n','t'] || v == ['S','e','r','v','e','r'] then '-' :: v else []
    | none => []
  else []

/-- everything of the id before the date: `short-version[-type][-bpshort-bpversion[-bptype]][-Client|-Server]-` -/
def composeIdPrefix (a : ComposeIdArgs) : Str :=
  pctS a.release.short ++ '-' :: pctS a.release.version ++ a.release.typeSuffix
  ++ (if a.isLayered then
        '-' :: pctS a.baseProduct.short ++ '-' :: pctS a.baseProduct.version ++ a.baseProduct.typeSuffix
      else [])
  ++ rhel5Part a ++ ['-']

def pctInt (o : Option Int) : Str := match o with
  | some i => Str.intStr i
  | none => ['N', 'o', 'n', 'e']

/-- `ComposeInfo.create_compose_id` -/
def createComposeId (a : ComposeIdArgs) : Except Err Str :=
  (composeTypeSuffix a.ctype).map fun suf =>
    composeIdPrefix a ++ pctS a.date ++ suf ++ '.' :: pctInt a.respin

/-- `get_date_type_respin`: `.ok none` is the `(None, None, None)` answer for an id without an 8-digit run -/
def getDateTypeRespin (s : Str) : Except Err (Option (Option Str × Str × Nat)) :=
  match pyMatch Gen.re_composeinfo_get_date_type_respin_0 s with
  | none => .ok none
  | some caps =>
    let g := namedGroup Gen.re_composeinfo_get_date_type_respin_0_groups caps
    let ty : Except Err Str := match g "type" with
      | none => .ok ['p','r','o','d','u','c','t','i','o','n']
      | some [] => .ok ['p','r','o','d','u','c','t','i','o','n']
      | some t => match Gen.COMPOSE_TYPE_SUFFIXES.lookup (t.drop 1) with
        | some x => .ok x
        | none => .error .valueError
    ty.bind fun ty =>
      (match g "respin" with
        | none => (.ok 0 : Except Err Nat)
        | some d => pyIntDigits d).map fun r => some (g "date", ty, r)

/-- the regex part of `Compose._validate_id` -/
def composeIdValidates (s : Str) : Bool := pyMatches Gen.re_composeinfo_Compose__validate_id_0 s

end PM
