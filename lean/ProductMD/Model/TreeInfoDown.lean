import ProductMD.Model.TreeInfo
/-!
# C05: the documented down-conversion of a tree description to an older treeinfo format (specification side)

`TI.down vs ver ck t` is the file a writer of format `ver` (header text `vs`) would have produced for `t`, stated as the
*differences* between the formats the documentation lists (doc/treeinfo-1.0.rst, -1.1.rst and the 0.x reader's docstrings),
applied to the file of the current format (whose content is C04's subject, `expected_doc` on the harness side):

* `[header]`: the version text `vs`; `type` only from 1.1 on;
* ≤ 0.3: the release section is called `[product]`;
* ≤ 0.3: a variant section has no `parent` back-reference and lists its children under `ck` (`addons` or `variants`: both
  spellings were written);
* ≤ 0.3, source trees (`arch = src`): the source package / repository paths stand under `packages` / `repository`
  (there are no separate `source_*` options; the reader swaps them back).

Nothing else differs: 0.1 – 1.2 carry the same facts, so the documented result of loading the file is the normal form of `t`
itself (`TI.norm`, what the current format gives back, C04) — no loss.  The `[general]` mirror is kept as the current writer
emits it (every productmd version wrote it; its content is C17's subject and no reader of a file with a `[tree]` section
consults it).  The same function as `harness/formats/legacy.py: ti_sections(spec, version, child_key)`; the two are compared
on every generated case (driver op `c05_ti_down`).

`TI.down00` is the pre-productmd layout (no `[header]`): everything in `[general]`, see below.
-/
namespace PM
namespace TI
open Ini

/-- which differences apply to format `ver` -/
structure TDown where
  headerTyped : Bool      -- >= 1.1
  old : Bool              -- <= 0.3
deriving DecidableEq, Repr

def tdown (ver : Nat × Nat) : TDown := { headerTyped := tupleLe (1, 1) ver, old := tupleLe ver (0, 3) }

def sProduct' : Str := "product".toList
def kPackages' : Str := "packages".toList
def kSourcePackages' : Str := "source_packages".toList
def kSourceRepository' : Str := "source_repository".toList

def downHeaderOpts (D : TDown) (vs : Str) : IniSec :=
  [(kVersion, vs)] ++ (if D.headerTyped then [(kType, Gen.HEADER_TYPE_TreeInfo)] else [])

/-- a variant's section: `variant-UID` / `addon-UID` -/
def isVarSec (s : Str) : Bool := Str.startsWith s pVariant || Str.startsWith s pAddon

/-- one option of a variant section, ≤ 0.3 -/
def downVarOpt (src : Bool) (ck : Str) (kv : Str × Str) : Option (Str × Str) :=
  if kv.1 == kParent then none
  else if kv.1 == kAddons then some (ck, kv.2)
  else if src && kv.1 == kSourcePackages' then some (kPackages', kv.2)
  else if src && kv.1 == kSourceRepository' then some (kRepository, kv.2)
  else some kv

def downSec (D : TDown) (vs : Str) (src : Bool) (ck : Str) (p : Str × IniSec) : Str × IniSec :=
  if p.1 == sHeader then (sHeader, downHeaderOpts D vs)
  else if D.old && p.1 == sRelease then (sProduct', p.2)
  else if D.old && isVarSec p.1 then (p.1, p.2.filterMap (downVarOpt src ck))
  else p

/-- the file of format `ver` for a tree the current writer accepts -/
def down (vs : Str) (ver : Nat × Nat) (ck : Str) (t : TreeInfo) : Except Err Ini :=
  match serialize t none with
  | .error e => .error e
  | .ok d => .ok (d.map (downSec (tdown ver) vs (t.tree.arch == "src".toList) ck))

end TI
end PM
