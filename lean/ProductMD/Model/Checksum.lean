import ProductMD.Model.Py
import ProductMD.Generated.Checksums
import ProductMD.Model.HashMD
/-!
# Checksums (property C16)

Mirrors `productmd/treeinfo.py`: `compute_checksum` (chunked read into a streaming hash), `Checksums.add`
(absolute-path refusal, `os.path.normpath`, digest computed when no value is given), `Checksums.serialize` /
`deserialize` (`type:value`; bare legacy digests: hex digits only, typed by length) and `productmd/images.py` `Image.add_checksum`.

The hash function is a parameter (`init`, `upd`, `dig`): either abstract, or a block-buffered hash of
`Model/HashMD.lean` (`computeMD`; md5/sha1/sha2 by name: `computeByName`); the `[checksums]` section is an association list
`path ↦ raw value` in the order `parser.items()` yields it (the INI layer is modelled elsewhere).  Constants and the
shape of the legacy chain come from `Generated/Checksums.lean`.
-/
namespace PM
namespace Checksum

abbrev Bytes := List UInt8

/-! ### compute_checksum -/

/-- `while True: chunk = fo.read(n); if not chunk: break; checksum.update(chunk)`.
`fo.read(n)` returns the next `min n remaining` bytes.  Returns the hash state and the sizes the reads returned
(the final empty read included).  Fuel: one more than the content length is always enough when `n > 0`. -/
def readLoop {H : Type} (upd : H → Bytes → H) (n : Nat) : Nat → H → Bytes → H × List Nat
  | 0, h, _ => (h, [])
  | fuel + 1, h, rest =>
    let chunk := rest.take n
    if chunk.isEmpty then (h, [0])
    else
      let r := readLoop upd n fuel (upd h chunk) (rest.drop n)
      (r.1, chunk.length :: r.2)

def chunkedDigest {H : Type} (init : H) (upd : H → Bytes → H) (dig : H → Str) (n : Nat) (content : Bytes) : Str :=
  dig (readLoop upd n (content.length + 1) init content).1

/-- the code without the loop (what `checksumLoops = false` would mean): one read, one update -/
def readOnce {H : Type} (upd : H → Bytes → H) (n : Nat) (h : H) (content : Bytes) : H × List Nat :=
  (upd h (content.take n), [(content.take n).length])

/-- `compute_checksum(path, type)` on a file with this content, as the code has it now -/
def compute {H : Type} (init : H) (upd : H → Bytes → H) (dig : H → Str) (content : Bytes) : Str :=
  if Gen.checksumLoops then chunkedDigest init upd dig Gen.checksumChunkSize content
  else dig (readOnce upd Gen.checksumChunkSize init content).1

/-- sizes returned by the successive `fo.read()` calls for a file of `size` bytes -/
def readTrace (loops : Bool) (n size : Nat) : List Nat :=
  let content : Bytes := List.replicate size 0
  if loops then (readLoop (fun (h : Nat) c => h + c.length) n (size + 1) 0 content).2
  else (readOnce (fun (h : Nat) c => h + c.length) n 0 content).2

/-! ### compute_checksum over a MODELLED hash object (`Model/HashMD.lean`) -/

/-- `checksum.hexdigest().lower()` -/
def hexdigestLower {S : Type} (A : HashMD.Alg S) (h : HashMD.State S) : Str := Str.lowerAscii (HashMD.digest A h)

/-- the read-until-empty loop with chunk size `n` feeding a block-buffered hash -/
def chunkedMD {S : Type} (A : HashMD.Alg S) (n : Nat) (content : Bytes) : Str :=
  chunkedDigest (HashMD.init A) (HashMD.update A) (hexdigestLower A) n content

/-- `compute_checksum(path, type)` as the code has it, `hashlib.new(type)` being the block-buffered hash `A` -/
def computeMD {S : Type} (A : HashMD.Alg S) (content : Bytes) : Str :=
  compute (HashMD.init A) (HashMD.update A) (hexdigestLower A) content

/-- run `k` over the modelled algorithm `hashlib.new(name)` denotes (`none`: name not modelled) -/
def withAlg {α : Type} (name : Str) (k : {S : Type} → HashMD.Alg S → α) : Option α :=
  let n := Str.lowerAscii name
  if n = ['m', 'd', '5'] then some (k HashMD.md5)
  else if n = ['s', 'h', 'a', '1'] then some (k HashMD.sha1)
  else if n = ['s', 'h', 'a', '2', '2', '4'] then some (k HashMD.sha224)
  else if n = ['s', 'h', 'a', '2', '5', '6'] then some (k HashMD.sha256)
  else if n = ['s', 'h', 'a', '3', '8', '4'] then some (k HashMD.sha384)
  else if n = ['s', 'h', 'a', '5', '1', '2'] then some (k HashMD.sha512)
  else none

def chunkedByName (name : Str) (n : Nat) (content : Bytes) : Option Str := withAlg name (fun A => chunkedMD A n content)
def computeByName (name : Str) (content : Bytes) : Option Str := withAlg name (fun A => computeMD A content)

/-- what a caller does who feeds chunks of the given sizes (a size of 0 feeds `b""`; what is left after the last
size is fed as one final chunk) -/
def cutChunks : List Nat → Bytes → List Bytes
  | [], rest => [rest]
  | k :: ks, rest => rest.take k :: cutChunks ks (rest.drop k)

def fedInChunks {S : Type} (A : HashMD.Alg S) (sizes : List Nat) (content : Bytes) : Str :=
  hexdigestLower A ((cutChunks sizes content).foldl (HashMD.update A) (HashMD.init A))

/-! ### os.path.normpath / os.path.join (POSIX) -/

def dotdot : Str := ['.', '.']

/-- one component; `acc` is `new_comps` reversed -/
def normStep (absolute : Bool) (acc : List Str) (comp : Str) : List Str :=
  if comp = [] ∨ comp = ['.'] then acc
  else if comp ≠ dotdot ∨ (absolute = false ∧ acc = []) ∨ acc.head? = some dotdot then comp :: acc
  else acc.tail

def initialSlashes (p : Str) : Nat :=
  if Str.startsWith p ['/'] then
    if Str.startsWith p ['/', '/'] ∧ ¬ Str.startsWith p ['/', '/', '/'] then 2 else 1
  else 0

def normpath (p : Str) : Str :=
  if p = [] then ['.']
  else
    let k := initialSlashes p
    let comps := ((Str.splitOn '/' p).foldl (normStep (k != 0)) []).reverse
    let path := List.replicate k '/' ++ Str.joinWith '/' comps
    if path = [] then ['.'] else path

/-- `os.path.join(a, b)` -/
def pathJoin (a b : Str) : Str :=
  if Str.startsWith b ['/'] then b
  else if a = [] ∨ Str.endsWith a ['/'] then a ++ b
  else a ++ '/' :: b

/-! ### the table `Checksums.checksums` (a dict: assignment replaces in place or appends) -/

abbrev Table := List (Str × (Str × Str))

def Table.set : Table → Str → Str × Str → Table
  | [], k, v => [(k, v)]
  | (k', v') :: rest, k, v => if k' = k then (k, v) :: rest else (k', v') :: Table.set rest k v

def Table.get? : Table → Str → Option (Str × Str)
  | [], _ => none
  | (k', v') :: rest, k => if k' = k then some v' else Table.get? rest k

/-- `_validate_checksum_paths` -/
def validatePaths (t : Table) : Except Err Unit :=
  if t.any (fun e => Str.startsWith e.1 ['/']) then .error .valueError else .ok ()

/-! ### Checksums.add -/

def valTruthy : Option Str → Bool
  | some v => !v.isEmpty
  | none => false

/-- `if not checksum_value`: the value that counts as given -/
def givenValue (v : Option Str) : Option Str := if valTruthy v then v else none

/-- `add(relative_path, checksum_type, checksum_value=None, root_dir=None)`; `digestOf path type` is what
`compute_checksum` returns for the file system at hand (it can fail: missing file, unknown algorithm). -/
def add (digestOf : Str → Str → Except Err Str) (tbl : Table) (rel ctype : Str) (value : Option Str) (root : Option Str) :
    Table × Except Err Unit :=
  if Gen.addRefusesAbsolute ∧ Str.startsWith rel ['/'] then (tbl, .error .valueError)
  else
    let key := if Gen.addNormalises then normpath rel else rel
    match givenValue value with
    | some v => (tbl.set key (ctype, v), .ok ())
    | none =>
      match root with
      | none => (tbl, .error .typeError)                         -- os.path.join(None, ..)
      | some r =>
        match digestOf (pathJoin r key) ctype with
        | .ok d => (tbl.set key (ctype, d), .ok ())
        | .error e => (tbl, .error e)

/-- `compute_checksum(path, type)` on the file system `files`, the algorithm found by NAME; a name that is not
modelled raises (hashlib: `ValueError: unsupported hash type`) -/
def digestByName (files : Str → Option Bytes) : Str → Str → Except Err Str := fun p t =>
  match files p with
  | some c => (match computeByName t c with
    | some d => .ok d
    | none => .error .valueError)
  | none => .error .other

/-! ### serialize / deserialize -/

/-- `parser.set(section, path, "%s:%s" % (type, value))` for every entry -/
def serialize (t : Table) : Except Err (List (Str × Str)) :=
  match validatePaths t with
  | .error e => .error e
  | .ok () => .ok (t.map fun e => (e.1, e.2.1 ++ ':' :: e.2.2))

/-- `if not all(c in string.hexdigits for c in value): raise ValueError` at the head of the bare branch (F36 fix;
`Gen.legacyHexGuard = false`: the code without it) -/
def bareRefused (v : Str) : Bool :=
  Gen.legacyHexGuard && !(v.all fun c => Gen.legacyHexDigits.contains c)

/-- the `len(value) == n` chain alone -/
def chainBare (v : Str) : Option (Str × Str) :=
  (Gen.legacyDigestTypes.find? (fun p => p.1 == v.length)).map (fun p => (p.2, v))

/-- bare digest: made of the guard's digits only, then typed by its length -/
def typedBare (v : Str) : Option (Str × Str) :=
  if bareRefused v then none else chainBare v

/-- `checksum_type, checksum = value.split(":")` -/
def splitTyped (v : Str) : Except Err (Str × Str) :=
  match Str.splitOn ':' v with
  | [a, b] => .ok (a, b)
  | _ => .error .valueError                                      -- too many values to unpack

/-- what ONE raw value means, looked at on its own: the specification of the reader -/
def typed (v : Str) : Except Err (Str × Str) :=
  if v.contains ':' then splitTyped v
  else match typedBare v with
    | some tv => .ok tv
    | none => .error .valueError

/-- `_fix_path`: only for files without a header (version 0.0) -/
def fixPath (legacy : Bool) (p : Str) : Str :=
  if legacy ∧ Str.startsWith p ['/'] then
    -- path[path.find("/os/")+4:] if "/os/" in path else path.lstrip("/")
    let rec afterOs : Str → Option Str
      | [] => none
      | c :: cs => if Str.startsWith (c :: cs) ['/', 'o', 's', '/'] then some ((c :: cs).drop 4) else afterOs cs
    match afterOs p with
    | some r => r
    | none => Str.lstripChars ['/'] p
  else p

/-- one iteration of the loop of `deserialize` as the code has it.  `prev` are the loop variables
`checksum_type, checksum` left over from the previous iteration: they are only read when the legacy chain has no
final `else: raise` (`Gen.legacyElseRaises = false`, the code before the F3 fix). -/
def entryOf (prev : Option (Str × Str)) (v : Str) : Except Err (Str × Str) :=
  if v.contains ':' then splitTyped v
  else if bareRefused v then .error .valueError                   -- the guard raises whatever the end of the chain does
  else match chainBare v with
    | some tv => .ok tv
    | none =>
      if Gen.legacyElseRaises then .error .valueError
      else match prev with
        | some tv => .ok tv
        | none => .error .other                                  -- UnboundLocalError

def deserLoop (legacy : Bool) : List (Str × Str) → Option (Str × Str) → Table → Except Err Table
  | [], _, tbl => .ok tbl
  | (p, v) :: rest, prev, tbl =>
    match entryOf prev v with
    | .error e => .error e
    | .ok tv => deserLoop legacy rest (some tv) (tbl.set (fixPath legacy p) tv)

def deserialize (legacy : Bool) (sec : List (Str × Str)) (tbl0 : Table := []) : Except Err Table :=
  match deserLoop legacy sec none tbl0 with
  | .error e => .error e
  | .ok t => match validatePaths t with
    | .error e => .error e
    | .ok () => .ok t

/-! ### Image.add_checksum -/

abbrev ImgSums := List (Str × Option Str)

/-- `add_checksum(root, checksum_type, checksum_value)` -> new table, returned value or error -/
def addChecksum (tbl : ImgSums) (t : Str) (v : Option Str) : ImgSums × Except Err (Option Str) :=
  match tbl.lookup t with
  | some old => if valTruthy v ∧ v ≠ old then (tbl, .error .valueError) else (tbl, .ok old)
  | none => (tbl ++ [(t, v)], .ok v)

def addChecksums (tbl : ImgSums) (ops : List (Str × Option Str)) : ImgSums :=
  ops.foldl (fun s op => (addChecksum s op.1 op.2).1) tbl

end Checksum
end PM
