import ProductMD.Model.TreeInfo
import ProductMD.Model.IniText
import ProductMD.Model.IniParse
/-!
`TreeInfo.dumps()` / `TreeInfo.loads()` on text: the document through `SortedConfigParser.write` and back through
`SortedConfigParser.read_file` (the reader model of `Model/IniParse.lean`, whitespace predicate `sp` = `str.isspace`).
-/
namespace PM
namespace TI

/-- `ti.dump(f, main_variant)` into a string -/
def dumps (t : TreeInfo) (mainVariant : Option Str) : Except Err Str := (serialize t mainVariant).map IniText.render

/-- `TreeInfo().loads(text)` -/
def loads (sp : Char → Bool) (fo : FloatOracle) (text : Str) : Except Err TreeInfo :=
  (IniParse.parse sp text).bind (deserialize fo)

end TI
end PM
