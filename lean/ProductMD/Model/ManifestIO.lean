import ProductMD.Model.Builders
import ProductMD.Model.Customs
import ProductMD.Model.Gate
import ProductMD.Generated.Gates
/-!
`serialize` / `deserialize` / `dumps` of the three payload-verbatim manifests (rpms.py:92-131, modules.py:81-94,
extra_files.py:42-55) with the header (common.py `Header`) and compose (composeinfo.py `Compose`) sections.

* validators are the GENERATED rule lists (`validateClass "common.Header"`, `"composeinfo.Compose"`, and the
  top-level classes, which have none today);
* the payload is stored and emitted verbatim (`data["payload"]["rpms"] = self.rpms`);
* `Rpms.deserialize` has the version gate `<= (0, 3)`; the 0.3 conversion itself belongs to C05/C10 and is a stub
  here (`Err.other`), likewise `Compose.deserialize_0_3` (`< (0, 3)`, needs `get_date_type_respin`, C15).

(builder `builders`; the header/compose part will be shared with C01/C02 by the integrator.)
-/
namespace PM.Mf

structure Manifest where
  version : PyVal          -- `header.version`
  compose : Obj            -- attributes id, type, date, respin, label, final
  payload : PyVal          -- `.rpms` / `.modules` / `.extra_files`
deriving Repr

def Kind.headerType : Kind → Str
  | .rpms => Gen.HEADER_TYPE_Rpms
  | .modules => Gen.HEADER_TYPE_Modules
  | .extraFiles => Gen.HEADER_TYPE_ExtraFiles

def Kind.payloadKey : Kind → Str
  | .rpms => lit "rpms"
  | .modules => lit "modules"
  | .extraFiles => lit "extra_files"

def Kind.className : Kind → String
  | .rpms => "rpms.Rpms"
  | .modules => "modules.Modules"
  | .extraFiles => "extra_files.ExtraFiles"

/- The version gates are the generated ones (`Generated/Gates.lean`, tools/gen_gates.py, shared with C05/C07):
   `Gen.gate_rpms_Rpms_deserialize_0` (`version_tuple <= (0, 3)` → 0.3 reader), `Gen.gate_composeinfo_Compose_deserialize_0`
   (`version_tuple < (0, 3)` → 0.3 reader), `Gen.gate_common_Header_deserialize_0` (`version_tuple >= (1, 1)` → type checked).
   A gate whose operator the translator did not recognise evaluates to `none`; the model then takes the non-legacy
   branch and the obligations `gate_*` in Proofs/ManifestIO.lean (which demand `some _`) stop compiling. -/

/-- `".".join(str(i) for i in VERSION)` -/
def currentVersion : Str := Str.natStr Gen.VERSION.1 ++ '.' :: Str.natStr Gen.VERSION.2

/-- a freshly constructed object: `Header.version = "0.0"`, `Compose` all `None` / `final = False` -/
def composeInit : Obj :=
  [(lit "id", .none), (lit "type", .none), (lit "date", .none), (lit "respin", .none), (lit "label", .none),
   (lit "final", .bool false)]

def Manifest.init : Manifest := { version := .str (lit "0.0"), compose := composeInit, payload := empty }

/-! ### header -/

inductive VTuple where
  | nums (v : Nat × Nat)
  | text                        -- `split_version` returned `[version]`: a 1-tuple holding a string
deriving DecidableEq, Repr

def gateHolds (g : Gate) (v : Nat × Nat) : Bool := (g.eval? v).getD false

/-- `int(text)` for digits followed by at most one line feed (what `$` lets through) -/
def pyIntLoose (s : Str) : Option Nat :=
  (pyIntDigits (if Str.endsWith s ['\n'] then s.dropLast else s)).toOption

def optMapM (f : α → Option β) : List α → Option (List β)
  | [] => some []
  | x :: xs => match f x, optMapM f xs with
    | some y, some ys => some (y :: ys)
    | _, _ => none

/-- `Header.version_tuple`: validate, then `tuple(split_version(self.version))` -/
def versionTuple (v : PyVal) : Except Err VTuple :=
  match validateClass "common.Header" [(lit "version", v)] with
  | .error e => .error e
  | .ok () =>
    match v with
    | .str s =>
      if pyMatches Gen.re_common_split_version_0 s then .ok .text
      else match optMapM pyIntLoose (Str.splitOn '.' s) with
        | some [a, b] => .ok (.nums (a, b))
        | _ => .error .valueError
    | _ => .error .typeError

/-- `Header.serialize` (after `set_current_version`) -/
def headerSerialize (k : Kind) : Except Err PyVal :=
  match validateClass "common.Header" [(lit "version", .str currentVersion)] with
  | .error e => .error e
  | .ok () => .ok (.dict [(lit "type", .str k.headerType), (lit "version", .str currentVersion)])

/-- `Header.deserialize`: the version found, and its tuple -/
def headerDeserialize (k : Kind) (doc : PyVal) : Except Err (PyVal × VTuple) :=
  match getItem doc (lit "header") with
  | .error e => .error e
  | .ok hdr => match getItem hdr (lit "version") with
    | .error e => .error e
    | .ok ver => match versionTuple ver with
      | .error e => .error e
      | .ok t =>
        match t with
        | .text => .error .typeError                      -- `("x.y",) >= (1, 1)`: str against int
        | .nums l =>
          if gateHolds Gen.gate_common_Header_deserialize_0 l then
            match getItem hdr (lit "type") with
            | .error e => .error e
            | .ok mt => if PyVal.pyEq mt (.str k.headerType) then .ok (ver, t) else .error .valueError
          else .ok (ver, t)

/-! ### compose -/

def composeValidate (c : Obj) : Except Err Unit := validateClass "composeinfo.Compose" c

/-- `Compose.serialize` -/
def composeSerialize (c : Obj) : Except Err PyVal :=
  match composeValidate c with
  | .error e => .error e
  | .ok () =>
    let base : Kvs := [(lit "id", c.get (lit "id")), (lit "type", c.get (lit "type")), (lit "date", c.get (lit "date")),
                       (lit "respin", c.get (lit "respin"))]
    .ok (.dict (if (c.get (lit "label")).truthy
                then base ++ [(lit "label", c.get (lit "label")), (lit "final", c.get (lit "final"))] else base))

/-- `Compose.deserialize_1_0` + `validate()` (`data` is the payload dict) -/
def composeDeserialize (t : VTuple) (data : PyVal) : Except Err Obj :=
  match t with
  | .text => .error .typeError
  | .nums l =>
    if gateHolds Gen.gate_composeinfo_Compose_deserialize_0 l then .error .other          -- 0.3 reader: C05/C15, not modelled here
    else
      match getItem data (lit "compose") with
      | .error e => .error e
      | .ok sec =>
        match getItem sec (lit "id") with
        | .error e => .error e
        | .ok id =>
          match dictGetD sec (lit "label") .none with
          | .error e => .error e
          | .ok label0 =>
            let label := if label0.truthy then label0 else .none           -- `… or None`
            match getItem sec (lit "type"), getItem sec (lit "date"), getItem sec (lit "respin") with
            | .ok ty, .ok date, .ok respin =>
              match dictGetD sec (lit "final") (.bool false) with
              | .error e => .error e
              | .ok fin =>
                let c : Obj := [(lit "id", id), (lit "type", ty), (lit "date", date), (lit "respin", respin),
                                (lit "label", label), (lit "final", .bool fin.truthy)]
                match composeValidate c with
                | .error e => .error e
                | .ok () => .ok c
            | .error e, _, _ => .error e
            | _, .error e, _ => .error e
            | _, _, .error e => .error e

/-! ### the three manifests -/

/-- `serialize(parser)`: the document, and the object afterwards (`Header.serialize` sets the current version
before anything can fail) -/
def serialize (k : Kind) (m : Manifest) : Manifest × Except Err PyVal :=
  let m' := { m with version := .str currentVersion }
  let topValidate : Except Err Unit :=
    match k with
    | .rpms => .ok ()                                            -- `Rpms.serialize` does not call `self.validate()`
    | _ => validateClass k.className []
  (m', match topValidate with
    | .error e => .error e
    | .ok () => match headerSerialize k with
      | .error e => .error e
      | .ok hdr => match composeSerialize m.compose with
        | .error e => .error e
        | .ok c =>
          let payload : Kvs := match k with
            | .rpms => [(k.payloadKey, m.payload), (lit "compose", c)]    -- `payload["rpms"] = {}` comes first
            | _ => [(lit "compose", c), (k.payloadKey, m.payload)]
          .ok (.dict [(lit "header", hdr), (lit "payload", .dict payload)]))

/-- `dump`: `self.validate()`, then `serialize` into a fresh dict; the text is `JsonText.dumps` of it -/
def dumpDoc (k : Kind) (m : Manifest) : Manifest × Except Err PyVal :=
  match validateClass k.className [] with
  | .error e => (m, .error e)
  | .ok () => serialize k m

def dumps (k : Kind) (m : Manifest) : Manifest × Except Err Str :=
  let r := dumpDoc k m
  (r.1, r.2.map JsonText.dumps)

/-- `deserialize(data)` on a fresh object -/
def deserialize (k : Kind) (doc : PyVal) : Except Err Manifest :=
  match headerDeserialize k doc with
  | .error e => .error e
  | .ok (ver, t) =>
    let legacy : Bool := match k, t with
      | .rpms, .nums l => gateHolds Gen.gate_rpms_Rpms_deserialize_0 l
      | _, _ => false
    if legacy then .error .other                               -- `Rpms.deserialize_0_3`: C05/C10, not modelled here
    else
      match getItem doc (lit "payload") with
      | .error e => .error e
      | .ok pl =>
        match composeDeserialize t pl with
        | .error e => .error e
        | .ok c =>
          match getItem pl k.payloadKey with
          | .error e => .error e
          | .ok payload =>
            match validateClass k.className [] with
            | .error e => .error e
            | .ok () =>
              .ok { version := (match k with | .rpms => .str currentVersion | _ => ver),   -- only Rpms resets it
                    compose := c, payload := payload }

def Kind.loadMode : Kind → LoadMode
  | .rpms => Gen.load_mode_rpms
  | .modules => Gen.load_mode_modules
  | .extraFiles => Gen.load_mode_extra_files

/-- `obj.deserialize(doc)` / `obj.loads(text)` on an object that may ALREADY hold content (a second load, a refresh
after adds): `State → Doc → State × Out`.  The readers' statements are read from the source (`Gen.load_mode_*`): the
pinned ones assign the document's table (`self.rpms = data["payload"]["rpms"]`), so what the object held before
plays no part.  A failing load leaves the mapping as it was (the table is assigned last) but has already stored the
document's `header.version` when that was readable (`Header.deserialize` assigns it first); what a load that fails
later than the header leaves in the compose section is not modelled (kept as before).  A reader of another shape has
no semantics (`Err.other`). -/
def versionOfDoc (doc : PyVal) : Option PyVal :=
  match getItem doc (lit "header") with
  | .ok hdr => match getItem hdr (lit "version") with
    | .ok v => some v
    | .error _ => none
  | .error _ => none

def loadS (k : Kind) (m : Manifest) (doc : PyVal) : Manifest × Out :=
  match k.loadMode with
  | .replace =>
    match deserialize k doc with
    | .ok m' => (m', .ok ())
    | .error e => ({ m with version := (versionOfDoc doc).getD m.version }, .error e)
  | .unknown => (m, .error .other)

/-- what `json.load` returns for the text `json.dump(doc, sort_keys=True)` wrote: the same document with every
dict in sorted key order (assumption on the stdlib parser, exercised against the real `loads` on every case) -/
def reparse (doc : PyVal) : PyVal := PyVal.canon doc

structure RoundTrip where
  text1 : Str
  reloaded : Manifest
  text2 : Str
deriving Repr

/-- `t1 = m.dumps(); m2 = K(); m2.loads(t1); t2 = m2.dumps()` -/
def roundtrip (k : Kind) (m : Manifest) : Except Err RoundTrip :=
  match (dumpDoc k m).2 with
  | .error e => .error e
  | .ok doc =>
    match deserialize k (reparse doc) with
    | .error e => .error e
    | .ok m2 =>
      match (dumpDoc k m2).2 with
      | .error e => .error e
      | .ok doc2 => .ok { text1 := JsonText.dumps doc, reloaded := m2, text2 := JsonText.dumps doc2 }

end PM.Mf
