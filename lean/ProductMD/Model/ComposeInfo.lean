import ProductMD.Model.Customs
import ProductMD.Generated.Tables
/-!
# composeinfo: typed model of `productmd/composeinfo.py` (writer, reader, normal form)

In-memory objects are typed records; JSON documents are `PyVal` (what `json.load` yields / `json.dump` takes).

Domain of the typed model (adequacy assumptions, validated by the correspondence check of C01):
* fields hold values of the type the validators demand (`name : Str`, `respin : Int`, `final : Bool` …); an attribute that
  is still `None` is representable only where the library itself leaves it so: the whole base product
  (`base = none`) and the whole per-variant release (`release = none`);
* the variant forest is the one `add()` builds: a child's `.parent` is the node it is stored under, top-level variants
  have `parent = None`.  The dict key a variant is stored under is kept (`key`), dicts/sets are lists (`arches`, `kids`,
  path tables) whose order is the insertion order; everything the code reads from a set/dict in `sorted()` order is
  presented sorted, so the order is unobservable except through error precedence (`kids` are written in list order);
* header version: every reader takes the parsed `(major, minor)` so that version gates can be added (C05); documents older
  than 1.0 are refused with `Err.other` here (`legacy`), the branches for `>= 1.0` are exact.

Validation goes through the rule lists generated from the source (`validateClass`) at exactly the places the code
calls `validate()`.
-/
namespace PM

open Lean in
/-- `k%"abc"` = `['a','b','c']` (explicit character list, so that `simp`/`decide` compare keys syntactically) -/
macro:max "k%" s:str : term => do
  let cs : Array (TSyntax `term) := (s.getString.toList.map fun c => (⟨Syntax.mkCharLit c⟩ : TSyntax `term)).toArray
  `(([$cs,*] : List Char))

namespace CI

def isOk : Except Err α → Bool
  | .ok _ => true
  | .error _ => false

/-! ### records -/

structure Release where
  name : Str
  short : Str
  version : Str
  type : Str
  isLayered : Bool
  internal : Bool
deriving DecidableEq, Repr, Inhabited

structure BaseProduct where
  name : Str
  short : Str
  version : Str
  type : Str
deriving DecidableEq, Repr, Inhabited

structure Compose where
  id : Str
  type : Str
  date : Str
  respin : Int
  label : Option Str
  final : Bool
deriving DecidableEq, Repr, Inhabited

/-- arch ↦ path (a Python dict; first binding wins) -/
abbrev ArchTable := List (Str × Str)
/-- category ↦ arch ↦ path: the 14 dict attributes of `VariantPaths` (other names are ignored by the code) -/
abbrev PathTable := List (Str × ArchTable)

inductive Variant where
  | mk (key id uid name type : Str) (arches : List Str) (paths : PathTable) (release : Option Release)
       (kids : List Variant)
deriving Repr, Inhabited

namespace Variant
def key : Variant → Str | .mk k _ _ _ _ _ _ _ _ => k
def id : Variant → Str | .mk _ i _ _ _ _ _ _ _ => i
def uid : Variant → Str | .mk _ _ u _ _ _ _ _ _ => u
def name : Variant → Str | .mk _ _ _ n _ _ _ _ _ => n
def type : Variant → Str | .mk _ _ _ _ t _ _ _ _ => t
def arches : Variant → List Str | .mk _ _ _ _ _ a _ _ _ => a
def paths : Variant → PathTable | .mk _ _ _ _ _ _ p _ _ => p
def release : Variant → Option Release | .mk _ _ _ _ _ _ _ r _ => r
def kids : Variant → List Variant | .mk _ _ _ _ _ _ _ _ k => k
end Variant

structure ComposeInfo where
  compose : Compose
  release : Release
  base : Option BaseProduct
  variants : List Variant
deriving Repr, Inhabited

/-- what a variant's validators see of its parent: uid and (sorted) arch set -/
abbrev Ctx := Option (Str × List Str)

def layeredProduct : Str := k%"layered-product"

/-! ### lookups -/

def lookup {β} (k : Str) : List (Str × β) → Option β
  | [] => none
  | (a, b) :: rest => if a = k then some b else lookup k rest

/-- `getattr(paths, cat).get(arch)`; a missing category attribute is an empty dict here -/
def pathAt (p : PathTable) (cat arch : Str) : Option Str :=
  match lookup cat p with
  | some t => lookup arch t
  | none => none

/-- first child stored under a key / with an id -/
def findKey (k : Str) : List Variant → Option Variant
  | [] => none
  | v :: vs => if v.key = k then some v else findKey k vs

def findId (i : Str) : List Variant → Option Variant
  | [] => none
  | v :: vs => if v.id = i then some v else findId i vs

def findUid (u : Str) : List Variant → Option Variant
  | [] => none
  | v :: vs => if v.uid = u then some v else findUid u vs

/-- the values of a dict in `sorted(keys)` order -/
def byKeys (vs : List Variant) : List Variant :=
  (Str.sortDedup (vs.map Variant.key)).filterMap (findKey · vs)

/-! ### what is stored: the flat, uid-keyed entry of a variant -/

/-- the stored path tables: for every category of `_fields` (in that order) the non-empty paths of the variant's own
arches, in sorted arch order -/
def storedPaths (sortedArches : List Str) (p : PathTable) : PathTable :=
  Gen.COMPOSEINFO_PATH_FIELDS.map fun cat =>
    (cat, sortedArches.filterMap fun a =>
      match pathAt p cat a with
      | some v => if v = [] then none else some (a, v)
      | none => none)

structure Entry where
  id : Str
  uid : Str
  name : Str
  type : Str
  arches : List Str             -- sorted(arches)
  release : Option Release      -- layered-product variants only
  paths : PathTable             -- `storedPaths`
  kids : List Str               -- sorted(set(child ids))
deriving DecidableEq, Repr, Inhabited

/-- `self.release.is_layered = True` (the writer mutates the variant's release) -/
def forceLayered (r : Release) : Release := { r with isLayered := true }

def entryOf : Variant → Entry
  | .mk _ id uid name type arches paths rel kids =>
    { id, uid, name, type,
      arches := Str.sortDedup arches,
      release := if type = layeredProduct then rel.map forceLayered else none,
      paths := storedPaths (Str.sortDedup arches) paths,
      kids := Str.sortDedup (kids.map Variant.id) }

/-! ### objects as the validators see them -/

def strList (l : List Str) : PyVal := .list (l.map .str)

def composeObj (c : Compose) : Obj :=
  [(k%"id", .str c.id), (k%"type", .str c.type), (k%"date", .str c.date), (k%"respin", .int c.respin),
   (k%"label", match c.label with | some l => .str l | none => .none), (k%"final", .bool c.final)]

def releaseObj (r : Release) : Obj :=
  [(k%"name", .str r.name), (k%"short", .str r.short), (k%"version", .str r.version), (k%"type", .str r.type),
   (k%"is_layered", .bool r.isLayered), (k%"internal", .bool r.internal)]

/-- a `Release(...)` nobody filled in, as created by `Variant.__init__` -/
def blankVariantReleaseObj : Obj :=
  [(k%"name", .none), (k%"short", .none), (k%"version", .none), (k%"type", .none),
   (k%"is_layered", .bool true), (k%"internal", .bool false)]

def variantReleaseObj : Option Release → Obj
  | some r => releaseObj (forceLayered r)
  | none => blankVariantReleaseObj

def baseObj : Option BaseProduct → Obj
  | some b => [(k%"name", .str b.name), (k%"short", .str b.short), (k%"version", .str b.version), (k%"type", .str b.type)]
  | none => [(k%"name", .none), (k%"short", .none), (k%"version", .none), (k%"type", .none)]

def headerObj (version : PyVal) : Obj := [(k%"version", version)]

/-- the `variants` pseudo-attribute (see `Model/Customs.lean`): key ↦ id/uid/type/parent_none, in sorted key order -/
def kidsView (parentNone : Bool) (vs : List Variant) : PyVal :=
  .dict ((byKeys vs).map fun c =>
    (c.key, .dict [(k%"id", .str c.id), (k%"uid", .str c.uid), (k%"type", .str c.type), (k%"parent_none", .bool parentNone)]))

def ctxVal : Ctx → PyVal
  | none => .none
  | some (pu, pa) => .dict [(k%"uid", .str pu), (k%"arches", strList pa)]

def variantObj (ctx : Ctx) : Variant → Obj
  | .mk _ id uid name type arches _ _ kids =>
    [(k%"id", .str id), (k%"uid", .str uid), (k%"name", .str name), (k%"type", .str type),
     (k%"arches", strList (Str.sortDedup arches)), (k%"parent", ctxVal ctx), (k%"variants", kidsView false kids)]

def containerObj (vs : List Variant) : Obj := [(k%"variants", kidsView true vs)]

/-! ### writer -/

def currentVersion : Str :=
  Str.natStr Gen.VERSION.1 ++ '.' :: Str.natStr Gen.VERSION.2

def composeVal (c : Compose) : PyVal :=
  .dict ([(k%"id", .str c.id), (k%"type", .str c.type), (k%"date", .str c.date), (k%"respin", .int c.respin)]
    ++ match c.label with
       | some (ch :: cs) => [(k%"label", .str (ch :: cs)), (k%"final", .bool c.final)]
       | _ => [])

def releaseVal (r : Release) : PyVal :=
  .dict ([(k%"name", .str r.name), (k%"version", .str r.version), (k%"short", .str r.short), (k%"type", .str r.type)]
    ++ (if r.isLayered then [(k%"is_layered", .bool true)] else [])
    ++ [(k%"internal", .bool r.internal)])

def baseVal (b : BaseProduct) : PyVal :=
  .dict [(k%"name", .str b.name), (k%"version", .str b.version), (k%"short", .str b.short), (k%"type", .str b.type)]

def archTableVal (t : ArchTable) : PyVal := .dict (t.map fun (a, p) => (a, .str p))

/-- `paths`: only categories with at least one stored path appear -/
def pathsVal (p : PathTable) : PyVal :=
  .dict (p.filterMap fun (cat, t) => if t = [] then none else some (cat, archTableVal t))

def entryVal (e : Entry) : PyVal :=
  .dict ([(k%"id", .str e.id), (k%"uid", .str e.uid), (k%"name", .str e.name), (k%"type", .str e.type),
          (k%"arches", strList e.arches)]
    ++ (match e.release with | some r => [(k%"release", releaseVal r)] | none => [])
    ++ [(k%"paths", pathsVal e.paths)]
    ++ (if e.kids = [] then [] else [(k%"variants", strList e.kids)]))

/-- the dict `data["variants"]` while it is being filled: uid ↦ entry, kept sorted by uid (a dict is a finite map; the
sorted association list is its canonical representation) -/
abbrev Flat := List (Str × Entry)

def insertFlat (k : Str) (e : Entry) : Flat → Flat
  | [] => [(k, e)]
  | (a, b) :: rest => if Str.lt k a then (k, e) :: (a, b) :: rest else (a, b) :: insertFlat k e rest

/-- `new_dump = data.setdefault(self.uid, dump); if new_dump != dump: raise ValueError` -/
def putEntry (k : Str) (e : Entry) (d : Flat) : Except Err Flat :=
  match lookup k d with
  | none => .ok (insertFlat k e d)
  | some e' => if e' = e then .ok d else .error .valueError

mutual
/-- `Variant.serialize(data)` -/
def Variant.ser (ctx : Ctx) : Variant → Flat → Except Err Flat
  | .mk key id uid name type arches paths rel kids, d =>
    -- layered-product: `self.release.is_layered = True; self.release.serialize(dump)` (validates first)
    match (if type = layeredProduct then validateClass "composeinfo.Release" (variantReleaseObj rel) else .ok ()) with
    | .error e => .error e
    | .ok () =>
    -- `self.paths.serialize(paths)` (validates first)
    match validateClass "composeinfo.VariantPaths" [] with
    | .error e => .error e
    | .ok () =>
    -- children, in dict order; each one files itself in `data`
    match sers (some (uid, Str.sortDedup arches)) kids d with
    | .error e => .error e
    | .ok d1 =>
    match putEntry uid (entryOf (.mk key id uid name type arches paths rel kids)) d1 with
    | .error e => .error e
    | .ok d2 =>
    -- `self.validate()` comes last
    match validateClass "composeinfo.Variant" (variantObj ctx (.mk key id uid name type arches paths rel kids)) with
    | .error e => .error e
    | .ok () => .ok d2
def sers (ctx : Ctx) : List Variant → Flat → Except Err Flat
  | [], d => .ok d
  | v :: vs, d =>
    match Variant.ser ctx v d with
    | .error e => .error e
    | .ok d1 => sers ctx vs d1
end

def flatVal (d : Flat) : PyVal := .dict (d.map fun (k, e) => (k, entryVal e))

/-- `Variants.serialize`: validate the container, then the top-level variants in sorted key order -/
def variantsSer (vs : List Variant) : Except Err Flat :=
  match validateClass "composeinfo.Variants" (containerObj vs) with
  | .error e => .error e
  | .ok () => sers none (byKeys vs) []

def headerVal : PyVal := .dict [(k%"type", .str Gen.HEADER_TYPE_ComposeInfo), (k%"version", .str currentVersion)]

/-- `ComposeInfo.serialize(parser)` -/
def serialize (ci : ComposeInfo) : Except Err PyVal :=
  match validateClass "common.Header" (headerObj (.str currentVersion)) with
  | .error e => .error e
  | .ok () =>
  match validateClass "composeinfo.Compose" (composeObj ci.compose) with
  | .error e => .error e
  | .ok () =>
  match validateClass "composeinfo.Release" (releaseObj ci.release) with
  | .error e => .error e
  | .ok () =>
  match (if ci.release.isLayered then validateClass "composeinfo.BaseProduct" (baseObj ci.base) else .ok ()) with
  | .error e => .error e
  | .ok () =>
  match variantsSer ci.variants with
  | .error e => .error e
  | .ok d =>
    .ok (.dict [(k%"header", headerVal),
      (k%"payload", .dict ([(k%"compose", composeVal ci.compose), (k%"release", releaseVal ci.release)]
        ++ (match ci.release.isLayered, ci.base with
            | true, some b => [(k%"base_product", baseVal b)]
            | _, _ => [])
        ++ [(k%"variants", flatVal d)]))])

/-- `ComposeInfo.dumps()`: `validate()` (the class has no validators of its own), `serialize`, `json.dump` -/
def dumps (ci : ComposeInfo) : Except Err Str :=
  match validateClass "composeinfo.ComposeInfo" [] with
  | .error e => .error e
  | .ok () =>
    match serialize ci with
    | .error e => .error e
    | .ok j => .ok (JsonText.dumps j)

/-! ### reader -/

/-- `d[k]` -/
def sub (d : PyVal) (k : Str) : Except Err PyVal :=
  match d with
  | .dict _ => match d.get? k with
      | some v => .ok v
      | none => .error .keyError
  | _ => .error .typeError

/-- `d.get(k, default)` -/
def getD (d : PyVal) (k : Str) (dflt : PyVal) : Except Err PyVal :=
  match d with
  | .dict _ => .ok ((d.get? k).getD dflt)
  | _ => .error .attributeError

def asStr : PyVal → Except Err Str
  | .str s => .ok s
  | _ => .error .other          -- outside the typed model (the validators refuse it first)

def asInt : PyVal → Except Err Int
  | .int n => .ok n
  | _ => .error .other          -- `True`/`False` pass `_assert_type(int)`: outside the typed model

/-- `Header.version_tuple` on a validated version string: ASCII digits, one dot (a trailing line feed is accepted by
`$` and by `int()`); anything else validated by `\d` (non-ASCII digits) is outside the model -/
def versionTuple (s : Str) : Except Err (Nat × Nat) :=
  let s' := if Str.endsWith s ['\n'] then s.dropLast else s
  match Str.splitOn '.' s' with
  | [a, b] => match Str.parseNatAscii a, Str.parseNatAscii b with
      | some x, some y => .ok (x, y)
      | _, _ => .error .other
  | _ => .error .other

def verLt (a b : Nat × Nat) : Bool := a.1 < b.1 || (a.1 == b.1 && a.2 < b.2)

/-- for `>= 1.1` the stored metadata type must be this class's -/
def headerTypeCheck (ver : Nat × Nat) (h : PyVal) : Except Err Unit :=
  if !verLt ver (1, 1) then
    match sub h k%"type" with
    | .error e => .error e
    | .ok t => if PyVal.pyEq t (.str Gen.HEADER_TYPE_ComposeInfo) then .ok () else .error .valueError
  else .ok ()

/-- `Header.deserialize`; returns the version tuple the other readers are gated on -/
def headerDe (doc : PyVal) : Except Err (Nat × Nat) :=
  match sub doc k%"header" with
  | .error e => .error e
  | .ok h =>
  match sub h k%"version" with
  | .error e => .error e
  | .ok v =>
  -- `self.version_tuple` validates first
  match validateClass "common.Header" (headerObj v) with
  | .error e => .error e
  | .ok () =>
  match asStr v with
  | .error e => .error e
  | .ok vs =>
  match versionTuple vs with
  | .error e => .error e
  | .ok ver =>
  match headerTypeCheck ver h with
  | .error e => .error e
  | .ok () =>
  match validateClass "common.Header" (headerObj v) with
  | .error e => .error e
  | .ok () => .ok ver

/-- `x or None` for the label -/
def orNone (v : PyVal) : PyVal := if v.truthy then v else .none

/-- `Compose.deserialize` (`>= 0.3` branch) -/
def composeDe (ver : Nat × Nat) (payload : PyVal) : Except Err Compose :=
  if verLt ver (0, 3) then .error .other else      -- legacy: C05
  match sub payload k%"compose" with
  | .error e => .error e
  | .ok s =>
  match sub s k%"id" with
  | .error e => .error e
  | .ok id =>
  match getD s k%"label" .none with
  | .error e => .error e
  | .ok lab0 =>
  let label := orNone lab0
  match sub s k%"type" with
  | .error e => .error e
  | .ok type =>
  match sub s k%"date" with
  | .error e => .error e
  | .ok date =>
  match sub s k%"respin" with
  | .error e => .error e
  | .ok respin =>
  match getD s k%"final" (.bool false) with
  | .error e => .error e
  | .ok fin0 =>
  let final := fin0.truthy
  match validateClass "composeinfo.Compose"
      [(k%"id", id), (k%"type", type), (k%"date", date), (k%"respin", respin), (k%"label", label), (k%"final", .bool final)] with
  | .error e => .error e
  | .ok () =>
  match asStr id, asStr type, asStr date, asInt respin with
  | .ok id, .ok type, .ok date, .ok respin =>
    match label with
    | .none => .ok { id, type, date, respin, label := none, final }
    | .str l => .ok { id, type, date, respin, label := some l, final }
    | _ => .error .other
  | _, _, _, _ => .error .other

/-- `.lower()` of the stored release type (ASCII model of `str.lower`) -/
def lowerVal : PyVal → Except Err PyVal
  | .str s => .ok (.str (Str.lowerAscii s))
  | _ => .error .attributeError

/-- `Release.deserialize` (`> 0.3` branch); `sectionHolder` is the payload, or the variant's entry -/
def releaseDe (ver : Nat × Nat) (sectionHolder : PyVal) : Except Err Release :=
  if !verLt (0, 3) ver then .error .other else     -- legacy: C05
  match sub sectionHolder k%"release" with
  | .error e => .error e
  | .ok s =>
  match sub s k%"name" with
  | .error e => .error e
  | .ok name =>
  match sub s k%"version" with
  | .error e => .error e
  | .ok version =>
  match sub s k%"short" with
  | .error e => .error e
  | .ok short =>
  match getD s k%"type" (.str k%"ga") with
  | .error e => .error e
  | .ok type0 =>
  match lowerVal type0 with
  | .error e => .error e
  | .ok type =>
  match getD s k%"is_layered" (.bool false) with
  | .error e => .error e
  | .ok lay =>
  match getD s k%"internal" (.bool false) with
  | .error e => .error e
  | .ok int =>
  match validateClass "composeinfo.Release"
      [(k%"name", name), (k%"short", short), (k%"version", version), (k%"type", type),
       (k%"is_layered", .bool lay.truthy), (k%"internal", .bool int.truthy)] with
  | .error e => .error e
  | .ok () =>
  match asStr name, asStr short, asStr version, asStr type with
  | .ok name, .ok short, .ok version, .ok type =>
    .ok { name, short, version, type, isLayered := lay.truthy, internal := int.truthy }
  | _, _, _, _ => .error .other

/-- `BaseProduct.deserialize` -/
def baseDe (payload : PyVal) : Except Err BaseProduct :=
  match sub payload k%"base_product" with
  | .error e => .error e
  | .ok s =>
  match sub s k%"name" with
  | .error e => .error e
  | .ok name =>
  match sub s k%"version" with
  | .error e => .error e
  | .ok version =>
  match sub s k%"short" with
  | .error e => .error e
  | .ok short =>
  match getD s k%"type" (.str k%"ga") with
  | .error e => .error e
  | .ok type =>
  match validateClass "composeinfo.BaseProduct" [(k%"name", name), (k%"short", short), (k%"version", version), (k%"type", type)] with
  | .error e => .error e
  | .ok () =>
  match asStr name, asStr short, asStr version, asStr type with
  | .ok name, .ok short, .ok version, .ok type => .ok { name, short, version, type }
  | _, _, _, _ => .error .other

/-- results of a left-to-right loop that stops at the first failure -/
def collect {α} : List (Except Err α) → Except Err (List α)
  | [] => .ok []
  | .error e :: _ => .error e
  | .ok a :: rest => match collect rest with
      | .error e => .error e
      | .ok l => .ok (a :: l)

def asStr' : PyVal → Except Err Str
  | .str s => .ok s
  | _ => .error .other

/-- a JSON list of strings (anything else is outside the typed model) -/
def asStrList : PyVal → Except Err (List Str)
  | .list xs => collect (xs.map asStr')
  | _ => .error .other

/-- one cell, `paths.get(name, {}).get(arch, None)`; falsy values are skipped -/
def cellDe (t : PyVal) (a : Str) : Except Err (Option (Str × Str)) :=
  match t with
  | .dict _ =>
    match t.get? a with
    | none => .ok none
    | some v =>
      if !v.truthy then .ok none else
      match v with
      | .str p => .ok (some (a, p))
      | _ => .error .other
  | _ => .error .attributeError

def archTableDe (sortedArches : List Str) (t : PyVal) : Except Err ArchTable :=
  match collect (sortedArches.map (cellDe t)) with
  | .error e => .error e
  | .ok l => .ok (l.filterMap fun x => x)

/-- `VariantPaths.deserialize`: for the variant's arches in sorted order, every category, truthy values only -/
def pathsDe (sortedArches : List Str) (paths : PyVal) : Except Err PathTable :=
  match paths with
  | .dict _ =>
    match collect (Gen.COMPOSEINFO_PATH_FIELDS.map fun cat =>
        archTableDe sortedArches ((paths.get? cat).getD (.dict []))) with
    | .error e => .error e
    | .ok ts => .ok (Gen.COMPOSEINFO_PATH_FIELDS.zip ts)
  | _ => .error .attributeError

/-- `VariantBase.add` on a freshly built child list: `setdefault(variant.id, variant)` refuses a second object -/
def addAll : List Variant → List Variant → Except Err (List Variant)
  | acc, [] => .ok acc
  | acc, v :: vs => if (findKey v.id acc).isSome then .error .valueError else addAll (acc ++ [v]) vs

def variantReleaseDe (ver : Nat × Nat) (type0 data : PyVal) : Except Err (Option Release) :=
  if PyVal.pyEq type0 (.str layeredProduct) then
    match releaseDe ver data with
    | .error e => .error e
    | .ok r => .ok (some r)
  else .ok none

/-- `sorted(data["variants"])`, or no children (the uid scan of documents older than 1.0 belongs to C05) -/
def kidIdsOf (ver : Nat × Nat) (data : PyVal) : Except Err (List Str) :=
  match data.get? k%"variants" with
  | some kv => match asStrList kv with
      | .error e => .error e
      | .ok l => .ok (Str.sortDedup l)
  | none => if verLt ver (1, 0) then .error .other else .ok []

/-- `Variant.deserialize(full_data, variant_uid)` followed by the caller's `add(variant)`.
Fuel bounds the recursion depth (a document whose child references loop makes the real reader recurse until
`RecursionError`, a `RuntimeError`). -/
def Variant.build (ver : Nat × Nat) (full : PyVal) : Nat → Ctx → Str → Except Err Variant
  | 0, _, _ => .error .runtimeError
  | fuel + 1, ctx, vuid =>
    match sub full vuid with
    | .error e => .error e
    | .ok data =>
    match sub data k%"id" with
    | .error e => .error e
    | .ok id0 =>
    match sub data k%"uid" with
    | .error e => .error e
    | .ok uid0 =>
    match sub data k%"name" with
    | .error e => .error e
    | .ok name0 =>
    match sub data k%"type" with
    | .error e => .error e
    | .ok type0 =>
    match sub data k%"arches" with
    | .error e => .error e
    | .ok arches0 =>
    match asStrList arches0 with
    | .error e => .error e
    | .ok archesL =>
    let arches := Str.sortDedup archesL
    match variantReleaseDe ver type0 data with
    | .error e => .error e
    | .ok rel =>
    match sub data k%"paths" with
    | .error e => .error e
    | .ok paths0 =>
    match pathsDe arches paths0 with
    | .error e => .error e
    | .ok paths =>
    match validateClass "composeinfo.VariantPaths" [] with
    | .error e => .error e
    | .ok () =>
    match asStr uid0 with
    | .error e => .error e
    | .ok uid =>
    match kidIdsOf ver data with
    | .error e => .error e
    | .ok kidIds =>
    -- children: build (which ends in the child's own validate), then `self.add(child)` validates again
    match collect (kidIds.map fun i => Variant.build ver full fuel (some (uid, arches)) (uid ++ '-' :: i)) with
    | .error e => .error e
    | .ok built =>
    match addAll [] built with
    | .error e => .error e
    | .ok kids =>
    match asStr id0, asStr name0, asStr type0 with
    | .ok id, .ok name, .ok type =>
      let v := Variant.mk id id uid name type arches paths rel kids
      match validateClass "composeinfo.Variant" (variantObj ctx v) with
      | .error e => .error e
      | .ok () =>
      -- the caller's `add(variant)`: `variant.validate()` once more
      match validateClass "composeinfo.Variant" (variantObj ctx v) with
      | .error e => .error e
      | .ok () => .ok v
    | _, _, _ => .error .other

/-- the children one entry announces: `"%s-%s" % (var["uid"], child) for child in var.get("variants", [])` -/
def refsOfVal (var : PyVal) : Except Err (List Str) :=
  match getD var k%"variants" (.list []) with
  | .error e => .error e
  | .ok kv =>
    match asStrList kv with
    | .error e => .error e
    | .ok [] => .ok []
    | .ok ids =>
      match sub var k%"uid" with
      | .error e => .error e
      | .ok u =>
        match asStr u with
        | .error e => .error e
        | .ok uid => .ok (ids.map fun i => uid ++ '-' :: i)

/-- the set `child_variants` of `Variants.deserialize`, over all entries in document order -/
def childUids : List (Str × PyVal) → Except Err (List Str)
  | [] => .ok []
  | (_, var) :: rest =>
    match refsOfVal var with
    | .error e => .error e
    | .ok l =>
      match childUids rest with
      | .error e => .error e
      | .ok r => .ok (l ++ r)

/-- `Variants.deserialize` for documents `>= 1.0`: top-level = not referenced as a child; sorted; built; added -/
def variantsDe (ver : Nat × Nat) (payload : PyVal) : Except Err (List Variant) :=
  match sub payload k%"variants" with
  | .error e => .error e
  | .ok full =>
  match full with
  | .dict entries =>
    if verLt ver (1, 0) then .error .other else       -- legacy top-level detection: C05
    match childUids entries with
    | .error e => .error e
    | .ok cs =>
    let tops := Str.sortDedup ((entries.map (·.1)).filter (fun u => !cs.contains u))
    match collect (tops.map fun u => Variant.build ver full (entries.length + 1) none u) with
    | .error e => .error e
    | .ok built => addAll [] built
  | _ => .error .attributeError

def baseDeIf (layered : Bool) (payload : PyVal) : Except Err (Option BaseProduct) :=
  if layered then
    match baseDe payload with
    | .error e => .error e
    | .ok b => .ok (some b)
  else .ok none

/-- `ComposeInfo.deserialize(data)` -/
def deserialize (doc : PyVal) : Except Err ComposeInfo :=
  match headerDe doc with
  | .error e => .error e
  | .ok ver =>
  match sub doc k%"payload" with
  | .error e => .error e
  | .ok payload =>
  match composeDe ver payload with
  | .error e => .error e
  | .ok compose =>
  match releaseDe ver payload with
  | .error e => .error e
  | .ok release =>
  match baseDeIf release.isLayered payload with
  | .error e => .error e
  | .ok base =>
  match variantsDe ver payload with
  | .error e => .error e
  | .ok variants => .ok { compose, release, base, variants }

/-- `loads` = parse, `deserialize`, `validate()` (no validators on `ComposeInfo` itself) -/
def loadsDoc (doc : PyVal) : Except Err ComposeInfo :=
  match deserialize doc with
  | .error e => .error e
  | .ok ci =>
    match validateClass "composeinfo.ComposeInfo" [] with
    | .error e => .error e
    | .ok () => .ok ci

/-- `obj.loads(text)` / `obj.load(f)` on an object that already holds `held` (fresh, filled through the API, or loaded
before), `doc` = the parsed text.  `ComposeInfo.deserialize` assigns every attribute of the header, compose and release
sections, drops the base product unless the loaded release is layered (then reads it), and reads the variants into a
FRESH container (`self.variants = Variants(self)`, the F41 repair): nothing of `held` is consulted, the result is what a
fresh object would hold.  Only the state after a successful load is modelled (a refused load leaves the sections read so far
overwritten). -/
def loadInto (_held : ComposeInfo) (doc : PyVal) : Except Err ComposeInfo := loadsDoc doc

/-- `c = ComposeInfo(); c.loads(text); c.dumps()` with the JSON parser (`json.load`, not modelled) as a parameter -/
def reloadDump (parse : Str → Except Err PyVal) (text : Str) : Except Err Str :=
  match parse text with
  | .error e => .error e
  | .ok doc =>
    match loadsDoc doc with
    | .error e => .error e
    | .ok ci => dumps ci

/-! ### normal form: what a write/read cycle is documented to keep -/

def Compose.norm (c : Compose) : Compose :=
  let label := match c.label with | some (ch :: cs) => some (ch :: cs) | _ => none
  { c with label, final := label.isSome && c.final }

def Release.norm (r : Release) : Release := { r with type := Str.lowerAscii r.type }

/-- for each id (in the given order) the first variant with that id -/
def pick (ids : List Str) (vs : List Variant) : List Variant := ids.filterMap (findId · vs)

mutual
/-- children are kept per id in sorted id order, re-keyed by id; arches sorted; paths = `storedPaths`;
the per-variant release exists for layered products only (with `is_layered` forced) -/
def Variant.norm : Variant → Variant
  | .mk _ id uid name type arches paths rel kids =>
    .mk id id uid name type (Str.sortDedup arches) (storedPaths (Str.sortDedup arches) paths)
      (if type = layeredProduct then rel.map (fun r => (forceLayered r).norm) else none)
      (pick (Str.sortDedup (kids.map Variant.id)) (norms kids))
def norms : List Variant → List Variant
  | [] => []
  | v :: vs => Variant.norm v :: norms vs
end

/-- top-level variants come back in sorted uid order -/
def normTop (vs : List Variant) : List Variant :=
  (Str.sortDedup (vs.map Variant.uid)).filterMap (findUid · (norms vs))

def ComposeInfo.norm (ci : ComposeInfo) : ComposeInfo :=
  { compose := ci.compose.norm,
    release := ci.release.norm,
    base := if ci.release.isLayered then ci.base else none,
    variants := normTop ci.variants }

end CI
end PM
