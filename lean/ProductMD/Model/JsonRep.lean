import ProductMD.Model.Builders
/-!
`jsonRep v`: the value consists only of what `json.dump` can write and `json.load` gives back — None, bool, int,
float, str, list, dict with string keys (keys are strings by construction in `PyVal`) — contains no foreign
object (`PyVal.other`: tuples, sets, instances …) and no dict binds a key twice (a Python dict cannot; an
association list could).  Decidable, executable.
-/
namespace PM.Mf

mutual
def jsonRep : PyVal → Bool
  | .other _ => false
  | .list xs => jsonRepList xs
  | .dict kvs => jsonRepKvs kvs
  | _ => true
def jsonRepList : List PyVal → Bool
  | [] => true
  | x :: xs => jsonRep x && jsonRepList xs
def jsonRepKvs : List (Str × PyVal) → Bool
  | [] => true
  | (k, v) :: rest => !(hasKey rest k) && jsonRep v && jsonRepKvs rest
end

end PM.Mf
