import ProductMD.Model.TreeInfo
import ProductMD.Model.IniParse
/-!
Model of `productmd/discinfo.py`: four lines (timestamp, description, arch, disc numbers).

The timestamp is a float token carrying its `repr` (`str(x)`); `float(text)` of the reader is the
`FloatOracle.reprOfFloatStr` parameter.  `disc_numbers` is `["ALL"]` or a list of integers.
-/
namespace PM
namespace DI
open TI

inductive Discs where
  | all
  | nums (ns : List Int)
deriving DecidableEq, Repr

structure DiscInfo where
  timestamp : Str          -- `repr` of the float
  description : Str
  arch : Str
  discs : Discs
deriving DecidableEq, Repr

def discsPy : Discs → PyVal
  | .all => .list [.str "ALL".toList]
  | .nums ns => .list (ns.map .int)

def obj (x : DiscInfo) : Obj :=
  [("timestamp".toList, .float x.timestamp), ("description".toList, .str x.description),
   ("arch".toList, .str x.arch), ("disc_numbers".toList, discsPy x.discs)]

/-- the fourth line: `"ALL"` or `",".join(str(i) for i in disc_numbers)` -/
def discsStr : Discs → Str
  | .all => "ALL".toList
  | .nums ns => Str.joinWith ',' (ns.map Str.intStr)

/-- `DiscInfo.serialize(parser)` into an empty list of lines -/
def serialize (x : DiscInfo) : Except Err (List Str) := do
  validateClass "discinfo.DiscInfo" (obj x)
  pure [Str.strip x.timestamp, Str.strip x.description, Str.strip x.arch, discsStr x.discs]

/-- `build_file`: `"\n".join(lines)` -/
def buildFile (lines : List Str) : Str := Str.joinWith '\n' lines

/-- `parse_file`: `[i.strip() for i in f.readlines()]` -/
def parseFile (text : Str) : List Str :=
  (IniParse.fileLines text).map Str.strip

def mapMInt : List Str → Except Err (List Int)
  | [] => .ok []
  | s :: ss => match Str.pyInt s with
    | .error e => .error e
    | .ok n => match mapMInt ss with
      | .error e => .error e
      | .ok ns => .ok (n :: ns)

/-- the disc numbers of the (stripped) fourth line: nothing or `ALL` → `["ALL"]`, else `[int(i) for i in line.split(",")]` -/
def readDiscs (dn : Str) : Except Err Discs :=
  if dn.isEmpty || dn == "ALL".toList then .ok Discs.all
  else (mapMInt (Str.splitOn ',' dn)).map Discs.nums

/-- `s.strip("\"'")` -/
def stripQuotes (s : Str) : Str := Str.stripChars ['"', '\''] s

/-- `DiscInfo.deserialize(lines)` -/
def deserialize (fo : FloatOracle) (lines : List Str) : Except Err DiscInfo :=
  match lines with
  | [] => .error .indexError
  | l0 :: r0 =>
    match fo.reprOfFloatStr (Str.strip l0) with
    | .error e => .error e
    | .ok ts =>
    match r0 with
    | [] => .error .indexError
    | l1 :: r1 =>
    match r1 with
    | [] => .error .indexError
    | l2 :: rest =>
      let description := stripQuotes (Str.strip l1)
      let arch := Str.strip l2
      let dn := match rest with | l3 :: _ => Str.strip l3 | [] => []
      match readDiscs dn with
      | .error e => .error e
      | .ok discs =>
        match validateClass "discinfo.DiscInfo" (obj ⟨ts, description, arch, discs⟩) with
        | .error e => .error e
        | .ok () => .ok ⟨ts, description, arch, discs⟩

def dumps (x : DiscInfo) : Except Err Str := (serialize x).map buildFile
def loads (fo : FloatOracle) (text : Str) : Except Err DiscInfo := deserialize fo (parseFile text)

end DI
end PM
