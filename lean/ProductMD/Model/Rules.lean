import ProductMD.Model.Py
import ProductMD.Model.Regex
import ProductMD.Generated.AssertType
/-!
Generic interpreter for the library's validator idiom (`_assert_type`, `_assert_value`, `_assert_not_blank`,
`_assert_matches_re`, optionally under a simple guard, or a bare `raise ValueError` under a condition).
`Generated/Validators.lean` instantiates it with the rule lists translated from the source on every run;
anything outside the idiom is a `custom` rule that must be bound to a hand-written predicate (`Customs`).
-/
namespace PM

/-- an object as seen by its validators: attribute name ↦ value (context such as the parent's arch set is
passed as pseudo-attributes, e.g. `parent.arches`) -/
abbrev Obj := List (Str × PyVal)

def Obj.get (o : Obj) (f : Str) : PyVal := ((o.find? (·.1 == f)).map (·.2)).getD .none
def Obj.has (o : Obj) (f : Str) : Bool := o.any (·.1 == f)
def Obj.set (o : Obj) (f : Str) (v : PyVal) : Obj := PyVal.setKey o f v

inductive Cond where
  | tt
  | truthy (f : Str)                 -- `if self.f:`
  | notNone (f : Str)                -- `if self.f is not None:`
  | reMatch (p : Re) (f : Str)       -- `if re.match(p, self.f):`
  | startsWith (f : Str) (pre : Str) -- `if self.f.startswith(pre):`
  | contains (f : Str) (c : Str)     -- `if c in self.f:`
  | not (c : Cond)
  | and (a b : Cond)
deriving Repr

def Cond.eval (o : Obj) : Cond → Bool
  | .tt => true
  | .truthy f => (o.get f).truthy
  | .notNone f => !(o.get f).isinstance .none
  | .reMatch p f => match o.get f with | .str s => pyMatches p s | _ => false
  | .startsWith f pre => match o.get f with | .str s => Str.startsWith s pre | _ => false
  | .contains f c => match o.get f, c with
      | .str s, [ch] => s.contains ch
      | _, _ => false
  | .not c => !c.eval o
  | .and a b => a.eval o && b.eval o

/-- a condition can itself fail with TypeError when applied to a non-string (`re.match(p, None)`,
`None.startswith`, `"-" in None`); `Cond.wellTyped` says it cannot -/
def Cond.wellTyped (o : Obj) : Cond → Bool
  | .reMatch _ f | .startsWith f _ | .contains f _ => (o.get f).isinstance .str
  | .not c => c.wellTyped o
  | .and a b => a.wellTyped o && (!a.eval o || b.wellTyped o)
  | _ => true

inductive Rule where
  | type (f : Str) (ts : List PyType)
  | value (f : Str) (table : List Str)
  | notBlank (f : Str)
  | re (f : Str) (pats : List Re)
  | failIf (c : Cond)                       -- `if c: raise ValueError`
  | guarded (c : Cond) (r : Rule)           -- `if c: <rule>`
  | custom (name : Str)
deriving Repr

/-- verdict of one rule on an object; `customs` interprets the hand-bound rules -/
def Rule.check (customs : Str → Obj → Except Err Unit) (o : Obj) : Rule → Except Err Unit
  | .type f ts => if (o.get f).assertTypeOk Gen.assertTypeBoolStrict ts then .ok () else .error .typeError
  | .value f table => match o.get f with
      | .str s => if table.contains s then .ok () else .error .valueError
      | _ => .error .valueError
  | .notBlank f => if (o.get f).truthy then .ok () else .error .valueError
  | .re f pats => match o.get f with
      | .str s => if pats.any (pyMatches · s) then .ok () else .error .valueError
      | _ => .error .typeError
  | .failIf c => if !c.wellTyped o then .error .typeError else if c.eval o then .error .valueError else .ok ()
  | .guarded c r =>
      if !c.wellTyped o then .error .typeError
      else if c.eval o then r.check customs o else .ok ()
  | .custom name => customs name o

/-- `validate()`: the methods in sorted-name order, each a list of rules, first failure wins -/
def runRules (customs : Str → Obj → Except Err Unit) (o : Obj) : List Rule → Except Err Unit
  | [] => .ok ()
  | r :: rs => match r.check customs o with
      | .ok () => runRules customs o rs
      | .error e => .error e

abbrev MethodRules := List (String × List Rule)

def MethodRules.flat (ms : MethodRules) : List Rule := ms.flatMap (·.2)

def validateWith (customs : Str → Obj → Except Err Unit) (ms : MethodRules) (o : Obj) : Except Err Unit :=
  runRules customs o ms.flat

theorem runRules_ok_iff (customs) (o : Obj) (rs : List Rule) :
    runRules customs o rs = .ok () ↔ ∀ r ∈ rs, r.check customs o = .ok () := by
  induction rs with
  | nil => simp [runRules]
  | cons r rs ih =>
    cases h : r.check customs o with
    | ok u => cases u; simp [runRules, h, ih]
    | error e => simp [runRules, h]

/-- a violated rule that is among the rules run makes validation fail -/
theorem runRules_enforces (customs) (o : Obj) (rs : List Rule) (r : Rule) (hr : r ∈ rs)
    (hv : r.check customs o ≠ .ok ()) : ∃ e, runRules customs o rs = .error e := by
  cases h : runRules customs o rs with
  | error e => exact ⟨e, rfl⟩
  | ok u =>
    cases u
    exact absurd ((runRules_ok_iff customs o rs).mp h r hr) hv

/-! ### `_assert_type` under either generated shape -/

/-- whatever the shape, an accepted value is an instance of one of the listed types -/
theorem PyVal.assertTypeOk_any {strict : Bool} {v : PyVal} {ts : List PyType} (h : v.assertTypeOk strict ts = true) :
    ts.any (v.isinstance ·) = true := by
  cases strict <;> simp_all [PyVal.assertTypeOk]

/-- for a value that is not a bool both shapes agree -/
theorem PyVal.assertTypeOk_of_not_bool {strict : Bool} {v : PyVal} {ts : List PyType} (h : v.isBool = false) :
    v.assertTypeOk strict ts = ts.any (v.isinstance ·) := by
  cases strict <;> simp [PyVal.assertTypeOk, h]

/-- the strict shape refuses a bool wherever `bool` is not listed -/
theorem PyVal.assertTypeOk_strict_bool (b : Bool) {ts : List PyType} (h : ts.contains .bool = false) :
    (PyVal.bool b).assertTypeOk true ts = false := by
  simp only [PyVal.assertTypeOk, PyVal.isBool, h, if_true, Bool.not_true, Bool.or_false, Bool.false_and]

theorem Rule.check_type_ok {customs : Str → Obj → Except Err Unit} {o : Obj} {f : Str} {ts : List PyType}
    (h : Rule.check customs o (.type f ts) = .ok ()) : (o.get f).assertTypeOk Gen.assertTypeBoolStrict ts = true := by
  simp only [Rule.check] at h
  split at h
  · assumption
  · cases h

/-- a passed `.type` rule: the value is an instance of a listed type (either shape) -/
theorem Rule.check_type_any {customs : Str → Obj → Except Err Unit} {o : Obj} {f : Str} {ts : List PyType}
    (h : Rule.check customs o (.type f ts) = .ok ()) : ts.any ((o.get f).isinstance ·) = true :=
  PyVal.assertTypeOk_any (Rule.check_type_ok h)

end PM
