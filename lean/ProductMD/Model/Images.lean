import ProductMD.Model.Customs
import ProductMD.Model.PyOps
import ProductMD.Model.Gate
import ProductMD.Generated.Tables
import ProductMD.Generated.Gates
import ProductMD.Model.ImagesScript
import ProductMD.Generated.ImagesStruct
/-!
# Model of `productmd/images.py` (with the parts of `common.Header` and `composeinfo.Compose` it uses)

Everything is in `namespace PM.Img`.  The definitions mirror the code statement by statement, including error
branches and the order of evaluation; data come from `Gen.*` (tables, validators, version gates).

* `Image`     – the fifteen public attributes, dynamically typed (`PyVal`).
* `ImgState`  – an `Images` object: `header.version`, the compose section, and `images`:
  variant ↦ arch ↦ set of image *objects*.  A Python set of objects is a list of `(object id, attributes)`
  without repeated ids, in insertion order; the same id may occur in several cells (the same object filed twice).
  Attributes of an object are not mutated by anything modelled here, so they travel with the id.
* `add`       – `Images.add`, as a script of effects run in the code's order on a state that *survives* an
  exception (`ImgState → ImgState × Except Err Unit`), so that "a refused add changes nothing" has to be proved
  from the position of the insertion, it does not follow from the type.
* `serialize` / `deserialize` / `dumps` / `loads`.

Out of the model (explicit `Err.other`, never a default): compose sections of documents older than 0.3 (they go
through `get_date_type_respin`, C15), variant keys that are not strings, `int()` of floats / non-ASCII strings.
-/
namespace PM.Img
open PM PM.PyOps

/-! ## Header -/

/-- `Header.validate()` on the version attribute -/
def headerValidate (ver : PyVal) : Except Err Unit :=
  validateClass "common.Header" [(L "version", ver)]

/-- value of `tuple(split_version(v))`: a pair of numbers, or the one-element tuple `(v,)` when `v` does not start
with an ASCII digit (comparing that with a tuple of ints raises TypeError) -/
inductive VerT where
  | nums (v : Nat × Nat)
  | text
deriving DecidableEq, Repr

/-- `Header.version_tuple` (validates first) -/
def versionTuple (ver : PyVal) : Except Err VerT := do
  headerValidate ver
  match ver with
  | .str s =>
    match s with
    | c :: _ =>
      if !Str.isAsciiDigit c then .ok .text
      else
        match Str.splitOn '.' s with
        | [a, b] => do
          let x ← intOfStr a
          let y ← intOfStr b
          if x < 0 || y < 0 then .error .other else .ok (.nums (x.toNat, y.toNat))
        | _ => .error .other                   -- excluded by the validator (exactly one dot)
    | [] => .error .other                      -- excluded by the validator
  | _ => .error .typeError

/-- `version_tuple <op> (a, b)` -/
def gateEval (g : Gate) : VerT → Except Err Bool
  | .nums v => match g.eval? v with
    | some b => .ok b
    | none => .error .other
  | .text => match g.op with
    | .eq => .ok false
    | .ne => .ok true
    | .unknown => .error .other
    | _ => .error .typeError

/-- `".".join(str(i) for i in VERSION)` -/
def currentVersion : Str := Str.natStr Gen.VERSION.1 ++ '.' :: Str.natStr Gen.VERSION.2

/-! ## Compose section -/

structure Compose where
  id : PyVal := .none
  type : PyVal := .none
  date : PyVal := .none
  respin : PyVal := .none
  label : PyVal := .none
  final : PyVal := .bool false
deriving Repr, Inhabited

def Compose.toObj (c : Compose) : Obj :=
  [(L "id", c.id), (L "type", c.type), (L "date", c.date), (L "respin", c.respin), (L "label", c.label), (L "final", c.final)]

def Compose.validate (c : Compose) : Except Err Unit := validateClass "composeinfo.Compose" c.toObj

/-- `Compose.serialize`: the value of `data["compose"]` -/
def Compose.serialize (c : Compose) : Except Err PyVal := do
  c.validate
  let base := [(L "id", c.id), (L "type", c.type), (L "date", c.date), (L "respin", c.respin)]
  .ok (.dict (if c.label.truthy then base ++ [(L "label", c.label), (L "final", c.final)] else base))

/-- `Compose.deserialize(data)` on a fresh object, `data = document["payload"]` -/
def Compose.deserialize (ver : PyVal) (payload : PyVal) : Except Err Compose := do
  let vt ← versionTuple ver
  let old ← gateEval Gen.gate_composeinfo_Compose_deserialize_0 vt
  if old then .error .other                                  -- unmodelled: `deserialize_0_3` (C15's decoder)
  else
    let sec ← item payload (L "compose")
    let id ← item sec (L "id")
    let label0 ← getD sec (L "label") .none
    let type ← item sec (L "type")
    let date ← item sec (L "date")
    let respin ← item sec (L "respin")
    let final0 ← getD sec (L "final") (.bool false)
    let c : Compose := { id, type, date, respin, label := pyOr label0 .none, final := .bool (pyBool final0) }
    c.validate
    .ok c

/-! ## Image -/

structure Image where
  path : PyVal := .none
  mtime : PyVal := .none
  size : PyVal := .none
  volume_id : PyVal := .none
  type : PyVal := .none
  format : PyVal := .none
  arch : PyVal := .none
  disc_number : PyVal := .none
  disc_count : PyVal := .none
  checksums : PyVal := .dict []
  implant_md5 : PyVal := .none
  bootable : PyVal := .bool false
  subvariant : PyVal := .none
  unified : PyVal := .bool false
  additional_variants : PyVal := .list []
deriving Repr, Inhabited

/-- the attributes by name (what `getattr` and the validators see) -/
def Image.toObj (i : Image) : Obj :=
  [(L "path", i.path), (L "mtime", i.mtime), (L "size", i.size), (L "volume_id", i.volume_id), (L "type", i.type),
   (L "format", i.format), (L "arch", i.arch), (L "disc_number", i.disc_number), (L "disc_count", i.disc_count),
   (L "checksums", i.checksums), (L "implant_md5", i.implant_md5), (L "bootable", i.bootable),
   (L "subvariant", i.subvariant), (L "unified", i.unified), (L "additional_variants", i.additional_variants)]

def Image.getattr (i : Image) (name : Str) : PyVal := i.toObj.get name

/-- `Image.validate()`: the rule list translated from the source -/
def Image.validate (i : Image) : Except Err Unit := validateClass "images.Image" i.toObj

/-- the dictionary `Image.serialize` appends (after validating) -/
def Image.dict (i : Image) : PyVal :=
  let base := [(L "path", i.path), (L "mtime", i.mtime), (L "size", i.size), (L "volume_id", i.volume_id), (L "type", i.type),
    (L "format", i.format), (L "arch", i.arch), (L "disc_number", i.disc_number), (L "disc_count", i.disc_count),
    (L "checksums", i.checksums), (L "implant_md5", i.implant_md5), (L "bootable", i.bootable), (L "subvariant", i.subvariant)]
  .dict (if i.unified.truthy then base ++ [(L "unified", i.unified), (L "additional_variants", i.additional_variants)] else base)

def Image.serialize (i : Image) : Except Err PyVal := do
  i.validate
  .ok i.dict

/-- `Image.deserialize(data)` on a fresh object whose parent's header carries `ver` -/
def Image.deserialize (ver : PyVal) (data : PyVal) : Except Err Image := do
  let path ← item data (L "path")
  let mtime ← (item data (L "mtime")).bind pyInt
  let size ← (item data (L "size")).bind pyInt
  let volume_id ← item data (L "volume_id")
  let type ← item data (L "type")
  let format ← getD data (L "format") (.str (L "iso"))
  let arch ← item data (L "arch")
  let disc_number ← (item data (L "disc_number")).bind pyInt
  let disc_count ← (item data (L "disc_count")).bind pyInt
  let checksums ← item data (L "checksums")
  let implant_md5 ← item data (L "implant_md5")
  let bootable ← item data (L "bootable")
  let vt ← versionTuple ver
  let old ← gateEval Gen.gate_images_Image_deserialize_0 vt
  let subvariant ← if old then getD data (L "subvariant") (.str []) else item data (L "subvariant")
  let unified ← getD data (L "unified") (.bool false)
  let additional_variants ← getD data (L "additional_variants") (.list [])
  let i : Image := { path, mtime := .int mtime, size := .int size, volume_id, type, format, arch,
                     disc_number := .int disc_number, disc_count := .int disc_count, checksums, implant_md5,
                     bootable := .bool (pyBool bootable), subvariant, unified, additional_variants }
  i.validate
  .ok i

/-! ## identify_image -/

/-- `identify_image`: the attributes named by the generated list, with the two `or` defaults -/
def identifyWith (get : Str → PyVal) : List PyVal :=
  Gen.UNIQUE_IMAGE_ATTRIBUTES.map fun a =>
    if a == L "unified" then pyOr (get a) (.bool false)
    else if a == L "additional_variants" then pyOr (get a) (.list [])
    else get a

/-- on an `Image` instance (`getattr`) -/
def identifyObj (i : Image) : List PyVal := identifyWith i.getattr

/-- on a plain dict (`image.get(attr, None)`) -/
def identifyDict (d : PyVal) : List PyVal := identifyWith fun a => (d.get? a).getD .none

/-- `identify_image(a) == identify_image(b)` (tuple equality) -/
def identEq (a b : Image) : Bool := pyEq (.list (identifyObj a)) (.list (identifyObj b))

/-- `a.checksums == b.checksums` -/
def ckEq (a b : Image) : Bool := pyEq a.checksums b.checksums

/-! ## The manifest object -/

abbrev Cell := List (Nat × Image)
abbrev Cells := List (Str × List (Str × Cell))

structure ImgState where
  version : PyVal := .str (L "0.0")
  compose : Compose := {}
  cells : Cells := []
deriving Repr, Inhabited

/-- `Images()` -/
def ImgState.fresh : ImgState := {}

/-- every image object reachable from `self.images`, in iteration order (one entry per filing) -/
def Cells.all (cs : Cells) : List Image := cs.flatMap fun va => va.2.flatMap fun ac => ac.2.map (·.2)

def ImgState.all (s : ImgState) : List Image := s.cells.all

/-- `self.images.get(v, {}).get(a, set())` as a list of attribute records -/
def Cells.cell (cs : Cells) (v a : Str) : Cell :=
  match cs.find? (·.1 == v) with
  | some va => match va.2.find? (·.1 == a) with
    | some ac => ac.2
    | none => []
  | none => []

def Cells.records (cs : Cells) (v a : Str) : List Image := (cs.cell v a).map (·.2)

/-- `set.add(obj)`: no effect when the object is already a member -/
def cellAdd (c : Cell) (id : Nat) (img : Image) : Cell :=
  if c.any (·.1 == id) then c else c ++ [(id, img)]

/-- `d.setdefault(a, set()).add(obj)` on the arch level -/
def archAdd : List (Str × Cell) → Str → Nat → Image → List (Str × Cell)
  | [], a, id, img => [(a, [(id, img)])]
  | (a', c) :: rest, a, id, img =>
    if a' == a then (a', cellAdd c id img) :: rest else (a', c) :: archAdd rest a id img

/-- `self.images.setdefault(v, {}).setdefault(a, set()).add(obj)` -/
def cellsAdd : Cells → Str → Str → Nat → Image → Cells
  | [], v, a, id, img => [(v, [(a, [(id, img)])])]
  | (v', as) :: rest, v, a, id, img =>
    if v' == v then (v', archAdd as a id img) :: rest else (v', as) :: cellsAdd rest v a id img

/-- the scan of `Images.add`: some filed image has the same identity and different checksums -/
def conflict (cs : Cells) (img : Image) : Bool :=
  cs.all.any fun cur => identEq cur img && !ckEq cur img

/-- the architectures `Images.add` refuses although they are in the table (literal list read from the source) -/
def refusedArches : List Str := Gen.images_add_refused

/-- one statement: new state of the object and whether it raised -/
def runStep (v a : Str) (id : Nat) (img : Image) (st : AddStep) (s : ImgState) : ImgState × Except Err Unit :=
  match st with
  | .archTable => (s, if Gen.RPM_ARCHES.contains a then .ok () else .error .valueError)
  | .srcRefusal => (s, if refusedArches.contains a then .error .valueError else .ok ())
  | .uniqScan =>
    (s, do
      let vt ← versionTuple s.version
      let on ← gateEval Gen.gate_images_Images_add_0 vt
      if on && conflict s.cells img then .error .valueError else .ok ())
  | .insert => ({ s with cells := cellsAdd s.cells v a id img }, .ok ())
  | .unknown => (s, .error .other)                       -- a statement the translator does not know: no semantics

/-- statements in sequence; an exception stops the sequence and the state is what it was at that point -/
def runSteps (v a : Str) (id : Nat) (img : Image) : List AddStep → ImgState → ImgState × Except Err Unit
  | [], s => (s, .ok ())
  | st :: rest, s =>
    match runStep v a id img st s with
    | (s', .ok ()) => runSteps v a id img rest s'
    | (s', .error e) => (s', .error e)

/-- the body of `Images.add`: the statement list read from the current source -/
def addScript : List AddStep := Gen.images_add_script

/-- `images.add(variant, arch, image)`; `id` is the identity of the image object -/
def add (s : ImgState) (v a : Str) (id : Nat) (img : Image) : ImgState × Except Err Unit :=
  runSteps v a id img addScript s

/-- an operation of a construction history -/
structure AddOp where
  variant : Str
  arch : Str
  id : Nat
  img : Image
deriving Repr

/-- a history step as the caller sees it: the exception is caught, the object lives on -/
def step (s : ImgState) (op : AddOp) : ImgState := (add s op.variant op.arch op.id op.img).1

/-- `Images()` with `header.version` set by the caller -/
def empty (ver : Str) : ImgState := { version := .str ver }

/-! ## serialize -/

/-- the key of `images.sort(key=lambda x: x["path"])` (a string: the image validated before it was appended) -/
def pathKey (d : PyVal) : Str :=
  match d.get? (L "path") with
  | some (.str s) => s
  | _ => []

/-- insertion into a list sorted by path, after every element with a smaller or equal key (stability) -/
def insertByPath (d : PyVal) : List PyVal → List PyVal
  | [] => [d]
  | x :: xs => if Str.lt (pathKey d) (pathKey x) then d :: x :: xs else x :: insertByPath d xs

/-- `list.sort(key=path)`: a stable sort -/
def sortByPath (l : List PyVal) : List PyVal := l.foldl (fun acc d => insertByPath d acc) []

abbrev OutCells := List (Str × List (Str × List PyVal))

/-- `out.setdefault(a, [])`; `image.serialize(list)`; `list.sort(key=path)` on the arch level -/
def outArchAppend : List (Str × List PyVal) → Str → PyVal → List (Str × List PyVal)
  | [], a, d => [(a, sortByPath [d])]
  | (a', l) :: rest, a, d =>
    if a' == a then (a', sortByPath (l ++ [d])) :: rest else (a', l) :: outArchAppend rest a d

def outAppend : OutCells → Str → Str → PyVal → OutCells
  | [], v, a, d => [(v, [(a, sortByPath [d])])]
  | (v', as) :: rest, v, a, d =>
    if v' == v then (v', outArchAppend as a d) :: rest else (v', as) :: outAppend rest v a d

def serializeCell (v a : Str) : Cell → OutCells → Except Err OutCells
  | [], out => .ok out
  | (_, img) :: rest, out => do
    let d ← img.serialize
    serializeCell v a rest (outAppend out v a d)

def serializeArches (v : Str) : List (Str × Cell) → OutCells → Except Err OutCells
  | [], out => .ok out
  | (a, c) :: rest, out => do
    let out' ← serializeCell v a c out
    serializeArches v rest out'

def serializeCells : Cells → OutCells → Except Err OutCells
  | [], out => .ok out
  | (v, as) :: rest, out => do
    let out' ← serializeArches v as out
    serializeCells rest out'

def OutCells.toPy (o : OutCells) : PyVal :=
  .dict (o.map fun va => (va.1, .dict (va.2.map fun al => (al.1, .list al.2))))

/-- `Images.serialize(parser)`: the document, and the object afterwards (`header.serialize` sets the current
version before anything can fail) -/
def serialize (s : ImgState) : ImgState × Except Err PyVal :=
  let s' := { s with version := .str currentVersion }
  (s', do
    headerValidate s'.version
    let hdr := PyVal.dict [(L "type", .str Gen.HEADER_TYPE_Images), (L "version", s'.version)]
    let comp ← s.compose.serialize
    let out ← serializeCells s.cells []
    .ok (.dict [(L "header", hdr), (L "payload", .dict [(L "images", out.toPy), (L "compose", comp)])]))

/-- `Images.dumps()`: text of `json.dump(…, indent=4, sort_keys=True)` -/
def dumps (s : ImgState) : ImgState × Except Err Str :=
  match validateClass "images.Images" [] with            -- `dump` starts with `self.validate()` (no rules for Images)
  | .error e => (s, .error e)
  | .ok () =>
    match serialize s with
    | (s', .ok doc) => (s', if jsonSafe doc then .ok (JsonText.dumps doc) else .error .typeError)
    | (s', .error e) => (s', .error e)

/-! ## deserialize -/

/-- `self.add(variant, arch, image)` with the keys as they come out of the document -/
def addPy (s : ImgState) (variant arch : PyVal) (id : Nat) (img : Image) : Except Err ImgState :=
  match arch with
  | .str a =>
    match variant with
    | .str v =>
      match add s v a id img with
      | (s', .ok ()) => .ok s'
      | (_, .error e) => .error e
    | _ =>
      if !Gen.RPM_ARCHES.contains a || refusedArches.contains a then .error .valueError
      else .error .other                                 -- unmodelled: a variant key that is not a string
  | _ => .error .valueError                              -- `arch not in RPM_ARCHES`

/-- `_add_1_1`'s loop over the variant's arches -/
def refile (s : ImgState) (variant : PyVal) (id : Nat) (img : Image) : List PyVal → Except Err ImgState
  | [] => .ok s
  | va :: rest =>
    if pyEq va (.str (L "src")) then refile s variant id img rest
    else do
      let s' ← addPy s variant va id img
      refile s' variant id img rest

/-- where a freshly read image goes: `_add_1_1` for old documents (a `src` entry is re-filed under the variant's
other arches), `add` otherwise -/
def fileLoaded (old : Bool) (s : ImgState) (images variant arch : PyVal) (n : Nat) (img : Image) : Except Err ImgState :=
  if old then
    if pyEq arch (.str (L "src")) then
      (subscript images variant).bind iter >>= fun archs => refile s variant n img archs
    else addPy s variant arch n img
  else addPy s variant arch n img

/-- the images of one `(variant, arch)` entry; `n` counts the objects created so far (fresh identities) -/
def loadCell (ver : PyVal) (images variant arch : PyVal) : List PyVal → ImgState × Nat → Except Err (ImgState × Nat)
  | [], acc => .ok acc
  | d :: rest, (s, n) => do
    let img ← Image.deserialize ver d
    let vt ← versionTuple ver
    let old ← gateEval Gen.gate_images_Images_deserialize_0 vt
    let s' ← fileLoaded old s images variant arch n img
    loadCell ver images variant arch rest (s', n + 1)

def loadArches (ver : PyVal) (images variant archs : PyVal) : List PyVal → ImgState × Nat → Except Err (ImgState × Nat)
  | [], acc => .ok acc
  | a :: rest, acc => do
    let cell ← (subscript archs a).bind iter
    let acc' ← loadCell ver images variant a cell acc
    loadArches ver images variant archs rest acc'

def loadVariants (ver : PyVal) (images : PyVal) : List PyVal → ImgState × Nat → Except Err (ImgState × Nat)
  | [], acc => .ok acc
  | v :: rest, acc => do
    let archs ← subscript images v
    let keys ← iter archs
    let acc' ← loadArches ver images v archs keys acc
    loadVariants ver images rest acc'

/-- `Header.deserialize` for the images header; returns the version read -/
def headerDeserialize (doc : PyVal) : Except Err PyVal := do
  let hdr ← item doc (L "header")
  let ver ← item hdr (L "version")
  let vt ← versionTuple ver
  let typed ← gateEval Gen.gate_common_Header_deserialize_0 vt
  if typed then
    let ty ← item hdr (L "type")
    if !pyEq ty (.str Gen.HEADER_TYPE_Images) then throw Err.valueError
  headerValidate ver
  .ok ver

/-- `Images.deserialize(doc)` on a fresh object -/
def deserialize (doc : PyVal) : Except Err ImgState := do
  let ver ← headerDeserialize doc
  let payload ← item doc (L "payload")
  let comp ← Compose.deserialize ver payload
  let images ← item payload (L "images")
  let vs ← iter images
  let (s, _) ← loadVariants ver images vs ({ version := ver, compose := comp, cells := [] }, 0)
  .ok { s with version := .str currentVersion }

/-- `Images.deserialize(doc)` on an object that is already in use: the header version and the compose section are
replaced, the images of the document are ADDED to the ones present (`self.images` is not cleared), each through
`add` under the document's version; `n0` = first fresh object identity.  (The successful outcome only; `loadsInto`
below is the total version that also returns the object an exception leaves behind.) -/
def deserializeInto (s0 : ImgState) (n0 : Nat) (doc : PyVal) : Except Err ImgState := do
  let ver ← headerDeserialize doc
  let payload ← item doc (L "payload")
  let comp ← Compose.deserialize ver payload
  let images ← item payload (L "images")
  let vs ← iter images
  let (s, _) ← loadVariants ver images vs ({ version := ver, compose := comp, cells := s0.cells }, n0)
  .ok { s with version := .str currentVersion }

/-! ## `loads` into an object in use as a TOTAL step: the object as the code leaves it, also after an exception

`Images.deserialize` assigns as it goes: `header.version` first (before it is even validated), then the compose
fields one by one, then every image through `add` — `self.images` is never cleared and nothing is rolled back.  The
functions below return the state at the point of the exception. -/

/-- `Header.deserialize` on an object whose header carries `v0`: `self.version = data["header"]["version"]` is the
first statement, everything that can fail afterwards fails with the new value in place -/
def headerDeserializeInto (v0 : PyVal) (doc : PyVal) : PyVal × Except Err Unit :=
  match (item doc (L "header")).bind (fun h => item h (L "version")) with
  | .error e => (v0, .error e)
  | .ok ver => (ver, (headerDeserialize doc).map fun _ => ())

/-- `Compose.deserialize(data)` on the object's own compose section `c0`: attribute by attribute, in the order of
`deserialize_1_0`; the final `validate()` fails with every field already assigned -/
def Compose.deserializeInto (c0 : Compose) (ver : PyVal) (payload : PyVal) : Compose × Except Err Unit :=
  match (versionTuple ver).bind (gateEval Gen.gate_composeinfo_Compose_deserialize_0) with
  | .error e => (c0, .error e)
  | .ok true => (c0, .error .other)                           -- unmodelled: `deserialize_0_3` (C15's decoder)
  | .ok false =>
    match (item payload (L "compose")).bind (fun sec => (item sec (L "id")).map fun id => (sec, id)) with
    | .error e => (c0, .error e)
    | .ok (sec, id) =>
      let c1 := { c0 with id := id }
      match getD sec (L "label") .none with
      | .error e => (c1, .error e)
      | .ok label0 =>
        let c2 := { c1 with label := pyOr label0 .none }
        match item sec (L "type") with
        | .error e => (c2, .error e)
        | .ok type =>
          let c3 := { c2 with type := type }
          match item sec (L "date") with
          | .error e => (c3, .error e)
          | .ok date =>
            let c4 := { c3 with date := date }
            match item sec (L "respin") with
            | .error e => (c4, .error e)
            | .ok respin =>
              let c5 := { c4 with respin := respin }
              match getD sec (L "final") (.bool false) with
              | .error e => (c5, .error e)
              | .ok final0 =>
                let c6 := { c5 with final := .bool (pyBool final0) }
                (c6, c6.validate)

/-- `self.add(variant, arch, image)` with the keys as they come out of the document; the object survives -/
def addPyT (s : ImgState) (variant arch : PyVal) (id : Nat) (img : Image) : ImgState × Except Err Unit :=
  match arch with
  | .str a =>
    match variant with
    | .str v => add s v a id img
    | _ => (s, if !Gen.RPM_ARCHES.contains a || refusedArches.contains a then .error .valueError else .error .other)
  | _ => (s, .error .valueError)

/-- `_add_1_1`'s loop: an exception in the middle leaves the image filed under the arches already visited -/
def refileT (s : ImgState) (variant : PyVal) (id : Nat) (img : Image) : List PyVal → ImgState × Except Err Unit
  | [] => (s, .ok ())
  | va :: rest =>
    if pyEq va (.str (L "src")) then refileT s variant id img rest
    else
      match addPyT s variant va id img with
      | (s', .ok ()) => refileT s' variant id img rest
      | (s', .error e) => (s', .error e)

def fileLoadedT (old : Bool) (s : ImgState) (images variant arch : PyVal) (n : Nat) (img : Image) : ImgState × Except Err Unit :=
  if old then
    if pyEq arch (.str (L "src")) then
      match (subscript images variant).bind iter with
      | .ok archs => refileT s variant n img archs
      | .error e => (s, .error e)
    else addPyT s variant arch n img
  else addPyT s variant arch n img

/-- what is read of one image dictionary before it is filed -/
def readLoaded (ver : PyVal) (d : PyVal) : Except Err (Image × Bool) := do
  let img ← Image.deserialize ver d
  let vt ← versionTuple ver
  let old ← gateEval Gen.gate_images_Images_deserialize_0 vt
  .ok (img, old)

def loadCellT (ver : PyVal) (images variant arch : PyVal) : List PyVal → ImgState × Nat → (ImgState × Nat) × Except Err Unit
  | [], acc => (acc, .ok ())
  | d :: rest, (s, n) =>
    match readLoaded ver d with
    | .error e => ((s, n + 1), .error e)
    | .ok (img, old) =>
      match fileLoadedT old s images variant arch n img with
      | (s', .ok ()) => loadCellT ver images variant arch rest (s', n + 1)
      | (s', .error e) => ((s', n + 1), .error e)

def loadArchesT (ver : PyVal) (images variant archs : PyVal) : List PyVal → ImgState × Nat → (ImgState × Nat) × Except Err Unit
  | [], acc => (acc, .ok ())
  | a :: rest, acc =>
    match (subscript archs a).bind iter with
    | .error e => (acc, .error e)
    | .ok cell =>
      match loadCellT ver images variant a cell acc with
      | (acc', .ok ()) => loadArchesT ver images variant archs rest acc'
      | (acc', .error e) => (acc', .error e)

def loadVariantsT (ver : PyVal) (images : PyVal) : List PyVal → ImgState × Nat → (ImgState × Nat) × Except Err Unit
  | [], acc => (acc, .ok ())
  | v :: rest, acc =>
    match (subscript images v).bind (fun archs => (iter archs).map fun keys => (archs, keys)) with
    | .error e => (acc, .error e)
    | .ok (archs, keys) =>
      match loadArchesT ver images v archs keys acc with
      | (acc', .ok ()) => loadVariantsT ver images rest acc'
      | (acc', .error e) => (acc', .error e)

/-- `images.loads(text)` on an object in use (`doc` = the parsed text; a text that does not parse leaves the object
untouched and is outside the model): the object afterwards — whatever happened — and whether the call raised.
On success the header carries the current version; on failure it carries whatever `Header.deserialize` assigned
(the document's version, valid or not), the compose fields assigned so far, and the images present before plus the
ones filed before the exception. -/
def loadsInto (s0 : ImgState) (n0 : Nat) (doc : PyVal) : ImgState × Except Err Unit :=
  match headerDeserializeInto s0.version doc with
  | (ver, .error e) => ({ s0 with version := ver }, .error e)
  | (ver, .ok ()) =>
    let s1 : ImgState := { s0 with version := ver }
    match item doc (L "payload") with
    | .error e => (s1, .error e)
    | .ok payload =>
      match Compose.deserializeInto s0.compose ver payload with
      | (c, .error e) => ({ s1 with compose := c }, .error e)
      | (c, .ok ()) =>
        let s2 : ImgState := { s1 with compose := c }
        match (item payload (L "images")).bind (fun images => (iter images).map fun vs => (images, vs)) with
        | .error e => (s2, .error e)
        | .ok (images, vs) =>
          match loadVariantsT ver images vs (s2, n0) with
          | (acc, .error e) => (acc.1, .error e)
          | (acc, .ok ()) => ({ acc.1 with version := .str currentVersion }, validateClass "images.Images" [])

/-- an operation of a history that may cross the version gate -/
inductive HOp where
  | add (op : AddOp)                       -- `images.add(variant, arch, image)`
  | dumps                                  -- `images.dumps()`: sets the header to the current version
  | setVersion (v : PyVal)                 -- `images.header.version = v`
  | loads (doc : PyVal) (n0 : Nat)         -- `images.loads(text)` into the same object
  | discard (v a : Str) (id : Nat)         -- `images[v][a].discard(obj)`: the bucket stays, possibly empty
  | delVariant (v : Str)                   -- `del images[v]`
deriving Repr

/-- `images[v][a].discard(obj)` on the table (no effect when the bucket or the object is absent: the harness only
issues it for existing buckets) -/
def cellsDiscard (cs : Cells) (v a : Str) (id : Nat) : Cells :=
  cs.map fun va => if va.1 == v then (va.1, va.2.map fun ac => if ac.1 == a then (ac.1, ac.2.filter fun e => e.1 != id) else ac) else va

/-- `del images[v]` -/
def cellsDelVariant (cs : Cells) (v : Str) : Cells := cs.filter fun va => va.1 != v

/-- one step of such a history: the object afterwards and whether the call raised; total — after a failed `loads`
the object is in the state `loadsInto` describes and the history goes on -/
def hstep (s : ImgState) : HOp → ImgState × Except Err Unit
  | .add op => add s op.variant op.arch op.id op.img
  | .dumps => ((dumps s).1, match (dumps s).2 with | .ok _ => .ok () | .error e => .error e)
  | .setVersion v => ({ s with version := v }, .ok ())
  | .loads doc n0 => loadsInto s n0 doc
  | .discard v a id => ({ s with cells := cellsDiscard s.cells v a id }, .ok ())
  | .delVariant v => ({ s with cells := cellsDelVariant s.cells v }, .ok ())

/-- `Images.loads` on the parsed text (`json.load` is outside the model); the final `validate()` has no rules to
run for `Images` (checked against the generated inventory in `Properties/C02.lean`) -/
def loads (doc : PyVal) : Except Err ImgState := do
  let s ← deserialize doc
  validateClass "images.Images" []
  .ok s

end PM.Img
