import ProductMD.Model.Builders
/-!
The ORDER-SENSITIVE cell an `add` call of the three manifest builders writes (C08, histories): two calls whose cells differ - or
one of which is refused by the precondition checks and so has no cell - may be swapped without changing the mapping beyond the
order of dict entries (`Properties/C08.lean`, `C08_perm_history_*`).  Core Lean only; exposed to the harness as the driver op
`c08_history` (Driver/OpsC08Hist.lean), which is where the check's generator of rearranged histories takes its cells from.
-/
namespace PM.Mf

/-- the slot an accepted `Rpms.add` call writes: `rpms[variant][arch][srpm][nevra]`; a refused call writes nothing -/
def rpmsSlot (a : RpmsArgs) : Option (List Str) :=
  match rpmsCheck a with
  | .ok p => some [a.variant, a.arch, p.srpmKey, p.key]
  | .error _ => none

/-- the entry an accepted `Modules.add` call extends: `modules[variant][arch][uid]` -/
def modulesSlot (a : ModulesArgs) : Option (List Str) :=
  match modulesCheck a with
  | .ok p => some [a.variant, a.arch, p.uid]
  | .error _ => none

/-- the entry list an accepted `ExtraFiles.add` call appends to: `extra_files[variant][arch]` -/
def extraSlot (a : ExtraArgs) : Option (List Str) :=
  match extraCheck a with
  | .ok _ => some [a.variant, a.arch]
  | .error _ => none

def AddOp.slot : AddOp → Option (List Str)
  | .rpms a => rpmsSlot a
  | .modules a => modulesSlot a
  | .extra a => extraSlot a

end PM.Mf
