import ProductMD.Model.HashMD
/-!
# The streaming law of block-buffered hashes (C16)

For EVERY block size > 0, EVERY compression function and all byte strings:
`update (update h a) b = update h (a ++ b)`, `update h [] = h` (for hash objects whose pending buffer is shorter
than a block – the initial object and every object `update` returns), and hence feeding any list of chunks one by
one gives the same object as feeding their concatenation at once.  No bound on sizes; nothing is assumed of `compress`.
-/
namespace PM
namespace HashMD

variable {S : Type}

/-! ### `absorb`: enough fuel is enough -/

theorem absorb_small (bs : Nat) (f : S → Bytes → S) (fuel : Nat) (s : S) (buf : Bytes) (h : buf.length < bs) :
    absorb bs f fuel s buf = (s, buf) := by
  cases fuel with
  | zero => rfl
  | succ n =>
    have : (buf.take bs).length ≠ bs := by simp only [List.length_take]; omega
    simp only [absorb, this, if_false]

theorem absorb_step (bs : Nat) (f : S → Bytes → S) (fuel : Nat) (s : S) (buf : Bytes) (h : bs ≤ buf.length) :
    absorb bs f (fuel + 1) s buf = absorb bs f fuel (f s (buf.take bs)) (buf.drop bs) := by
  have : (buf.take bs).length = bs := by simp only [List.length_take]; omega
  simp only [absorb, this, if_true]

theorem absorb_fuel (bs : Nat) (hbs : 0 < bs) (f : S → Bytes → S) :
    ∀ (f1 f2 : Nat) (s : S) (buf : Bytes), buf.length ≤ f1 → buf.length ≤ f2 → absorb bs f f1 s buf = absorb bs f f2 s buf := by
  intro f1
  induction f1 with
  | zero =>
    intro f2 s buf h1 _
    rw [absorb_small bs f 0 s buf (by omega), absorb_small bs f f2 s buf (by omega)]
  | succ n ih =>
    intro f2 s buf h1 h2
    by_cases hb : bs ≤ buf.length
    · cases f2 with
      | zero => omega
      | succ m =>
        rw [absorb_step bs f n s buf hb, absorb_step bs f m s buf hb]
        exact ih m _ _ (by simp only [List.length_drop]; omega) (by simp only [List.length_drop]; omega)
    · rw [absorb_small bs f _ s buf (by omega), absorb_small bs f f2 s buf (by omega)]

theorem absorbAll_small (bs : Nat) (f : S → Bytes → S) (s : S) (buf : Bytes) (h : buf.length < bs) :
    absorbAll bs f s buf = (s, buf) := absorb_small bs f _ s buf h

theorem absorbAll_step (bs : Nat) (hbs : 0 < bs) (f : S → Bytes → S) (s : S) (buf : Bytes) (h : bs ≤ buf.length) :
    absorbAll bs f s buf = absorbAll bs f (f s (buf.take bs)) (buf.drop bs) := by
  unfold absorbAll
  obtain ⟨n, hn⟩ : ∃ n, buf.length = n + 1 := ⟨buf.length - 1, by omega⟩
  rw [hn, absorb_step bs f n s buf h]
  exact absorb_fuel bs hbs f _ _ _ _ (by simp only [List.length_drop]; omega) (Nat.le_refl _)

/-- what stays pending is shorter than a block: exactly `length mod blockSize` bytes -/
theorem absorbAll_pending (bs : Nat) (hbs : 0 < bs) (f : S → Bytes → S) :
    ∀ (n : Nat) (s : S) (buf : Bytes), buf.length ≤ n → (absorbAll bs f s buf).2.length = buf.length % bs := by
  intro n
  induction n with
  | zero =>
    intro s buf h
    rw [absorbAll_small bs f s buf (by omega)]
    show buf.length = buf.length % bs
    exact (Nat.mod_eq_of_lt (by omega)).symm
  | succ n ih =>
    intro s buf h
    by_cases hb : bs ≤ buf.length
    · rw [absorbAll_step bs hbs f s buf hb, ih _ _ (by simp only [List.length_drop]; omega), List.length_drop]
      exact (Nat.mod_eq_sub_mod hb).symm
    · rw [absorbAll_small bs f s buf (by omega)]
      show buf.length = buf.length % bs
      exact (Nat.mod_eq_of_lt (by omega)).symm

theorem absorbAll_pending_lt (bs : Nat) (hbs : 0 < bs) (f : S → Bytes → S) (s : S) (buf : Bytes) :
    (absorbAll bs f s buf).2.length < bs := by
  rw [absorbAll_pending bs hbs f buf.length s buf (Nat.le_refl _)]
  exact Nat.mod_lt _ hbs

/-- the heart of the streaming law: absorbing `x ++ y` = absorbing `x`, then what was left of `x` followed by `y` -/
theorem absorbAll_append (bs : Nat) (hbs : 0 < bs) (f : S → Bytes → S) :
    ∀ (n : Nat) (s : S) (x y : Bytes), x.length ≤ n →
      absorbAll bs f s (x ++ y) = absorbAll bs f (absorbAll bs f s x).1 ((absorbAll bs f s x).2 ++ y) := by
  intro n
  induction n with
  | zero =>
    intro s x y h
    have : x = [] := List.eq_nil_of_length_eq_zero (by omega)
    subst this
    rw [absorbAll_small bs f s [] (by simpa using hbs)]
  | succ n ih =>
    intro s x y h
    by_cases hb : bs ≤ x.length
    · rw [absorbAll_step bs hbs f s (x ++ y) (by simp only [List.length_append]; omega),
        absorbAll_step bs hbs f s x hb, List.take_append_of_le_length hb, List.drop_append_of_le_length hb]
      exact ih _ _ _ (by simp only [List.length_drop]; omega)
    · rw [absorbAll_small bs f s x (by omega)]

/-! ### the laws of the hash object -/

/-- **streaming law**, for every hash object whatsoever -/
theorem update_update (A : Alg S) (hbs : 0 < A.blockSize) (h : State S) (a b : Bytes) :
    update A (update A h a) b = update A h (a ++ b) := by
  simp only [update, ← List.append_assoc, List.length_append, Nat.add_assoc]
  rw [absorbAll_append A.blockSize hbs A.compress (h.pending ++ a).length h.cv (h.pending ++ a) b (Nat.le_refl _)]

/-- well-formed hash objects: less than one block pending -/
def State.WF (A : Alg S) (h : State S) : Prop := h.pending.length < A.blockSize

theorem init_wf (A : Alg S) (hbs : 0 < A.blockSize) : (init A).WF A := by
  simpa [State.WF, init] using hbs

theorem update_wf (A : Alg S) (hbs : 0 < A.blockSize) (h : State S) (a : Bytes) : (update A h a).WF A :=
  absorbAll_pending_lt A.blockSize hbs A.compress h.cv (h.pending ++ a)

/-- **unit law**: feeding nothing changes nothing -/
theorem update_nil (A : Alg S) (h : State S) (hw : h.WF A) : update A h [] = h := by
  cases h with
  | mk cv p t =>
    simp only [update, List.append_nil, List.length_nil, Nat.add_zero]
    rw [absorbAll_small A.blockSize A.compress cv p hw]

/-- feeding chunks one after the other = feeding their concatenation -/
theorem foldl_update (A : Alg S) (hbs : 0 < A.blockSize) (chunks : List Bytes) (h : State S) (hw : h.WF A) :
    chunks.foldl (update A) h = update A h chunks.flatten := by
  induction chunks generalizing h with
  | nil => simp only [List.foldl_nil, List.flatten_nil]; exact (update_nil A h hw).symm
  | cons c rest ih =>
    simp only [List.foldl_cons, List.flatten_cons]
    rw [ih _ (update_wf A hbs h c), update_update A hbs]

/-- hence: any chunking of a message gives the digest of the message -/
theorem digest_foldl_update (A : Alg S) (hbs : 0 < A.blockSize) (chunks : List Bytes) :
    digest A (chunks.foldl (update A) (init A)) = hashBytes A chunks.flatten := by
  rw [foldl_update A hbs chunks (init A) (init_wf A hbs)]
  rfl

/-- the one-shot semantics spelled out: all complete blocks folded into the chaining value, the rest
(`length mod blockSize` bytes) and the length handed to the finaliser -/
theorem hashBytes_eq (A : Alg S) (data : Bytes) :
    hashBytes A data = A.finish (absorbAll A.blockSize A.compress A.iv data).1
      (absorbAll A.blockSize A.compress A.iv data).2 data.length := by
  simp [hashBytes, digest, update, init]

/-! ### Merkle–Damgård padding -/

theorem natToBytesLE_length : ∀ (k n : Nat), (natToBytesLE n k).length = k := by
  intro k
  induction k with
  | zero => intro n; rfl
  | succ k ih => intro n; simp [natToBytesLE, ih]

theorem mdPad_length (bs lb : Nat) (be : Bool) (pending : Bytes) (total : Nat) :
    (mdPad bs lb be pending total).length
      = pending.length + 1 + lb + (bs - (pending.length + 1 + lb) % bs) % bs := by
  unfold mdPad
  cases be <;> simp [natToBytesBE, natToBytesLE_length] <;> omega

/-- the padded tail is a whole number of blocks, the smallest one that holds pending ++ 0x80 ++ length -/
theorem mdPad_blocks (bs lb : Nat) (hbs : 0 < bs) (be : Bool) (pending : Bytes) (total : Nat) :
    (mdPad bs lb be pending total).length % bs = 0
    ∧ pending.length + 1 + lb ≤ (mdPad bs lb be pending total).length
    ∧ (mdPad bs lb be pending total).length < pending.length + 1 + lb + bs := by
  rw [mdPad_length]
  generalize pending.length + 1 + lb = n
  have hd := Nat.div_add_mod n bs
  have hr : n % bs < bs := Nat.mod_lt _ hbs
  by_cases h0 : n % bs = 0
  · rw [h0, Nat.sub_zero, Nat.mod_self, Nat.add_zero]
    exact ⟨h0, Nat.le_refl _, by omega⟩
  · have hk : (bs - n % bs) % bs = bs - n % bs := Nat.mod_eq_of_lt (by omega)
    rw [hk]
    refine ⟨?_, by omega, by omega⟩
    have : n + (bs - n % bs) = bs * (n / bs + 1) := by rw [Nat.mul_add, Nat.mul_one]; omega
    rw [this, Nat.mul_mod_right]

/-- absorbing a whole number of blocks leaves nothing pending -/
theorem mdFinish_consumes {S : Type} (bs lb : Nat) (hbs : 0 < bs) (be : Bool) (f : S → Bytes → S) (cv : S) (pending : Bytes) (total : Nat) :
    (absorbAll bs f cv (mdPad bs lb be pending total)).2 = [] := by
  apply List.eq_nil_of_length_eq_zero
  rw [absorbAll_pending bs hbs f _ cv _ (Nat.le_refl _)]
  exact (mdPad_blocks bs lb hbs be pending total).1

theorem mdPad_prefix (bs lb : Nat) (be : Bool) (pending : Bytes) (total : Nat) :
    pending ++ [0x80] <+: mdPad bs lb be pending total := by
  unfold mdPad
  refine ⟨List.replicate ((bs - (pending.length + 1 + lb) % bs) % bs) 0 ++ (if be then natToBytesBE (total * 8) lb else natToBytesLE (total * 8) lb), ?_⟩
  simp

end HashMD
end PM
