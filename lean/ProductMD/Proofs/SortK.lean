import ProductMD.Model.SortK
/-! `sortK` is a permutation, is sorted, and two permutations with pairwise distinct keys sort to the same list
(the canonical-order lemma behind every "output does not depend on construction order" theorem). Core Lean only. -/
namespace PM

theorem inj_of_nodup_map' {α β} (f : α → β) : ∀ {l : List α}, (l.map f).Nodup →
    ∀ {a b}, a ∈ l → b ∈ l → f a = f b → a = b := by
  intro l
  induction l with
  | nil => intro _ a b ha; cases ha
  | cons x xs ih =>
    intro hn a b ha hb hab
    simp only [List.map_cons, List.nodup_cons] at hn
    cases ha with
    | head =>
      cases hb with
      | head => rfl
      | tail _ hb' => exact absurd (List.mem_map.mpr ⟨b, hb', hab.symm⟩) hn.1
    | tail _ ha' =>
      cases hb with
      | head => exact absurd (List.mem_map.mpr ⟨a, ha', hab⟩) hn.1
      | tail _ hb' => exact ih hn.2 ha' hb' hab

variable {α : Type}

theorem insertK_perm (kv : Str × α) : ∀ l, (insertK kv l).Perm (kv :: l) := by
  intro l
  induction l with
  | nil => simp [insertK]
  | cons x xs ih =>
    simp only [insertK]
    split
    · exact List.Perm.refl _
    · exact (List.Perm.cons x ih).trans (List.Perm.swap kv x xs)

theorem sortK_perm : ∀ l : List (Str × α), (sortK l).Perm l := by
  intro l
  induction l with
  | nil => simp [sortK]
  | cons x xs ih =>
    simp only [sortK, List.foldr_cons]
    exact (insertK_perm x _).trans (List.Perm.cons x ih)

def KLe' (a b : Str × α) : Prop := a.1 ≤ b.1

theorem insertK_sorted (kv : Str × α) : ∀ l, l.Pairwise KLe' → (insertK kv l).Pairwise KLe' := by
  intro l
  induction l with
  | nil => intro _; simp [insertK]
  | cons x xs ih =>
    intro h
    simp only [insertK]
    have hx := List.pairwise_cons.mp h
    cases hlt : Str.lt kv.1 x.1 with
    | true =>
      have hle : kv.1 ≤ x.1 := by
        simp only [Str.lt, decide_eq_true_eq] at hlt; exact List.le_of_lt hlt
      simp only [if_true]
      refine List.pairwise_cons.mpr ⟨?_, h⟩
      intro y hy
      cases hy with
      | head => exact hle
      | tail _ hy' => exact List.le_trans hle (hx.1 y hy')
    | false =>
      have hle : x.1 ≤ kv.1 := by
        simp only [Str.lt, decide_eq_false_iff_not] at hlt; exact List.not_lt.mp hlt
      simp only [Bool.false_eq_true, if_false]
      refine List.pairwise_cons.mpr ⟨?_, ih hx.2⟩
      intro y hy
      rcases List.mem_cons.mp ((insertK_perm kv xs).mem_iff.mp hy) with hy | hy
      · subst hy; exact hle
      · exact hx.1 y hy

theorem sortK_sorted : ∀ l : List (Str × α), (sortK l).Pairwise KLe' := by
  intro l
  induction l with
  | nil => simp [sortK]
  | cons x xs ih =>
    simp only [sortK, List.foldr_cons]
    exact insertK_sorted x _ ih

/-- two permutations with pairwise distinct keys sort to the same list -/
theorem sortK_perm_eq {l₁ l₂ : List (Str × α)} (hp : l₁.Perm l₂) (hd : (l₁.map (·.1)).Nodup) :
    sortK l₁ = sortK l₂ := by
  have perm : (sortK l₁).Perm (sortK l₂) := (sortK_perm l₁).trans (hp.trans (sortK_perm l₂).symm)
  apply List.Perm.eq_of_pairwise (le := KLe') _ (sortK_sorted l₁) (sortK_sorted l₂) perm
  intro a b ha hb hab hba
  have hkey : a.1 = b.1 := List.le_antisymm hab hba
  have ha' : a ∈ l₁ := (sortK_perm l₁).mem_iff.mp ha
  have hb' : b ∈ l₁ := hp.mem_iff.mpr ((sortK_perm l₂).mem_iff.mp hb)
  exact inj_of_nodup_map' (·.1) hd ha' hb' hkey

/-- sorting strings: permutations of a duplicate-free list sort to the same list -/
theorem sortStrs_perm_eq {l₁ l₂ : List Str} (hp : l₁.Perm l₂) (hd : l₁.Nodup) : sortStrs l₁ = sortStrs l₂ := by
  unfold sortStrs
  congr 1
  apply sortK_perm_eq (hp.map _)
  have : (l₁.map fun s => (s, ())).map (·.1) = l₁ := by simp [List.map_map, Function.comp_def]
  rw [this]; exact hd

end PM
