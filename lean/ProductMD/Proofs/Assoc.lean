import ProductMD.Proofs.IniLemmas
/-! `List.lookup` on association lists with string keys (a Python dict as a list of entries): membership vs lookup. -/
namespace PM
namespace Assoc
open Ini

variable {α : Type}

theorem lookup_of_mem_nodup {l : List (Str × α)} (hn : (l.map (·.1)).Nodup) {k : Str} {v : α} (hm : (k, v) ∈ l) :
    l.lookup k = some v := by
  induction l with
  | nil => cases hm
  | cons x xs ih =>
    obtain ⟨a, b⟩ := x
    simp only [List.map_cons, List.nodup_cons] at hn
    rw [lookup_cons_eq]
    cases hm with
    | head => simp
    | tail _ h =>
      have : ¬ a = k := by
        intro e; subst e
        exact hn.1 (List.mem_map.mpr ⟨(a, v), h, rfl⟩)
      simp [this, ih hn.2 h]

theorem mem_of_lookup {l : List (Str × α)} {k : Str} {v : α} (h : l.lookup k = some v) : (k, v) ∈ l := by
  induction l with
  | nil => simp [List.lookup] at h
  | cons x xs ih =>
    obtain ⟨a, b⟩ := x
    rw [lookup_cons_eq] at h
    by_cases hx : a = k
    · simp only [hx, if_true, Option.some.injEq] at h
      subst hx; subst h
      exact List.mem_cons_self
    · simp only [hx, if_false] at h
      exact List.mem_cons_of_mem _ (ih h)

theorem lookup_none_iff {l : List (Str × α)} {k : Str} : l.lookup k = none ↔ k ∉ l.map (·.1) := by
  induction l with
  | nil => simp [List.lookup]
  | cons x xs ih =>
    obtain ⟨a, b⟩ := x
    rw [lookup_cons_eq]
    by_cases hx : a = k
    · simp [hx]
    · have : ¬ k = a := fun e => hx e.symm
      simp [hx, ih, this]

theorem lookup_isSome_iff {l : List (Str × α)} {k : Str} : (l.lookup k).isSome ↔ k ∈ l.map (·.1) := by
  cases h : l.lookup k with
  | none => simp [lookup_none_iff.mp h]
  | some v =>
    have := mem_of_lookup h
    simp only [Option.isSome_some, true_iff]
    exact List.mem_map.mpr ⟨(k, v), this, rfl⟩

theorem exists_of_mem_keys {l : List (Str × α)} {k : Str} (h : k ∈ l.map (·.1)) : ∃ v, l.lookup k = some v := by
  have := lookup_isSome_iff.mpr h
  exact Option.isSome_iff_exists.mp this

/-- lookup through a value map -/
theorem lookup_map {β} (f : α → β) (l : List (Str × α)) (k : Str) :
    (l.map fun kv => (kv.1, f kv.2)).lookup k = (l.lookup k).map f := by
  induction l with
  | nil => rfl
  | cons x xs ih =>
    obtain ⟨a, b⟩ := x
    simp only [List.map_cons]
    rw [lookup_cons_eq, lookup_cons_eq]
    by_cases hx : a = k <;> simp [hx, ih]

end Assoc
end PM
