import ProductMD.Proofs.ForestUnique
import ProductMD.Model.ForestDel
/-! lemmas about `VariantBase.__delitem__` (`Model/ForestDel.lean`) for `Properties/C11.lean` -/
namespace PM.Forest

/-! ### `del d[k]` -/

theorem derase_sublist (k : Str) : ∀ l : List (Str × Nat), (derase k l).Sublist l
  | [] => List.Sublist.slnil
  | kv :: r => by
    unfold derase
    split
    · exact List.sublist_cons_self _ _
    · exact (derase_sublist k r).cons_cons _

theorem mem_of_mem_derase {k : Str} {l : List (Str × Nat)} {x : Str × Nat} (h : x ∈ derase k l) : x ∈ l :=
  (derase_sublist k l).subset h

theorem mem_derase_of_ne {k k' : Str} {w : Nat} : ∀ {l : List (Str × Nat)}, (k', w) ∈ l → k' ≠ k → (k', w) ∈ derase k l
  | [], h, _ => by cases h
  | kv :: r, h, hne => by
    unfold derase
    rcases List.mem_cons.mp h with h1 | h1
    · subst h1
      simp [hne]
    · split
      · exact h1
      · exact List.mem_cons_of_mem _ (mem_derase_of_ne h1 hne)

theorem key_not_mem_derase {k : Str} : ∀ {l : List (Str × Nat)}, (l.map (·.1)).Nodup → k ∉ (derase k l).map (·.1)
  | [], _ => by simp [derase]
  | kv :: r, hn => by
    simp only [List.map_cons, List.nodup_cons] at hn
    unfold derase
    split
    · next hk => rw [← hk]; exact hn.1
    · next hk =>
      simp only [List.map_cons, List.mem_cons, not_or]
      exact ⟨fun e => hk e.symm, key_not_mem_derase hn.2⟩

theorem val_not_mem_derase {k : Str} {v : Nat} : ∀ {l : List (Str × Nat)}, (l.map (·.1)).Nodup → (l.map (·.2)).Nodup →
    (k, v) ∈ l → v ∉ (derase k l).map (·.2)
  | [], _, _, h => by cases h
  | kv :: r, hn, ho, h => by
    simp only [List.map_cons, List.nodup_cons] at hn ho
    unfold derase
    rcases List.mem_cons.mp h with h1 | h1
    · subst h1
      simp only [if_true]
      exact ho.1
    · have hk : kv.1 ≠ k := by
        intro e; apply hn.1; rw [e]; exact List.mem_map.mpr ⟨(k, v), h1, rfl⟩
      simp only [hk, if_false, List.map_cons, List.mem_cons, not_or]
      refine ⟨?_, val_not_mem_derase hn.2 ho.2 h1⟩
      intro e; apply ho.1; rw [← e]; exact List.mem_map.mpr ⟨(k, v), h1, rfl⟩

theorem dget_derase_self {k : Str} {l : List (Str × Nat)} (hn : (l.map (·.1)).Nodup) : dget k (derase k l) = none :=
  dget_none_of_not_mem (key_not_mem_derase hn)

/-! ### the walk of `__delitem__` -/

theorem split_first_dash : ∀ (n : Str), '-' ∈ n → ∃ a b, n = a ++ '-' :: b ∧ '-' ∉ a
  | [], h => by cases h
  | c :: cs, h => by
    by_cases hc : c = '-'
    · exact ⟨[], cs, by simp [hc], by simp⟩
    · have h' : '-' ∈ cs := by
        rcases List.mem_cons.mp h with h1 | h1
        · exact absurd h1.symm hc
        · exact h1
      obtain ⟨a, b, hab, ha⟩ := split_first_dash cs h'
      refine ⟨c :: a, b, by simp [hab], ?_⟩
      intro hm
      rcases List.mem_cons.mp hm with h1 | h1
      · exact hc h1.symm
      · exact ha h1

theorem delResolveF_succ (s : State) (f : Nat) (c : Cont) (name : Str) :
    delResolveF s (f + 1) c name =
      if (dget name (s.kidsOf c)).isNone && name.contains '-' then
        match Str.split1 '-' name with
        | [head, tail] =>
          match dget head (s.kidsOf c) with
          | none => .error .keyError
          | some h => delResolveF s f (some h) tail
        | _ => .error .valueError
      else
        match dget name (s.kidsOf c) with
        | some v => .ok (c, name, v)
        | none => .error .keyError := rfl

theorem delitemF_succ (s : State) (f : Nat) (c : Cont) (name : Str) :
    delitemF s (f + 1) c name =
      if (dget name (s.kidsOf c)).isNone && name.contains '-' then
        match Str.split1 '-' name with
        | [head, tail] =>
          match dget head (s.kidsOf c) with
          | none => (s, .error .keyError)
          | some h => delitemF s f (some h) tail
        | _ => (s, .error .valueError)
      else
        match dget name (s.kidsOf c) with
        | some _ => (s.setKids c (derase name (s.kidsOf c)), .ok ())
        | none => (s, .error .keyError) := rfl

/-- the state `del` leaves when it designates the entry `k` of container `d` -/
def erased (s : State) (d : Cont) (k : Str) : State := s.setKids d (derase k (s.kidsOf d))

/-- `__delitem__` = find the designated entry, then one dict deletion (nothing is written on the way) -/
theorem delitemF_eq (s : State) : ∀ (f : Nat) (c : Cont) (name : Str), delitemF s f c name =
    match delResolveF s f c name with
    | .ok (d, k, _) => (erased s d k, .ok ())
    | .error e => (s, .error e)
  | 0, _, _ => rfl
  | f + 1, c, name => by
    rw [delitemF_succ, delResolveF_succ]
    split
    · split
      · split
        · rfl
        · exact delitemF_eq s f _ _
      · rfl
    · split <;> rfl

/-- what `del c[name]` designates is an entry of a dict at or below `c` -/
theorem delResolveF_ok {s : State} : ∀ {f : Nat} {c : Cont} {name : Str} {d : Cont} {k : Str} {v : Nat},
    delResolveF s f c name = .ok (d, k, v) →
    dget k (s.kidsOf d) = some v ∧ ((d = c ∧ k = name) ∨ ∃ w, d = some w ∧ Desc s c w)
  | 0, _, _, _, _, _, h => by cases h
  | f + 1, c, name, d, k, v, h => by
    rw [delResolveF_succ] at h
    split at h
    · split at h
      · next head tail _ =>
        split at h
        · cases h
        · next hh hhead =>
          obtain ⟨h1, h2⟩ := delResolveF_ok h
          refine ⟨h1, Or.inr ?_⟩
          have hm := dget_mem hhead
          rcases h2 with ⟨rfl, -⟩ | ⟨w, rfl, hd⟩
          · exact ⟨hh, rfl, Desc.kid hm⟩
          · exact ⟨w, rfl, Desc.deep hm hd⟩
      · cases h
    · split at h
      · next v' hv =>
        cases h
        exact ⟨hv, Or.inl ⟨rfl, rfl⟩⟩
      · cases h

/-- with the fuel `delitem` hands over the walk never runs out, and the `head, tail = …` unpacking never fails: the only
exception is `KeyError` -/
theorem delResolveF_err {s : State} : ∀ {f : Nat} {c : Cont} {name : Str} {e : Err}, name.length < f →
    delResolveF s f c name = .error e → e = .keyError
  | 0, _, _, _, hf, _ => by cases hf
  | f + 1, c, name, e, hf, h => by
    rw [delResolveF_succ] at h
    split at h
    · next hcond =>
      simp only [Bool.and_eq_true, List.contains_iff_mem] at hcond
      obtain ⟨a, b, rfl, ha⟩ := split_first_dash name (by simpa using hcond.2)
      rw [split1_dash a b ha] at h
      simp only at h
      split at h
      · cases h; rfl
      · refine delResolveF_err ?_ h
        simp at hf; omega
    · split at h
      · cases h
      · cases h; rfl

/-! ### the state after a deletion -/

theorem erased_kidsOf (s : State) (d : Cont) (k : Str) (x : Cont) :
    (erased s d k).kidsOf x = if x = d then derase k (s.kidsOf d) else s.kidsOf x := setKids_kidsOf s d x _

@[simp] theorem erased_parent (s : State) (d : Cont) (k : Str) : (erased s d k).parent = s.parent := setKids_parent s d _

theorem erased_sub {s : State} {d : Cont} {k : Str} {x : Cont} {kv : Str × Nat} (h : kv ∈ (erased s d k).kidsOf x) :
    kv ∈ s.kidsOf x := by
  rw [erased_kidsOf] at h
  by_cases hx : x = d
  · simp only [hx, if_true] at h; rw [hx]; exact mem_of_mem_derase h
  · simpa only [hx, if_false] using h

theorem erased_sublist (s : State) (d : Cont) (k : Str) (x : Cont) : ((erased s d k).kidsOf x).Sublist (s.kidsOf x) := by
  rw [erased_kidsOf]
  by_cases hx : x = d
  · simp only [hx, if_true]; exact derase_sublist _ _
  · simp only [hx, if_false]; exact List.Sublist.refl _

/-- every clause of `InvW` speaks about the entries that are there: removing one keeps it -/
theorem InvW.erased {U : Nat → Attrs} {s : State} (h : InvW U s) (d : Cont) (k : Str) : InvW U (erased s d k) := by
  refine ⟨?_, ?_, ?_⟩
  · intro p k' v hm; exact h.edge p k' v (by rw [kids_eq_kidsOf] at hm ⊢; exact erased_sub hm)
  · intro c k' v hm; exact h.fields c k' v (erased_sub hm)
  · intro c; exact ((erased_sublist s d k c).map _).nodup (h.keys c)

/-- …and so does the full `Inv` (its parent clause reads "an entry's object points at the container", which says nothing
about objects that are in no dict – the removed object keeps its stale pointer) -/
theorem Inv.erased {U : Nat → Attrs} {s : State} (h : Inv U s) (d : Cont) (k : Str) : Inv U (erased s d k) := by
  refine ⟨h.weak.erased d k, ?_, ?_, ?_, ?_⟩
  · intro c k' v hm; rw [erased_parent]; exact h.parent c k' v (erased_sub hm)
  · intro c; exact ((erased_sublist s d k c).map _).nodup (h.once c)
  · intro k' v hm; exact h.topAligned k' v (by rw [top_eq_kidsOf] at hm ⊢; exact erased_sub hm)
  · intro k' v hm; exact h.topKey k' v (by rw [top_eq_kidsOf] at hm ⊢; exact erased_sub hm)

/-- the three ways a `del` can end, in terms of the designated entry -/
theorem delitem_cases (s : State) (c : Cont) (name : Str) :
    (delResolve s c name = .error .keyError ∧ delitem s c name = (s, .error .keyError)) ∨
    (∃ d k v, delResolve s c name = .ok (d, k, v) ∧ delitem s c name = (erased s d k, .ok ())) := by
  unfold delitem delResolve
  rw [delitemF_eq]
  cases hr : delResolveF s (name.length + 1) c name with
  | error e =>
    have := delResolveF_err (Nat.lt_succ_self _) hr
    subst this
    exact Or.inl ⟨rfl, rfl⟩
  | ok t =>
    obtain ⟨d, k, v⟩ := t
    exact Or.inr ⟨d, k, v, rfl, rfl⟩

/-! ### reachability from the top-level container under the full invariant -/

/-- the last edge of a path -/
theorem Desc.last {s : State} {c : Cont} {x : Nat} (h : Desc s c x) :
    ∃ d k, (k, x) ∈ s.kidsOf d ∧ (d = c ∨ ∃ w, d = some w ∧ Desc s c w) := by
  induction h with
  | kid hm => exact ⟨_, _, hm, Or.inl rfl⟩
  | @deep c k w v hm hd ih =>
    obtain ⟨d, k', hm', hor⟩ := ih
    refine ⟨d, k', hm', Or.inr ?_⟩
    rcases hor with rfl | ⟨w', rfl, hd'⟩
    · exact ⟨w, rfl, Desc.kid hm⟩
    · exact ⟨w', rfl, Desc.deep hm hd'⟩

/-- under `Inv` an object has one position: whoever is reachable from the top has all its ancestors reachable from the top -/
theorem Desc.up {U : Nat → Attrs} {s : State} (hI : Inv U s) {c : Cont} {x : Nat} (hd : Desc s c x) :
    ∀ w, c = some w → Desc s none x → Desc s none w := by
  induction hd with
  | @kid c k v hm =>
    intro w hc htop
    subst hc
    obtain ⟨d, k', hm', hor⟩ := htop.last
    have h1 := hI.parent _ _ _ hm
    have h2 := hI.parent _ _ _ hm'
    rw [h1] at h2
    rcases hor with rfl | ⟨w', rfl, hd'⟩
    · cases h2
    · cases h2; exact hd'
  | @deep c k u v hm _ ih =>
    intro w hc htop
    subst hc
    have hu : Desc s none u := ih u rfl htop
    obtain ⟨d, k', hm', hor⟩ := hu.last
    have h1 := hI.parent _ _ _ hm
    have h2 := hI.parent _ _ _ hm'
    rw [h1] at h2
    rcases hor with rfl | ⟨w', rfl, hd'⟩
    · cases h2
    · cases h2; exact hd'

/-- lookups only return what is below the container -/
theorem getitemF_desc {U : Nat → Attrs} {s : State} : ∀ {f : Nat} {c : Cont} {name : Str} {x : Nat},
    getitemF U s f c name = .ok x → Desc s c x
  | 0, _, _, _, h => by cases h
  | f + 1, c, name, x, h => by
    rw [getitemF_succ] at h
    split at h
    · split at h
      · next kv hfind =>
        cases h
        exact Desc.kid (k := kv.1) (List.mem_of_find?_eq_some hfind)
      · split at h
        · split at h
          · cases h
          · next hh hhead => exact Desc.deep (dget_mem hhead) (getitemF_desc h)
        · cases h
    · split at h
      · next v hv => cases h; exact Desc.kid (dget_mem hv)
      · cases h

end PM.Forest
