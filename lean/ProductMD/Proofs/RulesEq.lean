import ProductMD.Model.Rules
/-! Decidable equality for the rule syntax (needed to `decide` the inclusion catalogue ⊆ generated rules). -/
namespace PM

deriving instance DecidableEq for Cond
deriving instance DecidableEq for Rule

/-- `xs ⊆ ys` as a Boolean, for lists of rules -/
def rulesSubset (xs ys : List Rule) : Bool := xs.all fun r => ys.any fun q => decide (r = q)

theorem rulesSubset_sound {xs ys : List Rule} (h : rulesSubset xs ys = true) : ∀ r ∈ xs, r ∈ ys := by
  intro r hr
  have := List.all_eq_true.mp h r hr
  obtain ⟨q, hq, he⟩ := List.any_eq_true.mp this
  have : r = q := of_decide_eq_true he
  exact this ▸ hq

end PM
