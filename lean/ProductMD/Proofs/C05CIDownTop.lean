import ProductMD.Proofs.C05CIDownForest
import ProductMD.Properties.C01
/-!
C05, composeinfo faithfulness, assembled: `Legacy.deserialize (CI.down vs ver keep ci) = ok (CI.expected ver keep ci)`.
-/
namespace PM.CI
open PM
set_option Elab.async false

theorem verLt_eq_not_vLe (a b : Nat × Nat) : PM.verLt a b = !vLe b a := by
  obtain ⟨a1, a2⟩ := a
  obtain ⟨b1, b2⟩ := b
  simp only [PM.verLt, vLe]
  rw [Bool.eq_iff_iff]
  simp only [Bool.or_eq_true, Bool.and_eq_true, decide_eq_true_eq, beq_iff_eq, Bool.not_eq_true', Bool.or_eq_false_iff,
    Bool.and_eq_false_iff, decide_eq_false_iff_not, beq_eq_false_iff_ne]
  omega

theorem gatesMatch_of (ver : Nat × Nat) (keep : Bool) :
    GatesMatch ⟨PM.verLt ver (0, 3), PM.verLe ver (0, 3), PM.verLt ver (1, 0), PM.verLt ver (1, 0)⟩ (downFmt ver keep) :=
  ⟨verLt_eq_not_vLe ver (0, 3), rfl, verLt_eq_not_vLe ver (1, 0), verLt_eq_not_vLe ver (1, 0)⟩

/-- the header text `vs` of a format-`ver` document is accepted and read as `ver` (decidable for every concrete version) -/
def HeaderOK (D : DownFmt) (vs : Str) (ver : Nat × Nat) : Prop :=
  ∀ p, headerDe (.dict [(k%"header", downHeaderVal D vs), (k%"payload", p)]) = .ok ver

/-- the faithful domain below 1.0, on the table the writer builds -/
def LegacyDomain (ver : Nat × Nat) (ci : ComposeInfo) : Prop :=
  vLe (1, 0) ver = false → ∀ d, variantsSer ci.variants = .ok d → KidsExact d ∧ TopsExact d

theorem deserialize_down (vs : Str) (ver : Nat × Nat) (keep : Bool) (ci : ComposeInfo) (j : PyVal)
    (hdown : down vs ver keep ci = .ok j) (hk : WellKeyed ci)
    (hh : HeaderOK (downFmt ver keep) vs ver)
    (hid : vLe (0, 3) ver = false → IdDerivable ci.compose)
    (hdom : LegacyDomain ver ci) :
    Legacy.deserialize j = .ok (expected ver keep ci) := by
  unfold down at hdown
  cases hser : serialize ci with
  | error e => rw [hser] at hdown; cases hdown
  | ok j0 =>
  rw [hser] at hdown
  simp only at hdown
  have hdist := C01_written_uids_distinct ci j0 hk hser
  cases hvs : variantsSer ci.variants with
  | error e => rw [hvs] at hdown; cases hdown
  | ok d =>
  rw [hvs] at hdown
  simp only at hdown
  injection hdown with hdown
  subst hdown
  -- what the successful dump says about the sections
  unfold serialize at hser
  split at hser
  · cases hser
  · split at hser
    · cases hser
    · rename_i hC
      split at hser
      · cases hser
      · rename_i hR
        split at hser
        · cases hser
        · rename_i hB
          clear hser
          obtain ⟨compose, release, base, variants⟩ := ci
          simp only at hC hR hB hvs hk hdist hid hdom ⊢
          have hm := gatesMatch_of ver keep
          have hgates : Legacy.gatesOf ver = .ok ⟨PM.verLt ver (0, 3), PM.verLe ver (0, 3), PM.verLt ver (1, 0), PM.verLt ver (1, 0)⟩ := rfl
          unfold variantsSer at hvs
          split at hvs
          · cases hvs
          · rename_i hCont
            -- the four readers on the payload `l`, for ANY payload with these sections
            have key : ∀ (rest : List (Str × PyVal)) (bexp : Option BaseProduct),
                PyVal.get? (.dict ((k%"compose", downComposeVal (downFmt ver keep) compose) :: rest)) (relKey (downFmt ver keep))
                  = some (downReleaseVal (downFmt ver keep) release) →
                PyVal.get? (.dict ((k%"compose", downComposeVal (downFmt ver keep) compose) :: rest)) k%"variants"
                  = some (downFlatVal (downFmt ver keep) d) →
                baseDeIf release.isLayered (.dict ((k%"compose", downComposeVal (downFmt ver keep) compose) :: rest)) = .ok bexp →
                Legacy.deserialize (.dict [(k%"header", downHeaderVal (downFmt ver keep) vs),
                    (k%"payload", .dict ((k%"compose", downComposeVal (downFmt ver keep) compose) :: rest))])
                  = .ok { compose := compose.norm, release := lossRelease (downFmt ver keep) release.norm, base := bexp,
                          variants := lossVs (downFmt ver keep) (normTop variants) } := by
              intro rest bexp hgr hgv hgb
              have hcomp : Legacy.composeDeL ⟨PM.verLt ver (0, 3), PM.verLe ver (0, 3), PM.verLt ver (1, 0), PM.verLt ver (1, 0)⟩
                  (.dict ((k%"compose", downComposeVal (downFmt ver keep) compose) :: rest)) = .ok compose.norm := by
                unfold Legacy.composeDeL
                cases hcf : vLe (0, 3) ver with
                | true =>
                  have : PM.verLt ver (0, 3) = false := by rw [verLt_eq_not_vLe, hcf]; rfl
                  simp only [this, Bool.false_eq_true, if_false]
                  rw [downComposeVal_full _ _ (by simp [downFmt, hcf])]
                  exact composeDe_ok Gen.VERSION (by decide) compose rest hC
                | false =>
                  have : PM.verLt ver (0, 3) = true := by rw [verLt_eq_not_vLe, hcf]; rfl
                  simp only [this, if_true]
                  exact composeDe03_down _ (by simp [downFmt, hcf]) compose rest (hid hcf) hC
              have hrel := releaseDeL_down _ _ hm.release release _ hgr hR
              have hvar := variantsDeL_down _ _ hm variants d _ hgv hvs hk hdist
                (fun hkl => (hdom (by simpa [downFmt] using hkl) d (by unfold variantsSer; rw [hCont]; exact hvs)).1)
                (fun hkl => (hdom (by simpa [downFmt] using hkl) d (by unfold variantsSer; rw [hCont]; exact hvs)).2)
              have hisl : (lossRelease (downFmt ver keep) release.norm).isLayered = release.isLayered := by
                cases release; rfl
              unfold Legacy.deserialize
              rw [hh _]
              simp only [hgates, sub, PyVal.get?, List.find?_cons]
              simp only [show ((k%"header" : Str) == k%"payload") = false by decide, show ((k%"payload" : Str) == k%"payload") = true by decide,
                Option.map_some]
              simp only [hcomp, hrel, hisl, hgb, hvar]
            have hrk : ∀ (x : PyVal) (tail : List (Str × PyVal)),
                PyVal.get? (.dict ((k%"compose", downComposeVal (downFmt ver keep) compose) ::
                  (relKey (downFmt ver keep), x) :: tail)) (relKey (downFmt ver keep)) = some x := by
              intro x tail
              cases hp : (downFmt ver keep).product <;> simp [PyVal.get?, relKey, hp]
            cases hlay : release.isLayered with
            | false =>
              have := key [(relKey (downFmt ver keep), downReleaseVal (downFmt ver keep) release),
                  (k%"variants", downFlatVal (downFmt ver keep) d)] none (hrk _ _)
                (by cases hp : (downFmt ver keep).product <;> simp [PyVal.get?, relKey, hp])
                (by simp [baseDeIf, hlay])
              simpa [expected, ComposeInfo.norm, hlay] using this
            | true =>
              simp only [hlay, if_true] at hB
              cases base with
              | none =>
                have := blank_base_invalid
                rw [hB] at this
                simp [isOk] at this
              | some b =>
                have hgb : PyVal.get? (.dict ((k%"compose", downComposeVal (downFmt ver keep) compose) ::
                    [(relKey (downFmt ver keep), downReleaseVal (downFmt ver keep) release),
                     (k%"base_product", downBaseVal (downFmt ver keep) b), (k%"variants", downFlatVal (downFmt ver keep) d)])) k%"base_product"
                    = some (downBaseVal (downFmt ver keep) b) := by
                  cases hp : (downFmt ver keep).product <;> simp [PyVal.get?, relKey, hp]
                have := key [(relKey (downFmt ver keep), downReleaseVal (downFmt ver keep) release),
                    (k%"base_product", downBaseVal (downFmt ver keep) b), (k%"variants", downFlatVal (downFmt ver keep) d)]
                  (some (lossBase (downFmt ver keep) b)) (hrk _ _)
                  (by cases hp : (downFmt ver keep).product <;> simp [PyVal.get?, relKey, hp])
                  (by simp only [baseDeIf, hlay, if_true]; rw [baseDe_down _ b _ hgb hB])
                simpa [expected, ComposeInfo.norm, hlay] using this

instance (d : Flat) : Decidable (KidsExact d) := by unfold KidsExact; infer_instance
instance (d : Flat) : Decidable (TopsExact d) := by unfold TopsExact; infer_instance

/-- `LegacyDomain`, evaluated -/
def legacyDomainB (ver : Nat × Nat) (ci : ComposeInfo) : Bool :=
  vLe (1, 0) ver || match variantsSer ci.variants with
    | .ok d => decide (KidsExact d ∧ TopsExact d)
    | .error _ => true

theorem legacyDomain_of (ver : Nat × Nat) (ci : ComposeInfo) (h : legacyDomainB ver ci = true) : LegacyDomain ver ci := by
  intro hv d hd
  unfold legacyDomainB at h
  rw [hv, hd] at h
  simpa using h

theorem legacyDomain_iff (ver : Nat × Nat) (ci : ComposeInfo) : LegacyDomain ver ci ↔ legacyDomainB ver ci = true := by
  constructor
  · intro h
    unfold legacyDomainB
    cases hv : vLe (1, 0) ver with
    | true => rfl
    | false =>
      cases hd : variantsSer ci.variants with
      | error e => rfl
      | ok d => simpa using h hv d hd
  · exact legacyDomain_of ver ci

instance (ver : Nat × Nat) (ci : ComposeInfo) : Decidable (LegacyDomain ver ci) :=
  decidable_of_iff _ (legacyDomain_iff ver ci).symm

/-- from 1.0 on there is no side condition on the forest -/
theorem legacyDomain_from_1_0 (ver : Nat × Nat) (ci : ComposeInfo) (h : vLe (1, 0) ver = true) : LegacyDomain ver ci := by
  intro hv; rw [h] at hv; cases hv

end PM.CI
