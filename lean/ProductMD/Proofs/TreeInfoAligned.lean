import ProductMD.Proofs.TreeInfoForestReader
/-!
UID alignment is enforced by the generated validator of `treeinfo.Variant` (custom rule `_validate_uid`), hence
sibling ids are pairwise distinct whenever UIDs are: one hypothesis less for C04.
-/
namespace PM
namespace TI
open Ini

/-- a child that passes `Variant.validate()` has `uid == "%s-%s" % (parent.uid, id)` -/
theorem aligned_of_valid (p id uid name type : Str) (kids : List Variant)
    (h : validateClass "treeinfo.Variant" (variantObj (some p) id uid name type kids) = .ok ()) : uid = p ++ '-' :: id := by
  have hc : Gen.allClasses.find? (·.1 == "treeinfo.Variant") = some ("treeinfo.Variant", Gen.rules_treeinfo_Variant) := by rfl
  unfold validateClass at h
  rw [hc] at h
  have hmem : Rule.custom "treeinfo.Variant._validate_uid".toList ∈ (Gen.rules_treeinfo_Variant).flat := by
    simp [Gen.rules_treeinfo_Variant, MethodRules.flat]
  have := (runRules_ok_iff customs _ _).mp h _ hmem
  have c1 : ∀ o, customs "treeinfo.Variant._validate_uid".toList o = tiVariantUid o := fun o => rfl
  simp only [Rule.check, c1] at this
  have g1 : (variantObj (some p) id uid name type kids).get "parent".toList = .dict [(kUid, .str p)] := by rfl
  have g2 : (variantObj (some p) id uid name type kids).get "id".toList = .str id := by rfl
  have g3 : (variantObj (some p) id uid name type kids).get "uid".toList = .str uid := by rfl
  unfold tiVariantUid at this
  rw [g1] at this
  simp only [g2, g3] at this
  have g4 : (PyVal.dict [(kUid, PyVal.str p)]).get? "uid".toList = some (.str p) := by rfl
  simp only [g4, Option.getD_some, pyFormat] at this
  split at this
  · rename_i hc2
    simpa [PyVal.pyEq, PyVal.canon, PyVal.beq] using hc2
  · cases this

mutual
theorem validV_of_mem_subV : ∀ (w : Variant) (p0 : Option Str), ValidV p0 w → ∀ x ∈ subV p0 w, ValidV x.1 x.2
  | .mk key id uid name type paths kids, p0, h, x, hx => by
    simp only [subV, List.mem_cons] at hx
    rcases hx with hx | hx
    · subst hx; exact h
    · simp only [ValidV] at h
      exact validV_of_mem_subVs kids (some uid) h.2 x hx
theorem validV_of_mem_subVs : ∀ (vs : List Variant) (p0 : Option Str), ValidVs p0 vs → ∀ x ∈ subVs p0 vs, ValidV x.1 x.2
  | [], _, _, x, hx => by simp [subVs] at hx
  | w :: ws, p0, h, x, hx => by
    simp only [ValidVs] at h
    simp only [subVs, List.mem_append] at hx
    rcases hx with hx | hx
    · exact validV_of_mem_subV w p0 h.1 x hx
    · exact validV_of_mem_subVs ws p0 h.2 x hx
end

theorem validV_kids' (pu : Option Str) (w : Variant) (h : ValidV pu w) : ∀ v ∈ w.kids, ValidV (some w.uid) v := by
  obtain ⟨key, id, uid, name, type, paths, kids⟩ := w
  simp only [ValidV] at h
  exact (ValidVs_iff (some uid) kids).mp h.2

theorem validV_head (p : Str) (v : Variant) (h : ValidV (some p) v) : v.uid = p ++ '-' :: v.id := by
  obtain ⟨key, id, uid, name, type, paths, kids⟩ := v
  simp only [ValidV] at h
  exact aligned_of_valid p id uid name type kids h.1

/-- sibling ids are distinct because UIDs are and every child's UID is `<parent UID>-<id>` -/
theorem kidIds_of_valid {tops : List Variant} (hv : ValidVs none tops) (hnd : UidsNodup tops) : KidIdsNodup tops := by
  intro x hx
  have hxv := validV_of_mem_subVs tops none hv x hx
  have hk := validV_kids' x.1 x.2 hxv
  have hu := kids_uids_nodup hnd x hx
  have : x.2.kids.map Variant.uid = (x.2.kids.map Variant.id).map (fun i => x.2.uid ++ '-' :: i) := by
    rw [List.map_map]
    apply List.map_congr_left
    intro v hvm
    exact validV_head _ v (hk v hvm)
  rw [this] at hu
  exact nodup_of_map _ _ hu

end TI
end PM
