import ProductMD.Proofs.ComposeId
/-!
`get_date_type_respin` on EVERY string: a directly written decoder (`dtrDirect`: last 8-digit window of the first
line, then the longest `.letters`, then the longest `.digits`) and the proof that the regex-driven model equals it
(`getDateTypeRespin_eq_direct`).  The direct decoder is only a description; the model stays the regex.
-/
namespace PM.IdProof
open PM PM.First PM.Spec PM.Dec PM.NvraProof

/-- 8 digits at the front -/
def isWin (t : Str) : Bool := decide (8 ≤ t.length) && (t.take 8).all digitCls.mem

/-- the last 8-digit window starting in the first line: (date, what follows it) -/
def lastWin : Str → Option (Str × Str)
  | [] => none
  | c :: cs =>
    if c = '\n' then none
    else match lastWin cs with
      | some r => some r
      | none => if isWin (c :: cs) then some ((c :: cs).take 8, (c :: cs).drop 8) else none

/-- optional `.letters`: (capture, rest) -/
def typeSplit : Str → Option Str × Str
  | [] => (none, [])
  | c :: l =>
    if c = '.' ∧ l.takeWhile lowerCls.mem ≠ [] then (some ('.' :: l.takeWhile lowerCls.mem), l.dropWhile lowerCls.mem)
    else (none, c :: l)

/-- optional `.digits`: the digits -/
def respinSplit : Str → Option Str
  | [] => none
  | c :: l => if c = '.' ∧ l.takeWhile digitCls.mem ≠ [] then some (l.takeWhile digitCls.mem) else none

/-- the decoder written directly on the string -/
def dtrDirect (s : Str) : Except Err (Option (Option Str × Str × Nat)) :=
  match lastWin s with
  | none => .ok none
  | some (D, X) =>
    let ty : Except Err Str := match (typeSplit X).1 with
      | none => .ok ['p','r','o','d','u','c','t','i','o','n']
      | some t => match Gen.COMPOSE_TYPE_SUFFIXES.lookup (t.drop 1) with
        | some x => .ok x
        | none => .error .valueError
    ty.bind fun ty =>
      (match respinSplit (typeSplit X).2 with
        | none => (.ok 0 : Except Err Nat)
        | some d => pyIntDigits d).map fun r => some (some D, ty, r)

/-! ### windows -/
theorem any_nl : Cls.any.mem '\n' = false := by decide
theorem nl_not_digit : digitCls.mem '\n' = false := by decide

theorem win_of_match (f : Nat) (t' : Str) (h : isWin t' = false) : m f dtT1 t' = [] := by
  apply List.eq_nil_iff_forall_not_mem.mpr
  intro t ht
  rw [dtT1, m_cat] at ht
  obtain ⟨t1, ht1, _⟩ := List.mem_flatMap.mp ht
  rw [dtDate, m_grp, digits8] at ht1
  obtain ⟨d, hd1, hd2, hd3⟩ := rep_sound f digitCls 7 t' t1 ht1
  have : isWin t' = true := by
    subst hd1
    simp only [isWin, Bool.and_eq_true, decide_eq_true_eq, List.all_eq_true]
    refine ⟨by simp; omega, ?_⟩
    intro x hx
    rw [List.take_left' hd2] at hx
    exact hd3 x hx
  rw [h] at this; cases this

theorem lastWin_none : ∀ (s : Str), lastWin s = none →
    ∀ w t', s = w ++ t' → (∀ x ∈ w, Cls.any.mem x = true) → isWin t' = false := by
  intro s
  induction s with
  | nil =>
    intro _ w t' h _
    have : t' = [] := (List.nil_eq_append_iff.mp h).2
    subst this; rfl
  | cons c cs ih =>
    intro h w t' hs hw
    simp only [lastWin] at h
    by_cases hc : c = '\n'
    · cases w with
      | nil =>
        simp at hs; subst hs; subst hc
        simp [isWin, nl_not_digit]
      | cons x w' =>
        simp at hs
        have := hw x List.mem_cons_self
        rw [← hs.1, hc, any_nl] at this; cases this
    · rw [if_neg hc] at h
      cases hl : lastWin cs with
      | some r => rw [hl] at h; simp at h
      | none =>
        rw [hl] at h
        simp only at h
        cases w with
        | nil =>
          simp at hs; subst hs
          by_cases hwin : isWin (c :: cs) = true
          · rw [if_pos hwin] at h; simp at h
          · simpa using hwin
        | cons x w' =>
          simp at hs
          exact ih hl w' t' hs.2 (fun y hy => hw y (List.mem_cons_of_mem _ hy))

theorem isWin_spec {t : Str} (h : isWin t = true) :
    (t.take 8).length = 8 ∧ (∀ x ∈ t.take 8, digitCls.mem x = true) ∧ t = t.take 8 ++ t.drop 8 := by
  simp only [isWin, Bool.and_eq_true, decide_eq_true_eq, List.all_eq_true] at h
  exact ⟨by simp; omega, h.2, (List.take_append_drop 8 t).symm⟩

theorem lastWin_some : ∀ (s D X : Str), lastWin s = some (D, X) →
    ∃ u, s = u ++ (D ++ X) ∧ '\n' ∉ u ∧ D.length = 8 ∧ (∀ x ∈ D, digitCls.mem x = true)
      ∧ ∀ w t', w ≠ [] → D ++ X = w ++ t' → (∀ x ∈ w, Cls.any.mem x = true) → isWin t' = false := by
  intro s
  induction s with
  | nil => intro D X h; simp [lastWin] at h
  | cons c cs ih =>
    intro D X h
    simp only [lastWin] at h
    by_cases hc : c = '\n'
    · rw [if_pos hc] at h; cases h
    · rw [if_neg hc] at h
      cases hl : lastWin cs with
      | some r =>
        rw [hl] at h
        simp only [Option.some.injEq] at h
        subst h
        obtain ⟨u, h1, h2, h3, h4, h5⟩ := ih D X hl
        refine ⟨c :: u, by rw [h1]; rfl, ?_, h3, h4, h5⟩
        intro hm
        rcases List.mem_cons.mp hm with hm | hm
        · exact hc hm.symm
        · exact h2 hm
      | none =>
        rw [hl] at h
        simp only at h
        by_cases hwin : isWin (c :: cs) = true
        · rw [if_pos hwin] at h
          simp only [Option.some.injEq, Prod.mk.injEq] at h
          obtain ⟨g1, g2, g3⟩ := isWin_spec hwin
          rw [h.1] at g1 g2 g3
          rw [h.2] at g3
          refine ⟨[], by simpa using g3, by simp, g1, g2, ?_⟩
          intro w t' hw hs hwk
          cases w with
          | nil => exact absurd rfl hw
          | cons x w' =>
            rw [← g3] at hs
            simp at hs
            exact lastWin_none cs hl w' t' hs.2 (fun y hy => hwk y (List.mem_cons_of_mem _ hy))
        · rw [if_neg hwin] at h; cases h

/-! ### maximal runs -/
theorem span_spec (p : Char → Bool) : ∀ (l : Str),
    l = l.takeWhile p ++ l.dropWhile p ∧ (∀ x ∈ l.takeWhile p, p x = true)
    ∧ (∀ x t, l.dropWhile p = x :: t → p x = false) := by
  intro l
  induction l with
  | nil => simp
  | cons c cs ih =>
    by_cases hc : p c = true
    · simp only [List.takeWhile_cons, hc, if_true, List.dropWhile_cons, List.cons_append]
      refine ⟨by rw [← ih.1], ?_, ih.2.2⟩
      intro x hx
      rcases List.mem_cons.mp hx with hx | hx
      · subst hx; exact hc
      · exact ih.2.1 x hx
    · simp only [List.takeWhile_cons, hc, List.dropWhile_cons]
      refine ⟨by simp, by simp, ?_⟩
      intro x t h
      simp at h
      rw [← h.1]; simpa using hc

/-! ### the trailing `.*` keeps the captures -/
theorem anyStar_head (f : Nat) (Y : Str) (c : Caps) : ∃ rest, (mc f anyStar Y c).head? = some (rest, c) := by
  rw [anyStar, mc_star]
  cases hl : starAuxC (mc f (.cls Cls.any)) f Y c with
  | nil =>
    exfalso
    cases f with
    | zero => simp at hl
    | succ f => rw [starAuxC_succ] at hl; simp at hl
  | cons p ps =>
    have := (star_results f Cls.any f Y c p (by rw [hl]; exact List.mem_cons_self)).1
    exact ⟨p.1, by rw [List.head?_cons, ← this]⟩

def rc : Option Str → Caps
  | none => []
  | some R => [(3, '.' :: R), (4, R)]
def tc : Option Str → Caps
  | none => []
  | some T => [(2, T)]

/-- the respin group and the trailing `.*` on any string -/
theorem t3_gen (f : Nat) (Y : Str) (c : Caps) (hf : Y.length ≤ f) :
    ∃ rest, (mc f dtT3 Y c).head? = some (rest, rc (respinSplit Y) ++ c) := by
  have absent : m f dtRespin Y = [] → respinSplit Y = none →
      ∃ rest, (mc f dtT3 Y c).head? = some (rest, rc (respinSplit Y) ++ c) := by
    intro h1 h2
    rw [dtT3, first_opt_absent _ _ _ _ _ h1, h2]
    exact anyStar_head f Y c
  cases Y with
  | nil => exact absent (by rfl) rfl
  | cons c0 l =>
    by_cases hc0 : c0 = '.'
    · subst hc0
      obtain ⟨hsplit, hall, hhead⟩ := span_spec digitCls.mem l
      cases hR : l.takeWhile digitCls.mem with
      | nil =>
        apply absent
        · rw [dtRespin, m_grp, Re.lit, m_cls_cat_mem _ _ _ _ _ (lit_self '.'), dtNum, m_grp]
          cases l with
          | nil => exact m_cls_cat_nil _ _ _
          | cons x xs =>
            apply m_cls_cat_not
            cases hx : digitCls.mem x with
            | false => rfl
            | true => simp [hx] at hR
        · simp [respinSplit, hR]
      | cons d0 ds =>
        have hsp : respinSplit ('.' :: l) = some (d0 :: ds) := by simp [respinSplit, hR]
        rw [hsp]
        rw [hR] at hsplit hall
        generalize l.dropWhile digitCls.mem = r at hsplit hhead
        have hplus : (mc f (.cat (.cls digitCls) (.star (.cls digitCls))) l c).head? = some (r, c) := by
          rw [hsplit, List.cons_append, mc_cls_cat_mem _ _ _ _ _ _ (hall d0 List.mem_cons_self), mc_star]
          have hlen : (ds ++ r).length ≤ f := by
            have := congrArg List.length hsplit
            simp at this hf ⊢; omega
          exact star_head f digitCls ds _ f c (fun x hx => hall x (List.mem_cons_of_mem _ hx)) hlen hhead
        have h4 : (mc f dtNum l c).head? = some (r, (4, d0 :: ds) :: c) :=
          first_grp_eq f 4 _ _ c (d0 :: ds) _ c hsplit hplus
        have h3 : (mc f dtRespin ('.' :: l) c).head? = some (r, (3, '.' :: d0 :: ds) :: (4, d0 :: ds) :: c) := by
          apply first_grp_eq f 3 _ _ c ('.' :: d0 :: ds) _ _ (by rw [List.cons_append, ← hsplit])
          rw [mc_lit_cat]; exact h4
        obtain ⟨rest, hrest⟩ := anyStar_head f r ((3, '.' :: d0 :: ds) :: (4, d0 :: ds) :: c)
        exact ⟨rest, first_opt_present f dtRespin anyStar _ c _ _ h3 hrest⟩
    · apply absent
      · rw [dtRespin, m_grp]; exact m_cls_cat_not _ _ _ _ _ (lit_ne hc0)
      · simp [respinSplit, hc0]

/-- the type group, then the rest, on any string -/
theorem t2_gen (f : Nat) (X : Str) (c : Caps) (hf : X.length ≤ f) :
    ∃ rest, (mc f dtT2 X c).head? = some (rest, rc (respinSplit (typeSplit X).2) ++ (tc (typeSplit X).1 ++ c)) := by
  have absent : m f dtType X = [] → typeSplit X = (none, X) →
      ∃ rest, (mc f dtT2 X c).head? = some (rest, rc (respinSplit (typeSplit X).2) ++ (tc (typeSplit X).1 ++ c)) := by
    intro h1 h2
    rw [dtT2, first_opt_absent _ _ _ _ _ h1, h2]
    exact t3_gen f X c hf
  cases X with
  | nil => exact absent (by rfl) rfl
  | cons c0 l =>
    by_cases hc0 : c0 = '.'
    · subst hc0
      obtain ⟨hsplit, hall, hhead⟩ := span_spec lowerCls.mem l
      cases hL : l.takeWhile lowerCls.mem with
      | nil =>
        apply absent
        · rw [dtType, m_grp, dtTypeIn, Re.lit, m_cls_cat_mem _ _ _ _ _ (lit_self '.')]
          cases l with
          | nil => exact m_cls_cat_nil _ _ _
          | cons x xs =>
            apply m_cls_cat_not
            cases hx : lowerCls.mem x with
            | false => rfl
            | true => simp [hx] at hL
        · simp [typeSplit, hL]
      | cons l0 ls =>
        have hsp : typeSplit ('.' :: l) = (some ('.' :: l0 :: ls), l.dropWhile lowerCls.mem) := by
          simp [typeSplit, hL]
        rw [hsp]
        rw [hL] at hsplit hall
        generalize l.dropWhile lowerCls.mem = r at hsplit hhead ⊢
        have hlen : (ls ++ r).length ≤ f := by
          have := congrArg List.length hsplit
          simp at this hf ⊢; omega
        have hin : (mc f dtTypeIn ('.' :: l) c).head? = some (r, c) := by
          rw [dtTypeIn, mc_lit_cat]
          rw [hsplit, List.cons_append, mc_cls_cat_mem _ _ _ _ _ _ (hall l0 List.mem_cons_self), mc_star]
          exact star_head f lowerCls ls _ f c (fun x hx => hall x (List.mem_cons_of_mem _ hx)) hlen hhead
        have h2 : (mc f dtType ('.' :: l) c).head? = some (r, (2, '.' :: l0 :: ls) :: c) :=
          first_grp_eq f 2 _ _ c ('.' :: l0 :: ls) _ c (by rw [List.cons_append, ← hsplit]) hin
        obtain ⟨rest, hrest⟩ := t3_gen f r ((2, '.' :: l0 :: ls) :: c)
          (by simp at hlen ⊢; omega)
        refine ⟨rest, ?_⟩
        rw [dtT2]
        apply first_opt_present f dtType dtT3 _ c _ _ h2
        simpa [tc] using hrest
    · apply absent
      · rw [dtType, m_grp, dtTypeIn]; exact m_cls_cat_not _ _ _ _ _ (lit_ne hc0)
      · simp [typeSplit, hc0]

/-! ### the whole pattern on any string -/
theorem dtr_none (s : Str) (h : lastWin s = none) : pyMatch Spec.dtr s = none := by
  unfold pyMatch
  have : mc s.length Spec.dtr s [] = [] := by
    apply mc_eq_nil_of_m
    rw [Spec.dtr, m_cat, anyStar, m_star]
    apply List.flatMap_eq_nil_iff.mpr
    intro t' ht'
    obtain ⟨w, hw, hk⟩ := starAux_results _ Cls.any _ s t' ht'
    exact win_of_match _ t' (lastWin_none s h w t' hw hk)
  rw [this]; rfl

theorem dtr_some (s D X : Str) (h : lastWin s = some (D, X)) :
    pyMatch Spec.dtr s = some (rc (respinSplit (typeSplit X).2) ++ (tc (typeSplit X).1 ++ [(1, D)])) := by
  obtain ⟨u, hs, hu, hD, hDd, hlater⟩ := lastWin_some s D X h
  obtain ⟨rest, hrest⟩ := t2_gen s.length X [(1, D)] (by rw [hs]; simp; omega)
  unfold pyMatch
  have : (mc s.length Spec.dtr s []).head?
      = some (rest, rc (respinSplit (typeSplit X).2) ++ (tc (typeSplit X).1 ++ [(1, D)])) := by
    rw [Spec.dtr, anyStar]
    conv => lhs; arg 1; arg 3; rw [hs]
    apply first_star_cat _ Cls.any dtT1 u _ [] _ (any_all hu) (by rw [hs]; exact Nat.le_refl _)
    · intro w t' hw ht hk
      exact win_of_match _ t' (hlater w t' hw ht hk)
    · rw [dtT1]
      have hdate : (mc s.length dtDate (D ++ X) []).head? = some (X, [(1, D)]) := by
        apply first_grp_eq _ 1 _ _ [] D _ [] rfl
        rw [digits8, rep_complete _ digitCls _ [] 7 D hD hDd]; rfl
      exact first_cat_head _ _ _ _ [] _ _ hdate hrest
  rw [this]; rfl

end PM.IdProof
