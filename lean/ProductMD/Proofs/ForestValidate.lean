import ProductMD.Model.Forest
import ProductMD.Proofs.RegexBasic
import ProductMD.Generated.Tables
/-! What a successful `variant.validate()` – the rule list of `composeinfo.Variant` regenerated from the source on
every run – guarantees about a variant (C11).  The rules are located in the generated list by *content*
(`List.any` evaluated by the kernel), so reordering or adding validators does not disturb the proofs, while
weakening one of the validators used here breaks them. -/
namespace PM.Forest

/-! ### the id pattern `^[…]+$` -/

/-- shape of `^[K]+$` as the translator emits it -/
def idPattern (K : Cls) : Re := Re.seq [.bol, Re.plus (Re.seq [.cls K]), .eol]

theorem m_cls_mem {f K s t} (h : t ∈ m f (.cls K) s) : ∃ c, s = c :: t ∧ K.mem c = true := by
  cases s with
  | nil => simp at h
  | cons c cs =>
    rw [m_cls_cons] at h
    by_cases hk : K.mem c = true
    · simp [hk] at h; exact ⟨c, by rw [h], hk⟩
    · simp [hk] at h

theorem starAux_cls (K : Cls) (f : Nat) : ∀ (n : Nat) (s s' : Str), s' ∈ starAux (m f (.cls K)) n s →
    ∃ w, s = w ++ s' ∧ ∀ x ∈ w, K.mem x = true := by
  intro n
  induction n with
  | zero => intro s s' h; simp at h; exact ⟨[], by simp [h], by simp⟩
  | succ n ih =>
    intro s s' h
    rw [starAux_succ] at h
    rcases List.mem_append.mp h with h | h
    · rcases List.mem_flatMap.mp h with ⟨t, ht, hs'⟩
      rcases m_cls_mem (List.mem_filter.mp ht).1 with ⟨c, rfl, hc⟩
      rcases ih t s' hs' with ⟨w, rfl, hw⟩
      refine ⟨c :: w, by simp, ?_⟩
      intro x hx
      rcases List.mem_cons.mp hx with rfl | hx
      · exact hc
      · exact hw x hx
    · simp at h; exact ⟨[], by simp [h], by simp⟩

/-- every string accepted by `^[K]+$` is non-empty and consists of characters of `K`, possibly followed by one
line feed (CPython's `$`) -/
theorem idPattern_sound (K : Cls) (s : Str) (h : pyMatches (idPattern K) s = true) :
    s ≠ [] ∧ ∀ x ∈ s, K.mem x = true ∨ x = '\n' := by
  unfold pyMatches at h
  have hne : m s.length (idPattern K) s ≠ [] := by
    intro h0; rw [h0] at h; simp at h
  obtain ⟨r, hr⟩ := List.exists_mem_of_ne_nil _ hne
  simp only [idPattern, Re.seq, Re.plus, m_cat, m_bol, List.flatMap_cons, List.flatMap_nil, List.append_nil] at hr
  rcases List.mem_flatMap.mp hr with ⟨s2, hs2, hr⟩
  rcases List.mem_flatMap.mp hs2 with ⟨s1, hs1, hs2⟩
  rcases m_cls_mem hs1 with ⟨c, rfl, hc⟩
  rw [m_star] at hs2
  rcases starAux_cls K _ _ _ _ hs2 with ⟨w, rfl, hw⟩
  rw [m_eol] at hr
  refine ⟨by simp, ?_⟩
  intro x hx
  by_cases he : isEol s2 = true
  · rcases List.mem_cons.mp hx with rfl | hx
    · exact Or.inl hc
    · rcases List.mem_append.mp hx with hx | hx
      · exact Or.inl (hw x hx)
      · simp only [isEol, Bool.or_eq_true, beq_iff_eq] at he
        rcases he with rfl | rfl
        · simp at hx
        · simp at hx; exact Or.inr hx
  · simp [he] at hr

/-! ### locating rules by content -/

def isCustom (n : Str) : Rule → Bool
  | .custom k => k == n
  | _ => false

def isReOn (f : Str) (p : Re) : Rule → Bool
  | .re g [q] => g == f && decide (q = p)
  | _ => false

def isNotBlank (f : Str) : Rule → Bool
  | .notBlank g => g == f
  | _ => false

def isValue (f : Str) (t : List Str) : Rule → Bool
  | .value g u => g == f && u == t
  | _ => false

theorem mem_of_any {l : List Rule} {p : Rule → Bool} (h : l.any p = true) : ∃ r ∈ l, p r = true := by
  simpa using h

theorem validate_rules (U : Nat → Attrs) (s : State) (v : Nat) (h : validate U s v = .ok ()) :
    ∀ r ∈ Gen.rules_composeinfo_Variant.flat, r.check customs (toObj U s v) = .ok () := by
  unfold validate validateClass at h
  have hf : Gen.allClasses.find? (·.1 == "composeinfo.Variant")
      = some ("composeinfo.Variant", Gen.rules_composeinfo_Variant) := rfl
  rw [hf] at h
  exact (runRules_ok_iff customs _ _).mp h

/-- the class of the id pattern in the source -/
def idCls : Cls := { ranges := [(97, 122), (65, 90), (48, 57)], neg := false }

theorem idRe_shape : Gen.re_composeinfo_Variant__validate_id_0 = idPattern idCls := by decide

/-- everything the add/lookup theorems use about a variant that passed `validate()` in state `s` -/
structure Validated (U : Nat → Attrs) (s : State) (v : Nat) : Prop where
  id_nodash : '-' ∉ (U v).id
  id_ne : (U v).id ≠ []
  type_ok : (U v).type ∈ Gen.VARIANT_TYPES
  arches_ne : (U v).arches ≠ []
  name_ne : (U v).name ≠ []
  uid_top : s.parent v = none → Str.removeChar '-' (U v).uid = (U v).id
  uid_child : ∀ p, s.parent v = some p → (U v).uid = (U p).uid ++ '-' :: (U v).id
  arches_sub : ∀ p, s.parent v = some p → ∀ a ∈ (U v).arches, a ∈ (U p).arches

theorem str_pyEq {a b : Str} (h : PyVal.pyEq (.str a) (.str b) = true) : a = b := by
  simpa [PyVal.pyEq, PyVal.canon, PyVal.beq] using h

theorem toObj_parent_none (U : Nat → Attrs) (s : State) (v : Nat) (hp : s.parent v = none) :
    (toObj U s v).get "parent".toList = .none := by
  show parentVal U s v = _
  simp [parentVal, hp]

theorem toObj_parent_some (U : Nat → Attrs) (s : State) (v p : Nat) (hp : s.parent v = some p) :
    (toObj U s v).get "parent".toList
      = .dict [(['u','i','d'], .str (U p).uid), (['a','r','c','h','e','s'], strList (U p).arches)] := by
  show parentVal U s v = _
  simp [parentVal, hp]

theorem ciVariantUid_top (U : Nat → Attrs) (s : State) (v : Nat) (hp : s.parent v = none) :
    ciVariantUid (toObj U s v)
      = if PyVal.pyEq (.str (Str.removeChar '-' (U v).uid)) (.str (U v).id) = true then .ok () else .error .valueError := by
  unfold ciVariantUid
  rw [toObj_parent_none U s v hp]
  rfl

theorem ciVariantUid_child (U : Nat → Attrs) (s : State) (v p : Nat) (hp : s.parent v = some p) :
    ciVariantUid (toObj U s v)
      = if PyVal.pyEq (.str (U v).uid) (.str ((U p).uid ++ '-' :: (U v).id)) = true then .ok () else .error .valueError := by
  unfold ciVariantUid
  rw [toObj_parent_some U s v p hp]
  rfl

theorem ciVariantParentArch_child (U : Nat → Attrs) (s : State) (v p : Nat) (hp : s.parent v = some p) :
    ciVariantParentArch (toObj U s v)
      = if ((U v).arches.map PyVal.str).all (fun a => ((U p).arches.map PyVal.str).any (PyVal.pyEq a ·)) = true
        then .ok () else .error .valueError := by
  unfold ciVariantParentArch
  rw [toObj_parent_some U s v p hp]
  rfl

theorem validated_of_ok (U : Nat → Attrs) (s : State) (v : Nat) (h : validate U s v = .ok ()) : Validated U s v := by
  have hr := validate_rules U s v h
  -- _validate_id
  have hid : pyMatches Gen.re_composeinfo_Variant__validate_id_0 (U v).id = true := by
    have hm : Gen.rules_composeinfo_Variant.flat.any
        (isReOn ['i','d'] Gen.re_composeinfo_Variant__validate_id_0) = true := by decide
    obtain ⟨r, hrm, hp⟩ := mem_of_any hm
    have hc := hr r hrm
    cases r with
    | re g qs =>
      match qs, hp with
      | [q], hp =>
        simp only [isReOn, Bool.and_eq_true, beq_iff_eq, decide_eq_true_eq] at hp
        obtain ⟨rfl, rfl⟩ := hp
        have hg : (toObj U s v).get ['i','d'] = .str (U v).id := rfl
        simp only [Rule.check, hg, List.any_cons, List.any_nil, Bool.or_false] at hc
        by_cases hmm : pyMatches Gen.re_composeinfo_Variant__validate_id_0 (U v).id = true
        · exact hmm
        · simp [hmm] at hc
    | _ => simp [isReOn] at hp
  rw [idRe_shape] at hid
  have hsound := idPattern_sound idCls _ hid
  -- _validate_type
  have htype : (U v).type ∈ Gen.VARIANT_TYPES := by
    have hm : Gen.rules_composeinfo_Variant.flat.any (isValue ['t','y','p','e'] Gen.VARIANT_TYPES) = true := by decide
    obtain ⟨r, hrm, hp⟩ := mem_of_any hm
    have hc := hr r hrm
    cases r with
    | value g u =>
      simp only [isValue, Bool.and_eq_true, beq_iff_eq] at hp
      obtain ⟨rfl, rfl⟩ := hp
      have hg : (toObj U s v).get ['t','y','p','e'] = .str (U v).type := rfl
      simp only [Rule.check, hg] at hc
      by_cases hmm : (U v).type ∈ Gen.VARIANT_TYPES
      · exact hmm
      · simp [hmm] at hc
    | _ => simp [isValue] at hp
  -- _validate_arches
  have harch : (U v).arches ≠ [] := by
    have hm : Gen.rules_composeinfo_Variant.flat.any (isNotBlank ['a','r','c','h','e','s']) = true := by decide
    obtain ⟨r, hrm, hp⟩ := mem_of_any hm
    have hc := hr r hrm
    cases r with
    | notBlank g =>
      simp only [isNotBlank, beq_iff_eq] at hp
      subst hp
      have hg : (toObj U s v).get ['a','r','c','h','e','s'] = strList (U v).arches := rfl
      simp only [Rule.check, hg, strList, PyVal.truthy] at hc
      intro h0
      simp [h0] at hc
    | _ => simp [isNotBlank] at hp
  -- _validate_name
  have hname : (U v).name ≠ [] := by
    have hm : Gen.rules_composeinfo_Variant.flat.any (isNotBlank ['n','a','m','e']) = true := by decide
    obtain ⟨r, hrm, hp⟩ := mem_of_any hm
    have hc := hr r hrm
    cases r with
    | notBlank g =>
      simp only [isNotBlank, beq_iff_eq] at hp
      subst hp
      have hg : (toObj U s v).get ['n','a','m','e'] = .str (U v).name := rfl
      simp only [Rule.check, hg, PyVal.truthy] at hc
      intro h0
      simp [h0] at hc
    | _ => simp [isNotBlank] at hp
  -- _validate_uid
  have huid : ciVariantUid (toObj U s v) = .ok () := by
    have hm : Gen.rules_composeinfo_Variant.flat.any
        (isCustom "composeinfo.Variant._validate_uid".toList) = true := by decide
    obtain ⟨r, hrm, hp⟩ := mem_of_any hm
    have hc := hr r hrm
    cases r with
    | custom k =>
      simp only [isCustom, beq_iff_eq] at hp
      subst hp
      exact hc
    | _ => simp [isCustom] at hp
  -- _validate_parent_arch
  have hpa : ciVariantParentArch (toObj U s v) = .ok () := by
    have hm : Gen.rules_composeinfo_Variant.flat.any
        (isCustom "composeinfo.Variant._validate_parent_arch".toList) = true := by decide
    obtain ⟨r, hrm, hp⟩ := mem_of_any hm
    have hc := hr r hrm
    cases r with
    | custom k =>
      simp only [isCustom, beq_iff_eq] at hp
      subst hp
      exact hc
    | _ => simp [isCustom] at hp
  refine ⟨?_, hsound.1, htype, harch, hname, ?_, ?_, ?_⟩
  · intro hd
    rcases hsound.2 _ hd with h1 | h1
    · revert h1; decide
    · revert h1; decide
  · intro hp
    rw [ciVariantUid_top U s v hp] at huid
    by_cases he : PyVal.pyEq (.str (Str.removeChar '-' (U v).uid)) (.str (U v).id) = true
    · exact str_pyEq he
    · simp [he] at huid
  · intro p hp
    rw [ciVariantUid_child U s v p hp] at huid
    by_cases he : PyVal.pyEq (.str (U v).uid) (.str ((U p).uid ++ '-' :: (U v).id)) = true
    · exact str_pyEq he
    · simp [he] at huid
  · intro p hp a ha
    rw [ciVariantParentArch_child U s v p hp] at hpa
    by_cases he : ((U v).arches.map PyVal.str).all (fun a => ((U p).arches.map PyVal.str).any (PyVal.pyEq a ·)) = true
    · simp only [List.all_eq_true, List.any_eq_true, List.mem_map] at he
      obtain ⟨y, ⟨b, hb, rfl⟩, hy⟩ := he (.str a) ⟨a, ha, rfl⟩
      rw [str_pyEq hy]; exact hb
    · simp at hpa
      obtain ⟨b, hb, hy⟩ := hpa a ha
      rw [str_pyEq hy]; exact hb

end PM.Forest
