import ProductMD.Proofs.C10Rpms
/-!
C10, rpms side: the source RPM re-filed by the 0.3 reader.

For a binary arch `a` of variant `v` that lists packages built from the source package `k`, and an entry `sd` for `k`
in the variant's `src` table, the converted mapping holds at `[v][a][K][K]` (K = canonical N-E:V-R.A of `k`) the
record `{sigkey: lower(sd.sigkey), path: sd.path, category: "source"}`.

Argument: *last write wins*.  Inside the group of `k` every binary RPM is followed by the `add` of the source RPM, so
the last write of the group is that record (`C12_rpms_content`); everything the reader does afterwards addresses
another source-package key, another arch or another variant (`C12_rpms_frame_*`).
-/
namespace PM.Mf.C10
open PM PM.Spec
open PM.PyOps (iter subscript item pyEq)
set_option Elab.async false

/-! ### small facts -/

theorem add_ok_plan {s s' : PyVal} {args : RpmsArgs} (h : Rpms.add s args = (s', .ok ())) : ∃ p, rpmsCheck args = .ok p := by
  rw [Rpms.add_eq] at h
  cases hc : rpmsCheck args with
  | error e => rw [hc] at h; simp only [Prod.mk.injEq] at h; cases h.2
  | ok p => exact ⟨p, rfl⟩

theorem add_check_error {s : PyVal} {args : RpmsArgs} {e : Err} (h : rpmsCheck args = .error e) : (Rpms.add s args).1 = s := by
  rw [Rpms.add_eq, h]

theorem pyEq_str (a b : Str) : pyEq (.str a) (.str b) = true ↔ a = b := by
  rw [PyOps.pyEq_iff]
  simp [PyOps.eqKey, PyOps.numNorm, PyVal.canon]

theorem strKey_ok {x : PyVal} {a : Str} (h : strKey x = .ok a) : x = .str a := by
  cases x <;> simp [strKey] at h
  subst h; rfl

theorem lookup_of_mem : ∀ (kvs : Kvs) (k : Str) (x : PyVal), (kvs.map (·.1)).Nodup → (k, x) ∈ kvs → lookup kvs k = some x := by
  intro kvs
  induction kvs with
  | nil => intro k x _ h; cases h
  | cons p rest ih =>
    intro k x hn hm
    obtain ⟨k', y⟩ := p
    simp only [List.map_cons, List.nodup_cons] at hn
    unfold lookup
    rcases List.mem_cons.mp hm with e | e
    · injection e with e1 e2
      subst e1 e2
      simp
    · have hne : ¬ k' = k := by
        intro e'; subst e'
        exact hn.1 (List.mem_map.mpr ⟨(k', x), e, rfl⟩)
      have : (k' == k) = false := by simpa using hne
      simp only [this, Bool.false_eq_true, ↓reduceIte]
      exact ih k x hn.2 e

theorem find_of_mem : ∀ (kvs : Kvs) (k : Str) (x : PyVal), (kvs.map (·.1)).Nodup → (k, x) ∈ kvs →
    kvs.find? (·.1 == k) = some (k, x) := by
  intro kvs
  induction kvs with
  | nil => intro k x _ h; cases h
  | cons p rest ih =>
    intro k x hn hm
    obtain ⟨k', y⟩ := p
    simp only [List.map_cons, List.nodup_cons] at hn
    rcases List.mem_cons.mp hm with e | e
    · injection e with e1 e2
      subst e1 e2
      simp [List.find?]
    · have hne : ¬ k' = k := by
        intro e'; subst e'
        exact hn.1 (List.mem_map.mpr ⟨(k', x), e, rfl⟩)
      have : (k' == k) = false := by simpa using hne
      simp only [List.find?, this]
      exact ih k x hn.2 e

theorem nodup_map_str : ∀ (l : List Str), l.Nodup → (l.map PyVal.str).Nodup
  | [], _ => List.nodup_nil
  | x :: xs, h => by
    simp only [List.map_cons, List.nodup_cons] at h ⊢
    refine ⟨?_, nodup_map_str xs h.2⟩
    intro hm
    obtain ⟨y, hy, e⟩ := List.mem_map.mp hm
    injection e with e
    subst e
    exact h.1 hy

theorem subscript_of_mem (kvs : Kvs) (k : Str) (x : PyVal) (hn : (kvs.map (·.1)).Nodup) (hm : (k, x) ∈ kvs) :
    subscript (.dict kvs) (.str k) = .ok x := by
  simp only [subscript, find_of_mem kvs k x hn hm]

/-! ### invariants restricted to what the loop at hand can pass to `add` -/

section inv
variable (P : PyVal → Prop)

theorem addDyn_inv' {variant arch : Str} (hP : ∀ s args, args.variant = variant → args.arch = arch → P s → P (Rpms.add s args).1)
    {s s' : PyVal} {nevra : Str} {path sigkey category : PyVal} {srpm : Option Str}
    (h : addDyn s variant arch nevra path sigkey category srpm = .ok s') (hs : P s) : P s' := by
  obtain ⟨p, cat, sk, _, _, _, hadd⟩ := addDyn_ok h
  have := hP s { variant, arch, nevra, path := p, sigkey := sk, category := cat, srpm } rfl rfl hs
  rw [hadd] at this
  exact this

theorem srcStep_ok {variant arch srpm : Str} {sd s1 s2 : PyVal} (h : srcStep variant arch srpm sd s1 = .ok s2) :
    (sd = .none ∧ s2 = s1) ∨ (sd ≠ .none ∧ ∃ sp sk, item sd (lit "path") = .ok sp ∧ item sd (lit "sigkey") = .ok sk ∧
      addDyn s1 variant arch srpm sp sk (.str sSource) none = .ok s2) := by
  unfold srcStep at h
  split at h
  · injection h with h; exact Or.inl ⟨rfl, h.symm⟩
  · rename_i hne
    right
    refine ⟨fun e => hne e, ?_⟩
    split at h; · cases h
    rename_i sp h1
    split at h; · cases h
    rename_i sk h2
    exact ⟨sp, sk, h1, h2, h⟩

theorem loadRpms03_inv' {variant arch : Str} (hP : ∀ s args, args.variant = variant → args.arch = arch → P s → P (Rpms.add s args).1)
    (srpm : Str) (sd : PyVal) :
    ∀ (its : List (Str × PyVal)) (s s' : PyVal), loadRpms03 variant arch srpm sd its s = .ok s' → P s → P s' := by
  intro its
  induction its with
  | nil => intro s s' h hs; rw [loadRpms03_nil] at h; injection h with h; subst h; exact hs
  | cons it rest ih =>
    intro s s' h hs
    obtain ⟨nevra, data⟩ := it
    obtain ⟨_, _, _, s1, s2, _, _, _, h4, h5, h6⟩ := loadRpms03_cons h
    have hs1 := addDyn_inv' P hP h4 hs
    have hs2 : P s2 := by
      rcases srcStep_ok h5 with ⟨_, rfl⟩ | ⟨_, sp, sk, _, _, hadd⟩
      · exact hs1
      · exact addDyn_inv' P hP hadd hs1
    exact ih s2 s' h6 hs2

theorem loadSrpms03_inv' {variant arch : Str} (hP : ∀ s args, args.variant = variant → args.arch = arch → P s → P (Rpms.add s args).1)
    (srcTable : PyVal) :
    ∀ (its : List (Str × PyVal)) (s s' : PyVal), loadSrpms03 variant arch srcTable its s = .ok s' → P s → P s' := by
  intro its
  induction its with
  | nil => intro s s' h hs; simp only [loadSrpms03] at h; injection h with h; subst h; exact hs
  | cons it rest ih =>
    intro s s' h hs
    obtain ⟨srpm, rpms⟩ := it
    obtain ⟨sd, its', s1, _, _, h3, h4⟩ := loadSrpms03_cons h
    exact ih s1 s' h4 (loadRpms03_inv' P hP srpm sd its' s s1 h3 hs)

/-- the loop over the arch keys `keys`: only arches in `keys` are passed to `add` -/
theorem loadArches03_inv' {variant : Str} (archs : PyVal) :
    ∀ (keys : List PyVal), (∀ s args, args.variant = variant → PyVal.str args.arch ∈ keys → P s → P (Rpms.add s args).1) →
      ∀ (s s' : PyVal), loadArches03 variant archs keys s = .ok s' → P s → P s' := by
  intro keys
  induction keys with
  | nil => intro _ s s' h hs; simp only [loadArches03] at h; injection h with h; subst h; exact hs
  | cons a rest ih =>
    intro hP s s' h hs
    have hP' : ∀ s args, args.variant = variant → PyVal.str args.arch ∈ rest → P s → P (Rpms.add s args).1 :=
      fun s args hv ha => hP s args hv (List.mem_cons_of_mem _ ha)
    rcases loadArches03_cons h with ⟨_, h'⟩ | ⟨_, cell, its, srcTable, arch, s1, _, _, _, h4, h5, h6⟩
    · exact ih hP' s s' h' hs
    · have ha := strKey_ok h4
      subst ha
      refine ih hP' s1 s' h6 (loadSrpms03_inv' P (variant := variant) (arch := arch) ?_ srcTable its s s1 h5 hs)
      intro s args hv ha
      exact hP s args hv (ha ▸ List.mem_cons_self)

/-- the loop over the variant keys `vs`: only variants in `vs` are passed to `add` -/
theorem loadVariants03_inv' (payload : PyVal) :
    ∀ (vs : List PyVal), (∀ s args, PyVal.str args.variant ∈ vs → P s → P (Rpms.add s args).1) →
      ∀ (s s' : PyVal), loadVariants03 payload vs s = .ok s' → P s → P s' := by
  intro vs
  induction vs with
  | nil => intro _ s s' h hs; simp only [loadVariants03] at h; injection h with h; subst h; exact hs
  | cons v rest ih =>
    intro hP s s' h hs
    obtain ⟨archs, keys, variant, s1, _, _, h3, h4, h5⟩ := loadVariants03_cons h
    have hv := strKey_ok h3
    subst hv
    refine ih (fun s args hv => hP s args (List.mem_cons_of_mem _ hv)) s1 s' h5 ?_
    exact loadArches03_inv' P (variant := variant) archs keys (fun s args hv _ => hP s args (hv ▸ List.mem_cons_self)) s s1 h4 hs

end inv

/-! ### frames -/

/-- calls for another variant leave `[v']…` alone -/
theorem add_frame_variant (v' : Str) (rest : List Str) (c : Option PyVal) (s : PyVal) (args : RpmsArgs) (hne : args.variant ≠ v')
    (h : getPath s (v' :: rest) = c) : getPath (Rpms.add s args).1 (v' :: rest) = c := by
  cases hc : rpmsCheck args with
  | error e => rw [add_check_error hc]; exact h
  | ok p => rw [C12_rpms_frame_variant s args p hc v' rest (fun e => hne e.symm)]; exact h

/-- calls for the same variant and another arch leave `[v][a']…` alone -/
theorem add_frame_arch (v a' : Str) (rest : List Str) (c : Option PyVal) (s : PyVal) (args : RpmsArgs) (hv : args.variant = v)
    (hne : args.arch ≠ a') (h : getPath s (v :: a' :: rest) = c) : getPath (Rpms.add s args).1 (v :: a' :: rest) = c := by
  cases hc : rpmsCheck args with
  | error e => rw [add_check_error hc]; exact h
  | ok p =>
    have := C12_rpms_frame_arch s args p hc a' rest (fun e => hne e.symm)
    rw [hv] at this
    rw [this]; exact h

/-- a successful call that files under another source-package key leaves `[v][a][K][K]` alone -/
theorem add_frame_key {s s' : PyVal} {args : RpmsArgs} {p : RpmsPlan} (hadd : Rpms.add s args = (s', .ok ())) (hc : rpmsCheck args = .ok p)
    (K : Str) (hne : p.srpmKey ≠ K) :
    getPath s' [args.variant, args.arch, K, K] = getPath s [args.variant, args.arch, K, K] := by
  have := C12_rpms_frame_pointwise s args p hc args.variant args.arch K K [] (fun h => hne h.2.2.1.symm)
  rw [hadd] at this
  exact this

/-- the group of another source package `k'` (non-empty text, other canonical form) leaves `[v][a][K][K]` alone -/
theorem loadRpms03_frame_key (v a k' : Str) (sd' : PyVal) (K : Str) (hne : k' ≠ [])
    (hd : ∀ d', parseNvra k' = .ok d' → canonNvra d' ≠ K) :
    ∀ (its : List (Str × PyVal)) (s s' : PyVal), loadRpms03 v a k' sd' its s = .ok s' →
      getPath s' [v, a, K, K] = getPath s [v, a, K, K] := by
  intro its
  induction its with
  | nil => intro s s' h; rw [loadRpms03_nil] at h; injection h with h; subst h; rfl
  | cons it rest ih =>
    intro s s' h
    obtain ⟨nevra, data⟩ := it
    obtain ⟨cat0, path, sigkey, s1, s2, _, _, _, h4, h5, h6⟩ := loadRpms03_cons h
    have e1 : getPath s1 [v, a, K, K] = getPath s [v, a, K, K] := by
      obtain ⟨p, cat, sk, _, _, _, hadd⟩ := addDyn_ok h4
      obtain ⟨pl, hc⟩ := add_ok_plan hadd
      have acc := C12_rpms_plan _ pl hc
      have hkey : pl.srpmKey ≠ K := by
        by_cases hcat : cat = lit "source"
        · have := (acc.source_no_srpm hcat).1
          cases this
        · obtain ⟨s0, hs0, hdis⟩ := acc.binary_srpm hcat
          injection hs0 with hs0
          subst hs0
          rcases hdis with ⟨he, _⟩ | ⟨_, _, d, hp, hk⟩
          · exact absurd he hne
          · rw [hk]; exact hd d hp
      exact add_frame_key hadd hc K hkey
    have e2 : getPath s2 [v, a, K, K] = getPath s1 [v, a, K, K] := by
      rcases srcStep_ok h5 with ⟨_, rfl⟩ | ⟨_, sp, sk, _, _, hadd'⟩
      · rfl
      · obtain ⟨p, cat, skk, _, hcat, _, hadd⟩ := addDyn_ok hadd'
        injection hcat with hcat
        subst hcat
        obtain ⟨pl, hc⟩ := add_ok_plan hadd
        have acc := C12_rpms_plan _ pl hc
        obtain ⟨d, hp, hk, _⟩ := acc.parsed
        have hkey : pl.srpmKey ≠ K := by
          rw [(acc.source_no_srpm rfl).2, hk]; exact hd d hp
        exact add_frame_key hadd hc K hkey
    rw [ih s2 s' h6, e2, e1]

theorem loadSrpms03_frame_key (v a : Str) (srcTable : PyVal) (K : Str) :
    ∀ (its : List (Str × PyVal)) (s s' : PyVal),
      (∀ it ∈ its, it.1 ≠ [] ∧ ∀ d', parseNvra it.1 = .ok d' → canonNvra d' ≠ K) →
      loadSrpms03 v a srcTable its s = .ok s' → getPath s' [v, a, K, K] = getPath s [v, a, K, K] := by
  intro its
  induction its with
  | nil => intro s s' _ h; simp only [loadSrpms03] at h; injection h with h; subst h; rfl
  | cons it rest ih =>
    intro s s' hall h
    obtain ⟨k', rpms⟩ := it
    obtain ⟨sd, its', s1, _, _, h3, h4⟩ := loadSrpms03_cons h
    have hk := hall (k', rpms) List.mem_cons_self
    rw [ih s1 s' (fun it hit => hall it (List.mem_cons_of_mem _ hit)) h4,
        loadRpms03_frame_key v a k' sd K hk.1 hk.2 its' s s1 h3]

/-! ### content: the last write of the group -/

/-- what the group of source package `k` leaves at `[v][a][K][K]` when the `src` table knows `k` -/
theorem loadRpms03_content (v a k : Str) (sd : PyVal) (hsd : sd ≠ .none) :
    ∀ (its : List (Str × PyVal)) (s s' : PyVal), its ≠ [] → loadRpms03 v a k sd its s = .ok s' →
      ∃ (p : Str) (sk : Option Str) (d : Nvra), item sd (lit "path") = .ok (.str p) ∧ item sd (lit "sigkey") = .ok (optStr sk) ∧
        parseNvra k = .ok d ∧ ':' ∈ k ∧
        getPath s' [v, a, canonNvra d, canonNvra d] = some (rpmRecord (sk.map Str.lowerAscii) p (lit "source")) := by
  intro its
  induction its with
  | nil => intro s s' hne; exact absurd rfl hne
  | cons it rest ih =>
    intro s s' _ h
    obtain ⟨nevra, data⟩ := it
    obtain ⟨cat0, path, sigkey, s1, s2, _, _, _, h4, h5, h6⟩ := loadRpms03_cons h
    by_cases hrest : rest = []
    · subst hrest
      rw [loadRpms03_nil] at h6
      injection h6 with h6
      subst h6
      rcases srcStep_ok h5 with ⟨hn, _⟩ | ⟨_, sp, sk, hp, hk, hadd'⟩
      · exact absurd hn hsd
      · obtain ⟨p, cat, skk, hpath, hcat, hsig, hadd⟩ := addDyn_ok hadd'
        injection hcat with hcat
        subst hcat
        subst hpath hsig
        obtain ⟨pl, hc⟩ := add_ok_plan hadd
        have acc := C12_rpms_plan _ pl hc
        obtain ⟨d, hparse, hkey, _⟩ := acc.parsed
        have hcontent := C12_rpms_content s1 _ pl hc (by rw [hadd])
        rw [hadd] at hcontent
        simp only at hcontent
        rw [(acc.source_no_srpm rfl).2, hkey, acc.record] at hcontent
        exact ⟨p, skk, d, hp, hk, hparse, acc.has_colon, hcontent⟩
    · exact ih s2 s' hrest h6

/-! ### the loop over the source packages of one (variant, arch) -/

theorem loadSrpms03_content (v a : Str) (st : Kvs) (k : Str) (sd : PyVal) (hst : lookup st k = some sd) (hsd : sd ≠ .none)
    (dk : Nvra) (hparse : parseNvra k = .ok dk) (rl : Kvs) (hrl : rl ≠ []) :
    ∀ (its : List (Str × PyVal)) (s s' : PyVal), (its.map (·.1)).Nodup → (k, PyVal.dict rl) ∈ its →
      (∀ it ∈ its, it.1 ≠ k → it.1 ≠ [] ∧ ∀ d', parseNvra it.1 = .ok d' → canonNvra d' ≠ canonNvra dk) →
      loadSrpms03 v a (.dict st) its s = .ok s' →
      ∃ (p : Str) (sk : Option Str), item sd (lit "path") = .ok (.str p) ∧ item sd (lit "sigkey") = .ok (optStr sk) ∧
        getPath s' [v, a, canonNvra dk, canonNvra dk] = some (rpmRecord (sk.map Str.lowerAscii) p (lit "source")) := by
  intro its
  induction its with
  | nil => intro s s' _ hm; cases hm
  | cons it rest ih =>
    intro s s' hn hm hdist h
    obtain ⟨k', rpms⟩ := it
    obtain ⟨sd', its', s1, h1, h2, h3, h4⟩ := loadSrpms03_cons h
    simp only [List.map_cons, List.nodup_cons] at hn
    by_cases hk : k' = k
    · subst hk
      have hrp : rpms = .dict rl := by
        rcases List.mem_cons.mp hm with e | e
        · injection e with _ e2; exact e2.symm
        · exact absurd (List.mem_map.mpr ⟨(k', .dict rl), e, rfl⟩) hn.1
      subst hrp
      have hsd' : sd' = sd := by
        simp only [dictGetD, hst, Option.getD_some] at h1
        injection h1 with h1; exact h1.symm
      subst hsd'
      have hits : its' = rl := by simp only [dictItems] at h2; injection h2 with h2; exact h2.symm
      subst hits
      obtain ⟨p, sk, d, hp, hsk, hpd, _, hcontent⟩ := loadRpms03_content v a k' sd' hsd its' s s1 hrl h3
      rw [hparse] at hpd
      injection hpd with hpd
      subst hpd
      refine ⟨p, sk, hp, hsk, ?_⟩
      rw [loadSrpms03_frame_key v a (.dict st) (canonNvra dk) rest s1 s' ?_ h4]
      · exact hcontent
      · intro it hit
        have hne : it.1 ≠ k' := fun e => hn.1 (e ▸ List.mem_map.mpr ⟨it, hit, rfl⟩)
        exact hdist it (List.mem_cons_of_mem _ hit) hne
    · have hm' : (k, PyVal.dict rl) ∈ rest := by
        rcases List.mem_cons.mp hm with e | e
        · injection e with e1 _; exact absurd e1.symm hk
        · exact e
      exact ih s1 s' hn.2 hm' (fun it hit => hdist it (List.mem_cons_of_mem _ hit)) h4

/-! ### the loop over the arches of one variant -/

theorem loadArches03_content (v : Str) (as : Kvs) (has : (as.map (·.1)).Nodup) (a : Str) (ha : a ≠ lit "src")
    (cell : Kvs) (hcell : (a, PyVal.dict cell) ∈ as) (hcn : (cell.map (·.1)).Nodup)
    (st : Kvs) (hsrc : (lit "src", PyVal.dict st) ∈ as) (k : Str) (sd : PyVal) (hst : lookup st k = some sd) (hsd : sd ≠ .none)
    (dk : Nvra) (hparse : parseNvra k = .ok dk) (rl : Kvs) (hrl : rl ≠ []) (hk : (k, PyVal.dict rl) ∈ cell)
    (hdist : ∀ it ∈ cell, it.1 ≠ k → it.1 ≠ [] ∧ ∀ d', parseNvra it.1 = .ok d' → canonNvra d' ≠ canonNvra dk) :
    ∀ (keys : List PyVal) (s s' : PyVal), keys.Nodup → PyVal.str a ∈ keys → loadArches03 v (.dict as) keys s = .ok s' →
      ∃ (p : Str) (sk : Option Str), item sd (lit "path") = .ok (.str p) ∧ item sd (lit "sigkey") = .ok (optStr sk) ∧
        getPath s' [v, a, canonNvra dk, canonNvra dk] = some (rpmRecord (sk.map Str.lowerAscii) p (lit "source")) := by
  intro keys
  induction keys with
  | nil => intro s s' _ hm; cases hm
  | cons x rest ih =>
    intro s s' hn hm h
    simp only [List.nodup_cons] at hn
    rcases loadArches03_cons h with ⟨hsrcx, h'⟩ | ⟨hnsrc, cellV, its, srcTable, arch, s1, h1, h2, h3, h4, h5, h6⟩
    · have hx : x ≠ .str a := by
        rintro rfl
        exact ha ((pyEq_str a _).mp hsrcx)
      have hm' : PyVal.str a ∈ rest := by
        rcases List.mem_cons.mp hm with e | e
        · exact absurd e.symm hx
        · exact e
      exact ih s s' hn.2 hm' h'
    · have hx := strKey_ok h4
      subst hx
      by_cases harch : arch = a
      · subst harch
        rw [subscript_of_mem as arch (.dict cell) has hcell] at h1
        injection h1 with h1
        subst h1
        simp only [dictItems] at h2
        injection h2 with h2
        subst h2
        have hst' : srcTable = .dict st := by
          have : lookup as sSrcArch = some (.dict st) := lookup_of_mem as _ _ has hsrc
          simp only [dictGetD, this, Option.getD_some] at h3
          injection h3 with h3; exact h3.symm
        subst hst'
        obtain ⟨p, sk, hp, hsk, hcontent⟩ := loadSrpms03_content v arch st k sd hst hsd dk hparse rl hrl cell s s1 hcn hk hdist h5
        refine ⟨p, sk, hp, hsk, ?_⟩
        have hframe := loadArches03_inv' (fun t => getPath t [v, arch, canonNvra dk, canonNvra dk] = some (rpmRecord (sk.map Str.lowerAscii) p (lit "source")))
          (variant := v) (.dict as) rest
          (fun t args hv hmem ht => add_frame_arch v arch _ _ t args hv (by rintro rfl; exact hn.1 hmem) ht) s1 s' h6 hcontent
        exact hframe
      · have hm' : PyVal.str a ∈ rest := by
          rcases List.mem_cons.mp hm with e | e
          · injection e with e; exact absurd e.symm harch
          · exact e
        exact ih s1 s' hn.2 hm' h6

/-! ### the loop over the variants -/

theorem loadVariants03_content (vs : Kvs) (hvs : (vs.map (·.1)).Nodup) (v : Str) (as : Kvs) (hv : (v, PyVal.dict as) ∈ vs)
    (has : (as.map (·.1)).Nodup) (a : Str) (ha : a ≠ lit "src")
    (cell : Kvs) (hcell : (a, PyVal.dict cell) ∈ as) (hcn : (cell.map (·.1)).Nodup)
    (st : Kvs) (hsrc : (lit "src", PyVal.dict st) ∈ as) (k : Str) (sd : PyVal) (hst : lookup st k = some sd) (hsd : sd ≠ .none)
    (dk : Nvra) (hparse : parseNvra k = .ok dk) (rl : Kvs) (hrl : rl ≠ []) (hk : (k, PyVal.dict rl) ∈ cell)
    (hdist : ∀ it ∈ cell, it.1 ≠ k → it.1 ≠ [] ∧ ∀ d', parseNvra it.1 = .ok d' → canonNvra d' ≠ canonNvra dk) :
    ∀ (keys : List PyVal) (s s' : PyVal), keys.Nodup → PyVal.str v ∈ keys → loadVariants03 (.dict vs) keys s = .ok s' →
      ∃ (p : Str) (sk : Option Str), item sd (lit "path") = .ok (.str p) ∧ item sd (lit "sigkey") = .ok (optStr sk) ∧
        getPath s' [v, a, canonNvra dk, canonNvra dk] = some (rpmRecord (sk.map Str.lowerAscii) p (lit "source")) := by
  intro keys
  induction keys with
  | nil => intro s s' _ hm; cases hm
  | cons x rest ih =>
    intro s s' hn hm h
    simp only [List.nodup_cons] at hn
    obtain ⟨archs, akeys, variant, s1, h1, h2, h3, h4, h5⟩ := loadVariants03_cons h
    have hx := strKey_ok h3
    subst hx
    by_cases hvar : variant = v
    · subst hvar
      rw [subscript_of_mem vs variant (.dict as) hvs hv] at h1
      injection h1 with h1
      subst h1
      simp only [iter] at h2
      injection h2 with h2
      subst h2
      have hkn : (as.map fun kv => PyVal.str kv.1).Nodup := by
        have : (as.map fun kv => PyVal.str kv.1) = (as.map (·.1)).map PyVal.str := by simp [List.map_map, Function.comp_def]
        rw [this]
        exact nodup_map_str _ has
      have hamem : PyVal.str a ∈ as.map fun kv => PyVal.str kv.1 := List.mem_map.mpr ⟨(a, .dict cell), hcell, rfl⟩
      obtain ⟨p, sk, hp, hsk, hcontent⟩ := loadArches03_content variant as has a ha cell hcell hcn st hsrc k sd hst hsd dk hparse rl hrl hk hdist
        _ s s1 hkn hamem h4
      refine ⟨p, sk, hp, hsk, ?_⟩
      exact loadVariants03_inv' (fun t => getPath t [variant, a, canonNvra dk, canonNvra dk] = some (rpmRecord (sk.map Str.lowerAscii) p (lit "source")))
        (.dict vs) rest (fun t args hmem ht => add_frame_variant variant _ _ t args (by rintro rfl; exact hn.1 hmem) ht) s1 s' h5 hcontent
    · have hm' : PyVal.str v ∈ rest := by
        rcases List.mem_cons.mp hm with e | e
        · injection e with e; exact absurd e.symm hvar
        · exact e
      exact ih s1 s' hn.2 hm' h5

/-- **the re-filed source RPM**, at the level of `deserialize_0_3`'s mapping -/
theorem manifest03_refile (pl s : PyVal) (h : manifest03 pl = .ok s)
    (vs : Kvs) (hpl : getItem pl (lit "manifest") = .ok (.dict vs)) (hvs : (vs.map (·.1)).Nodup)
    (v : Str) (as : Kvs) (hv : (v, PyVal.dict as) ∈ vs) (has : (as.map (·.1)).Nodup)
    (a : Str) (ha : a ≠ lit "src") (cell : Kvs) (hcell : (a, PyVal.dict cell) ∈ as) (hcn : (cell.map (·.1)).Nodup)
    (st : Kvs) (hsrc : (lit "src", PyVal.dict st) ∈ as) (k : Str) (sd : PyVal) (hst : lookup st k = some sd) (hsd : sd ≠ .none)
    (dk : Nvra) (hparse : parseNvra k = .ok dk) (rl : Kvs) (hrl : rl ≠ []) (hk : (k, PyVal.dict rl) ∈ cell)
    (hdist : ∀ it ∈ cell, it.1 ≠ k → it.1 ≠ [] ∧ ∀ d', parseNvra it.1 = .ok d' → canonNvra d' ≠ canonNvra dk) :
    ∃ (p : Str) (sk : Option Str), item sd (lit "path") = .ok (.str p) ∧ item sd (lit "sigkey") = .ok (optStr sk) ∧
      getPath s [v, a, canonNvra dk, canonNvra dk] = some (rpmRecord (sk.map Str.lowerAscii) p (lit "source")) := by
  obtain ⟨payload, keys, h1, h2, h3⟩ := manifest03_ok h
  rw [hpl] at h1
  injection h1 with h1
  subst h1
  simp only [iter] at h2
  injection h2 with h2
  subst h2
  have hkn : (vs.map fun kv => PyVal.str kv.1).Nodup := by
    have : (vs.map fun kv => PyVal.str kv.1) = (vs.map (·.1)).map PyVal.str := by simp [List.map_map, Function.comp_def]
    rw [this]
    exact nodup_map_str _ hvs
  exact loadVariants03_content vs hvs v as hv has a ha cell hcell hcn st hsrc k sd hst hsd dk hparse rl hrl hk hdist
    _ empty s hkn (List.mem_map.mpr ⟨(v, .dict as), hv, rfl⟩) h3

/-! ### the whole reader, and the writer -/

/-- a document whose header version passes the generated gate `<= (0, 3)`: the payload of the loaded manifest is what
`deserialize_0_3` built -/
theorem deserializeL_legacy (doc : PyVal) (m : Manifest) (h : deserializeL .rpms doc = .ok m)
    (ver : PyVal) (l : Nat × Nat) (hh : headerDeserialize .rpms doc = .ok (ver, .nums l))
    (hg : gateHolds Gen.gate_rpms_Rpms_deserialize_0 l = true) :
    ∃ pl, getItem doc (lit "payload") = .ok pl ∧ manifest03 pl = .ok m.payload := by
  unfold deserializeL at h
  rw [hh] at h
  simp only [hg] at h
  split at h; · cases h
  rename_i pl hpl
  split at h; · cases h
  split at h; · cases h
  rename_i payload hm
  split at h; · cases h
  injection h with h
  subst h
  exact ⟨pl, hpl, hm⟩

/-- `Rpms.serialize` emits the mapping verbatim under `payload.rpms` -/
theorem serialize_rpms_payload (m : Manifest) (doc : PyVal) (h : (serialize .rpms m).2 = .ok doc) :
    ∃ pl, getItem doc (lit "payload") = .ok pl ∧ getItem pl (lit "rpms") = .ok m.payload := by
  simp only [serialize] at h
  split at h; · cases h
  split at h; · cases h
  injection h with h
  subst h
  exact ⟨_, rfl, rfl⟩

end PM.Mf.C10
