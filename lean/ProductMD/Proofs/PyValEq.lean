import ProductMD.Model.PyOps
/-!
`PyVal.beq` decides equality, hence the model's Python `==` (`PyOps.pyEq`) is "equal canonical representatives":
an equivalence relation.
-/
namespace PM.PyOps
open PM

mutual
theorem beq_eq : ∀ (a b : PyVal), PyVal.beq a b = true → a = b
  | .none, b => by cases b <;> simp [PyVal.beq]
  | .bool x, b => by cases b <;> simp [PyVal.beq]
  | .int x, b => by cases b <;> simp [PyVal.beq]
  | .float x, b => by cases b <;> simp [PyVal.beq]
  | .str x, b => by cases b <;> simp [PyVal.beq]
  | .other x, b => by cases b <;> simp [PyVal.beq]
  | .list xs, b => by
    cases b <;> simp [PyVal.beq]
    exact beqList_eq xs _
  | .dict xs, b => by
    cases b <;> simp [PyVal.beq]
    exact beqKvs_eq xs _
theorem beqList_eq : ∀ (a b : List PyVal), PyVal.beqList a b = true → a = b
  | [], b => by cases b <;> simp [PyVal.beqList]
  | x :: xs, b => by
    cases b with
    | nil => simp [PyVal.beqList]
    | cons y ys =>
      simp only [PyVal.beqList, Bool.and_eq_true, List.cons.injEq]
      intro h
      exact ⟨beq_eq x y h.1, beqList_eq xs ys h.2⟩
theorem beqKvs_eq : ∀ (a b : List (Str × PyVal)), PyVal.beqKvs a b = true → a = b
  | [], b => by cases b <;> simp [PyVal.beqKvs]
  | (k, x) :: xs, b => by
    cases b with
    | nil => simp [PyVal.beqKvs]
    | cons y ys =>
      obtain ⟨l, y⟩ := y
      simp only [PyVal.beqKvs, Bool.and_eq_true, List.cons.injEq, Prod.mk.injEq, beq_iff_eq]
      intro h
      exact ⟨⟨h.1.1, beq_eq x y h.1.2⟩, beqKvs_eq xs ys h.2⟩
end

mutual
theorem beq_refl : ∀ (a : PyVal), PyVal.beq a a = true
  | .none => by simp [PyVal.beq]
  | .bool x => by simp [PyVal.beq]
  | .int x => by simp [PyVal.beq]
  | .float x => by simp [PyVal.beq]
  | .str x => by simp [PyVal.beq]
  | .other x => by simp [PyVal.beq]
  | .list xs => by simp only [PyVal.beq]; exact beqList_refl xs
  | .dict xs => by simp only [PyVal.beq]; exact beqKvs_refl xs
theorem beqList_refl : ∀ (a : List PyVal), PyVal.beqList a a = true
  | [] => by simp [PyVal.beqList]
  | x :: xs => by simp only [PyVal.beqList, Bool.and_eq_true]; exact ⟨beq_refl x, beqList_refl xs⟩
theorem beqKvs_refl : ∀ (a : List (Str × PyVal)), PyVal.beqKvs a a = true
  | [] => by simp [PyVal.beqKvs]
  | (k, x) :: xs => by
    simp only [PyVal.beqKvs, Bool.and_eq_true, beq_self_eq_true, true_and]
    exact ⟨beq_refl x, beqKvs_refl xs⟩
end

theorem beq_iff (a b : PyVal) : PyVal.beq a b = true ↔ a = b :=
  ⟨beq_eq a b, fun h => h ▸ beq_refl a⟩

/-- the model's `==` holds exactly when the canonical representatives coincide -/
theorem pyEq_iff (a b : PyVal) : pyEq a b = true ↔ eqKey a = eqKey b := beq_iff _ _

theorem pyEq_false_iff (a b : PyVal) : pyEq a b = false ↔ eqKey a ≠ eqKey b := by
  have h := pyEq_iff a b
  cases hp : pyEq a b
  · simp only [true_iff]; intro e; rw [h.mpr e] at hp; cases hp
  · simp only [Bool.true_eq_false, false_iff, ne_eq]; exact fun hn => hn (h.mp hp)

theorem pyEq_refl (a : PyVal) : pyEq a a = true := (pyEq_iff a a).mpr rfl
theorem pyEq_symm (a b : PyVal) : pyEq a b = pyEq b a := by
  cases h : pyEq b a
  · rw [pyEq_false_iff] at *; exact fun e => h e.symm
  · rw [pyEq_iff] at *; exact h.symm

end PM.PyOps
