import ProductMD.Proofs.SortBy
import ProductMD.Proofs.Decimal
import ProductMD.Model.TreeInfo
/-!
String facts the treeinfo / discinfo readers rest on: `split(",")` inverts `",".join`, `sorted(set(..))` of a
duplicate-free list, `int(str(n)) == n`, `strip()` of text without outer blanks.
-/
namespace PM
namespace TI
open Ini Str

theorem splitOn_not_mem (sep : Char) : ∀ s : Str, sep ∉ s → splitOn sep s = [s]
  | [], _ => rfl
  | c :: cs, h => by
    simp only [List.mem_cons, not_or] at h
    have hc : ¬ c = sep := fun e => h.1 e.symm
    simp only [splitOn, hc, if_false, splitOn_not_mem sep cs h.2]

theorem splitOn_app_sep (sep : Char) : ∀ (a b : Str), sep ∉ a → splitOn sep (a ++ sep :: b) = a :: splitOn sep b
  | [], b, _ => by simp [splitOn]
  | c :: cs, b, h => by
    simp only [List.mem_cons, not_or] at h
    have hc : ¬ c = sep := fun e => h.1 e.symm
    simp only [List.cons_append, splitOn, hc, if_false, splitOn_app_sep sep cs b h.2]

/-- `sep.join(l).split(sep) == l` for a non-empty list of separator-free strings -/
theorem splitOn_joinWith (sep : Char) : ∀ l : List Str, l ≠ [] → (∀ x ∈ l, sep ∉ x) → splitOn sep (joinWith sep l) = l
  | [], h, _ => absurd rfl h
  | [x], _, h => by simpa [joinWith] using splitOn_not_mem sep x (h x (by simp))
  | x :: y :: r, _, h => by
    have : joinWith sep (x :: y :: r) = x ++ sep :: joinWith sep (y :: r) := rfl
    rw [this, splitOn_app_sep sep x _ (h x (by simp)),
      splitOn_joinWith sep (y :: r) (by simp) (fun z hz => h z (List.mem_cons_of_mem _ hz))]

/-- `[i for i in ",".join(l).split(",") if i] == l` for non-empty, comma-free strings (any length of `l`) -/
theorem splitNonEmpty_join (l : List Str) (h1 : ∀ x ∈ l, x ≠ []) (h2 : ∀ x ∈ l, ',' ∉ x) :
    splitNonEmpty (joinWith ',' l) = l := by
  unfold splitNonEmpty
  cases l with
  | nil => rfl
  | cons x r =>
    rw [splitOn_joinWith ',' (x :: r) (by simp) h2]
    apply List.filter_eq_self.mpr
    intro a ha
    have := h1 a ha
    cases a with
    | nil => exact absurd rfl this
    | cons _ _ => rfl

/-! ### `sorted(set(l))` -/

theorem mem_insertSorted (x y : Str) : ∀ l, y ∈ insertSorted x l ↔ y = x ∨ y ∈ l := by
  intro l
  induction l with
  | nil => simp [insertSorted]
  | cons z zs ih =>
    simp only [insertSorted]
    split
    · rename_i e; subst e; simp
    · split
      · simp
      · simp only [List.mem_cons, ih]
        constructor
        · rintro (h | h | h)
          · exact Or.inr (Or.inl h)
          · exact Or.inl h
          · exact Or.inr (Or.inr h)
        · rintro (h | h | h)
          · exact Or.inr (Or.inl h)
          · exact Or.inl h
          · exact Or.inr (Or.inr h)

theorem mem_sortDedup (y : Str) : ∀ l, y ∈ sortDedup l ↔ y ∈ l := by
  intro l
  induction l with
  | nil => simp [sortDedup]
  | cons x xs ih =>
    have : sortDedup (x :: xs) = insertSorted x (sortDedup xs) := rfl
    rw [this, mem_insertSorted, ih]; simp

theorem insertSorted_eq_insertBy (x : Str) : ∀ l, x ∉ l → insertSorted x l = insertBy id x l := by
  intro l
  induction l with
  | nil => intro _; rfl
  | cons y ys ih =>
    intro h
    simp only [List.mem_cons, not_or] at h
    simp only [insertSorted, insertBy, id, h.1, if_false]
    by_cases hlt : x < y
    · have h1 : Str.lt x y = true := by simp [Str.lt, hlt]
      have h2 : Str.lt y x = false := by simp [Str.lt, List.lt_asymm hlt]
      simp [h1, h2]
    · have h1 : Str.lt x y = false := by simp [Str.lt, hlt]
      have hle : y ≤ x := List.not_lt.mp hlt
      have h2 : Str.lt y x = true := by
        simp only [Str.lt, decide_eq_true_eq]
        exact Std.lt_of_le_of_ne hle (fun e => h.1 e.symm)
      simp [h1, h2, ih h.2]

/-- for pairwise distinct strings `sorted(set(l))` is `sorted(l)` -/
theorem sortDedup_nodup : ∀ l : List Str, l.Nodup → sortDedup l = sortS l := by
  intro l
  induction l with
  | nil => intro _; rfl
  | cons x xs ih =>
    intro h
    have hx := List.nodup_cons.mp h
    have e1 : sortDedup (x :: xs) = insertSorted x (sortDedup xs) := rfl
    have e2 : sortS (x :: xs) = insertBy id x (sortS xs) := rfl
    rw [e1, e2, ih hx.2]
    apply insertSorted_eq_insertBy
    intro hm
    exact hx.1 ((mem_sortBy id xs x).mp hm)

/-! ### blanks -/

theorem lstrip_of_head {c : Char} {cs : Str} (h : isPySpace c = false) : Str.lstrip (c :: cs) = c :: cs := by
  simp [Str.lstrip, h]

theorem strip_of_ends {s : Str} (h1 : ∀ c t, s = c :: t → isPySpace c = false)
    (h2 : ∀ i c, s = i ++ [c] → isPySpace c = false) : Str.strip s = s := by
  unfold Str.strip Str.rstrip
  have hl : Str.lstrip s = s := by
    cases s with
    | nil => rfl
    | cons c t => exact lstrip_of_head (h1 c t rfl)
  rw [hl]
  have hr : Str.lstrip s.reverse = s.reverse := by
    cases hs : s.reverse with
    | nil => rfl
    | cons c t =>
      have : s = t.reverse ++ [c] := by
        have := congrArg List.reverse hs
        simpa using this
      exact lstrip_of_head (h2 _ c this)
  rw [hr, List.reverse_reverse]

theorem digit_not_space {c : Char} (h : Dec.IsDig c) : isPySpace c = false := by
  have := h.toNat
  simp only [isPySpace, Bool.or_eq_false_iff, Bool.and_eq_false_iff, decide_eq_false_iff_not, beq_eq_false_iff_ne, ne_eq]
  omega

/-! ### `int(str(n))` -/

theorem digitVal_isDig {c : Char} (h : Dec.IsDig c) : digitVal c = some (c.toNat - 48) := by
  obtain ⟨d, hd, rfl⟩ := h
  have := Dec.digitChar_facts d hd
  rw [this.1, this.2.2.2]; simp

theorem intDigits_digits : ∀ (ds : Str) (b : Bool) (acc : Nat), (∀ c ∈ ds, Dec.IsDig c) → (ds ≠ [] ∨ b = true) →
    intDigits ds b acc = digitsVal ds acc := by
  intro ds
  induction ds with
  | nil =>
    intro b acc _ hb
    rcases hb with hb | hb
    · exact absurd rfl hb
    · subst hb; rfl
  | cons c cs ih =>
    intro b acc h _
    have hc := h c (List.mem_cons_self ..)
    simp only [intDigits, hc.ascii, if_true, digitsVal, digitVal_isDig hc]
    exact ih true _ (fun x hx => h x (List.mem_cons_of_mem _ hx)) (Or.inr rfl)

theorem pyInt_natStr (n : Nat) : Str.pyInt (natStr n) = .ok (n : Int) := by
  obtain ⟨hne, hdig, hval, _⟩ := Dec.natStr_spec n
  have hstrip : Str.strip (natStr n) = natStr n :=
    strip_of_ends (fun c t e => digit_not_space (hdig c (by rw [e]; simp)))
      (fun i c e => digit_not_space (hdig c (by rw [e]; simp)))
  unfold Str.pyInt
  rw [hstrip]
  cases hs : natStr n with
  | nil => exact absurd hs hne
  | cons c t =>
    have hc : Dec.IsDig c := hdig c (by rw [hs]; simp)
    have h1 : c ≠ '-' := hc.ne (by decide)
    have h2 : c ≠ '+' := hc.ne (by decide)
    have hv : intDigits (c :: t) false 0 = some n := by
      rw [← hs, intDigits_digits _ _ _ hdig (Or.inl hne), hval]
    split
    · rename_i ds e; injection e with e1 e2; exact absurd e1 h1
    · rename_i ds e; injection e with e1 e2; exact absurd e1 h2
    · rw [hv]

theorem pyInt_intStr (x : Int) : Str.pyInt (intStr x) = .ok x := by
  cases x with
  | ofNat n => exact pyInt_natStr n
  | negSucc n =>
    obtain ⟨hne, hdig, hval, _⟩ := Dec.natStr_spec (n + 1)
    show Str.pyInt ('-' :: natStr (n + 1)) = _
    have hstrip : Str.strip ('-' :: natStr (n + 1)) = '-' :: natStr (n + 1) := by
      apply strip_of_ends
      · intro c t e; injection e with e1 _; subst e1; decide
      · intro i c e
        have : c ∈ natStr (n + 1) := by
          have hm : c ∈ '-' :: natStr (n + 1) := by rw [e]; simp
          rcases List.mem_cons.mp hm with hm | hm
          · -- the last character is a digit because the digit string is not empty
            subst hm
            cases i with
            | nil => simp at e; exact absurd e hne
            | cons a r =>
              simp only [List.cons_append, List.cons.injEq] at e
              rw [e.2]; simp
          · exact hm
        exact digit_not_space (hdig c this)
    unfold Str.pyInt
    rw [hstrip]
    simp only
    rw [intDigits_digits _ _ _ hdig (Or.inl hne), hval]
    rfl

end TI
end PM
