import ProductMD.Proofs.C14RoundTrip
/-!
Reordering the table of known release types: when no entry is a suffix of a different entry, at most one entry can
be a suffix of a given identifier, so the parser's first-match loop returns the same type whatever the order —
for every identifier, not only for those `create_release_id` produces.
-/
namespace PM.C14
open PM PM.Str

/-- the parser with the table of known types as a parameter -/
def parsePartWith (types : List Str) (rid : Str) : Except Err Rel :=
  if Str.count '-' rid = 1 then
    match Str.splitOn '-' rid with
    | [short, version] => .ok ⟨short, version, GA⟩
    | _ => .error .valueError
  else
    let found := types.find? (fun t => Str.endsWith rid t)
    let rtype : Option Str := found.filter (fun t => !t.isEmpty)
    let rid' := match rtype with
      | some t => rid.take (rid.length - t.length)
      | none => rid
    match Str.rsplitN '-' 2 rid' with
    | [short, version, ext] => .ok ⟨short, version, rtype.getD ext⟩
    | _ => .error .valueError

theorem parsePartWith_gen (rid : Str) : parsePartWith Gen.RELEASE_TYPES rid = parseReleaseIdPart rid := rfl

/-- no entry is a suffix of a different entry -/
def SuffixAntichain (l : List Str) : Prop := ∀ t ∈ l, ∀ u ∈ l, t <:+ u → t = u

instance : DecidablePred SuffixAntichain := fun l => by unfold SuffixAntichain; exact inferInstance

/-- on a suffix antichain the first-match loop does not depend on the order of the table, for ANY identifier -/
theorem find_perm {l₁ l₂ : List Str} (h : SuffixAntichain l₁) (hp : l₁.Perm l₂) (rid : Str) :
    l₁.find? (fun t => endsWith rid t) = l₂.find? (fun t => endsWith rid t) := by
  have key : ∀ (a b : List Str), (∀ x, x ∈ a ↔ x ∈ b) → SuffixAntichain a → ∀ t,
      a.find? (fun t => endsWith rid t) = some t → b.find? (fun t => endsWith rid t) = some t := by
    intro a b hab ha t ht
    have hta := List.mem_of_find?_eq_some ht
    have hPt := List.find?_some ht
    cases hb : b.find? (fun t => endsWith rid t) with
    | none =>
      have := List.find?_eq_none.mp hb t ((hab t).mp hta)
      simp [hPt] at this
    | some u =>
      have hub := List.mem_of_find?_eq_some hb
      have hPu := List.find?_some hb
      have hua := (hab u).mpr hub
      have s1 := (endsWith_iff _ _).mp hPt
      have s2 := (endsWith_iff _ _).mp hPu
      by_cases hl : t.length ≤ u.length
      · rw [ha t hta u hua (List.suffix_of_suffix_length_le s1 s2 hl)]
      · rw [ha u hua t hta (List.suffix_of_suffix_length_le s2 s1 (by omega))]
  have hmem : ∀ x, x ∈ l₁ ↔ x ∈ l₂ := fun x => hp.mem_iff
  have h2 : SuffixAntichain l₂ := fun t ht u hu => h t ((hmem t).mpr ht) u ((hmem u).mpr hu)
  cases h1 : l₁.find? (fun t => endsWith rid t) with
  | some t => exact (key l₁ l₂ hmem h t h1).symm
  | none =>
    cases h3 : l₂.find? (fun t => endsWith rid t) with
    | none => rfl
    | some u =>
      have := key l₂ l₁ (fun x => (hmem x).symm) h2 u h3
      rw [h1] at this; cases this

theorem parsePartWith_perm {l₁ l₂ : List Str} (h : SuffixAntichain l₁) (hp : l₁.Perm l₂) (rid : Str) :
    parsePartWith l₁ rid = parsePartWith l₂ rid := by
  unfold parsePartWith
  rw [find_perm h hp rid]

end PM.C14
