import ProductMD.Proofs.C05WitnessTI
/-!
C05: every carried hypothesis of `C05_ti_idempotent` holds of the pre-productmd witness (non-vacuity, evaluated in the kernel).
-/
set_option Elab.async false
namespace PM
open PM.TI PM.Ini

/-- the tree the witness loads to -/
def wT00 : TreeInfo := match TI.Legacy.deserialize intOracle wTI00 with | .ok t => t | .error _ => C04_exTree

example : TI.Legacy.deserialize intOracle wTI00 = .ok wT00 := by
  unfold wT00
  split
  · assumption
  · rename_i h
    have : (TI.Legacy.deserialize intOracle wTI00).toBool = true := by decide +kernel
    rw [h] at this; cases this
example : (∀ n, wT00.tree.ts = .int n → intOracle.intOfFloatStr (Str.intStr n) = .ok n) := by
  intro n hn
  have : wT00.tree.ts = .int 5 := by decide +kernel
  rw [this] at hn; injection hn with hn; subst hn; decide +kernel
example : PlatformsOK wT00.tree ∧ UidsOK wT00.variants ∧ UidsNodup wT00.variants ∧ TopNotAddon wT00.variants
    ∧ (∀ p ∈ wT00.images, platformOf wT00.tree.arch (pImages ++ p.1) = p.1) := by decide +kernel
example : (serialize wT00 none).toOption.map IniText.Representable = some true
    ∧ (∀ c ∈ wT00.checksums, nc c.1 = true) ∧ (∀ p ∈ wT00.images, ∀ kv ∈ p.2, nc kv.1 = true) := by decide +kernel
example : ReadValid (norm wT00) := by
  have hn : norm (norm wT00) = norm wT00 := by decide +kernel
  cases hs : serialize (norm wT00) none with
  | error e => have : (serialize (norm wT00) none).toBool = true := by decide +kernel
               rw [hs] at this; cases this
  | ok d => exact readValid_of_normal (serialize_valid hs) hn

end PM
