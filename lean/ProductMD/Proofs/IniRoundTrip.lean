import ProductMD.Model.IniParse
/-!
`parse (render d) = ok d` for every representable document: the reader model inverts the writer model.
(Removes "configparser's reader inverts its writer" from the trusted base, as far as the models go; the models
themselves are validated differentially against CPython by `harness/ini_diff.py`.)  Core Lean only.
-/
namespace PM.IniParse

/-- what is needed of the whitespace predicate -/
structure SpOK (sp : Char → Bool) : Prop where
  space : sp ' ' = true
  nl : sp '\n' = true
  lb : sp '[' = false
  rb : sp ']' = false
  eq : sp '=' = false

variable {sp : Char → Bool}

/-- does not start with a blank -/
def StartsOk (sp : Char → Bool) (s : Str) : Prop := ∀ c t, s = c :: t → sp c = false
/-- does not end with a blank -/
def EndsOk (sp : Char → Bool) (s : Str) : Prop := ∀ i c, s = i ++ [c] → sp c = false

theorem lstrip_startsOk {s : Str} (h : StartsOk sp s) : lstrip sp s = s := by
  cases s with
  | nil => rfl
  | cons c t => simp [lstrip, h c t rfl]

theorem rstrip_endsOk {s : Str} (h : EndsOk sp s) : rstrip sp s = s := by
  unfold rstrip
  have : StartsOk sp s.reverse := by
    intro c t hct
    have : s = t.reverse ++ [c] := by
      have := congrArg List.reverse hct
      simpa using this
    exact h _ _ this
  rw [lstrip_startsOk this, List.reverse_reverse]

theorem rstrip_snoc_blank (s : Str) (c : Char) (h : sp c = true) : rstrip sp (s ++ [c]) = rstrip sp s := by
  simp [rstrip, lstrip, h]

theorem strip_ok {s : Str} (h1 : StartsOk sp s) (h2 : EndsOk sp s) : strip sp s = s := by
  unfold strip; rw [lstrip_startsOk h1, rstrip_endsOk h2]

theorem endsOk_nil : EndsOk sp [] := by
  intro i c h; simp at h

theorem startsOk_nil : StartsOk sp [] := by
  intro c t h; cases h

theorem endsOk_append_of_ne {a b : Str} (hb : b ≠ []) (h : EndsOk sp b) : EndsOk sp (a ++ b) := by
  intro i c hic
  rcases List.eq_nil_or_concat b with hnil | ⟨b', x, hx⟩
  · exact absurd hnil hb
  · subst hx
    have h1 : a ++ b'.concat x = (a ++ b') ++ [x] := by simp
    rw [h1] at hic
    have := List.append_inj' hic (by simp)
    have hxc : x = c := by simpa using this.2
    subst hxc
    exact h b' x (by simp)

theorem startsOk_append_of_ne {a b : Str} (ha : a ≠ []) (h : StartsOk sp a) : StartsOk sp (a ++ b) := by
  intro c t hct
  cases a with
  | nil => exact absurd rfl ha
  | cons x xs =>
    simp only [List.cons_append, List.cons.injEq] at hct
    obtain ⟨rfl, _⟩ := hct
    exact h _ _ rfl

theorem indentOf_startsOk {s : Str} (h : StartsOk sp s) : indentOf sp s = 0 := by
  cases s with
  | nil => rfl
  | cons c t => simp [indentOf, h c t rfl]

/-! ### splitting the rendered text into lines -/

theorem splitOn_append_nl (l rest : Str) (h : '\n' ∉ l) :
    Str.splitOn '\n' (l ++ '\n' :: rest) = l :: Str.splitOn '\n' rest := by
  induction l with
  | nil => simp [Str.splitOn]
  | cons c cs ih =>
    have hc : c ≠ '\n' := by intro hc; exact h (by simp [hc])
    have hcs : '\n' ∉ cs := by intro hcs; exact h (by simp [hcs])
    simp only [List.cons_append, Str.splitOn, hc, if_false, ih hcs]

/-! ### representable documents and the lines of their rendering -/

def optLine (kv : Str × Str) : Str := kv.1 ++ ' ' :: '=' :: ' ' :: kv.2
def secLines (s : Str × List (Str × Str)) : List Str := ('[' :: s.1 ++ [']']) :: s.2.map optLine ++ [[]]
def linesOf (d : Doc) : List Str := d.flatMap secLines

def KeyOk (sp : Char → Bool) (k : Str) : Prop :=
  k ≠ [] ∧ '\n' ∉ k ∧ (∀ c ∈ k, isDelim c = false) ∧ StartsOk sp k ∧ EndsOk sp k ∧
    (∀ c t, k = c :: t → c ≠ '#' ∧ c ≠ ';' ∧ c ≠ '[')
def ValOk (sp : Char → Bool) (v : Str) : Prop := '\n' ∉ v ∧ StartsOk sp v ∧ EndsOk sp v
def NameOk (n : Str) : Prop := n ≠ [] ∧ '\n' ∉ n ∧ n ≠ "DEFAULT".toList
def SecOk (sp : Char → Bool) (s : Str × List (Str × Str)) : Prop :=
  NameOk s.1 ∧ (∀ kv ∈ s.2, KeyOk sp kv.1 ∧ ValOk sp kv.2) ∧ (s.2.map (·.1)).Nodup
/-- single-line values and option names without outer blanks; option names free of `=`/`:`, not starting with
`#`, `;`, `[`; no duplicate names; no `[DEFAULT]` -/
def Representable (sp : Char → Bool) (d : Doc) : Prop := (∀ s ∈ d, SecOk sp s) ∧ (d.map (·.1)).Nodup

theorem flatMap_no_nl (v : Str) (h : '\n' ∉ v) :
    v.flatMap (fun c => if c == '\n' then ['\n', '\t'] else [c]) = v := by
  induction v with
  | nil => rfl
  | cons c cs ih =>
    have hc : (c == '\n') = false := by
      cases hb : c == '\n' with
      | false => rfl
      | true => exact absurd (by simp [beq_iff_eq.mp hb]) h
    have hcs : '\n' ∉ cs := by intro hcs; exact h (by simp [hcs])
    rw [List.flatMap_cons, ih hcs]
    simp only [hc, Bool.false_eq_true, if_false, List.cons_append, List.nil_append]

theorem renderOption_eq (kv : Str × Str) (h : '\n' ∉ kv.2) : renderOption kv = optLine kv ++ ['\n'] := by
  simp only [renderOption, optLine, flatMap_no_nl kv.2 h]
  simp

theorem optLine_no_nl (kv : Str × Str) (hk : '\n' ∉ kv.1) (hv : '\n' ∉ kv.2) : '\n' ∉ optLine kv := by
  simp only [optLine, List.mem_append, List.mem_cons]
  rintro (h | h | h | h | h)
  · exact hk h
  · cases h
  · cases h
  · cases h
  · exact hv h

theorem splitOn_options (opts : List (Str × Str)) (rest : Str)
    (h : ∀ kv ∈ opts, '\n' ∉ kv.1 ∧ '\n' ∉ kv.2) :
    Str.splitOn '\n' (opts.flatMap renderOption ++ rest) = opts.map optLine ++ Str.splitOn '\n' rest := by
  induction opts with
  | nil => simp
  | cons kv kvs ih =>
    have hkv := h kv (by simp)
    rw [List.flatMap_cons, renderOption_eq kv hkv.2, List.map_cons, List.cons_append]
    have : optLine kv ++ ['\n'] ++ kvs.flatMap renderOption ++ rest
        = optLine kv ++ '\n' :: (kvs.flatMap renderOption ++ rest) := by simp
    rw [this, splitOn_append_nl _ _ (optLine_no_nl kv hkv.1 hkv.2), ih (fun x hx => h x (by simp [hx]))]

theorem splitOn_render (d : Doc) (rest : Str)
    (h : ∀ s ∈ d, '\n' ∉ s.1 ∧ ∀ kv ∈ s.2, '\n' ∉ kv.1 ∧ '\n' ∉ kv.2) :
    Str.splitOn '\n' (render d ++ rest) = linesOf d ++ Str.splitOn '\n' rest := by
  induction d with
  | nil => simp [render, linesOf]
  | cons s ss ih =>
    have hs := h s (by simp)
    have ih' := ih (fun x hx => h x (by simp [hx]))
    simp only [render, linesOf, List.flatMap_cons] at ih' ⊢
    simp only [renderSection, secLines]
    have e1 : ('[' :: s.1 ++ ']' :: '\n' :: s.2.flatMap renderOption ++ ['\n']) ++ ss.flatMap renderSection ++ rest
        = ('[' :: s.1 ++ [']']) ++ '\n' :: (s.2.flatMap renderOption ++ ('\n' :: (ss.flatMap renderSection ++ rest))) := by
      simp
    have hn : '\n' ∉ ('[' :: s.1 ++ [']']) := by
      simp only [List.cons_append, List.mem_cons, List.mem_append, List.mem_nil_iff, or_false]
      rintro (h1 | h1 | h1)
      · cases h1
      · exact hs.1 h1
      · cases h1
    rw [e1, splitOn_append_nl _ _ hn, splitOn_options _ _ hs.2]
    have e2 : Str.splitOn '\n' ('\n' :: (ss.flatMap renderSection ++ rest))
        = [] :: Str.splitOn '\n' (ss.flatMap renderSection ++ rest) := by simp [Str.splitOn]
    rw [e2, ih']
    simp

theorem fileLines_render (d : Doc)
    (h : ∀ s ∈ d, '\n' ∉ s.1 ∧ ∀ kv ∈ s.2, '\n' ∉ kv.1 ∧ '\n' ∉ kv.2) :
    fileLines (render d) = linesOf d := by
  have := splitOn_render d [] h
  simp only [List.append_nil] at this
  simp [fileLines, this, Str.splitOn]

/-! ### single steps of the reader on rendered lines -/

theorem breakDelim_append (a : Str) (c : Char) (t : Str) (ha : ∀ x ∈ a, isDelim x = false)
    (hc : isDelim c = true) : breakDelim (a ++ c :: t) = some (a, t) := by
  induction a with
  | nil => simp [breakDelim, hc]
  | cons x xs ih =>
    have hx := ha x (by simp)
    simp [breakDelim, hx, ih (fun y hy => ha y (by simp [hy]))]

theorem lastBracket_snoc (a : Str) : lastBracket (a ++ [']']) = some a.length := by
  induction a with
  | nil => simp [lastBracket]
  | cons c cs ih => simp [lastBracket, ih]

theorem addOption_snoc (pre : List RawSec) (n : Str) (o : List (Str × List Str)) (k v : Str) :
    addOption (pre ++ [(n, o)]) k v = pre ++ [(n, o ++ [(k, [v])])] := by
  simp [addOption]

theorem lastKeys_snoc (pre : List RawSec) (n : Str) (o : List (Str × List Str)) :
    lastKeys (pre ++ [(n, o)]) = o.map (·.1) := by
  simp [lastKeys]

theorem appendToLast_snoc (pre : List RawSec) (n : Str) (o : List (Str × List Str)) (k : Str) (ls : List Str)
    (ln : Str) : appendToLast (pre ++ [(n, o ++ [(k, ls)])]) ln = pre ++ [(n, o ++ [(k, ls ++ [ln])])] := by
  simp [appendToLast]

variable (hsp : SpOK sp)
include hsp

theorem step_header (pre : List RawSec) (b : Bool) (n : Str) (hn : NameOk n)
    (hfresh : pre.any (·.1 == n) = false) :
    step sp { secs := pre, hasOpt := b, indent := 0 } ('[' :: n ++ [']'])
      = .ok { secs := pre ++ [(n, [])], hasOpt := false, indent := 0 } := by
  have hstart : StartsOk sp ('[' :: n ++ [']']) := by
    intro c t h; simp only [List.cons_append, List.cons.injEq] at h; rw [← h.1]; exact hsp.lb
  have hend : EndsOk sp ('[' :: n ++ [']']) := by
    intro i c h
    have h' : ('[' :: n) ++ [']'] = i ++ [c] := by simpa using h
    have := List.append_inj' h' (by simp)
    have hc : ']' = c := by simpa using this.2
    rw [← hc]; exact hsp.rb
  have hstrip : strip sp ('[' :: n ++ [']']) = '[' :: n ++ [']'] := strip_ok hstart hend
  have hind : indentOf sp ('[' :: n ++ [']']) = 0 := indentOf_startsOk hstart
  obtain ⟨j, hj⟩ : ∃ j, n.length = j + 1 := by
    cases n with
    | nil => exact absurd rfl hn.1
    | cons c cs => exact ⟨cs.length, by simp⟩
  have hhead : sectionHeader ('[' :: n ++ [']']) = some n := by
    simp only [List.cons_append, sectionHeader, lastBracket_snoc, hj]
    rw [← hj]; simp
  have hdef : (n == "DEFAULT".toList) = false := by
    cases h : n == "DEFAULT".toList with
    | false => rfl
    | true => exact absurd (beq_iff_eq.mp h) hn.2.2
  have hdef' : ¬ n = ['D', 'E', 'F', 'A', 'U', 'L', 'T'] := hn.2.2
  simp only [step, hstrip, hind, hhead]
  simp [hfresh, hdef']

theorem step_option (pre : List RawSec) (b : Bool) (n : Str) (o : List (Str × List Str)) (k v : Str)
    (hk : KeyOk sp k) (hv : ValOk sp v) (hfresh : k ∉ o.map (·.1)) :
    step sp { secs := pre ++ [(n, o)], hasOpt := b, indent := 0 } (optLine (k, v))
      = .ok { secs := pre ++ [(n, o ++ [(k, [v])])], hasOpt := true, indent := 0 } := by
  obtain ⟨hkne, _, hkd, hks, hke, hkh⟩ := hk
  obtain ⟨_, hvs, hve⟩ := hv
  obtain ⟨c, t, rfl⟩ : ∃ c t, k = c :: t := by
    cases k with
    | nil => exact absurd rfl hkne
    | cons c t => exact ⟨c, t, rfl⟩
  have hc := hkh c t rfl
  have hcsp : sp c = false := hks c t rfl
  -- the stripped line
  have hstart : StartsOk sp (optLine (c :: t, v)) := by
    intro x y h; simp only [optLine, List.cons_append, List.cons.injEq] at h; rw [← h.1]; exact hcsp
  have hind : indentOf sp (optLine (c :: t, v)) = 0 := indentOf_startsOk hstart
  have hbreak : ∀ tail, breakDelim ((c :: t) ++ ' ' :: '=' :: tail) = some ((c :: t) ++ [' '], tail) := by
    intro tail
    have := breakDelim_append ((c :: t) ++ [' ']) '=' tail
      (by intro x hx
          rcases List.mem_append.mp hx with hx | hx
          · exact hkd x hx
          · simp at hx; subst hx; rfl) rfl
    simpa using this
  have hrk : rstrip sp ((c :: t) ++ [' ']) = c :: t := by
    rw [rstrip_snoc_blank _ _ hsp.space, rstrip_endsOk hke]
  have hfresh' : (o.map (·.1)).contains (c :: t) = false := by
    cases h : (o.map (·.1)).contains (c :: t) with
    | false => rfl
    | true => exact absurd (List.contains_iff_mem.mp h) hfresh
  have hnc : (c == '#' || c == ';') = false := by
    simp [hc.1, hc.2.1]
  have hnb : sectionHeader (c :: (t ++ ' ' :: '=' :: ' ' :: v)) = none := by
    unfold sectionHeader
    split
    · rename_i heq; simp only [List.cons.injEq] at heq; exact absurd heq.1 hc.2.2
    · rfl
  by_cases hvnil : v = []
  · subst hvnil
    have hstrip : strip sp (optLine (c :: t, [])) = (c :: t) ++ [' ', '='] := by
      have e : optLine (c :: t, []) = ((c :: t) ++ [' ', '=']) ++ [' '] := by simp [optLine]
      unfold strip
      rw [lstrip_startsOk hstart, e, rstrip_snoc_blank _ _ hsp.space]
      apply rstrip_endsOk
      intro i x h
      have h' : ((c :: t) ++ [' ']) ++ ['='] = i ++ [x] := by simpa using h
      have := List.append_inj' h' (by simp)
      have hx : '=' = x := by simpa using this.2
      rw [← hx]; exact hsp.eq
    have hsplit : splitOption sp ((c :: t) ++ [' ', '=']) = some (c :: t, []) := by
      have := hbreak []
      simp only [splitOption, this, Option.map_some, hrk]
      simp [strip, rstrip, lstrip]
    have hnb' : sectionHeader (c :: (t ++ [' ', '='])) = none := by
      unfold sectionHeader
      split
      · rename_i heq; simp only [List.cons.injEq] at heq; exact absurd heq.1 hc.2.2
      · rfl
    simp only [step, hstrip, hind]
    simp only [List.cons_append] at hsplit ⊢
    simp [hnc, hnb', hsplit, lastKeys_snoc, hfresh', addOption_snoc]
    intro x hx; exact hfresh (List.mem_map.mpr ⟨(c :: t, x), hx, rfl⟩)
  · have hend : EndsOk sp (optLine (c :: t, v)) := by
      have : optLine (c :: t, v) = ((c :: t) ++ [' ', '=', ' ']) ++ v := by simp [optLine]
      rw [this]; exact endsOk_append_of_ne hvnil hve
    have hstrip : strip sp (optLine (c :: t, v)) = optLine (c :: t, v) := strip_ok hstart hend
    have hsplit : splitOption sp (optLine (c :: t, v)) = some (c :: t, v) := by
      have := hbreak (' ' :: v)
      have e : optLine (c :: t, v) = (c :: t) ++ ' ' :: '=' :: ' ' :: v := by simp [optLine]
      rw [e]
      simp only [splitOption, this, Option.map_some, hrk]
      have : strip sp (' ' :: v) = v := by
        unfold strip
        simp only [lstrip, hsp.space, if_true]
        rw [lstrip_startsOk hvs, rstrip_endsOk hve]
      rw [this]
    simp only [step, hstrip, hind]
    have e : optLine (c :: t, v) = c :: (t ++ ' ' :: '=' :: ' ' :: v) := by simp [optLine]
    rw [e] at hsplit ⊢
    simp [hnc, hnb, hsplit, lastKeys_snoc, hfresh', addOption_snoc]
    intro x hx; exact hfresh (List.mem_map.mpr ⟨(c :: t, x), hx, rfl⟩)

omit hsp in
theorem step_blank_open (pre : List RawSec) (n : Str) (o : List (Str × List Str)) (k : Str) (ls : List Str) :
    step sp { secs := pre ++ [(n, o ++ [(k, ls)])], hasOpt := true, indent := 0 } []
      = .ok { secs := pre ++ [(n, o ++ [(k, ls ++ [[]])])], hasOpt := true, indent := 0 } := by
  simp [step, strip, rstrip, lstrip, appendToLast_snoc]

omit hsp in
theorem step_blank_closed (secs : List RawSec) :
    step sp { secs := secs, hasOpt := false, indent := 0 } []
      = .ok { secs := secs, hasOpt := false, indent := 0 } := by
  simp [step, strip, rstrip, lstrip]

/-! ### whole sections, whole documents -/

def openOpts (opts : List (Str × Str)) : List (Str × List Str) := opts.map fun kv => (kv.1, [kv.2])

/-- the blank line after a section is appended to the value lines of its last option -/
def closeOpts (o : List (Str × List Str)) : List (Str × List Str) :=
  match o.reverse with
  | [] => []
  | (k, ls) :: b => ((k, ls ++ [[]]) :: b).reverse

def closedSec (s : Str × List (Str × Str)) : RawSec := (s.1, closeOpts (openOpts s.2))

omit hsp in
theorem steps_append (st : St) (a b : List Str) :
    steps sp st (a ++ b) = (steps sp st a).bind fun st' => steps sp st' b := by
  induction a generalizing st with
  | nil => rfl
  | cons l ls ih =>
    simp only [List.cons_append, steps]
    cases step sp st l with
    | ok st' => exact ih st'
    | error e => rfl

theorem steps_options (pre : List RawSec) (n : Str) :
    ∀ (opts : List (Str × Str)) (o : List (Str × List Str)) (b : Bool),
      (∀ kv ∈ opts, KeyOk sp kv.1 ∧ ValOk sp kv.2) → (opts.map (·.1)).Nodup →
      (∀ kv ∈ opts, kv.1 ∉ o.map (·.1)) →
      steps sp { secs := pre ++ [(n, o)], hasOpt := b, indent := 0 } (opts.map optLine)
        = .ok { secs := pre ++ [(n, o ++ openOpts opts)], hasOpt := b || !opts.isEmpty, indent := 0 } := by
  intro opts
  induction opts with
  | nil => intro o b _ _ _; simp [steps, openOpts]
  | cons kv kvs ih =>
    intro o b hok hnd hfresh
    obtain ⟨k, v⟩ := kv
    have h1 := hok (k, v) (by simp)
    simp only [List.map_cons, List.nodup_cons] at hnd
    simp only [List.map_cons, steps]
    rw [show optLine (k, v) = optLine (k, v) from rfl,
      step_option hsp pre b n o k v h1.1 h1.2 (hfresh (k, v) (by simp))]
    simp only
    rw [ih (o ++ [(k, [v])]) true (fun x hx => hok x (by simp [hx])) hnd.2]
    · simp [openOpts]
    · intro x hx hmem
      simp only [List.map_append, List.map_cons, List.map_nil, List.mem_append, List.mem_singleton] at hmem
      rcases hmem with hmem | hmem
      · exact hfresh x (by simp [hx]) hmem
      · exact hnd.1 (by rw [← hmem]; exact List.mem_map.mpr ⟨x, hx, rfl⟩)

omit hsp in
theorem closeOpts_snoc (x : List (Str × List Str)) (k : Str) (ls : List Str) :
    closeOpts (x ++ [(k, ls)]) = x ++ [(k, ls ++ [[]])] := by
  simp [closeOpts]

theorem steps_section (pre : List RawSec) (b : Bool) (s : Str × List (Str × Str)) (hs : SecOk sp s)
    (hfresh : pre.any (·.1 == s.1) = false) :
    steps sp { secs := pre, hasOpt := b, indent := 0 } (secLines s)
      = .ok { secs := pre ++ [closedSec s], hasOpt := !s.2.isEmpty, indent := 0 } := by
  obtain ⟨n, opts⟩ := s
  obtain ⟨hn, hopts, hnd⟩ := hs
  simp only [secLines, List.cons_append]
  rw [steps, show ('[' :: (n ++ [']'])) = ('[' :: n ++ [']']) from rfl, step_header hsp pre b n hn hfresh]
  simp only
  rw [steps_append, steps_options hsp pre n opts [] false hopts hnd (by intro _ _; simp)]
  simp only [Except.bind, List.nil_append, Bool.false_or, steps, closedSec]
  rcases List.eq_nil_or_concat opts with hnil | ⟨init, last, hl⟩
  · subst hnil
    simp [openOpts, closeOpts, step_blank_closed]
  · subst hl
    obtain ⟨k, v⟩ := last
    have : openOpts (init.concat (k, v)) = openOpts init ++ [(k, [v])] := by simp [openOpts]
    rw [this, closeOpts_snoc]
    have hne : (!(init.concat (k, v)).isEmpty) = true := by simp
    simp only [hne]
    rw [step_blank_open]

theorem steps_doc : ∀ (d : Doc) (pre : List RawSec) (b : Bool),
    (∀ s ∈ d, SecOk sp s) → (d.map (·.1)).Nodup → (∀ s ∈ d, pre.any (·.1 == s.1) = false) →
    ∃ b', steps sp { secs := pre, hasOpt := b, indent := 0 } (linesOf d)
      = .ok { secs := pre ++ d.map closedSec, hasOpt := b', indent := 0 } := by
  intro d
  induction d with
  | nil => intro pre b _ _ _; exact ⟨b, by simp [linesOf, steps]⟩
  | cons s ss ih =>
    intro pre b hok hnd hfresh
    simp only [List.map_cons, List.nodup_cons] at hnd
    have hs := hok s (by simp)
    have h1 := steps_section hsp pre b s hs (hfresh s (by simp))
    have hfresh' : ∀ x ∈ ss, (pre ++ [closedSec s]).any (·.1 == x.1) = false := by
      intro x hx
      have hx1 := hfresh x (by simp [hx])
      have hne : (s.1 == x.1) = false := by
        cases h : s.1 == x.1 with
        | false => rfl
        | true =>
          exact absurd (by rw [beq_iff_eq.mp h]; exact List.mem_map.mpr ⟨x, hx, rfl⟩) hnd.1
      simp only [List.any_append, hx1, Bool.false_or, List.any_cons, List.any_nil, Bool.or_false, closedSec, hne]
    obtain ⟨b', h2⟩ := ih (pre ++ [closedSec s]) (!s.2.isEmpty) (fun x hx => hok x (by simp [hx])) hnd.2 hfresh'
    refine ⟨b', ?_⟩
    simp only [linesOf, List.flatMap_cons] at h2 ⊢
    rw [steps_append, h1]
    simp only [Except.bind, h2, List.map_cons, List.append_assoc, List.singleton_append]

/-! ### joining the value lines -/

omit hsp in
theorem joinValue_single {v : Str} (h : EndsOk sp v) : joinValue sp [v] = v := by
  simp [joinValue, Str.joinWith, rstrip_endsOk h]

theorem joinValue_closed {v : Str} (h : EndsOk sp v) : joinValue sp [v, []] = v := by
  have : Str.joinWith '\n' [v, []] = v ++ ['\n'] := by simp [Str.joinWith]
  rw [joinValue, this, rstrip_snoc_blank _ _ hsp.nl, rstrip_endsOk h]

theorem finish_closed (s : Str × List (Str × Str)) (hs : ∀ kv ∈ s.2, EndsOk sp kv.2) :
    finish sp [closedSec s] = [s] := by
  obtain ⟨n, opts⟩ := s
  simp only [finish, closedSec, List.map_cons, List.map_nil, List.cons.injEq, and_true, Prod.mk.injEq, true_and]
  have hopen : ∀ l : List (Str × Str), (∀ kv ∈ l, EndsOk sp kv.2) →
      (openOpts l).map (fun x => (x.1, joinValue sp x.2)) = l := by
    intro l hl
    induction l with
    | nil => rfl
    | cons kv kvs ih =>
      obtain ⟨k, v⟩ := kv
      simp only [openOpts, List.map_cons, List.cons.injEq, Prod.mk.injEq, true_and]
      refine ⟨joinValue_single (hl (k, v) (by simp)), ?_⟩
      exact ih (fun x hx => hl x (by simp [hx]))
  rcases List.eq_nil_or_concat opts with hnil | ⟨init, last, hl⟩
  · subst hnil; simp [openOpts, closeOpts]
  · subst hl
    obtain ⟨k, v⟩ := last
    have e : openOpts (init.concat (k, v)) = openOpts init ++ [(k, [v])] := by simp [openOpts]
    rw [e, closeOpts_snoc]
    simp only [List.map_append, List.map_cons, List.map_nil, List.concat_eq_append]
    rw [hopen init (fun x hx => hs x (by simp [hx]))]
    simp only [List.singleton_append, List.nil_append, joinValue_closed hsp (hs (k, v) (by simp))]

theorem finish_doc (d : Doc) (hd : ∀ s ∈ d, ∀ kv ∈ s.2, EndsOk sp kv.2) : finish sp (d.map closedSec) = d := by
  induction d with
  | nil => rfl
  | cons s ss ih =>
    have h1 := finish_closed hsp s (hd s (by simp))
    have h2 := ih (fun x hx => hd x (by simp [hx]))
    simp only [finish, List.map_cons, List.map_nil, List.cons.injEq, and_true] at h1 h2 ⊢
    exact ⟨h1, h2⟩

/-- **The reader inverts the writer on representable documents.** -/
theorem parse_render (d : Doc) (hd : Representable sp d) : parse sp (render d) = .ok d := by
  obtain ⟨hok, hnd⟩ := hd
  have hlines : fileLines (render d) = linesOf d := by
    apply fileLines_render
    intro s hs
    have := hok s hs
    exact ⟨this.1.2.1, fun kv hkv => ⟨(this.2.1 kv hkv).1.2.1, (this.2.1 kv hkv).2.1⟩⟩
  obtain ⟨b', h⟩ := steps_doc hsp d [] false hok hnd (by intro _ _; rfl)
  simp only [parse, hlines]
  have h' : steps sp {} (linesOf d) = .ok { secs := d.map closedSec, hasOpt := b', indent := 0 } := by
    simpa using h
  rw [h']
  simp only
  rw [finish_doc hsp d (fun s hs kv hkv => ((hok s hs).2.1 kv hkv).2.2.2)]

end PM.IniParse
