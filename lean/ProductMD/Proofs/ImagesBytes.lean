import ProductMD.Proofs.ImagesLoadExact
import ProductMD.Proofs.Canon
/-!
The written image table depends on the manifest only through the multiset of its filings: two filing lists that are
permutations of each other, with pairwise distinct paths inside every (variant, arch) cell, give tables whose canonical
forms (hence bytes) coincide.  Cells are compared through look-ups; a cell is the path-sorted list of its dictionaries.
-/
namespace PM.Img
open PM PM.PyOps PM.Spec
set_option Elab.async false

/-! ### the per-cell sort produces a sorted list -/

def PLe (a b : PyVal) : Prop := pathKey a ≤ pathKey b

theorem insertByPath_sorted (d : PyVal) : ∀ l, l.Pairwise PLe → (insertByPath d l).Pairwise PLe := by
  intro l
  induction l with
  | nil => intro _; simp [insertByPath]
  | cons x xs ih =>
    intro h
    simp only [insertByPath]
    have hx := List.pairwise_cons.mp h
    cases hlt : Str.lt (pathKey d) (pathKey x) with
    | true =>
      simp only [if_true]
      refine List.pairwise_cons.mpr ⟨?_, h⟩
      intro y hy
      cases hy with
      | head => exact lt_le hlt
      | tail _ hy' => exact List.le_trans (lt_le hlt) (hx.1 y hy')
    | false =>
      simp only [Bool.false_eq_true, if_false]
      refine List.pairwise_cons.mpr ⟨?_, ih hx.2⟩
      intro y hy
      rcases List.mem_cons.mp ((insertByPath_perm d xs).mem_iff.mp hy) with hy | hy
      · subst hy
        exact not_lt_le hlt
      · exact hx.1 y hy

theorem foldl_insert_sorted (l acc : List PyVal) (h : acc.Pairwise PLe) :
    (l.foldl (fun acc d => insertByPath d acc) acc).Pairwise PLe := by
  induction l generalizing acc with
  | nil => exact h
  | cons x xs ih => exact ih _ (insertByPath_sorted x acc h)

theorem sortByPath_sorted (l : List PyVal) : (sortByPath l).Pairwise PLe :=
  foldl_insert_sorted l [] List.Pairwise.nil

/-- the cell after the dictionaries `ds` were appended one by one, sorting after each append -/
def cellFold (init : List PyVal) (ds : List PyVal) : List PyVal := ds.foldl (fun l d => sortByPath (l ++ [d])) init

theorem cellFold_perm_init (init ds : List PyVal) : (cellFold init ds).Perm (init ++ ds) := by
  induction ds generalizing init with
  | nil => simp [cellFold]
  | cons d rest ih =>
    simp only [cellFold, List.foldl_cons]
    have := ih (sortByPath (init ++ [d]))
    simp only [cellFold] at this
    refine this.trans ?_
    refine (List.Perm.append_right _ (sortByPath_perm _)).trans ?_
    simp

theorem cellFold_perm (ds : List PyVal) : (cellFold [] ds).Perm ds := by
  simpa using cellFold_perm_init [] ds

theorem cellFold_sorted_init (init ds : List PyVal) (h : init.Pairwise PLe) : (cellFold init ds).Pairwise PLe := by
  induction ds generalizing init with
  | nil => exact h
  | cons d rest ih =>
    simp only [cellFold, List.foldl_cons]
    exact ih _ (sortByPath_sorted _)

theorem cellFold_sorted (ds : List PyVal) : (cellFold [] ds).Pairwise PLe :=
  cellFold_sorted_init [] ds List.Pairwise.nil

theorem nodup_of_map {α β : Type} (f : α → β) {l : List α} (h : (l.map f).Nodup) : l.Nodup := by
  unfold List.Nodup at *
  rw [List.pairwise_map] at h
  exact h.imp (fun hne e => hne (by rw [e]))

/-- distinct paths: the sorted cell does not depend on the order of arrival -/
theorem cellFold_perm_eq {d₁ d₂ : List PyVal} (hp : d₁.Perm d₂) (hd : (d₁.map pathKey).Nodup) :
    cellFold [] d₁ = cellFold [] d₂ := by
  have perm : (cellFold [] d₁).Perm (cellFold [] d₂) := (cellFold_perm d₁).trans (hp.trans (cellFold_perm d₂).symm)
  apply List.Perm.eq_of_pairwise (le := PLe) _ (cellFold_sorted d₁) (cellFold_sorted d₂) perm
  intro a b ha hb hab hba
  have hkey : pathKey a = pathKey b := List.le_antisymm hab hba
  have ha' : a ∈ d₁ := (cellFold_perm d₁).mem_iff.mp ha
  have hb' : b ∈ d₁ := hp.mem_iff.mpr ((cellFold_perm d₂).mem_iff.mp hb)
  exact inj_of_nodup_map pathKey hd ha' hb' hkey

/-! ### look-ups in the table under construction -/

def archAt (o : OutCells) (v : Str) : List (Str × List PyVal) :=
  match o.find? (·.1 == v) with
  | Option.some va => va.2
  | Option.none => []

def cellIn (as : List (Str × List PyVal)) (a : Str) : List PyVal :=
  match as.find? (·.1 == a) with
  | Option.some al => al.2
  | Option.none => []

theorem cellIn_outArchAppend (as : List (Str × List PyVal)) (a a' : Str) (d : PyVal) :
    cellIn (outArchAppend as a d) a' = if a' = a then sortByPath (cellIn as a ++ [d]) else cellIn as a' := by
  induction as with
  | nil =>
    by_cases h : a' = a
    · subst h; simp [outArchAppend, cellIn, List.find?]
    · have : (a == a') = false := by simpa using fun e => h e.symm
      simp [outArchAppend, cellIn, List.find?, this, h]
  | cons al rest ih =>
    obtain ⟨a0, l⟩ := al
    unfold outArchAppend
    by_cases h0 : a0 = a
    · subst h0
      by_cases h : a' = a0
      · subst h; simp [cellIn, List.find?]
      · have : (a0 == a') = false := by simpa using fun e => h e.symm
        simp [cellIn, List.find?, this, h]
    · have h0' : (a0 == a) = false := by simpa using h0
      simp only [h0', Bool.false_eq_true, ↓reduceIte]
      by_cases h1 : a0 = a'
      · subst h1
        have : ¬ a0 = a := h0
        simp [cellIn, List.find?, this]
      · have h1' : (a0 == a') = false := by simpa using h1
        have e1 : cellIn ((a0, l) :: outArchAppend rest a d) a' = cellIn (outArchAppend rest a d) a' := by
          simp [cellIn, List.find?, h1']
        have e2 : cellIn ((a0, l) :: rest) a' = cellIn rest a' := by simp [cellIn, List.find?, h1']
        have e3 : cellIn ((a0, l) :: rest) a = cellIn rest a := by simp [cellIn, List.find?, h0']
        rw [e1, e2, e3, ih]

theorem archAt_outAppend (o : OutCells) (v v' a : Str) (d : PyVal) :
    archAt (outAppend o v a d) v' = if v' = v then outArchAppend (archAt o v) a d else archAt o v' := by
  induction o with
  | nil =>
    by_cases h : v' = v
    · subst h; simp [outAppend, archAt, List.find?, outArchAppend]
    · have : (v == v') = false := by simpa using fun e => h e.symm
      simp [outAppend, archAt, List.find?, this, h]
  | cons va rest ih =>
    obtain ⟨v0, as⟩ := va
    unfold outAppend
    by_cases h0 : v0 = v
    · subst h0
      by_cases h : v' = v0
      · subst h; simp [archAt, List.find?]
      · have : (v0 == v') = false := by simpa using fun e => h e.symm
        simp [archAt, List.find?, this, h]
    · have h0' : (v0 == v) = false := by simpa using h0
      simp only [h0', Bool.false_eq_true, ↓reduceIte]
      by_cases h1 : v0 = v'
      · subst h1
        have : ¬ v0 = v := h0
        simp [archAt, List.find?, this]
      · have h1' : (v0 == v') = false := by simpa using h1
        have e1 : archAt ((v0, as) :: outAppend rest v a d) v' = archAt (outAppend rest v a d) v' := by
          simp [archAt, List.find?, h1']
        have e2 : archAt ((v0, as) :: rest) v' = archAt rest v' := by simp [archAt, List.find?, h1']
        have e3 : archAt ((v0, as) :: rest) v = archAt rest v := by simp [archAt, List.find?, h0']
        rw [e1, e2, e3, ih]

/-- the dictionaries of a filing list that go to cell `(v, a)`, in order -/
def dictsFor (ts : List (Str × Str × Image)) (v a : Str) : List PyVal :=
  (ts.filter fun t => t.1 == v && t.2.1 == a).map (·.2.2.dict)

/-- **cell contents**: the cell `(v, a)` of the table is the sorted-after-each-append fold of its dictionaries -/
theorem cell_outFold (ts : List (Str × Str × Image)) (out : OutCells) (v a : Str) :
    cellIn (archAt (outFold ts out) v) a = cellFold (cellIn (archAt out v) a) (dictsFor ts v a) := by
  induction ts generalizing out with
  | nil => rfl
  | cons t rest ih =>
    obtain ⟨tv, ta, ti⟩ := t
    simp only [outFold, List.foldl_cons]
    have := ih (outAppend out tv ta ti.dict)
    simp only [outFold] at this
    rw [this, archAt_outAppend]
    by_cases hv : v = tv
    · subst hv
      simp only [↓reduceIte, cellIn_outArchAppend]
      by_cases ha : a = ta
      · subst ha
        simp [dictsFor, cellFold, List.filter]
      · have : (ta == a) = false := by simpa using fun e => ha e.symm
        simp [dictsFor, List.filter, this, ha]
    · have : (tv == v) = false := by simpa using fun e => hv e.symm
      simp [dictsFor, List.filter, this, hv]

/-! ### keys -/

theorem mem_keys_outArchAppend (as : List (Str × List PyVal)) (a a' : Str) (d : PyVal) :
    a' ∈ (outArchAppend as a d).map (·.1) ↔ a' = a ∨ a' ∈ as.map (·.1) := by
  rw [outArchAppend_keys]
  split
  · rename_i h
    constructor
    · exact Or.inr
    · rintro (rfl | h') <;> assumption
  · simp only [List.mem_append, List.mem_singleton]
    constructor
    · rintro (h | h); exact Or.inr h; exact Or.inl h
    · rintro (h | h); exact Or.inr h; exact Or.inl h

theorem mem_keys_outAppend (o : OutCells) (v v' a : Str) (d : PyVal) :
    v' ∈ (outAppend o v a d).map (·.1) ↔ v' = v ∨ v' ∈ o.map (·.1) := by
  rw [outAppend_keys]
  split
  · rename_i h
    constructor
    · exact Or.inr
    · rintro (rfl | h') <;> assumption
  · simp only [List.mem_append, List.mem_singleton]
    constructor
    · rintro (h | h); exact Or.inr h; exact Or.inl h
    · rintro (h | h); exact Or.inr h; exact Or.inl h

theorem keys_outFold (ts : List (Str × Str × Image)) (out : OutCells) (v : Str) :
    v ∈ (outFold ts out).map (·.1) ↔ v ∈ out.map (·.1) ∨ ∃ t ∈ ts, t.1 = v := by
  induction ts generalizing out with
  | nil => simp [outFold]
  | cons t rest ih =>
    simp only [outFold, List.foldl_cons]
    have := ih (outAppend out t.1 t.2.1 t.2.2.dict)
    simp only [outFold] at this
    rw [this, mem_keys_outAppend]
    simp only [List.mem_cons, exists_eq_or_imp]
    constructor
    · rintro ((h | h) | h)
      · exact Or.inr (Or.inl h.symm)
      · exact Or.inl h
      · exact Or.inr (Or.inr h)
    · rintro (h | h | h)
      · exact Or.inl (Or.inr h)
      · exact Or.inl (Or.inl h.symm)
      · exact Or.inr h

theorem archKeys_outFold (ts : List (Str × Str × Image)) (out : OutCells) (v a : Str) :
    a ∈ (archAt (outFold ts out) v).map (·.1) ↔ a ∈ (archAt out v).map (·.1) ∨ ∃ t ∈ ts, t.1 = v ∧ t.2.1 = a := by
  induction ts generalizing out with
  | nil => simp [outFold]
  | cons t rest ih =>
    simp only [outFold, List.foldl_cons]
    have := ih (outAppend out t.1 t.2.1 t.2.2.dict)
    simp only [outFold] at this
    rw [this, archAt_outAppend]
    simp only [List.mem_cons, exists_eq_or_imp]
    by_cases hv : v = t.1
    · subst hv
      simp only [↓reduceIte, mem_keys_outArchAppend, true_and]
      constructor
      · rintro ((h | h) | h)
        · exact Or.inr (Or.inl h.symm)
        · exact Or.inl h
        · exact Or.inr (Or.inr h)
      · rintro (h | h | h)
        · exact Or.inl (Or.inr h)
        · exact Or.inl (Or.inl h.symm)
        · exact Or.inr h
    · have hv' : ¬ t.1 = v := fun e => hv e.symm
      simp [hv, hv']

/-! ### dictionaries with unique keys: membership is look-up -/

theorem find_of_mem_nodup {β : Type} : ∀ (l : List (Str × β)) (k : Str) (x : β), (l.map (·.1)).Nodup → (k, x) ∈ l →
    l.find? (·.1 == k) = some (k, x) := by
  intro l k x hn hm
  have := find_key (fun b : β => b) l k x hn hm
  simpa using this

theorem archAt_of_mem {o : OutCells} (hn : (o.map (·.1)).Nodup) {v : Str} {as : List (Str × List PyVal)} (h : (v, as) ∈ o) :
    archAt o v = as := by
  simp [archAt, find_of_mem_nodup o v as hn h]

theorem cellIn_of_mem {as : List (Str × List PyVal)} (hn : (as.map (·.1)).Nodup) {a : Str} {l : List PyVal} (h : (a, l) ∈ as) :
    cellIn as a = l := by
  simp [cellIn, find_of_mem_nodup as a l hn h]

theorem mem_of_key {β : Type} {l : List (Str × β)} {k : Str} (h : k ∈ l.map (·.1)) : ∃ x, (k, x) ∈ l := by
  obtain ⟨p, hp, rfl⟩ := List.mem_map.mp h
  exact ⟨p.2, hp⟩

/-- two dicts with unique keys, the same key set and canonically equal values have the same canonical form -/
theorem canon_dict_lookup {l₁ l₂ : List (Str × PyVal)} (h₁ : (l₁.map (·.1)).Nodup) (h₂ : (l₂.map (·.1)).Nodup)
    (hv : ∀ k x, (k, x) ∈ l₁ → ∃ y, (k, y) ∈ l₂ ∧ PyVal.canon x = PyVal.canon y)
    (hk : ∀ k, k ∈ l₂.map (·.1) → k ∈ l₁.map (·.1)) : PyVal.canon (.dict l₁) = PyVal.canon (.dict l₂) := by
  simp only [PyVal.canon]
  congr 1
  have n₁ : (PyVal.canonKvs l₁).Nodup := by
    have : ((PyVal.canonKvs l₁).map (·.1)).Nodup := by rw [canonKvs_keys]; exact h₁
    exact nodup_of_map _ this
  have n₂ : (PyVal.canonKvs l₂).Nodup := by
    have : ((PyVal.canonKvs l₂).map (·.1)).Nodup := by rw [canonKvs_keys]; exact h₂
    exact nodup_of_map _ this
  have hperm : (PyVal.canonKvs l₁).Perm (PyVal.canonKvs l₂) := by
    rw [List.perm_ext_iff_of_nodup n₁ n₂]
    intro p
    rw [canonKvs_eq_map, canonKvs_eq_map]
    simp only [List.mem_map]
    constructor
    · rintro ⟨⟨k, x⟩, hx, rfl⟩
      obtain ⟨y, hy, e⟩ := hv k x hx
      exact ⟨(k, y), hy, by simp [e]⟩
    · rintro ⟨⟨k, y⟩, hy, rfl⟩
      obtain ⟨x, hx⟩ := mem_of_key (hk k (List.mem_map.mpr ⟨(k, y), hy, rfl⟩))
      obtain ⟨y', hy', e⟩ := hv k x hx
      have : y' = y := by
        have := inj_of_nodup_map (·.1) h₂ hy' hy rfl
        exact (Prod.mk.inj this).2
      subst this
      exact ⟨(k, x), hx, by simp [e]⟩
  exact sortKvs_perm_eq hperm (by rw [canonKvs_keys]; exact h₁)

/-- **the table is a function of the multiset of filings** (distinct paths inside every cell) -/
theorem toPy_canon_perm (t₁ t₂ : List (Str × Str × Image)) (hp : t₁.Perm t₂)
    (hd : ∀ v a, ((dictsFor t₁ v a).map pathKey).Nodup) :
    PyVal.canon (outFold t₁ []).toPy = PyVal.canon (outFold t₂ []).toPy := by
  have hN₁ : OutNodup (outFold t₁ []) := outFold_nodup _ [] ⟨List.nodup_nil, fun _ h => by cases h⟩
  have hN₂ : OutNodup (outFold t₂ []) := outFold_nodup _ [] ⟨List.nodup_nil, fun _ h => by cases h⟩
  have hcell : ∀ v a, cellIn (archAt (outFold t₁ []) v) a = cellIn (archAt (outFold t₂ []) v) a := by
    intro v a
    rw [cell_outFold, cell_outFold]
    have : cellIn (archAt ([] : OutCells) v) a = [] := by simp [archAt, cellIn]
    rw [this]
    exact cellFold_perm_eq ((hp.filter _).map _) (hd v a)
  have key₁ : ∀ k, k ∈ (outFold t₂ []).map (·.1) → k ∈ (outFold t₁ []).map (·.1) := by
    intro k hk
    rw [keys_outFold] at hk ⊢
    rcases hk with h | ⟨t, ht, e⟩
    · exact Or.inl h
    · exact Or.inr ⟨t, hp.mem_iff.mpr ht, e⟩
  have akey : ∀ v a, a ∈ (archAt (outFold t₂ []) v).map (·.1) → a ∈ (archAt (outFold t₁ []) v).map (·.1) := by
    intro v a hk
    rw [archKeys_outFold] at hk ⊢
    rcases hk with h | ⟨t, ht, e⟩
    · exact Or.inl h
    · exact Or.inr ⟨t, hp.mem_iff.mpr ht, e⟩
  have key₂ : ∀ k, k ∈ (outFold t₁ []).map (·.1) → k ∈ (outFold t₂ []).map (·.1) := by
    intro k hk
    rw [keys_outFold] at hk ⊢
    rcases hk with h | ⟨t, ht, e⟩
    · exact Or.inl h
    · exact Or.inr ⟨t, hp.mem_iff.mp ht, e⟩
  have akey₂ : ∀ v a, a ∈ (archAt (outFold t₁ []) v).map (·.1) → a ∈ (archAt (outFold t₂ []) v).map (·.1) := by
    intro v a hk
    rw [archKeys_outFold] at hk ⊢
    rcases hk with h | ⟨t, ht, e⟩
    · exact Or.inl h
    · exact Or.inr ⟨t, hp.mem_iff.mp ht, e⟩
  rw [toPy_eq, toPy_eq]
  refine canon_dict_lookup (by simpa [List.map_map, Function.comp_def] using hN₁.1)
    (by simpa [List.map_map, Function.comp_def] using hN₂.1) ?_ ?_
  · intro v x hx
    obtain ⟨⟨v0, as₁⟩, hmem₁, e⟩ := List.mem_map.mp hx
    injection e with e1 e2
    subst e1 e2
    obtain ⟨as₂, hmem₂⟩ := mem_of_key (key₂ v0 (List.mem_map.mpr ⟨(v0, as₁), hmem₁, rfl⟩))
    refine ⟨archsPy as₂, List.mem_map.mpr ⟨(v0, as₂), hmem₂, rfl⟩, ?_⟩
    have ha₁ := archAt_of_mem hN₁.1 hmem₁
    have ha₂ := archAt_of_mem hN₂.1 hmem₂
    have n₁ := hN₁.2 _ hmem₁
    have n₂ := hN₂.2 _ hmem₂
    simp only at n₁ n₂
    unfold archsPy
    refine canon_dict_lookup (by simpa [List.map_map, Function.comp_def] using n₁)
      (by simpa [List.map_map, Function.comp_def] using n₂) ?_ ?_
    · intro a y hy
      obtain ⟨⟨a0, l₁⟩, hl₁, e⟩ := List.mem_map.mp hy
      injection e with e1 e2
      subst e1 e2
      have hk₂ : a0 ∈ as₂.map (·.1) := by
        rw [← ha₂]; apply akey₂; rw [ha₁]; exact List.mem_map.mpr ⟨(a0, l₁), hl₁, rfl⟩
      obtain ⟨l₂, hl₂⟩ := mem_of_key hk₂
      refine ⟨.list l₂, List.mem_map.mpr ⟨(a0, l₂), hl₂, rfl⟩, ?_⟩
      have c₁ := cellIn_of_mem n₁ hl₁
      have c₂ := cellIn_of_mem n₂ hl₂
      have := hcell v0 a0
      rw [ha₁, ha₂, c₁, c₂] at this
      rw [this]
    · intro a hk
      have : a ∈ as₂.map (·.1) := by simpa [List.map_map, Function.comp_def] using hk
      have : a ∈ as₁.map (·.1) := by rw [← ha₁]; apply akey; rw [ha₂]; exact this
      simpa [List.map_map, Function.comp_def] using this
  · intro k hk
    have : k ∈ (outFold t₂ []).map (·.1) := by simpa [List.map_map, Function.comp_def] using hk
    simpa [List.map_map, Function.comp_def] using key₁ k this

/-! ### `json.dump` accepts a value iff it accepts its canonical form -/

theorem jsonSafeKvs_all : ∀ l, jsonSafeKvs l = l.all (fun kv => jsonSafe kv.2) := by
  intro l
  induction l with
  | nil => rfl
  | cons kv rest ih => obtain ⟨k, v⟩ := kv; simp [jsonSafeKvs, ih]

theorem jsonSafeList_all : ∀ l, jsonSafeList l = l.all jsonSafe := by
  intro l
  induction l with
  | nil => rfl
  | cons x rest ih => simp [jsonSafeList, ih]

mutual
theorem jsonSafe_canon : ∀ v : PyVal, jsonSafe (PyVal.canon v) = jsonSafe v
  | .none => rfl
  | .bool _ => rfl
  | .int _ => rfl
  | .float _ => rfl
  | .str _ => rfl
  | .other _ => rfl
  | .list xs => by
    simp only [PyVal.canon, jsonSafe]
    exact jsonSafe_canonList xs
  | .dict kvs => by
    simp only [PyVal.canon, jsonSafe]
    rw [jsonSafeKvs_all, (sortKvs_perm _).all_eq, ← jsonSafeKvs_all]
    exact jsonSafe_canonKvs kvs
theorem jsonSafe_canonList : ∀ l : List PyVal, jsonSafeList (PyVal.canonList l) = jsonSafeList l
  | [] => rfl
  | x :: xs => by simp only [PyVal.canonList, jsonSafeList, jsonSafe_canon x, jsonSafe_canonList xs]
theorem jsonSafe_canonKvs : ∀ l : List (Str × PyVal), jsonSafeKvs (PyVal.canonKvs l) = jsonSafeKvs l
  | [] => rfl
  | (k, v) :: rest => by simp only [PyVal.canonKvs, jsonSafeKvs, jsonSafe_canon v, jsonSafe_canonKvs rest]
end

theorem jsonSafe_of_canon_eq {a b : PyVal} (h : PyVal.canon a = PyVal.canon b) : jsonSafe a = jsonSafe b := by
  rw [← jsonSafe_canon a, ← jsonSafe_canon b, h]

theorem pathKey_dict (i : Image) : pathKey i.dict = (match i.path with | .str s => s | _ => []) := by
  cases i with
  | mk path mtime size volume_id type format arch disc_number disc_count checksums implant_md5 bootable subvariant unified additional_variants =>
    cases h : unified.truthy <;> cases path <;> (simp only [Image.dict, h]; rfl)

end PM.Img
