import ProductMD.Proofs.CIForest
/-! C01: the top-level container — which entries are top-level, fuel, order, `add`. -/
namespace PM.CI
open PM

mutual
/-- the UIDs of a subtree, root first -/
def uids : Variant → List Str
  | .mk _ _ uid _ _ _ _ _ kids => uid :: uidsL kids
def uidsL : List Variant → List Str
  | [] => []
  | v :: vs => uids v ++ uidsL vs
end

theorem uids_eq (v : Variant) : uids v = v.uid :: uidsL v.kids := by cases v; rfl

theorem mem_uidsL {x : Str} : ∀ {vs : List Variant}, x ∈ uidsL vs ↔ ∃ v ∈ vs, x ∈ uids v
  | [] => by simp [uidsL]
  | v :: vs => by simp [uidsL, mem_uidsL (vs := vs)]

theorem mem_flats {x : Str × Entry} : ∀ {vs : List Variant}, x ∈ flats vs ↔ ∃ v ∈ vs, x ∈ flat v
  | [] => by simp [flats]
  | v :: vs => by simp [flats, mem_flats (vs := vs)]

mutual
theorem keys_flat : ∀ (v : Variant) (x : Str), x ∈ (flat v).map (·.1) ↔ x ∈ uids v
  | .mk key id uid name type arches paths rel kids, x => by
    simp only [flat, uids, List.map_append, List.mem_append, List.map_cons, List.map_nil, List.mem_cons, List.not_mem_nil, or_false]
    rw [keys_flats kids x]
    exact Or.comm
theorem keys_flats : ∀ (vs : List Variant) (x : Str), x ∈ (flats vs).map (·.1) ↔ x ∈ uidsL vs
  | [], x => by simp [flats, uidsL]
  | v :: vs, x => by
    simp only [flats, uidsL, List.map_append, List.mem_append]
    rw [keys_flat v x, keys_flats vs x]
end

mutual
theorem length_flat : ∀ (v : Variant), (flat v).length = (uids v).length
  | .mk key id uid name type arches paths rel kids => by
    simp only [flat, uids, List.length_append, List.length_cons, List.length_nil]
    rw [length_flats kids]
theorem length_flats : ∀ (vs : List Variant), (flats vs).length = (uidsL vs).length
  | [] => rfl
  | v :: vs => by simp only [flats, uidsL, List.length_append]; rw [length_flat v, length_flats vs]
end

mutual
theorem height_le : ∀ (v : Variant), height v ≤ (uids v).length
  | .mk key id uid name type arches paths rel kids => by
    simp only [height, uids, List.length_cons]
    have := heights_le kids
    omega
theorem heights_le : ∀ (vs : List Variant), heights vs ≤ (uidsL vs).length
  | [] => by simp [heights]
  | v :: vs => by
    simp only [heights, uidsL, List.length_append]
    have := height_le v
    have := heights_le vs
    omega
end

theorem uids_sublist {t : Variant} : ∀ {vs : List Variant}, t ∈ vs → (uids t).Sublist (uidsL vs)
  | [], h => by cases h
  | v :: vs, h => by
    simp only [uidsL]
    rcases List.mem_cons.mp h with rfl | h
    · exact List.sublist_append_left _ _
    · exact (uids_sublist h).trans (List.sublist_append_right _ _)

theorem nodup_subset_length {l : List Str} : ∀ {l' : List Str}, l.Nodup → (∀ x ∈ l, x ∈ l') → l.length ≤ l'.length := by
  induction l with
  | nil => intro _ _ _; simp
  | cons a as ih =>
    intro l' hn hsub
    have ⟨ha, hn'⟩ := List.nodup_cons.mp hn
    have hal : a ∈ l' := hsub a (by simp)
    have := ih (l' := l'.erase a) hn' (fun x hx => by
      have hxa : x ≠ a := fun h => ha (h ▸ hx)
      exact (List.mem_erase_of_ne hxa).mpr (hsub x (by simp [hx])))
    rw [List.length_erase_of_mem hal] at this
    have : 0 < l'.length := List.length_pos_of_mem hal
    simp only [List.length_cons]
    omega

/-- no root UID is the UID of a proper descendant of a root -/
theorem root_not_below : ∀ {vs : List Variant}, (uidsL vs).Nodup → ∀ t ∈ vs, ∀ t' ∈ vs, t.uid ∉ uidsL t'.kids
  | [], _, t, ht, _, _ => by cases ht
  | a :: rest, hn, t, ht, t', ht' => by
    simp only [uidsL, uids_eq a] at hn
    rw [List.nodup_append] at hn
    obtain ⟨hl, hr, hd⟩ := hn
    have hla := List.nodup_cons.mp hl
    have hroot : ∀ s ∈ rest, s.uid ∈ uidsL rest := fun s hs => mem_uidsL.mpr ⟨s, hs, by rw [uids_eq]; simp⟩
    have hbelow : ∀ s ∈ rest, ∀ x ∈ uidsL s.kids, x ∈ uidsL rest := fun s hs x hx =>
      mem_uidsL.mpr ⟨s, hs, by rw [uids_eq]; simp [hx]⟩
    rcases List.mem_cons.mp ht with h1 | h1 <;> rcases List.mem_cons.mp ht' with h2 | h2
    · rw [h1, h2]; exact hla.1
    · intro h
      rw [h1] at h
      exact hd _ (by simp) _ (hbelow t' h2 _ h) rfl
    · intro h
      rw [h2] at h
      exact hd _ (by simp [h]) _ (hroot t h1) rfl
    · exact root_not_below hr t h1 t' h2

/-! ### child references -/
/-- the model of `child_variants`, on typed entries -/
def refs (d : Flat) : List Str := d.flatMap fun p => p.2.kids.map fun i => p.2.uid ++ '-' :: i

theorem mem_refs {x : Str} {d : Flat} : x ∈ refs d ↔ ∃ p ∈ d, ∃ i ∈ p.2.kids, x = p.2.uid ++ '-' :: i := by
  simp only [refs, List.mem_flatMap, List.mem_map]
  constructor
  · rintro ⟨p, hp, i, hi, rfl⟩; exact ⟨p, hp, i, hi, rfl⟩
  · rintro ⟨p, hp, i, hi, rfl⟩; exact ⟨p, hp, i, hi, rfl⟩

theorem childUids_flat : ∀ (d : Flat), childUids (d.map fun p => (p.1, entryVal p.2)) = .ok (refs d)
  | [] => rfl
  | (k, e) :: rest => by
    have ih := childUids_flat rest
    have hrefs : refs ((k, e) :: rest) = (e.kids.map fun i => e.uid ++ '-' :: i) ++ refs rest := by
      simp [refs]
    simp only [List.map_cons, childUids, ih, refsOfVal, entry_variants_getD, asStrList_strList, entry_uid, asStr, hrefs]
    cases hk : e.kids with
    | nil => simp
    | cons i is => simp

mutual
theorem refs_flat : ∀ (v : Variant) (ctx : Ctx), Good ctx v → ∀ x, x ∈ refs (flat v) ↔ x ∈ uidsL v.kids
  | .mk key id uid name type arches paths rel kids, ctx, hg, x => by
    simp only [Good] at hg
    have hal : ∀ k ∈ kids, k.uid = uid ++ '-' :: k.id := fun k hk =>
      vok_aligned uid _ k (GoodL_mem hg.2.2.2 k hk).valid
    have ih := refs_flats kids _ hg.2.2.2 x
    simp only [flat, Variant.kids]
    have hsplit : x ∈ refs (flats kids ++ [(uid, entryOf (.mk key id uid name type arches paths rel kids))]) ↔
        x ∈ refs (flats kids) ∨ ∃ i ∈ kids.map Variant.id, x = uid ++ '-' :: i := by
      simp only [mem_refs, List.mem_append, List.mem_singleton]
      constructor
      · rintro ⟨p, hp | hp, i, hi, rfl⟩
        · exact .inl ⟨p, hp, i, hi, rfl⟩
        · subst hp
          simp only [entryOf] at hi ⊢
          exact .inr ⟨i, mem_sortDedup.mp hi, rfl⟩
      · rintro (⟨p, hp, i, hi, rfl⟩ | ⟨i, hi, rfl⟩)
        · exact ⟨p, .inl hp, i, hi, rfl⟩
        · exact ⟨_, .inr rfl, i, by simp only [entryOf]; exact mem_sortDedup.mpr hi, by simp [entryOf]⟩
    rw [hsplit, ih, mem_uidsL]
    constructor
    · rintro (⟨k, hk, hx⟩ | ⟨i, hi, rfl⟩)
      · exact ⟨k, hk, by rw [uids_eq]; simp [hx]⟩
      · obtain ⟨k, hk, rfl⟩ := List.mem_map.mp hi
        exact ⟨k, hk, by rw [uids_eq, hal k hk]; simp⟩
    · rintro ⟨k, hk, hx⟩
      rw [uids_eq] at hx
      rcases List.mem_cons.mp hx with hx | hx
      · exact .inr ⟨k.id, List.mem_map.mpr ⟨k, hk, rfl⟩, by rw [hx, hal k hk]⟩
      · exact .inl ⟨k, hk, hx⟩
theorem refs_flats : ∀ (vs : List Variant) (ctx : Ctx), GoodL ctx vs → ∀ x, x ∈ refs (flats vs) ↔ ∃ v ∈ vs, x ∈ uidsL v.kids
  | [], _, _, x => by simp [flats, refs]
  | v :: vs, ctx, hg, x => by
    simp only [GoodL] at hg
    have h1 := refs_flat v ctx hg.1 x
    have h2 := refs_flats vs ctx hg.2 x
    have : x ∈ refs (flat v ++ flats vs) ↔ x ∈ refs (flat v) ∨ x ∈ refs (flats vs) := by
      simp [refs, List.flatMap_append]
    simp only [flats]
    rw [this, h1, h2]
    simp
end

/-! ### the container -/
/-- top-level container: keys are ids, no key twice, and the same below every variant -/
def wellKeyedTop (vs : List Variant) : Bool := decide ((vs.map Variant.id).Nodup) && wellKeyedL vs

theorem inj_of_nodup_map {α β} (f : α → β) : ∀ {l : List α}, (l.map f).Nodup → ∀ {a b}, a ∈ l → b ∈ l → f a = f b → a = b := by
  intro l
  induction l with
  | nil => intro _ a b ha; cases ha
  | cons x xs ih =>
    intro hn a b ha hb hab
    simp only [List.map_cons, List.nodup_cons] at hn
    cases ha with
    | head =>
      cases hb with
      | head => rfl
      | tail _ hb' => exact absurd (List.mem_map.mpr ⟨b, hb', hab.symm⟩) hn.1
    | tail _ ha' =>
      cases hb with
      | head => exact absurd (List.mem_map.mpr ⟨a, ha', hab⟩) hn.1
      | tail _ hb' => exact ih hn.2 ha' hb' hab

theorem findKey_some {k : Str} : ∀ {vs : List Variant} {w : Variant}, findKey k vs = some w → w ∈ vs ∧ w.key = k
  | [], _, h => by simp [findKey] at h
  | v :: vs, w, h => by
    simp only [findKey] at h
    split at h
    · rename_i hv; cases h; exact ⟨by simp, hv⟩
    · have := findKey_some h; exact ⟨by simp [this.1], this.2⟩

theorem findKey_of_mem {k : Str} : ∀ {vs : List Variant}, k ∈ vs.map Variant.key → ∃ w, findKey k vs = some w
  | [], h => by simp at h
  | v :: vs, h => by
    simp only [findKey]
    split
    · exact ⟨v, rfl⟩
    · rename_i hne
      simp only [List.map_cons, List.mem_cons] at h
      rcases h with h | h
      · exact absurd h.symm hne
      · exact findKey_of_mem h

theorem findUid_some {u : Str} : ∀ {vs : List Variant} {w : Variant}, findUid u vs = some w → w ∈ vs ∧ w.uid = u
  | [], _, h => by simp [findUid] at h
  | v :: vs, w, h => by
    simp only [findUid] at h
    split at h
    · rename_i hv; cases h; exact ⟨by simp, hv⟩
    · have := findUid_some h; exact ⟨by simp [this.1], this.2⟩

theorem findUid_of_mem {u : Str} : ∀ {vs : List Variant}, u ∈ vs.map Variant.uid → ∃ w, findUid u vs = some w
  | [], h => by simp at h
  | v :: vs, h => by
    simp only [findUid]
    split
    · exact ⟨v, rfl⟩
    · rename_i hne
      simp only [List.map_cons, List.mem_cons] at h
      rcases h with h | h
      · exact absurd h.symm hne
      · exact findUid_of_mem h

theorem mem_byKeys {vs : List Variant} (hn : (vs.map Variant.key).Nodup) {t : Variant} : t ∈ byKeys vs ↔ t ∈ vs := by
  unfold byKeys
  simp only [List.mem_filterMap]
  constructor
  · rintro ⟨k, _, hk⟩; exact (findKey_some hk).1
  · intro ht
    refine ⟨t.key, mem_sortDedup.mpr (List.mem_map.mpr ⟨t, ht, rfl⟩), ?_⟩
    obtain ⟨w, hw⟩ := findKey_of_mem (List.mem_map.mpr ⟨t, ht, rfl⟩)
    have hw' := findKey_some hw
    rw [hw, inj_of_nodup_map Variant.key hn hw'.1 ht hw'.2]

theorem collect_pickUid (f : Str → Except Err Variant) (nk : List Variant) :
    ∀ (us : List Str), (∀ u ∈ us, ∃ w, f u = .ok w ∧ findUid u nk = some w) →
      collect (us.map f) = .ok (us.filterMap (findUid · nk)) := by
  intro us
  induction us with
  | nil => intro _; rfl
  | cons i is ih =>
    intro h
    obtain ⟨w, hf, hw⟩ := h i (by simp)
    have := ih (fun j hj => h j (by simp [hj]))
    simp only [List.map_cons, collect, hf, this, List.filterMap_cons, hw]

theorem nodup_filterMap_key (g : Str → Option Variant) : ∀ {us : List Str}, us.Nodup →
    (∀ u1 ∈ us, ∀ u2 ∈ us, ∀ w1 w2, g u1 = some w1 → g u2 = some w2 → w1.key = w2.key → u1 = u2) →
    ((us.filterMap g).map Variant.key).Nodup := by
  intro us
  induction us with
  | nil => intro _ _; simp
  | cons u us ih =>
    intro hn hinj
    have ⟨hu, hn'⟩ := List.nodup_cons.mp hn
    have ih' := ih hn' (fun u1 h1 u2 h2 => hinj u1 (by simp [h1]) u2 (by simp [h2]))
    simp only [List.filterMap_cons]
    cases hg : g u with
    | none => exact ih'
    | some w =>
      simp only [List.map_cons, List.nodup_cons]
      refine ⟨?_, ih'⟩
      intro hmem
      obtain ⟨w2, hw2, hkey⟩ := List.mem_map.mp hmem
      obtain ⟨u2, hu2, hg2⟩ := List.mem_filterMap.mp hw2
      have := hinj u (by simp) u2 (by simp [hu2]) w w2 hg hg2 hkey.symm
      exact hu (this ▸ hu2)

theorem roots_sublist : ∀ (vs : List Variant), (vs.map Variant.uid).Sublist (uidsL vs)
  | [] => by simp [uidsL]
  | v :: vs => by
    simp only [List.map_cons, uidsL, uids_eq v, List.cons_append]
    exact List.Sublist.cons_cons _ ((roots_sublist vs).trans (List.sublist_append_right _ _))

/-- `Variants.deserialize` on what `Variants.serialize` wrote -/
theorem variantsDe_ok (ver : Nat × Nat) (hv : verLt ver (1, 0) = false) (top : List Variant) (d : Flat) (l : List (Str × PyVal))
    (hget : PyVal.get? (.dict l) k%"variants" = some (flatVal d))
    (hser : sers none (byKeys top) [] = .ok d) (hk : wellKeyedTop top = true) (hu : (uidsL top).Nodup) :
    variantsDe ver (.dict l) = .ok (normTop top) := by
  simp only [wellKeyedTop, Bool.and_eq_true, decide_eq_true_eq] at hk
  obtain ⟨hids, hkl⟩ := hk
  have hkeyid : ∀ t ∈ top, t.key = t.id := fun t ht => (wellKeyedL_mem hkl t ht).1
  have hkeys : (top.map Variant.key).Nodup := by rw [List.map_congr_left hkeyid]; exact hids
  obtain ⟨hgood, hs, _, hall, honly⟩ := sers_spec (byKeys top) none [] d hser (by simp [FSorted])
  have hgoodt : ∀ t ∈ top, Good none t := fun t ht => GoodL_mem hgood t ((mem_byKeys hkeys).mpr ht)
  have hd : ∀ x, x ∈ d ↔ ∃ t ∈ top, x ∈ flat t := by
    intro x
    constructor
    · intro hx
      rcases honly x hx with h | h
      · cases h
      · obtain ⟨t, ht, hxt⟩ := mem_flats.mp h
        exact ⟨t, (mem_byKeys hkeys).mp ht, hxt⟩
    · rintro ⟨t, ht, hxt⟩
      exact hall x (mem_flats.mpr ⟨t, (mem_byKeys hkeys).mpr ht, hxt⟩)
  have hkeysd : ∀ x, x ∈ d.map (·.1) ↔ ∃ t ∈ top, x ∈ uids t := by
    intro x
    constructor
    · intro hx
      obtain ⟨p, hp, rfl⟩ := List.mem_map.mp hx
      obtain ⟨t, ht, hpt⟩ := (hd p).mp hp
      exact ⟨t, ht, (keys_flat t _).mp (List.mem_map.mpr ⟨p, hpt, rfl⟩)⟩
    · rintro ⟨t, ht, hxt⟩
      obtain ⟨p, hp, rfl⟩ := List.mem_map.mp ((keys_flat t x).mpr hxt)
      exact List.mem_map.mpr ⟨p, (hd p).mpr ⟨t, ht, hp⟩, rfl⟩
  have hrefs : ∀ x, x ∈ refs d ↔ ∃ t ∈ top, x ∈ uidsL t.kids := by
    intro x
    constructor
    · intro hx
      obtain ⟨p, hp, i, hi, rfl⟩ := mem_refs.mp hx
      obtain ⟨t, ht, hpt⟩ := (hd p).mp hp
      exact ⟨t, ht, (refs_flat t none (hgoodt t ht) _).mp (mem_refs.mpr ⟨p, hpt, i, hi, rfl⟩)⟩
    · rintro ⟨t, ht, hxt⟩
      obtain ⟨p, hp, i, hi, rfl⟩ := mem_refs.mp ((refs_flat t none (hgoodt t ht) x).mpr hxt)
      exact mem_refs.mpr ⟨p, (hd p).mpr ⟨t, ht, hp⟩, i, hi, rfl⟩
  -- which keys are top-level
  have htops : Str.sortDedup ((d.map (·.1)).filter fun u => !(refs d).contains u) = Str.sortDedup (top.map Variant.uid) := by
    apply sortDedup_congr
    intro x
    simp only [List.mem_filter, Bool.not_eq_true', ← Bool.not_eq_true, List.contains_iff_mem]
    constructor
    · rintro ⟨hx, hnot⟩
      obtain ⟨t, ht, hxt⟩ := (hkeysd x).mp hx
      rw [uids_eq] at hxt
      rcases List.mem_cons.mp hxt with h | h
      · exact List.mem_map.mpr ⟨t, ht, h.symm⟩
      · exact absurd ((hrefs x).mpr ⟨t, ht, h⟩) (by simpa using hnot)
    · intro hx
      obtain ⟨t, ht, rfl⟩ := List.mem_map.mp hx
      refine ⟨(hkeysd _).mpr ⟨t, ht, by rw [uids_eq]; simp⟩, ?_⟩
      have : t.uid ∉ refs d := fun h => by
        obtain ⟨t', ht', hx'⟩ := (hrefs _).mp h
        exact root_not_below hu t ht t' ht' hx'
      simpa using this
  -- every top-level variant is rebuilt
  have hbuild : ∀ t ∈ top, Variant.build ver (flatVal d) (d.length + 1) none t.uid = .ok t.norm := by
    intro t ht
    apply build_ok ver hv d hs t none _ _ (hgoodt t ht) (wellKeyedL_mem hkl t ht).2
      (fun x hx => (hd x).mpr ⟨t, ht, hx⟩)
    have h1 := height_le t
    have h2 : (uids t).length ≤ (d.map (·.1)).length :=
      nodup_subset_length ((uids_sublist ht).nodup hu) (fun x hx => (hkeysd x).mpr ⟨t, ht, hx⟩)
    simp only [List.length_map] at h2
    omega
  have hcollect : collect ((Str.sortDedup (top.map Variant.uid)).map fun u => Variant.build ver (flatVal d) (d.length + 1) none u)
      = .ok (normTop top) := by
    unfold normTop
    apply collect_pickUid
    intro u hu'
    obtain ⟨w, hw⟩ := findUid_of_mem (mem_sortDedup.mp hu')
    have hw' := findUid_some hw
    exact ⟨w.norm, by rw [← hw'.2]; exact hbuild w hw'.1, by rw [findUid_norms, hw]; rfl⟩
  have hnormkey : ∀ w ∈ normTop top, w.key = w.id := by
    intro w hw
    simp only [normTop, List.mem_filterMap] at hw
    obtain ⟨u, _, hu'⟩ := hw
    rw [findUid_norms] at hu'
    cases h : findUid u top with
    | none => simp [h] at hu'
    | some t => simp [h] at hu'; subst hu'; simp
  have hadd : addAll [] (normTop top) = .ok (normTop top) := by
    have := addAll_ok (normTop top) [] (by
      simp only [List.nil_append]
      unfold normTop
      apply nodup_filterMap_key _ (sortDedup_nodup _)
      intro u1 _ u2 _ w1 w2 h1 h2 hkey
      rw [findUid_norms] at h1 h2
      cases ht1 : findUid u1 top with
      | none => simp [ht1] at h1
      | some t1 =>
        cases ht2 : findUid u2 top with
        | none => simp [ht2] at h2
        | some t2 =>
          simp [ht1] at h1
          simp [ht2] at h2
          subst h1 h2
          simp only [norm_key] at hkey
          have e1 := findUid_some ht1
          have e2 := findUid_some ht2
          have := inj_of_nodup_map Variant.id hids e1.1 e2.1 hkey
          rw [← e1.2, ← e2.2, this]) hnormkey
    simpa using this
  have hfv : flatVal d = .dict (d.map fun p => (p.1, entryVal p.2)) := rfl
  unfold variantsDe
  rw [sub_of_get hget, hfv]
  simp only [hv, childUids_flat, List.map_map, Function.comp_def, List.length_map]
  rw [← hfv]
  simp only [htops, hcollect, hadd]
  simp

end PM.CI
