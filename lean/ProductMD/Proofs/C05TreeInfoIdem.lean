import ProductMD.Proofs.C05TreeInfo
import ProductMD.Properties.C04
import ProductMD.Proofs.Checksum
/-!
C05, treeinfo idempotence: what the legacy-aware reader establishes of C04's side conditions.

* the build timestamp of a loaded tree is an integer (every reader goes through `int(...)`),
* top-level variants are filed under `uid or id` — under their UID whenever it is not empty (no F8 through a load),
* checksums: dictionary keys, type and value free of `:` (both syntaxes of the reader),
* images: every platform's image names are dictionary keys.
-/
namespace PM.TI.Legacy
open PM PM.TI PM.Ini
set_option Elab.async false

theorem deTreeL_ts (fo : FloatOracle) (old : Bool) (d : Ini) (t : Tree) (h : deTreeL fo old d = .ok t) :
    ∃ n, t.ts = .int n := by
  unfold deTreeL deTree at h
  simp only [bind, Except.bind, pure, Except.pure] at h
  repeat' (first | split at h | dsimp only at h)
  all_goals first | (cases h; done) | skip
  all_goals
    injection h with h
    subst h
    exact ⟨_, rfl⟩

theorem addKid_ok {acc r : List Variant} {v : Variant} (h : addKid acc v = .ok r) : r = acc ++ [v] := by
  unfold addKid at h
  split at h
  · cases h
  · injection h with h; exact h.symm

theorem loopFile_all (P : Variant → Prop) (rd : Str → Except Err Variant) (hrd : ∀ u v, rd u = .ok v → P v) :
    ∀ (us : List Str) (acc r : List Variant), (∀ v ∈ acc, P v) → loopFile rd us acc = .ok r → ∀ v ∈ r, P v
  | [], acc, r, ha, h => by simp only [loopFile] at h; injection h with h; subst h; exact ha
  | u :: us, acc, r, ha, h => by
    simp only [loopFile] at h
    cases hu : rd u with
    | error e => rw [hu] at h; cases h
    | ok v =>
      rw [hu] at h
      simp only at h
      cases hk : addKid acc v with
      | error e => rw [hk] at h; cases h
      | ok acc' =>
        rw [hk] at h
        simp only at h
        refine loopFile_all P rd hrd us acc' r ?_ h
        rw [addKid_ok hk]
        intro w hw
        rcases List.mem_append.mp hw with hw | hw
        · exact ha w hw
        · simp only [List.mem_singleton] at hw; rw [hw]; exact hrd u v hu

theorem fileTop_key {v w : Variant} (h : fileTop v = .ok w) : w.key = (if w.uid.isEmpty then w.id else w.uid) := by
  cases v with
  | mk k id uid name type paths kids =>
    simp only [fileTop] at h
    split at h
    · cases h
    · injection h with h; subst h; rfl

theorem deTopsL_keys (S : Sels) (c : VCtx) (d : Ini) (tops : List Variant) (h : deTopsL S c d = .ok tops) :
    ∀ v ∈ tops, v.key = (if v.uid.isEmpty then v.id else v.uid) := by
  unfold deTopsL at h
  simp only [bind, Except.bind, pure, Except.pure] at h
  repeat' (first | split at h | dsimp only at h)
  all_goals first | (cases h; done) | skip
  all_goals
    injection h with h
    subst h
    refine loopFile_all _ _ ?_ _ [] _ (by intro v hv; cases hv) ‹loopFile _ _ [] = Except.ok _›
    intro u v hv
    cases hr : readVariant S c d (d.length + 1) false u with
    | error e => simp [hr, bind, Except.bind] at hv
    | ok x =>
      simp only [hr, bind, Except.bind] at hv
      exact fileTop_key hv

/-- facts about the tree and the top level that every load establishes -/
theorem deserialize_tree_tops (fo : FloatOracle) (d : Ini) (t : TreeInfo) (h : deserialize fo d = .ok t) :
    (∃ n, t.tree.ts = .int n) ∧ ∀ v ∈ t.variants, v.key = (if v.uid.isEmpty then v.id else v.uid) := by
  unfold deserialize at h
  obtain ⟨version, _, h⟩ := bind_ok' h
  obtain ⟨vt, _, h⟩ := bind_ok' h
  obtain ⟨S, _, h⟩ := bind_ok' h
  obtain ⟨rl, hrel, h⟩ := bind_ok' h
  obtain ⟨release, layered⟩ := rl
  dsimp only at h
  split at h <;>
  · obtain ⟨bp, _, h⟩ := bind_ok' h
    obtain ⟨tree, htree, h⟩ := bind_ok' h
    obtain ⟨tops, htops, h⟩ := bind_ok' h
    obtain ⟨cs, hcs, h⟩ := bind_ok' h
    obtain ⟨images, him, h⟩ := bind_ok' h
    obtain ⟨mi, hst, h⟩ := bind_ok' h
    obtain ⟨m, i⟩ := mi
    obtain ⟨ab, hme, h⟩ := bind_ok' h
    obtain ⟨a, b⟩ := ab
    obtain ⟨u, _, h⟩ := bind_ok' h
    have h' : (Except.ok _ : Except Err TreeInfo) = .ok t := h
    injection h' with h'
    subst h'
    exact ⟨deTreeL_ts _ _ _ _ htree, deTopsL_keys _ _ _ _ htops⟩

theorem mem_keys_setKV {α} (k : Str) (v : α) : ∀ (l : List (Str × α)) (y : Str), y ∈ (setKV k v l).map (·.1) → y = k ∨ y ∈ l.map (·.1)
  | [], y, h => by simp [setKV] at h; exact Or.inl h
  | x :: xs, y, h => by
    simp only [setKV] at h
    split at h
    · rename_i hx
      simp only [List.map_cons, List.mem_cons] at h ⊢
      rcases h with h | h
      · exact Or.inl h
      · exact Or.inr (Or.inr h)
    · simp only [List.map_cons, List.mem_cons] at h ⊢
      rcases h with h | h
      · exact Or.inr (Or.inl h)
      · rcases mem_keys_setKV k v xs y h with h | h
        · exact Or.inl h
        · exact Or.inr (Or.inr h)

theorem setKV_inv {α} (P : α → Prop) (k : Str) (v : α) (hv : P v) : ∀ (l : List (Str × α)), (l.map (·.1)).Nodup → (∀ x ∈ l, P x.2) →
    ((setKV k v l).map (·.1)).Nodup ∧ ∀ x ∈ setKV k v l, P x.2
  | [], _, _ => by simp [setKV, hv]
  | x :: xs, hn, hl => by
    simp only [List.map_cons, List.nodup_cons] at hn
    simp only [setKV]
    split
    · rename_i hx
      have hk : x.1 = k := by simpa using hx
      refine ⟨?_, ?_⟩
      · simp only [List.map_cons, List.nodup_cons]
        exact ⟨hk ▸ hn.1, hn.2⟩
      · intro y hy
        rcases List.mem_cons.mp hy with rfl | hy
        · exact hv
        · exact hl y (List.mem_cons_of_mem _ hy)
    · rename_i hx
      have hk : x.1 ≠ k := by simpa using hx
      obtain ⟨h1, h2⟩ := setKV_inv P k v hv xs hn.2 (fun y hy => hl y (List.mem_cons_of_mem _ hy))
      refine ⟨?_, ?_⟩
      · simp only [List.map_cons, List.nodup_cons]
        refine ⟨?_, h1⟩
        intro hm
        rcases mem_keys_setKV k v xs _ hm with h | h
        · exact hk h
        · exact hn.1 h
      · intro y hy
        rcases List.mem_cons.mp hy with rfl | hy
        · exact hl _ List.mem_cons_self
        · exact h2 y hy

theorem checksumOf_nocolon (value : Str) (tv : Str × Str) (h : checksumOf value = .ok tv) : ':' ∉ tv.1 ∧ ':' ∉ tv.2 := by
  unfold checksumOf at h
  split at h
  · rename_i hc
    have hv : ':' ∉ value := by simpa using hc
    repeat' split at h
    all_goals first | (cases h; done) | skip
    all_goals
      injection h with h
      subst h
      exact ⟨by simp, hv⟩
  · split at h
    · rename_i a b hs
      injection h with h
      subst h
      have := PM.Checksum.splitOn_no_sep ':' value
      rw [hs] at this
      exact ⟨this a (by simp), this b (by simp)⟩
    · cases h

theorem deChecksumItemsL_ok (fix : Bool) : ∀ (its : List (Str × Str)) (acc r : List (Str × Str × Str)),
    ChecksumsOK acc → deChecksumItemsL fix its acc = .ok r → ChecksumsOK r
  | [], acc, r, ha, h => by simp only [deChecksumItemsL] at h; injection h with h; subst h; exact ha
  | kv :: rest, acc, r, ha, h => by
    simp only [deChecksumItemsL] at h
    cases hc : checksumOf kv.2 with
    | error e => rw [hc] at h; cases h
    | ok tv =>
      rw [hc] at h
      simp only at h
      have := setKV_inv (fun (x : Str × Str) => ':' ∉ x.1 ∧ ':' ∉ x.2) (fixPath fix kv.1) tv (checksumOf_nocolon _ _ hc) acc ha.1 ha.2
      exact deChecksumItemsL_ok fix rest _ r ⟨this.1, this.2⟩ h

theorem deChecksumsL_ok (fix : Bool) (d : Ini) (cs : List (Str × Str × Str)) (h : deChecksumsL fix d = .ok cs) :
    ChecksumsOK cs := by
  unfold deChecksumsL at h
  dsimp only at h
  split at h
  · obtain ⟨cs', hcs, h⟩ := bind_ok' h
    obtain ⟨u, _, h⟩ := bind_ok' h
    have h' : (Except.ok cs' : Except Err _) = .ok cs := h
    injection h' with h'
    subst h'
    cases hi : d.items sChecksums with
    | error e => rw [hi] at hcs; cases hcs
    | ok its =>
      rw [hi] at hcs
      exact deChecksumItemsL_ok fix its [] _ ⟨by simp, by simp⟩ hcs
  · obtain ⟨cs', hcs, h⟩ := bind_ok' h
    obtain ⟨u, _, h⟩ := bind_ok' h
    have h' : (Except.ok cs' : Except Err _) = .ok cs := h
    injection h' with h'
    subst h'
    have h'' : (Except.ok [] : Except Err (List (Str × Str × Str))) = .ok cs' := hcs
    injection h'' with h''
    subst h''
    exact ⟨by simp, by simp⟩

theorem foldl_setKV_nodup (f : Str → Str) : ∀ (its m : List (Str × Str)), (m.map (·.1)).Nodup →
    ((its.foldl (fun m kv => setKV kv.1 (f kv.2) m) m).map (·.1)).Nodup
  | [], m, h => h
  | kv :: rest, m, h => by
    simp only [List.foldl_cons]
    exact foldl_setKV_nodup f rest _ (setKV_inv (fun _ => True) kv.1 (f kv.2) trivial m h (fun _ _ => trivial)).1

theorem deImageSectionsL_ok (fix : Bool) (d : Ini) (arch : Str) : ∀ (ss : List Str) (acc r : List (Str × List (Str × Str))),
    ((acc.map (·.1)).Nodup ∧ ∀ p ∈ acc, (p.2.map (·.1)).Nodup) → deImageSectionsL fix d arch ss acc = .ok r →
    (r.map (·.1)).Nodup ∧ ∀ p ∈ r, (p.2.map (·.1)).Nodup
  | [], acc, r, ha, h => by simp only [deImageSectionsL] at h; injection h with h; subst h; exact ha
  | s :: ss, acc, r, ha, h => by
    simp only [deImageSectionsL] at h
    split at h
    · cases hi : items d s with
      | error e => rw [hi] at h; cases h
      | ok its =>
        rw [hi] at h
        simp only at h
        exact deImageSectionsL_ok fix d arch ss _ r
          (setKV_inv (fun (x : List (Str × Str)) => (x.map (·.1)).Nodup) _ _
            (foldl_setKV_nodup (fixPath fix) its [] (by simp)) acc ha.1 ha.2) h
    · exact deImageSectionsL_ok fix d arch ss acc r ha h

theorem deImagesL_ok (fix : Bool) (d : Ini) (tree : Tree) (im : List (Str × List (Str × Str))) (h : deImagesL fix d tree = .ok im) :
    ∀ p ∈ im, (p.2.map (·.1)).Nodup := by
  unfold deImagesL at h
  simp only [bind, Except.bind, pure, Except.pure] at h
  repeat' (first | split at h | dsimp only at h)
  all_goals first | (cases h; done) | skip
  all_goals
    injection h with h
    subst h
    exact (deImageSectionsL_ok fix d _ _ [] _ ⟨by simp, by simp⟩ ‹deImageSectionsL fix d _ _ [] = Except.ok _›).2

/-- every load establishes C04's syntactic conditions on checksums and (the dictionary half of) images -/
theorem deserialize_cs_images (fo : FloatOracle) (d : Ini) (t : TreeInfo) (h : deserialize fo d = .ok t) :
    ChecksumsOK t.checksums ∧ ∀ p ∈ t.images, (p.2.map (·.1)).Nodup := by
  unfold deserialize at h
  obtain ⟨version, _, h⟩ := bind_ok' h
  obtain ⟨vt, _, h⟩ := bind_ok' h
  obtain ⟨S, _, h⟩ := bind_ok' h
  obtain ⟨rl, hrel, h⟩ := bind_ok' h
  obtain ⟨release, layered⟩ := rl
  dsimp only at h
  split at h <;>
  · obtain ⟨bp, _, h⟩ := bind_ok' h
    obtain ⟨tree, htree, h⟩ := bind_ok' h
    obtain ⟨tops, htops, h⟩ := bind_ok' h
    obtain ⟨cs, hcs, h⟩ := bind_ok' h
    obtain ⟨images, him, h⟩ := bind_ok' h
    obtain ⟨mi, hst, h⟩ := bind_ok' h
    obtain ⟨m, i⟩ := mi
    obtain ⟨ab, hme, h⟩ := bind_ok' h
    obtain ⟨a, b⟩ := ab
    obtain ⟨u, _, h⟩ := bind_ok' h
    have h' : (Except.ok _ : Except Err TreeInfo) = .ok t := h
    injection h' with h'
    subst h'
    exact ⟨deChecksumsL_ok _ _ _ hcs, deImagesL_ok _ _ _ _ him⟩


end PM.TI.Legacy
