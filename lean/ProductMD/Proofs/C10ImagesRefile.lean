import ProductMD.Proofs.C10Images
/-!
C10, images side: where the reader of a document of format ≤ 1.1 files every image — exactly.

The filings of a manifest are `Spec.entries` : (variant, arch, object id, attributes).  The reader gives the k-th
image dictionary of the document (iteration order) the object id k; an image found under `src` is ONE object filed
under every other arch key of ITS variant (`Img.refile`), any other image goes to its own cell.
-/
namespace PM.Img.C10
open PM PM.PyOps PM.Spec
set_option Elab.async false

/-- the arch keys under which `_add_1_1` files an image read from `(variant, a)`; `ks` = the arch keys of that variant -/
def targets (ks : List Str) (a : Str) : List Str :=
  if a = L "src" then ks.filter (fun b => b ≠ L "src") else [a]

/-! ### membership of filings after an insertion (the object may already be filed elsewhere) -/

theorem mem_cellAdd_iff (c : Cell) (id : Nat) (img : Image) (h : ∀ y ∈ c, y.1 = id → y.2 = img) (x : Nat × Image) :
    x ∈ cellAdd c id img ↔ x = (id, img) ∨ x ∈ c := by
  constructor
  · exact mem_cellAdd
  · rintro (rfl | hx)
    · unfold cellAdd
      split
      · rename_i hany
        obtain ⟨y, hy, hyid⟩ := List.any_eq_true.mp hany
        have h1 : y.1 = id := by simpa using hyid
        have h2 := h y hy h1
        have : y = (id, img) := by cases y; simp_all
        exact this ▸ hy
      · exact List.mem_append_right _ (by simp)
    · exact mem_cellAdd_old hx

theorem mem_archAdd_iff (v a : Str) (id : Nat) (img : Image) (as : List (Str × Cell))
    (h : ∀ e ∈ archEntriesId v as, e.2.2.1 = id → e.2.2.2 = img) (e : Str × Str × Nat × Image) :
    e ∈ archEntriesId v (archAdd as a id img) ↔ e = (v, a, id, img) ∨ e ∈ archEntriesId v as := by
  induction as with
  | nil => simp [archAdd, archEntriesId]
  | cons ac rest ih =>
    obtain ⟨a', c⟩ := ac
    rw [archEntriesId_cons] at h
    unfold archAdd
    split
    · rename_i hh
      have h' : a' = a := by simpa using hh
      subst h'
      rw [archEntriesId_cons, archEntriesId_cons]
      simp only [List.mem_append, List.mem_map]
      have hc : ∀ y ∈ c, y.1 = id → y.2 = img := by
        intro y hy hyid
        exact h (v, a', y.1, y.2) (List.mem_append_left _ (List.mem_map.mpr ⟨y, hy, rfl⟩)) hyid
      constructor
      · rintro (⟨y, hy, rfl⟩ | hr)
        · rcases (mem_cellAdd_iff c id img hc y).mp hy with rfl | hy'
          · exact Or.inl rfl
          · exact Or.inr (Or.inl ⟨y, hy', rfl⟩)
        · exact Or.inr (Or.inr hr)
      · rintro (rfl | ⟨y, hy, rfl⟩ | hr)
        · exact Or.inl ⟨(id, img), (mem_cellAdd_iff c id img hc _).mpr (Or.inl rfl), rfl⟩
        · exact Or.inl ⟨y, (mem_cellAdd_iff c id img hc y).mpr (Or.inr hy), rfl⟩
        · exact Or.inr hr
    · rw [archEntriesId_cons, archEntriesId_cons]
      simp only [List.mem_append]
      rw [ih (fun e he => h e (List.mem_append_right _ he))]
      constructor
      · rintro (hl | rfl | hr)
        · exact Or.inr (Or.inl hl)
        · exact Or.inl rfl
        · exact Or.inr (Or.inr hr)
      · rintro (rfl | hl | hr)
        · exact Or.inr (Or.inl rfl)
        · exact Or.inl hl
        · exact Or.inr (Or.inr hr)

/-- the filings after `setdefault(v, {}).setdefault(a, set()).add(obj)`: the old ones and `(v, a, obj)` -/
theorem mem_entries_cellsAdd (v a : Str) (id : Nat) (img : Image) (cs : Cells)
    (h : ∀ e ∈ entries cs, e.2.2.1 = id → e.2.2.2 = img) (e : Str × Str × Nat × Image) :
    e ∈ entries (cellsAdd cs v a id img) ↔ e = (v, a, id, img) ∨ e ∈ entries cs := by
  induction cs with
  | nil => simp [cellsAdd, entries]
  | cons va rest ih =>
    obtain ⟨v', as⟩ := va
    rw [entries_cons] at h
    unfold cellsAdd
    split
    · rename_i hh
      have h' : v' = v := by simpa using hh
      subst h'
      rw [entries_cons, entries_cons]
      simp only [List.mem_append]
      rw [mem_archAdd_iff v' a id img as (fun e he => h e (List.mem_append_left _ he))]
      constructor
      · rintro ((rfl | hl) | hr)
        · exact Or.inl rfl
        · exact Or.inr (Or.inl hl)
        · exact Or.inr (Or.inr hr)
      · rintro (rfl | hl | hr)
        · exact Or.inl (Or.inl rfl)
        · exact Or.inl (Or.inr hl)
        · exact Or.inr hr
    · rw [entries_cons, entries_cons]
      simp only [List.mem_append]
      rw [ih (fun e he => h e (List.mem_append_right _ he))]
      constructor
      · rintro (hl | rfl | hr)
        · exact Or.inr (Or.inl hl)
        · exact Or.inl rfl
        · exact Or.inr (Or.inr hr)
      · rintro (rfl | hl | hr)
        · exact Or.inr (Or.inl rfl)
        · exact Or.inl hl
        · exact Or.inr (Or.inr hr)

/-! ### one image of an old document -/

theorem addPy_ok {s s' : ImgState} {v a : Str} {id : Nat} {img : Image}
    (h : addPy s (.str v) (.str a) id img = .ok s') : s' = { s with cells := cellsAdd s.cells v a id img } := by
  simp only [addPy] at h
  split at h
  · rename_i s1 hadd
    injection h with h
    subst h
    exact add_ok_cells s s1 v a id img hadd
  · cases h

/-- what the object `(id, img)` looks like wherever it is already filed -/
def Coherent (id : Nat) (img : Image) (cs : Cells) : Prop := ∀ e ∈ entries cs, e.2.2.1 = id → e.2.2.2 = img

/-- `_add_1_1`'s loop: the object goes to every listed arch other than `src`, and nothing else changes -/
theorem refile_files (v : Str) (id : Nat) (img : Image) :
    ∀ (ks : List Str) (s s' : ImgState), Coherent id img s.cells →
      refile s (.str v) id img (ks.map fun k => PyVal.str k) = .ok s' →
      ∀ e, e ∈ entries s'.cells ↔ e ∈ entries s.cells ∨ ∃ b ∈ ks, b ≠ L "src" ∧ e = (v, b, id, img) := by
  intro ks
  induction ks with
  | nil =>
    intro s s' _ h e
    simp only [List.map_nil, refile, Except.ok.injEq] at h
    subst h
    simp
  | cons k rest ih =>
    intro s s' hco h e
    simp only [List.map_cons] at h
    unfold refile at h
    split at h
    · rename_i hsrc
      have hk : k = L "src" := (pyEq_str k _).mp hsrc
      rw [ih s s' hco h e]
      constructor
      · rintro (hl | ⟨b, hb, hne, rfl⟩)
        · exact Or.inl hl
        · exact Or.inr ⟨b, List.mem_cons_of_mem _ hb, hne, rfl⟩
      · rintro (hl | ⟨b, hb, hne, rfl⟩)
        · exact Or.inl hl
        · rcases List.mem_cons.mp hb with rfl | hb'
          · exact absurd hk hne
          · exact Or.inr ⟨b, hb', hne, rfl⟩
    · rename_i hsrc
      have hk : k ≠ L "src" := fun e => hsrc ((pyEq_str k _).mpr e)
      obtain ⟨s1, h1, h2⟩ := bind_ok h
      have hs1 := addPy_ok h1
      have hmem := mem_entries_cellsAdd v k id img s.cells hco
      have hco1 : Coherent id img s1.cells := by
        intro x hx hxid
        rw [hs1] at hx
        rcases (hmem x).mp hx with rfl | hx'
        · rfl
        · exact hco x hx' hxid
      rw [ih s1 s' hco1 h2 e]
      rw [hs1]
      simp only
      rw [hmem e]
      constructor
      · rintro ((rfl | hl) | ⟨b, hb, hne, rfl⟩)
        · exact Or.inr ⟨k, List.mem_cons_self, hk, rfl⟩
        · exact Or.inl hl
        · exact Or.inr ⟨b, List.mem_cons_of_mem _ hb, hne, rfl⟩
      · rintro (hl | ⟨b, hb, hne, rfl⟩)
        · exact Or.inl (Or.inr hl)
        · rcases List.mem_cons.mp hb with rfl | hb'
          · exact Or.inl (Or.inl rfl)
          · exact Or.inr ⟨b, hb', hne, rfl⟩

theorem coherent_of_idsBelow {n : Nat} {cs : Cells} (h : IdsBelow n cs) (img : Image) : Coherent n img cs := by
  intro e he hid
  exact absurd hid (Nat.ne_of_lt (h e he))

/-- one image dictionary of a document read under the old gate -/
theorem loadOne_old (ver images : PyVal) (vt : VerT) (hvt : versionTuple ver = .ok vt)
    (hold : gateEval Gen.gate_images_Images_deserialize_0 vt = .ok true)
    (v a : Str) (d : PyVal) (ks : List Str) (X : PyVal)
    (hsub : subscript images (.str v) = .ok X) (hiter : iter X = .ok (ks.map fun k => PyVal.str k))
    (s : ImgState) (n : Nat) (r : ImgState × Nat) (hids : IdsBelow n s.cells)
    (h : loadCell ver images (.str v) (.str a) [d] (s, n) = .ok r) :
    ∃ img, Image.deserialize ver d = .ok img ∧ r.2 = n + 1 ∧
      ∀ e, e ∈ entries r.1.cells ↔ e ∈ entries s.cells ∨ ∃ b ∈ targets ks a, e = (v, b, n, img) := by
  unfold loadCell at h
  obtain ⟨img, h1, hA⟩ := bind_ok h
  obtain ⟨vt', h2, hB⟩ := bind_ok hA
  obtain ⟨old, h3, hC⟩ := bind_ok hB
  obtain ⟨s1, h4, hD⟩ := bind_ok hC
  rw [hvt] at h2; injection h2 with h2; subst h2
  rw [hold] at h3; injection h3 with h3; subst h3
  simp only [loadCell] at hD
  have hr : r = (s1, n + 1) := by
    have h' : (Except.ok (s1, n + 1) : Except Err (ImgState × Nat)) = .ok r := hD
    injection h' with h'
    exact h'.symm
  subst hr
  refine ⟨img, h1, rfl, ?_⟩
  simp only [fileLoaded, ↓reduceIte] at h4
  by_cases ha : a = L "src"
  · subst ha
    have hp : pyEq (.str (L "src")) (.str (L "src")) = true := (pyEq_str _ _).mpr rfl
    simp only [hp, ↓reduceIte, hsub, hiter, bind, Except.bind] at h4
    intro e
    rw [refile_files v n img ks s s1 (coherent_of_idsBelow hids img) h4 e]
    simp only [targets, ↓reduceIte, List.mem_filter, decide_eq_true_eq]
    constructor
    · rintro (hl | ⟨b, hb, hne, rfl⟩)
      · exact Or.inl hl
      · exact Or.inr ⟨b, ⟨hb, hne⟩, rfl⟩
    · rintro (hl | ⟨b, ⟨hb, hne⟩, rfl⟩)
      · exact Or.inl hl
      · exact Or.inr ⟨b, hb, hne, rfl⟩
  · have hp : pyEq (.str a) (.str (L "src")) = false := by
      cases hh : pyEq (.str a) (.str (L "src"))
      · rfl
      · exact absurd ((pyEq_str _ _).mp hh) ha
    simp only [hp, Bool.false_eq_true, ↓reduceIte] at h4
    have hs1 := addPy_ok h4
    intro e
    rw [hs1]
    simp only
    rw [mem_entries_cellsAdd v a n img s.cells (coherent_of_idsBelow hids img) e]
    simp only [targets, ha, ↓reduceIte, List.mem_singleton]
    constructor
    · rintro (rfl | hl)
      · exact Or.inr ⟨a, rfl, rfl⟩
      · exact Or.inl hl
    · rintro (hl | ⟨b, rfl, rfl⟩)
      · exact Or.inr hl
      · exact Or.inl rfl

/-! ### all images of an old document -/

/-- the loops of the reader under the old gate: the filings afterwards are the filings before plus, for the k-th
entry `(v, a, d)` of the list, the object `n + k` under every target arch of `(v, a)` -/
theorem loadTriples_old (ver images : PyVal) (vt : VerT) (hvt : versionTuple ver = .ok vt)
    (hold : gateEval Gen.gate_images_Images_deserialize_0 vt = .ok true) (keysOf : Str → List Str) :
    ∀ (ts : List (Str × Str × PyVal)) (s : ImgState) (n : Nat) (r : ImgState × Nat),
      (∀ t ∈ ts, ∃ X, subscript images (.str t.1) = .ok X ∧ iter X = .ok ((keysOf t.1).map fun k => PyVal.str k)) →
      IdsBelow n s.cells → loadTriples ver images ts (s, n) = .ok r →
      r.2 = n + ts.length ∧ IdsBelow r.2 r.1.cells ∧
      ∀ e, e ∈ entries r.1.cells ↔ e ∈ entries s.cells ∨
        ∃ k t img, ts[k]? = some t ∧ Image.deserialize ver t.2.2 = .ok img ∧
          ∃ b ∈ targets (keysOf t.1) t.2.1, e = (t.1, b, n + k, img) := by
  intro ts
  induction ts with
  | nil =>
    intro s n r _ hids h
    simp only [loadTriples, Except.ok.injEq] at h
    subst h
    refine ⟨rfl, hids, fun e => ?_⟩
    simp
  | cons t rest ih =>
    intro s n r hk hids h
    simp only [loadTriples] at h
    cases h1 : loadCell ver images (.str t.1) (.str t.2.1) [t.2.2] (s, n) with
    | error e => rw [h1] at h; cases h
    | ok r1 =>
      rw [h1] at h
      obtain ⟨X, hsub, hiter⟩ := hk t List.mem_cons_self
      obtain ⟨img, hd, hr2, hmem1⟩ := loadOne_old ver images vt hvt hold t.1 t.2.1 t.2.2 (keysOf t.1) X hsub hiter s n r1 hids h1
      obtain ⟨s1, n1⟩ := r1
      simp only at hr2 hmem1
      subst hr2
      have hids1 : IdsBelow (n + 1) s1.cells := by
        intro e he
        rcases (hmem1 e).mp he with h' | ⟨b, _, rfl⟩
        · exact Nat.lt_succ_of_lt (hids e h')
        · exact Nat.lt_succ_self _
      obtain ⟨hlen, hb, hmem⟩ := ih s1 (n + 1) r (fun t' ht' => hk t' (List.mem_cons_of_mem _ ht')) hids1 h
      refine ⟨by rw [hlen, List.length_cons]; omega, hb, fun e => ?_⟩
      rw [hmem e, hmem1 e]
      constructor
      · rintro ((hl | ⟨b, hb', rfl⟩) | ⟨k, t', img', hk', hd', b, hb', rfl⟩)
        · exact Or.inl hl
        · exact Or.inr ⟨0, t, img, rfl, hd, b, hb', rfl⟩
        · exact Or.inr ⟨k + 1, t', img', by simpa using hk', hd', b, hb', by congr 3; omega⟩
      · rintro (hl | ⟨k, t', img', hk', hd', b, hb', rfl⟩)
        · exact Or.inl (Or.inl hl)
        · cases k with
          | zero =>
            simp only [List.getElem?_cons_zero, Option.some.injEq] at hk'
            subst hk'
            rw [hd] at hd'; injection hd' with hd'; subst hd'
            exact Or.inl (Or.inr ⟨b, hb', rfl⟩)
          | succ k =>
            exact Or.inr ⟨k, t', img', by simpa using hk', hd', b, hb', by congr 3; omega⟩

/-- the arch keys of variant `v` in the image table `O` -/
def keysOf (O : OutCells) (v : Str) : List Str :=
  match O.find? (·.1 == v) with
  | some va => va.2.map (·.1)
  | none => []

theorem keysOf_mem (O : OutCells) (hn : (O.map (·.1)).Nodup) (v : Str) (as : List (Str × List PyVal)) (h : (v, as) ∈ O) :
    keysOf O v = as.map (·.1) := by
  have := find_key (fun x : List (Str × List PyVal) => x) O v as hn h
  have e : (O.map fun p => (p.1, p.2)) = O := by simp
  rw [e] at this
  simp only [keysOf, this]

theorem mem_outTriples {O : OutCells} {t : Str × Str × PyVal} (h : t ∈ outTriples O) :
    ∃ as, (t.1, as) ∈ O ∧ ∃ l, (t.2.1, l) ∈ as ∧ t.2.2 ∈ l := by
  simp only [outTriples, archTriples, List.mem_flatMap, List.mem_map] at h
  obtain ⟨va, hva, al, hal, d, hd, rfl⟩ := h
  exact ⟨va.2, hva, al.2, hal, hd⟩

/-- **exact filing of an old document** whose image table is `O` (a JSON object: unique keys on both levels) -/
theorem load_old_files (ver : PyVal) (vt : VerT) (hvt : versionTuple ver = .ok vt)
    (hold : gateEval Gen.gate_images_Images_deserialize_0 vt = .ok true) (O : OutCells) (hO : OutNodup O)
    (s0 : ImgState) (hs0 : s0.cells = []) (r : ImgState × Nat)
    (h : loadVariants ver O.toPy (O.map fun va => .str va.1) (s0, 0) = .ok r) :
    ∀ v b k img, (v, b, k, img) ∈ entries r.1.cells ↔
      ∃ a d as, (outTriples O)[k]? = some (v, a, d) ∧ Image.deserialize ver d = .ok img ∧ (v, as) ∈ O
        ∧ b ∈ targets (as.map (·.1)) a := by
  rw [loadVariants_eq ver O hO O (fun _ h => h)] at h
  have hk : ∀ t ∈ outTriples O, ∃ X, subscript O.toPy (.str t.1) = .ok X ∧ iter X = .ok ((keysOf O t.1).map fun k => PyVal.str k) := by
    intro t ht
    obtain ⟨as, hmem, _⟩ := mem_outTriples ht
    refine ⟨archsPy as, ?_, ?_⟩
    · simp only [toPy_eq, subscript, find_key archsPy O t.1 as hO.1 hmem]
    · rw [keysOf_mem O hO.1 t.1 as hmem]
      simp [archsPy, iter, List.map_map, Function.comp_def]
  obtain ⟨_, _, hmem⟩ := loadTriples_old ver O.toPy vt hvt hold (keysOf O) (outTriples O) s0 0 r hk
    (by intro e he; simp [hs0, entries] at he) h
  intro v b k img
  rw [hmem]
  simp only [hs0, entries, List.flatMap_nil, List.not_mem_nil, false_or, Nat.zero_add]
  constructor
  · rintro ⟨k', t, img', hk', hd', b', hb', heq⟩
    obtain ⟨as, hmemO, _⟩ := mem_outTriples (List.mem_of_getElem? hk')
    rw [keysOf_mem O hO.1 t.1 as hmemO] at hb'
    injection heq with e1 heq
    injection heq with e2 heq
    injection heq with e3 e4
    subst e1 e2 e3 e4
    exact ⟨t.2.1, t.2.2, as, hk', hd', hmemO, hb'⟩
  · rintro ⟨a, d, as, hk', hd', hmemO, hb'⟩
    refine ⟨k, (v, a, d), img, hk', hd', b, ?_, rfl⟩
    rw [keysOf_mem O hO.1 v as hmemO]
    exact hb'

/-! ### a successful load has read every image dictionary, and every filing sits under a key of the manifest -/

theorem loadTriples_reads (ver images : PyVal) :
    ∀ (ts : List (Str × Str × PyVal)) (acc r : ImgState × Nat), loadTriples ver images ts acc = .ok r →
      ∀ t ∈ ts, ∃ img, Image.deserialize ver t.2.2 = .ok img := by
  intro ts
  induction ts with
  | nil => intro _ _ _ t ht; cases ht
  | cons t rest ih =>
    intro acc r h t' ht'
    simp only [loadTriples] at h
    cases h1 : loadCell ver images (.str t.1) (.str t.2.1) [t.2.2] acc with
    | error e => rw [h1] at h; cases h
    | ok r1 =>
      rw [h1] at h
      rcases List.mem_cons.mp ht' with rfl | hrest
      · obtain ⟨s, n⟩ := acc
        unfold loadCell at h1
        obtain ⟨img, hd, _⟩ := bind_ok h1
        exact ⟨img, hd⟩
      · exact ih r1 r h t' hrest

theorem archKey_of_entry {cs : Cells} {e : Str × Str × Nat × Image} (h : e ∈ entries cs) : e.2.1 ∈ archKeys cs := by
  simp only [entries, List.mem_flatMap, List.mem_map] at h
  obtain ⟨va, hva, ac, hac, x, _, rfl⟩ := h
  simp only [archKeys, List.mem_flatMap, List.mem_map]
  exact ⟨va, hva, ac, hac, rfl⟩

end PM.Img.C10
