import ProductMD.Proofs.TreeInfoForest
import ProductMD.Proofs.TreeInfoValid
import ProductMD.Proofs.SortBy
import ProductMD.Model.IniText
/-!
What a reader can observe of a document that carries the sections `L` (name ↦ options): `View L d`.
Both the document the writer builds and the document the text reader returns for its rendering (sections and
options sorted, comment-named options gone) are views of the same `L`, so every reader lemma is proved once,
against the view.
-/
namespace PM
namespace TI
open Ini

/-- not a comment-named option (`; WARNING.0`, …) -/
def nc (k : Str) : Bool := !IniText.isCommentName k

/-- `C o`: the condition under which the reader's `items()` of a section with options `o` is `sortKV o`
(always, for the written document; "no comment-named option" for the document read back from text) -/
structure View (C : IniSec → Prop) (L : List (Str × IniSec)) (d : Ini) : Prop where
  noDefault : d.lookup DEFAULT = none
  sec : ∀ s o, L.lookup s = some o → ∃ o', d.lookup s = some o' ∧ (∀ k, nc k = true → o'.lookup k = o.lookup k) ∧
    (C o → sortKV o' = sortKV o)
  nosec : ∀ s, L.lookup s = none → d.lookup s = none
  names : (d.map (·.1)).Perm (L.map (·.1))

variable {C : IniSec → Prop} {L : List (Str × IniSec)} {d : Ini}

theorem View.defaults (V : View C L d) : Ini.defaults d = [] := by
  unfold Ini.defaults; rw [V.noDefault]; rfl

theorem View.get_of (V : View C L d) {s k v : Str} {o : IniSec} (hs : L.lookup s = some o) (hk : o.lookup k = some v)
    (hnc : nc k = true) : Ini.get d s k = .ok v := by
  obtain ⟨o', ho', hl, _⟩ := V.sec s o hs
  unfold Ini.get
  simp [ho', hl k hnc, hk]

theorem View.hasOption_of (V : View C L d) {s k : Str} {o : IniSec} (hs : L.lookup s = some o) (hnc : nc k = true)
    (h1 : s.isEmpty = false) (h2 : (s == DEFAULT) = false) : Ini.hasOption d s k = (o.lookup k).isSome := by
  obtain ⟨o', ho', hl, _⟩ := V.sec s o hs
  unfold Ini.hasOption
  simp [h1, h2, ho', hl k hnc, V.defaults]

theorem View.hasOption_nosec (V : View C L d) {s k : Str} (hs : L.lookup s = none)
    (h1 : s.isEmpty = false) (h2 : (s == DEFAULT) = false) : Ini.hasOption d s k = false := by
  unfold Ini.hasOption
  simp [h1, h2, V.nosec s hs]

theorem View.hasSection_of (V : View C L d) {s : Str} (h2 : (s == DEFAULT) = false) :
    Ini.hasSection d s = (L.lookup s).isSome := by
  unfold Ini.hasSection
  cases hl : L.lookup s with
  | none => simp [V.nosec s hl]
  | some o =>
    obtain ⟨o', ho', _, _⟩ := V.sec s o hl
    have : (s != DEFAULT) = true := by simp [bne, h2]
    simp [ho', this]

theorem View.items_of (V : View C L d) {s : Str} {o : IniSec} (hs : L.lookup s = some o) (hnc : C o)
    (h2 : (s == DEFAULT) = false) : Ini.items d s = .ok (sortKV o) := by
  obtain ⟨o', ho', _, hsort⟩ := V.sec s o hs
  unfold Ini.items
  simp [V.defaults, h2, ho', hsort hnc]

theorem View.length (V : View C L d) : d.length = L.length := by
  have := V.names.length_eq
  simpa using this

theorem View.sections (V : View C L d) : Ini.sections d = sortS ((L.map (·.1)).filter (· != DEFAULT)) := by
  unfold Ini.sections
  exact sortS_perm_eq (V.names.filter _)

/-- the written document is a view of its own section list -/
theorem Written.view {t : TreeInfo} {mv : Option Str} {d : Ini} {n key chosen} (w : Written t mv d n key chosen) :
    View (fun _ => True) (docList t (generalOpts t n key chosen)) d := by
  refine ⟨?_, ?_, ?_, w.names⟩
  · rw [w.look]
    have := lookup_none_of_not_mem_keys (l := docList t (generalOpts t n key chosen)) (k := DEFAULT)
    apply this
    intro hm
    -- no section is called DEFAULT: `add_section` refuses the name
    simp only [docList, List.map_append, List.mem_append] at hm
    rcases hm with hm | hm | hm | hm | hm | hm | hm | hm | hm | hm
    · simp at hm; revert hm; decide
    · unfold optSec at hm; split at hm <;> simp at hm; revert hm; decide
    · unfold optSec at hm; split at hm <;> simp at hm; revert hm; decide
    · have := keys_imgFlat _ _ hm; revert this; decide
    · unfold optSec at hm; split at hm <;> simp at hm; revert hm; decide
    · have := keys_flatVs _ _ _ hm; revert this; decide
    · simp at hm; revert hm; decide
    · unfold baseL at hm
      split at hm
      · cases hb : t.baseProduct with
        | none => simp [hb] at hm
        | some p => simp [hb] at hm; revert hm; decide
      · simp at hm
    · simp at hm; revert hm; decide
    · simp at hm; revert hm; decide
  · intro s o hs
    exact ⟨o, by rw [w.look, hs], fun _ _ => rfl, fun _ => rfl⟩
  · intro s hs
    rw [w.look, hs]

end TI
end PM
