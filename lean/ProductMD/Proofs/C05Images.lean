import ProductMD.Proofs.ImagesLoadExact
import ProductMD.Model.ImagesLegacy
/-!
C05, images: what every successful load — of a document of ANY format version, through `deserializeL` — has built.

* every filed image came out of `Image.deserialize` (hence validates and carries proper ints),
* every arch key passed `Images.add` (in the table, not refused),
* the compose section validates, the header carries the current version,
* `deserializeL` is `deserialize` wherever the C02 model is defined.
-/
namespace PM.Img
open PM PM.PyOps PM.Spec
set_option Elab.async false

/- `mem_entries_archAdd` / `mem_entries_cellsAdd` (nothing but the new filing appears, for any object id) are in
   Proofs/ImagesLoadExact.lean. -/

/-! ### the invariant of the reader's loops -/

/-- an arch key that `Images.add` accepts -/
def ArchOk (a : Str) : Prop := Gen.RPM_ARCHES.contains a = true ∧ refusedArches.contains a = false

/-- every filing holds an image with property `Q` under an admissible arch -/
def GoodCells (Q : Image → Prop) (cs : Cells) : Prop := ∀ e ∈ entries cs, Q e.2.2.2 ∧ ArchOk e.2.1

/-- a successful `add` went through the arch table check and the source-arch refusal -/
theorem add_ok_arch (s s' : ImgState) (v a : Str) (id : Nat) (img : Image)
    (h : add s v a id img = (s', .ok ())) : ArchOk a := by
  simp only [add, addScript, Gen.images_add_script, runSteps, runStep] at h
  split at h
  · rename_i s1 h1
    rw [Prod.mk.injEq] at h1
    obtain ⟨_, h1⟩ := h1
    split at h
    · rename_i s2 h2
      rw [Prod.mk.injEq] at h2
      obtain ⟨_, h2⟩ := h2
      refine ⟨?_, ?_⟩
      · by_cases hc : Gen.RPM_ARCHES.contains a = true
        · exact hc
        · rw [if_neg hc] at h1; cases h1
      · by_cases hc : refusedArches.contains a = true
        · rw [if_pos hc] at h2; cases h2
        · simpa using hc
    · rw [Prod.mk.injEq] at h; cases h.2
  · rw [Prod.mk.injEq] at h; cases h.2

theorem addPy_good {Q : Image → Prop} {s s' : ImgState} {variant arch : PyVal} {id : Nat} {img : Image}
    (hg : GoodCells Q s.cells) (hq : Q img) (h : addPy s variant arch id img = .ok s') :
    GoodCells Q s'.cells ∧ s'.compose = s.compose := by
  unfold addPy at h
  split at h
  · split at h
    · rename_i a _ v
      split at h
      · rename_i s1 hadd
        simp only [Except.ok.injEq] at h
        subst h
        have hcells := add_ok_cells s s1 v a id img hadd
        have harch := add_ok_arch s s1 v a id img hadd
        subst hcells
        refine ⟨?_, rfl⟩
        intro e he
        rcases mem_entries_cellsAdd he with rfl | he'
        · exact ⟨hq, harch⟩
        · exact hg e he'
      · cases h
    · split at h <;> cases h
  · cases h

theorem refile_good {Q : Image → Prop} (variant : PyVal) (id : Nat) (img : Image) (hq : Q img) :
    ∀ (l : List PyVal) (s s' : ImgState), GoodCells Q s.cells → refile s variant id img l = .ok s' →
      GoodCells Q s'.cells ∧ s'.compose = s.compose := by
  intro l
  induction l with
  | nil => intro s s' hg h; simp only [refile, Except.ok.injEq] at h; subst h; exact ⟨hg, rfl⟩
  | cons va rest ih =>
    intro s s' hg h
    unfold refile at h
    split at h
    · exact ih s s' hg h
    · obtain ⟨s1, h1, h2⟩ := bind_ok h
      obtain ⟨g1, c1⟩ := addPy_good hg hq h1
      obtain ⟨g2, c2⟩ := ih s1 s' g1 h2
      exact ⟨g2, c2.trans c1⟩

theorem loadCell_good {Q : Image → Prop} (ver : PyVal) (hQ : ∀ d img, Image.deserialize ver d = .ok img → Q img)
    (images variant arch : PyVal) :
    ∀ (l : List PyVal) (acc r : ImgState × Nat), GoodCells Q acc.1.cells →
      loadCell ver images variant arch l acc = .ok r → GoodCells Q r.1.cells ∧ r.1.compose = acc.1.compose := by
  intro l
  induction l with
  | nil => intro acc r hg h; simp only [loadCell, Except.ok.injEq] at h; subst h; exact ⟨hg, rfl⟩
  | cons d rest ih =>
    intro acc r hg h
    obtain ⟨s, n⟩ := acc
    unfold loadCell at h
    obtain ⟨img, himg, h⟩ := bind_ok h
    obtain ⟨vt, _, h⟩ := bind_ok h
    obtain ⟨old, _, h⟩ := bind_ok h
    obtain ⟨s1, h4, h⟩ := bind_ok h
    have hq := hQ d img himg
    have step : GoodCells Q s1.cells ∧ s1.compose = s.compose := by
      unfold fileLoaded at h4
      split at h4
      · split at h4
        · obtain ⟨archs, _, h5⟩ := bind_ok h4
          exact refile_good variant n img hq archs s s1 hg h5
        · exact addPy_good hg hq h4
      · exact addPy_good hg hq h4
    obtain ⟨g2, c2⟩ := ih (s1, n + 1) r step.1 h
    exact ⟨g2, c2.trans step.2⟩

theorem loadArches_good {Q : Image → Prop} (ver : PyVal) (hQ : ∀ d img, Image.deserialize ver d = .ok img → Q img)
    (images variant archs : PyVal) :
    ∀ (l : List PyVal) (acc r : ImgState × Nat), GoodCells Q acc.1.cells →
      loadArches ver images variant archs l acc = .ok r → GoodCells Q r.1.cells ∧ r.1.compose = acc.1.compose := by
  intro l
  induction l with
  | nil => intro acc r hg h; simp only [loadArches, Except.ok.injEq] at h; subst h; exact ⟨hg, rfl⟩
  | cons a rest ih =>
    intro acc r hg h
    unfold loadArches at h
    obtain ⟨cell, _, h⟩ := bind_ok h
    obtain ⟨acc1, h2, h⟩ := bind_ok h
    obtain ⟨g1, c1⟩ := loadCell_good ver hQ images variant a cell acc acc1 hg h2
    obtain ⟨g2, c2⟩ := ih acc1 r g1 h
    exact ⟨g2, c2.trans c1⟩

theorem loadVariants_good {Q : Image → Prop} (ver : PyVal) (hQ : ∀ d img, Image.deserialize ver d = .ok img → Q img)
    (images : PyVal) :
    ∀ (l : List PyVal) (acc r : ImgState × Nat), GoodCells Q acc.1.cells →
      loadVariants ver images l acc = .ok r → GoodCells Q r.1.cells ∧ r.1.compose = acc.1.compose := by
  intro l
  induction l with
  | nil => intro acc r hg h; simp only [loadVariants, Except.ok.injEq] at h; subst h; exact ⟨hg, rfl⟩
  | cons v rest ih =>
    intro acc r hg h
    unfold loadVariants at h
    obtain ⟨archs, _, h⟩ := bind_ok h
    obtain ⟨keys, _, h⟩ := bind_ok h
    obtain ⟨acc1, h3, h⟩ := bind_ok h
    obtain ⟨g1, c1⟩ := loadArches_good ver hQ images v archs keys acc acc1 hg h3
    obtain ⟨g2, c2⟩ := ih acc1 r g1 h
    exact ⟨g2, c2.trans c1⟩

/-! ### what `Image.deserialize` returns -/

/-- whatever the reader returns validates (its last statement) and its four integer attributes are ints
(they went through `int()`), for every header version -/
theorem image_deserialize_good (ver d : PyVal) (img : Image) (h : Image.deserialize ver d = .ok img) :
    img.validate = .ok () ∧ ProperInts img := by
  unfold Image.deserialize at h
  obtain ⟨path, _, h⟩ := bind_ok h
  obtain ⟨mtime, _, h⟩ := bind_ok h
  obtain ⟨size, _, h⟩ := bind_ok h
  obtain ⟨volume_id, _, h⟩ := bind_ok h
  obtain ⟨type, _, h⟩ := bind_ok h
  obtain ⟨format, _, h⟩ := bind_ok h
  obtain ⟨arch, _, h⟩ := bind_ok h
  obtain ⟨disc_number, _, h⟩ := bind_ok h
  obtain ⟨disc_count, _, h⟩ := bind_ok h
  obtain ⟨checksums, _, h⟩ := bind_ok h
  obtain ⟨implant_md5, _, h⟩ := bind_ok h
  obtain ⟨bootable, _, h⟩ := bind_ok h
  obtain ⟨vt, _, h⟩ := bind_ok h
  obtain ⟨old, _, h⟩ := bind_ok h
  dsimp only at h
  split at h <;>
  · obtain ⟨subvariant, _, h⟩ := bind_ok h
    obtain ⟨unified, _, h⟩ := bind_ok h
    obtain ⟨av, _, h⟩ := bind_ok h
    obtain ⟨u, hv, h⟩ := bind_ok h
    cases u
    have h' : (Except.ok _ : Except Err Image) = .ok img := h
    injection h' with h'
    subst h'
    exact ⟨hv, ⟨_, rfl⟩, ⟨_, rfl⟩, ⟨_, rfl⟩, ⟨_, rfl⟩⟩

/-! ### the compose section -/

theorem compose_deserialize_valid (ver payload : PyVal) (c : Compose) (h : Compose.deserialize ver payload = .ok c) :
    c.validate = .ok () := by
  unfold Compose.deserialize at h
  obtain ⟨vt, _, h⟩ := bind_ok h
  obtain ⟨old, _, h⟩ := bind_ok h
  split at h
  · cases h
  · obtain ⟨sec, _, h⟩ := bind_ok h
    obtain ⟨id, _, h⟩ := bind_ok h
    obtain ⟨label0, _, h⟩ := bind_ok h
    obtain ⟨type, _, h⟩ := bind_ok h
    obtain ⟨date, _, h⟩ := bind_ok h
    obtain ⟨respin, _, h⟩ := bind_ok h
    obtain ⟨final0, _, h⟩ := bind_ok h
    obtain ⟨u, hv, h⟩ := bind_ok h
    cases u
    have h' : (Except.ok _ : Except Err Compose) = .ok c := h
    injection h' with h'
    subst h'
    exact hv

theorem compose_deserializeL_valid (ver payload : PyVal) (c : Compose) (h : Compose.deserializeL ver payload = .ok c) :
    c.validate = .ok () := by
  unfold Compose.deserializeL at h
  obtain ⟨vt, _, h⟩ := bind_ok h
  obtain ⟨old, _, h⟩ := bind_ok h
  split at h
  · obtain ⟨c', _, h⟩ := bind_ok h
    obtain ⟨u, hv, h⟩ := bind_ok h
    cases u
    have h' : (Except.ok _ : Except Err Compose) = .ok c := h
    injection h' with h'
    subst h'
    exact hv
  · exact compose_deserialize_valid ver payload c h

/-- where the C02 reader of the compose section is defined, the legacy-aware one agrees with it -/
theorem compose_deserializeL_of_deserialize (ver payload : PyVal) (c : Compose)
    (h : Compose.deserialize ver payload = .ok c) : Compose.deserializeL ver payload = .ok c := by
  have h0 := h
  unfold Compose.deserialize at h
  obtain ⟨vt, hvt, h⟩ := bind_ok h
  obtain ⟨old, hold, h⟩ := bind_ok h
  cases old with
  | true => simp at h
  | false =>
    unfold Compose.deserializeL
    simp only [hvt, hold, bind, Except.bind]
    exact h0

/-! ### the whole reader -/

/-- **what every load has built** (any format version) -/
theorem deserializeL_good (doc : PyVal) (s : ImgState) (h : deserializeL doc = .ok s) :
    s.version = .str currentVersion ∧ s.compose.validate = .ok ()
    ∧ GoodCells (fun i => i.validate = .ok () ∧ ProperInts i) s.cells := by
  unfold deserializeL at h
  obtain ⟨ver, _, h⟩ := bind_ok h
  obtain ⟨payload, _, h⟩ := bind_ok h
  obtain ⟨comp, hcomp, h⟩ := bind_ok h
  obtain ⟨images, _, h⟩ := bind_ok h
  obtain ⟨vs, _, h⟩ := bind_ok h
  obtain ⟨r, h6, h⟩ := bind_ok h
  obtain ⟨s1, n⟩ := r
  have h' : (Except.ok _ : Except Err ImgState) = .ok s := h
  injection h' with h'
  subst h'
  obtain ⟨g, c⟩ := loadVariants_good (Q := fun i => i.validate = .ok () ∧ ProperInts i) ver
    (fun d img hd => image_deserialize_good ver d img hd) images vs _ _
    (by intro e he; simp [entries] at he) h6
  refine ⟨rfl, ?_, g⟩
  show s1.compose.validate = .ok ()
  rw [c]
  exact compose_deserializeL_valid ver payload comp hcomp

/-- the legacy-aware reader is the C02 reader wherever the latter is defined -/
theorem deserializeL_of_deserialize (doc : PyVal) (s : ImgState) (h : deserialize doc = .ok s) : deserializeL doc = .ok s := by
  unfold deserialize at h
  obtain ⟨ver, hver, h⟩ := bind_ok h
  obtain ⟨payload, hp, h⟩ := bind_ok h
  obtain ⟨comp, hcomp, h⟩ := bind_ok h
  unfold deserializeL
  simp only [hver, hp, compose_deserializeL_of_deserialize ver payload comp hcomp, bind, Except.bind]
  exact h

/-- every invariant of `add` under the document's header version holds of what `deserializeL` returns
(the analogue of `deserialize_inv`) -/
theorem deserializeL_inv (doc : PyVal) (s : ImgState) (P : ImgState → Prop)
    (hcells : ∀ s₁ s₂ : ImgState, s₁.cells = s₂.cells → P s₁ → P s₂)
    (hP : ∀ ver, headerDeserialize doc = .ok ver → AddInvariant ver P)
    (h0 : P {}) (h : deserializeL doc = .ok s) : P s := by
  unfold deserializeL at h
  obtain ⟨ver, hver, h⟩ := bind_ok h
  obtain ⟨payload, _, h⟩ := bind_ok h
  obtain ⟨comp, _, h⟩ := bind_ok h
  obtain ⟨images, _, h⟩ := bind_ok h
  obtain ⟨vs, _, h⟩ := bind_ok h
  obtain ⟨r, h6, h⟩ := bind_ok h
  obtain ⟨s1, n⟩ := r
  have h' : (Except.ok _ : Except Err ImgState) = .ok s := h
  injection h' with h'
  subst h'
  have := loadVariants_inv (hP ver hver) images vs _ _ ⟨rfl, hcells {} _ rfl h0⟩ h6
  exact hcells s1 _ rfl this.2

/-! ### lookups in a dictionary that got one more key at the end -/

theorem find_snoc_ne (kvs : List (Str × PyVal)) (x : Str × PyVal) (k : Str) (h : (x.1 == k) = false) :
    (kvs ++ [x]).find? (·.1 == k) = kvs.find? (·.1 == k) := by
  rw [List.find?_append]
  simp [List.find?, h]

theorem item_snoc_ne (kvs : List (Str × PyVal)) (x : Str × PyVal) (k : Str) (h : (x.1 == k) = false) :
    item (.dict (kvs ++ [x])) k = item (.dict kvs) k := by
  simp only [item, subscript, find_snoc_ne kvs x k h]

theorem getD_snoc_ne (kvs : List (Str × PyVal)) (x : Str × PyVal) (k : Str) (d : PyVal) (h : (x.1 == k) = false) :
    getD (.dict (kvs ++ [x])) k d = getD (.dict kvs) k d := by
  simp only [getD, find_snoc_ne kvs x k h]

theorem ok_bind {α β : Type} (a : α) (f : α → Except Err β) : (Except.ok a >>= f) = f a := rfl

end PM.Img
