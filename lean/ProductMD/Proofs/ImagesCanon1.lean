import ProductMD.Proofs.C08Images
import ProductMD.Proofs.PyCanon
/-!
`JEq v (canon v)` for representable values, and invariance of the model's Python `==` (`PyOps.eqKey`, with `bool <: int`)
under `JEq`.  Used to show that the images reader does not depend on the key order of the document it is given.
-/
namespace PM.Img
open PM PM.PyOps PM.Spec PM.Mf
set_option Elab.async false

theorem hasKey_iff_mem (l : List (Str × PyVal)) (k : Str) : hasKey l k = true ↔ k ∈ l.map (·.1) := by
  induction l with
  | nil => simp [hasKey]
  | cons p rest ih =>
    obtain ⟨k', v⟩ := p
    simp only [hasKey, Bool.or_eq_true, beq_iff_eq, ih, List.map_cons, List.mem_cons]
    constructor
    · rintro (h | h); exact Or.inl h.symm; exact Or.inr h
    · rintro (h | h); exact Or.inl h.symm; exact Or.inr h

theorem nodup_of_uniqKeys (l : List (Str × PyVal)) (h : uniqKeys l = true) : (l.map (·.1)).Nodup := by
  induction l with
  | nil => exact List.nodup_nil
  | cons p rest ih =>
    obtain ⟨k, v⟩ := p
    simp only [uniqKeys, Bool.and_eq_true, Bool.not_eq_true'] at h
    simp only [List.map_cons, List.nodup_cons]
    refine ⟨?_, ih h.2⟩
    intro hm
    have := (hasKey_iff_mem rest k).mpr hm
    rw [h.1] at this; cases this

theorem uniqKeys_of_nodup (l : List (Str × PyVal)) (h : (l.map (·.1)).Nodup) : uniqKeys l = true := by
  induction l with
  | nil => rfl
  | cons p rest ih =>
    obtain ⟨k, v⟩ := p
    simp only [List.map_cons, List.nodup_cons] at h
    simp only [uniqKeys, Bool.and_eq_true, Bool.not_eq_true']
    refine ⟨?_, ih h.2⟩
    cases hk : hasKey rest k
    · rfl
    · exact absurd ((hasKey_iff_mem rest k).mp hk) h.1

mutual
/-- a representable value is the same content as its canonical form -/
theorem jeq_canon : ∀ (v : PyVal), jsonRep v = true → JEq v (PyVal.canon v)
  | .none, _ => .refl _
  | .bool _, _ => .refl _
  | .int _, _ => .refl _
  | .float _, _ => .refl _
  | .str _, _ => .refl _
  | .other _, _ => .refl _
  | .list xs, h => by
    simp only [jsonRep] at h
    simp only [PyVal.canon]
    exact .list (jeqL_canon xs h)
  | .dict kvs, h => by
    simp only [jsonRep] at h
    simp only [PyVal.canon]
    refine .dict (.trans (jeqD_canon kvs h) (.of_perm (sortKvs_perm _).symm)) ?_
    exact nodup_of_uniqKeys kvs (uniqKeys_of_jsonRepKvs kvs h)
theorem jeqL_canon : ∀ (xs : List PyVal), jsonRepList xs = true → JEqL xs (PyVal.canonList xs)
  | [], _ => .nil
  | x :: xs, h => by
    simp only [jsonRepList, Bool.and_eq_true] at h
    simp only [PyVal.canonList]
    exact .cons (jeq_canon x h.1) (jeqL_canon xs h.2)
theorem jeqD_canon : ∀ (kvs : List (Str × PyVal)), jsonRepKvs kvs = true → JEqD kvs (PyVal.canonKvs kvs)
  | [], _ => .nil
  | (k, v) :: rest, h => by
    simp only [jsonRepKvs, Bool.and_eq_true] at h
    simp only [PyVal.canonKvs]
    exact .cons k (jeq_canon v h.1.2) (jeqD_canon rest h.2)
end

/-! ### `numNorm` (bool ↦ int) respects `JEq`, hence so does the model's `==` -/

theorem numNormKvs_keys : ∀ l : List (Str × PyVal), (numNormKvs l).map (·.1) = l.map (·.1)
  | [] => rfl
  | (k, v) :: rest => by simp [numNormKvs, numNormKvs_keys rest]

mutual
theorem numNorm_jeq : ∀ {a b : PyVal}, JEq a b → JEq (numNorm a) (numNorm b)
  | _, _, .refl _ => .refl _
  | _, _, .list h => by simp only [numNorm]; exact .list (numNormList_jeq h)
  | _, _, .dict h hn => by
    simp only [numNorm]
    exact .dict (numNormKvs_jeq h) (by rw [numNormKvs_keys]; exact hn)
theorem numNormList_jeq : ∀ {a b : List PyVal}, JEqL a b → JEqL (numNormList a) (numNormList b)
  | _, _, .nil => .nil
  | _, _, .cons h t => by simp only [numNormList]; exact .cons (numNorm_jeq h) (numNormList_jeq t)
theorem numNormKvs_jeq : ∀ {a b : List (Str × PyVal)}, JEqD a b → JEqD (numNormKvs a) (numNormKvs b)
  | _, _, .nil => .nil
  | _, _, .cons k h t => by simp only [numNormKvs]; exact .cons k (numNorm_jeq h) (numNormKvs_jeq t)
  | _, _, .swap a b l => by
    obtain ⟨ka, va⟩ := a; obtain ⟨kb, vb⟩ := b
    simp only [numNormKvs]; exact .swap _ _ _
  | _, _, .trans h1 h2 => .trans (numNormKvs_jeq h1) (numNormKvs_jeq h2)
end

/-- the same content has the same `==` class -/
theorem eqKey_jeq {a b : PyVal} (h : JEq a b) : eqKey a = eqKey b := (numNorm_jeq h).canon_eq

theorem pyOr_jeq {a b : PyVal} (h : JEq a b) (d : PyVal) : JEq (pyOr a d) (pyOr b d) := by
  unfold pyOr
  rw [h.truthy_eq]
  split
  · exact h
  · exact .refl _

end PM.Img
