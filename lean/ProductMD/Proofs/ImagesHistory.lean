import ProductMD.Proofs.ImagesLoadExact
import ProductMD.Proofs.ImagesLoadTotal
/-!
Histories that cross the version gate on one object: `add`, `dumps` (sets the header to the current version),
assignment to `header.version`, `loads` into the same object.  `Uniq` is not an invariant of such histories (below
1.1 nothing is checked); what holds is: **a step taken at an enforcing version never creates a new colliding pair** —
whatever is already in the manifest and however it got there.
-/
namespace PM.Img
open PM PM.PyOps PM.Spec
set_option Elab.async false

/-- a colliding pair -/
def Viol (i j : Image) : Prop := SameIdentity i j ∧ ¬ PyEq i.checksums j.checksums

/-- every colliding pair of `cs'` is already a pair of `cs` -/
def NoNewPairs (cs cs' : Cells) : Prop := ∀ i ∈ cs'.all, ∀ j ∈ cs'.all, Viol i j → i ∈ cs.all ∧ j ∈ cs.all

theorem NoNewPairs.refl (cs : Cells) : NoNewPairs cs cs := fun _ hi _ hj _ => ⟨hi, hj⟩

theorem NoNewPairs.trans {a b c : Cells} (h₁ : NoNewPairs a b) (h₂ : NoNewPairs b c) : NoNewPairs a c := by
  intro i hi j hj hv
  obtain ⟨hi', hj'⟩ := h₂ i hi j hj hv
  exact h₁ i hi' j hj' hv

theorem uniq_of_noNewPairs {cs cs' : Cells} (h : NoNewPairs cs cs') (hu : Uniq cs) : Uniq cs' := by
  intro i hi j hj hid
  cases Classical.em (PyEq i.checksums j.checksums) with
  | inl h' => exact h'
  | inr hne =>
    obtain ⟨hi', hj'⟩ := h i hi j hj ⟨hid, hne⟩
    exact hu i hi' j hj' hid

/-- an accepted `add` at an enforcing version: the scan found nothing (statement list of the current source) -/
theorem add_ok_noconflict (s s' : ImgState) (v a : Str) (id : Nat) (img : Image) (hv : Enforces s.version)
    (h : add s v a id img = (s', .ok ())) : conflict s.cells img = false := by
  have hsc := scan_enforced v a id img s hv
  simp only [runStep] at hsc
  simp only [add, addScript, Gen.images_add_script, runSteps, runStep] at h
  split at h
  · rename_i s1 h1
    rw [Prod.mk.injEq] at h1
    obtain ⟨rfl, _⟩ := h1
    split at h
    · rename_i s2 h2
      rw [Prod.mk.injEq] at h2
      obtain ⟨rfl, _⟩ := h2
      split at h
      · rename_i s3 h3
        rw [Prod.mk.injEq] at h3
        obtain ⟨_, h3⟩ := h3
        rw [hsc] at h3
        cases hc : conflict s.cells img
        · rfl
        · rw [hc] at h3; simp at h3
      · rw [Prod.mk.injEq] at h; cases h.2
    · rw [Prod.mk.injEq] at h; cases h.2
  · rw [Prod.mk.injEq] at h; cases h.2

/-- **per step, for any state**: an `add` at an enforcing version creates no new colliding pair -/
theorem add_noNewPairs (s : ImgState) (v a : Str) (id : Nat) (img : Image) (hv : Enforces s.version) :
    NoNewPairs s.cells (add s v a id img).1.cells := by
  cases hr : add s v a id img with
  | mk s' r =>
    cases r with
    | error e =>
      have := refusal_of_safeOrder v a id img addScript s (by decide) e (by unfold add at hr; rw [hr])
      unfold add at hr
      rw [hr] at this
      simp only at this ⊢
      rw [this]
      exact NoNewPairs.refl _
    | ok u =>
      cases u
      have hc := (conflict_false_iff s.cells img).mp (add_ok_noconflict s s' v a id img hv hr)
      have hcells := add_ok_cells s s' v a id img hr
      simp only
      rw [hcells]
      intro i hi j hj hviol
      rcases mem_cellsAdd hi with rfl | hi' <;> rcases mem_cellsAdd hj with rfl | hj'
      · exact absurd (PyEq.refl _) hviol.2
      · exact absurd (hc j hj' hviol.1.symm).symm hviol.2
      · exact absurd (hc i hi' hviol.1) hviol.2
      · exact ⟨hi', hj'⟩

theorem images_no_validators : validateClass "images.Images" [] = .ok () := by decide +kernel

/-- `dumps()` leaves the images alone and sets the header to the current version — also when it raises later -/
theorem dumps_state (s : ImgState) : (dumps s).1 = { s with version := .str currentVersion } := by
  unfold dumps
  rw [images_no_validators]
  simp only
  cases hs : serialize s with
  | mk s' r =>
    have : s' = { s with version := .str currentVersion } := by
      have := congrArg Prod.fst hs
      simpa [serialize] using this.symm
    cases r <;> simp [this]

/-- loading into an object in use: every predicate that holds of the object and is preserved by each successful
`add` under the document's version holds afterwards -/
theorem deserializeInto_inv (doc : PyVal) (s0 s : ImgState) (n0 : Nat) (P : ImgState → Prop)
    (hcells : ∀ s₁ s₂ : ImgState, s₁.cells = s₂.cells → P s₁ → P s₂)
    (hP : ∀ ver, headerDeserialize doc = .ok ver → AddInvariant ver P)
    (h0 : P s0) (h : deserializeInto s0 n0 doc = .ok s) : P s := by
  unfold deserializeInto at h
  obtain ⟨ver, hver, h⟩ := bind_ok h
  obtain ⟨payload, _, h⟩ := bind_ok h
  obtain ⟨comp, _, h⟩ := bind_ok h
  obtain ⟨images, _, h⟩ := bind_ok h
  obtain ⟨vs, _, h⟩ := bind_ok h
  obtain ⟨r, h6, h⟩ := bind_ok h
  obtain ⟨s1, n⟩ := r
  simp only [Except.ok.injEq] at h
  subst h
  have := loadVariants_inv (hP ver hver) images vs _ _ ⟨rfl, hcells s0 _ rfl h0⟩ h6
  exact hcells s1 _ rfl this.2

theorem deserialize_eq_into (doc : PyVal) : deserialize doc = deserializeInto {} 0 doc := rfl

/-- `loads` of a document with an enforcing header into an object in use creates no new colliding pair -/
theorem loadInto_noNewPairs (doc : PyVal) (s0 s : ImgState) (n0 : Nat)
    (hv : ∀ ver, headerDeserialize doc = .ok ver → Enforces ver)
    (h : deserializeInto s0 n0 doc = .ok s) : NoNewPairs s0.cells s.cells := by
  refine deserializeInto_inv doc s0 s n0 (fun x => NoNewPairs s0.cells x.cells) (fun _ _ e h => e ▸ h) ?_ (NoNewPairs.refl _) h
  intro ver hver
  refine ⟨fun s v a id img s' hs hp hadd => ?_⟩
  have := add_noNewPairs s v a id img (hs ▸ hv ver hver)
  rw [hadd] at this
  exact hp.trans this

/-- **total `loads`**: into an object in use, of a document whose header (when it can be read) enforces the scan:
no new colliding pair in the object the call leaves behind — returned or raised, wherever it raised -/
theorem loadsInto_noNewPairs (doc : PyVal) (s0 : ImgState) (n0 : Nat)
    (hv : ∀ ver, headerDeserialize doc = .ok ver → Enforces ver) :
    NoNewPairs s0.cells (loadsInto s0 n0 doc).1.cells := by
  refine loadsInto_inv doc s0 n0 (fun x => NoNewPairs s0.cells x.cells) (fun _ _ e h => e ▸ h) ?_ (NoNewPairs.refl _)
  intro ver hver
  refine ⟨fun s v a id img hs hp => ?_⟩
  exact hp.trans (add_noNewPairs s v a id img (hs ▸ hv ver hver))

theorem mem_all_cellsDiscard {cs : Cells} {v a : Str} {id : Nat} {x : Image} (h : x ∈ (cellsDiscard cs v a id).all) : x ∈ cs.all := by
  simp only [Cells.all, cellsDiscard, List.mem_flatMap, List.mem_map] at h ⊢
  obtain ⟨va', ⟨va, hva, rfl⟩, ac', hac', e, he, rfl⟩ := h
  split at hac'
  · simp only [List.mem_map] at hac'
    obtain ⟨ac, hac, rfl⟩ := hac'
    split at he
    · exact ⟨va, hva, ac, hac, e, (List.mem_filter.mp he).1, rfl⟩
    · exact ⟨va, hva, ac, hac, e, he, rfl⟩
  · exact ⟨va, hva, ac', hac', e, he, rfl⟩

theorem mem_all_cellsDelVariant {cs : Cells} {v : Str} {x : Image} (h : x ∈ (cellsDelVariant cs v).all) : x ∈ cs.all := by
  simp only [Cells.all, cellsDelVariant, List.mem_flatMap, List.mem_map] at h ⊢
  obtain ⟨va, hva, rest⟩ := h
  exact ⟨va, (List.mem_filter.mp hva).1, rest⟩

theorem noNewPairs_of_subset {cs cs' : Cells} (h : ∀ x ∈ cs'.all, x ∈ cs.all) : NoNewPairs cs cs' :=
  fun i hi j hj _ => ⟨h i hi, h j hj⟩

/-- the step happens at an enforcing version: the object's header for `add`, the document's header for `loads` -/
def OpEnforced (s : ImgState) : HOp → Prop
  | .add _ => Enforces s.version
  | .loads doc _ => ∀ ver, headerDeserialize doc = .ok ver → Enforces ver
  | _ => True

/-- every `add` / `loads` of the run happens at an enforcing version (the header may change in between) -/
def EnforcedRun : ImgState → List HOp → Prop
  | _, [] => True
  | s, op :: rest => OpEnforced s op ∧ EnforcedRun (hstep s op).1 rest

theorem hstep_noNewPairs (s : ImgState) (op : HOp) (h : OpEnforced s op) : NoNewPairs s.cells (hstep s op).1.cells := by
  cases op with
  | add o => exact add_noNewPairs s o.variant o.arch o.id o.img h
  | dumps => simp only [hstep, dumps_state]; exact NoNewPairs.refl _
  | setVersion v => exact NoNewPairs.refl _
  | loads doc n0 =>
    exact loadsInto_noNewPairs doc s n0 h
  | discard v a id => exact noNewPairs_of_subset fun x hx => mem_all_cellsDiscard hx
  | delVariant v => exact noNewPairs_of_subset fun x hx => mem_all_cellsDelVariant hx

theorem run_noNewPairs (ops : List HOp) : ∀ s, EnforcedRun s ops → NoNewPairs s.cells (ops.foldl (fun s op => (hstep s op).1) s).cells := by
  induction ops with
  | nil => intro s _; exact NoNewPairs.refl _
  | cons op rest ih =>
    intro s h
    simp only [List.foldl_cons]
    exact (hstep_noNewPairs s op h.1).trans (ih _ h.2)

end PM.Img
