import ProductMD.Proofs.C14F9
/-!
F9 for the base product: `release@short-version` with a dashed base-product short name is never parsed back to
that base product (whatever the release part is), by counting the `@`s.
-/
namespace PM.C14
open PM PM.Str

theorem splitOn_length (sep : Char) (s : Str) : (splitOn sep s).length = count sep s + 1 := by
  induction s with
  | nil => rfl
  | cons c cs ih =>
    obtain ⟨h, t, e⟩ := splitOn_cons_shape sep cs
    by_cases hc : c = sep
    · subst hc; rw [splitOn_cons_sep, count_cons_self]; simp [ih]
    · rw [splitOn_cons_ne hc e]
      have : count sep (c :: cs) = count sep cs := by simp [count, hc]
      rw [this, ← ih, e]; rfl

/-- the same for a base product in the F9 region -/
theorem parse_bp_dashed_ga {a s v : Str} (hs : '-' ∈ s) (r b : Rel) (hb : b.short = s ∧ b.version = v) :
    parseReleaseId (a ++ '@' :: (s ++ '-' :: v)) ≠ .ok (r, some b) := by
  intro h
  unfold parseReleaseId at h
  have hc : (a ++ '@' :: (s ++ '-' :: v)).contains '@' = true := List.contains_iff_mem.mpr (by simp)
  rw [if_pos hc] at h
  have hlen := splitOn_length '@' (a ++ '@' :: (s ++ '-' :: v))
  cases hsp : splitOn '@' (a ++ '@' :: (s ++ '-' :: v)) with
  | nil => rw [hsp] at h; simp at h
  | cons x rest =>
    rw [hsp] at h hlen
    match rest, h, hlen with
    | [], h, _ => simp at h
    | _ :: _ :: _, h, _ => simp at h
    | [y], h, hlen =>
      have hcnt : count '@' (a ++ '@' :: (s ++ '-' :: v)) = 1 := by simpa using hlen.symm
      rw [count_append, count_cons_self] at hcnt
      have ha : '@' ∉ a := count_eq_zero.mp (by omega)
      have hB : '@' ∉ s ++ '-' :: v := count_eq_zero.mp (by omega)
      rw [splitOn_append_sep _ ha, splitOn_of_not_mem hB] at hsp
      simp only [List.cons.injEq, and_true] at hsp
      obtain ⟨rfl, rfl⟩ := hsp
      cases h1 : parseReleaseIdPart a with
      | error e => simp [h1] at h
      | ok r1 =>
        cases h2 : parseReleaseIdPart (s ++ '-' :: v) with
        | error e => simp [h1, h2] at h
        | ok b1 =>
          simp [h1, h2] at h
          exact parsePart_dashed_ga hs b1 (by rw [h.2]; exact hb) h2

end PM.C14
