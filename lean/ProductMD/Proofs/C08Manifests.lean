import ProductMD.Proofs.Builders
import ProductMD.Proofs.JEq
/-!
C08 for the three manifest builders: two `add` calls that land at DIFFERENT addresses `[variant][arch][key]` commute up to
the order of dict entries (`JEq`), whatever their leaf updates do.  Every `add` of the model (`Model/Builders.lean`) is
`setPathS leaf path state` after checks that do not touch the state, so this is the commutation of the state updates of
`Rpms.add` / `Modules.add` (path `[variant, arch, uid]`) / `ExtraFiles.add` (path `[variant, arch]`).
-/
namespace PM.Mf
open PM PyVal

mutual
/-- dict keys pairwise distinct, at every level (what every state built by `put` from `{}` satisfies) -/
def NodupAll : PyVal → Prop
  | .dict kvs => (kvs.map (·.1)).Nodup ∧ NodupAllK kvs
  | _ => True
def NodupAllK : List (Str × PyVal) → Prop
  | [] => True
  | (_, v) :: rest => NodupAll v ∧ NodupAllK rest
end

theorem nodupAll_lookup : ∀ (kvs : Kvs) (k : Str) (c : PyVal), NodupAllK kvs → lookup kvs k = some c → NodupAll c
  | [], _, _, _, h => by simp [lookup] at h
  | (k1, v1) :: rest, k, c, hn, h => by
    simp only [NodupAllK] at hn
    simp only [lookup] at h
    split at h
    · injection h with h; subst h; exact hn.1
    · exact nodupAll_lookup rest k c hn.2 h

theorem put_keys_nodup (kvs : Kvs) (k : Str) (v : PyVal) (h : (kvs.map (·.1)).Nodup) : ((put kvs k v).map (·.1)).Nodup := by
  induction kvs with
  | nil => simp [put]
  | cons p rest ih =>
    obtain ⟨k1, v1⟩ := p
    simp only [List.map_cons, List.nodup_cons] at h
    simp only [put]
    split
    · rename_i h1
      have e : k1 = k := by simpa using h1
      subst e
      simpa using h
    · rename_i h1
      have hne : ¬ k1 = k := by simpa using h1
      simp only [List.map_cons, List.nodup_cons]
      refine ⟨?_, ih h.2⟩
      intro hm
      obtain ⟨⟨a, b⟩, hab, e⟩ := List.mem_map.mp hm
      simp only at e
      subst e
      -- an entry of `put rest k v` is an entry of `rest` or the new one
      have : a ∈ rest.map (·.1) ∨ a = k := by
        clear ih h hm
        induction rest with
        | nil => simp [put] at hab; exact .inr hab.1
        | cons q r ihr =>
          obtain ⟨k2, v2⟩ := q
          simp only [put] at hab
          split at hab
          · rename_i h2
            have e2 : k2 = k := by simpa using h2
            rcases List.mem_cons.mp hab with e | e
            · injection e with e1 _; exact .inr e1
            · exact .inl (by simp only [List.map_cons, List.mem_cons]; exact .inr (List.mem_map.mpr ⟨(a, b), e, rfl⟩))
          · rcases List.mem_cons.mp hab with e | e
            · injection e with e1 _; exact .inl (by simp [e1])
            · rcases ihr e with h' | h'
              · exact .inl (by simp only [List.map_cons, List.mem_cons]; exact .inr h')
              · exact .inr h'
      rcases this with h' | h'
      · exact h.1 h'
      · exact hne h'

theorem put_put_same (kvs : Kvs) (k : Str) (a b : PyVal) : put (put kvs k a) k b = put kvs k b := by
  induction kvs with
  | nil => simp [put]
  | cons p rest ih =>
    obtain ⟨k1, v1⟩ := p
    simp only [put]
    split
    · simp [put]
    · rename_i h1
      simp only [put, h1, ih]
      simp

/-- two writes under different keys: the same entries, possibly in another order -/
theorem put_comm_perm (kvs : Kvs) (k1 k2 : Str) (a b : PyVal) (hne : k1 ≠ k2) :
    (put (put kvs k1 a) k2 b).Perm (put (put kvs k2 b) k1 a) := by
  induction kvs with
  | nil =>
    have h1 : (k1 == k2) = false := by simp [hne]
    have h2 : (k2 == k1) = false := by simp [Ne.symm hne]
    simp only [put, h1, h2]
    exact List.Perm.swap _ _ _
  | cons p rest ih =>
    obtain ⟨k0, v0⟩ := p
    by_cases e1 : k0 = k1
    · subst e1
      have h2 : (k0 == k2) = false := by simp [hne]
      simp [put, h2]
    · have h1 : (k0 == k1) = false := by simp [e1]
      by_cases e2 : k0 = k2
      · subst e2
        simp [put, h1]
      · have h2 : (k0 == k2) = false := by simp [e2]
        simp only [put, h1, h2, Bool.false_eq_true, if_false]
        exact List.Perm.cons _ ih

theorem put_congr_jeq (kvs : Kvs) (k : Str) {a b : PyVal} (h : JEq a b) : JEqD (put kvs k a) (put kvs k b) := by
  induction kvs with
  | nil => exact .cons k h .nil
  | cons p rest ih =>
    obtain ⟨k0, v0⟩ := p
    simp only [put]
    split
    · exact .cons k h (JEqD.refl _)
    · exact .cons k0 (.refl v0) ih

/-- **two state updates at different addresses commute up to dict order** -/
theorem setPathS_comm (f1 f2 : PyVal → PyVal × Out) : ∀ (p1 p2 : List Str), p1.length = p2.length → p1 ≠ p2 →
    ∀ s : PyVal, NodupAll s →
    JEq (setPathS f2 p2 (setPathS f1 p1 s).1).1 (setPathS f1 p1 (setPathS f2 p2 s).1).1
  | [], [], _, hne, _, _ => absurd rfl hne
  | [], _ :: _, hl, _, _, _ => by cases hl
  | _ :: _, [], hl, _, _, _ => by cases hl
  | k1 :: q1, k2 :: q2, hl, hne, s, hs => by
    cases s with
    | dict kvs =>
      simp only [NodupAll] at hs
      simp only [setPathS]
      by_cases hk : k1 = k2
      · subst hk
        have hq : q1 ≠ q2 := fun e => hne (by rw [e])
        simp only [lookup_put_same, Option.getD_some, put_put_same]
        have hc : NodupAll ((lookup kvs k1).getD (.dict [])) := by
          cases hl' : lookup kvs k1 with
          | none => simp [NodupAll, NodupAllK]
          | some c => exact nodupAll_lookup kvs k1 c hs.2 hl'
        have ih := setPathS_comm f1 f2 q1 q2 (by simpa using hl) hq _ hc
        exact .dict (put_congr_jeq kvs k1 ih) (put_keys_nodup _ _ _ hs.1)
      · have h12 : k2 ≠ k1 := fun e => hk e.symm
        simp only [lookup_put_other _ _ _ _ h12, lookup_put_other _ _ _ _ hk]
        exact .dict (JEqD.of_perm (put_comm_perm kvs k1 k2 _ _ hk)) (put_keys_nodup _ _ _ (put_keys_nodup _ _ _ hs.1))
    | none | bool _ | int _ | float _ | str _ | list _ | other _ => simp only [setPathS]; exact .refl _

end PM.Mf
