import ProductMD.Proofs.CIOrderBasic
/-!
C01/C08: the composeinfo READER does not depend on the key order of the document it is given.

Every reader below the top-level container reaches into the document by key only, so it returns literally the same
result on `PyVal.canon doc` (all dicts key-sorted, what `json.load` returns for the written text) as on `doc`, for every
document without duplicate keys (`Mf.jsonRep`) — error branches included.  The one place that ITERATES a dict is
`Variants.deserialize` (the set of child UIDs and the list of top-level UIDs): both are used as sets / sorted, so on a
document the reader accepts the result is the same; only which error is reported first can depend on the order.
-/
namespace PM.CI
open PM PM.Mf PM.JsonParse

/-- `(canon d)[k]`, error branches included -/
theorem sub_canon' {v : PyVal} (hr : jsonRep v = true) (k : Str) :
    sub (PyVal.canon v) k = (match sub v k with | .ok x => .ok (PyVal.canon x) | .error e => .error e) := by
  cases v with
  | dict l =>
    have := get?_canon (.dict l) k hr
    unfold sub
    simp only [PyVal.canon] at this ⊢
    rw [this]
    cases PyVal.get? (.dict l) k <;> rfl
  | _ => rfl

theorem getD_canon' {v : PyVal} (hr : jsonRep v = true) (k : Str) {d : PyVal} (hd : PyVal.canon d = d) :
    getD (PyVal.canon v) k d = (match getD v k d with | .ok x => .ok (PyVal.canon x) | .error e => .error e) := by
  cases v with
  | dict l =>
    have := get?_canon (.dict l) k hr
    unfold getD
    simp only [PyVal.canon] at this ⊢
    rw [this]
    cases PyVal.get? (.dict l) k with
    | none => simp [hd]
    | some y => rfl
  | _ => rfl

/-! ### header -/
theorem headerTypeCheck_canon (ver : Nat × Nat) {h : PyVal} (hr : jsonRep h = true) :
    headerTypeCheck ver (PyVal.canon h) = headerTypeCheck ver h := by
  unfold headerTypeCheck
  split
  · rw [sub_canon' hr]
    cases ht : sub h k%"type" with
    | error e => rfl
    | ok t =>
      dsimp only
      rw [pyEq_canon_left t _ (jsonRep_sub hr ht)]
  · rfl

theorem headerDe_canon {doc : PyVal} (hr : jsonRep doc = true) : headerDe (PyVal.canon doc) = headerDe doc := by
  unfold headerDe
  rw [sub_canon' hr]
  cases hh : sub doc k%"header" with
  | error e => rfl
  | ok h =>
    have hrh := jsonRep_sub hr hh
    dsimp only
    rw [sub_canon' hrh]
    cases hv : sub h k%"version" with
    | error e => rfl
    | ok v =>
      dsimp only
      have : headerObj (PyVal.canon v) = canonObj (headerObj v) := rfl
      rw [this, validate_header_canon, asStr_canon]
      simp only [headerTypeCheck_canon _ hrh]

/-! ### compose -/
theorem composeDe_canon (ver : Nat × Nat) {payload : PyVal} (hr : jsonRep payload = true) :
    composeDe ver (PyVal.canon payload) = composeDe ver payload := by
  unfold composeDe
  split
  · rfl
  · rw [sub_canon' hr]
    cases hs : sub payload k%"compose" with
    | error e => rfl
    | ok s =>
      have hrs := jsonRep_sub hr hs
      dsimp only
      rw [sub_canon' hrs]
      cases hid : sub s k%"id" with
      | error e => rfl
      | ok id =>
        dsimp only
        rw [getD_canon' hrs _ (d := .none) rfl]
        cases hlab : getD s k%"label" .none with
        | error e => rfl
        | ok lab0 =>
          dsimp only
          rw [sub_canon' hrs]
          cases htype : sub s k%"type" with
          | error e => rfl
          | ok type =>
            dsimp only
            rw [sub_canon' hrs]
            cases hdate : sub s k%"date" with
            | error e => rfl
            | ok date =>
              dsimp only
              rw [sub_canon' hrs]
              cases hresp : sub s k%"respin" with
              | error e => rfl
              | ok respin =>
                dsimp only
                rw [getD_canon' hrs _ (d := .bool false) rfl]
                cases hfin : getD s k%"final" (.bool false) with
                | error e => rfl
                | ok fin0 =>
                  dsimp only
                  rw [orNone_canon, truthy_canon]
                  have : [(k%"id", PyVal.canon id), (k%"type", PyVal.canon type), (k%"date", PyVal.canon date),
                      (k%"respin", PyVal.canon respin), (k%"label", PyVal.canon (orNone lab0)), (k%"final", PyVal.bool fin0.truthy)]
                      = canonObj [(k%"id", id), (k%"type", type), (k%"date", date), (k%"respin", respin), (k%"label", orNone lab0),
                          (k%"final", PyVal.bool fin0.truthy)] := rfl
                  rw [this, validate_compose_canon, asStr_canon, asStr_canon, asStr_canon, asInt_canon]
                  cases orNone lab0 <;> rfl

/-! ### release, base product -/
theorem lowerVal_str {v w : PyVal} (h : lowerVal v = .ok w) : ∃ s, w = .str s := by
  cases v <;> simp [lowerVal] at h
  exact ⟨_, h.symm⟩

theorem releaseDe_canon (ver : Nat × Nat) {holder : PyVal} (hr : jsonRep holder = true) :
    releaseDe ver (PyVal.canon holder) = releaseDe ver holder := by
  unfold releaseDe
  split
  · rfl
  · rw [sub_canon' hr]
    cases hs : sub holder k%"release" with
    | error e => rfl
    | ok s =>
      have hrs := jsonRep_sub hr hs
      dsimp only
      rw [sub_canon' hrs]
      cases hname : sub s k%"name" with
      | error e => rfl
      | ok name =>
        dsimp only
        rw [sub_canon' hrs]
        cases hversion : sub s k%"version" with
        | error e => rfl
        | ok version =>
          dsimp only
          rw [sub_canon' hrs]
          cases hshort : sub s k%"short" with
          | error e => rfl
          | ok short =>
            dsimp only
            rw [getD_canon' hrs _ (d := .str k%"ga") rfl]
            cases htype0 : getD s k%"type" (.str k%"ga") with
            | error e => rfl
            | ok type0 =>
              dsimp only
              rw [lowerVal_canon]
              cases htype : lowerVal type0 with
              | error e => rfl
              | ok type =>
                obtain ⟨ts, rfl⟩ := lowerVal_str htype
                dsimp only
                rw [getD_canon' hrs _ (d := .bool false) rfl]
                cases hlay : getD s k%"is_layered" (.bool false) with
                | error e => rfl
                | ok lay =>
                  dsimp only
                  rw [getD_canon' hrs _ (d := .bool false) rfl]
                  cases hint : getD s k%"internal" (.bool false) with
                  | error e => rfl
                  | ok int =>
                    dsimp only
                    rw [truthy_canon, truthy_canon]
                    have : [(k%"name", PyVal.canon name), (k%"short", PyVal.canon short), (k%"version", PyVal.canon version),
                        (k%"type", PyVal.str ts), (k%"is_layered", PyVal.bool lay.truthy), (k%"internal", PyVal.bool int.truthy)]
                        = canonObj [(k%"name", name), (k%"short", short), (k%"version", version), (k%"type", PyVal.str ts),
                            (k%"is_layered", PyVal.bool lay.truthy), (k%"internal", PyVal.bool int.truthy)] := rfl
                    rw [this, validate_release_canon, asStr_canon, asStr_canon, asStr_canon]

theorem baseDe_canon {payload : PyVal} (hr : jsonRep payload = true) : baseDe (PyVal.canon payload) = baseDe payload := by
  unfold baseDe
  rw [sub_canon' hr]
  cases hs : sub payload k%"base_product" with
  | error e => rfl
  | ok s =>
    have hrs := jsonRep_sub hr hs
    dsimp only
    rw [sub_canon' hrs]
    cases hname : sub s k%"name" with
    | error e => rfl
    | ok name =>
      dsimp only
      rw [sub_canon' hrs]
      cases hversion : sub s k%"version" with
      | error e => rfl
      | ok version =>
        dsimp only
        rw [sub_canon' hrs]
        cases hshort : sub s k%"short" with
        | error e => rfl
        | ok short =>
          dsimp only
          rw [getD_canon' hrs _ (d := .str k%"ga") rfl]
          cases htype : getD s k%"type" (.str k%"ga") with
          | error e => rfl
          | ok type =>
            dsimp only
            have : [(k%"name", PyVal.canon name), (k%"short", PyVal.canon short), (k%"version", PyVal.canon version),
                (k%"type", PyVal.canon type)]
                = canonObj [(k%"name", name), (k%"short", short), (k%"version", version), (k%"type", type)] := rfl
            rw [this, validate_base_canon, asStr_canon, asStr_canon, asStr_canon, asStr_canon]

theorem baseDeIf_canon (b : Bool) {payload : PyVal} (hr : jsonRep payload = true) :
    baseDeIf b (PyVal.canon payload) = baseDeIf b payload := by
  unfold baseDeIf
  rw [baseDe_canon hr]

/-! ### one entry of the flat `variants` dict -/
theorem cellDe_canon {t : PyVal} (hr : jsonRep t = true) (a : Str) : cellDe (PyVal.canon t) a = cellDe t a := by
  cases t with
  | dict l =>
    have := get?_canon (.dict l) a hr
    unfold cellDe
    simp only [PyVal.canon] at this ⊢
    rw [this]
    cases hg : PyVal.get? (.dict l) a with
    | none => rfl
    | some v =>
      simp only [Option.map_some, truthy_canon]
      split
      · rfl
      · cases v <;> rfl
  | _ => rfl

theorem archTableDe_canon (A : List Str) {t : PyVal} (hr : jsonRep t = true) :
    archTableDe A (PyVal.canon t) = archTableDe A t := by
  unfold archTableDe
  have : A.map (cellDe (PyVal.canon t)) = A.map (cellDe t) := List.map_congr_left (fun a _ => cellDe_canon hr a)
  rw [this]

theorem pathsDe_canon (A : List Str) {paths : PyVal} (hr : jsonRep paths = true) :
    pathsDe A (PyVal.canon paths) = pathsDe A paths := by
  cases paths with
  | dict l =>
    unfold pathsDe
    have hmap : (Gen.COMPOSEINFO_PATH_FIELDS.map fun cat =>
          archTableDe A ((PyVal.get? (PyVal.canon (.dict l)) cat).getD (.dict [])))
        = (Gen.COMPOSEINFO_PATH_FIELDS.map fun cat => archTableDe A ((PyVal.get? (.dict l) cat).getD (.dict []))) := by
      apply List.map_congr_left
      intro cat _
      rw [get?_canon (.dict l) cat hr]
      cases hg : PyVal.get? (.dict l) cat with
      | none => rfl
      | some t => exact archTableDe_canon A (jsonRep_get hr hg)
    simp only [PyVal.canon] at hmap ⊢
    rw [hmap]
  | _ => rfl

theorem kidIdsOf_canon (ver : Nat × Nat) {data : PyVal} (hr : jsonRep data = true) :
    kidIdsOf ver (PyVal.canon data) = kidIdsOf ver data := by
  unfold kidIdsOf
  rw [get?_canon data _ hr]
  cases data.get? k%"variants" with
  | none => rfl
  | some kv => simp only [Option.map_some, asStrList_canon]

theorem variantReleaseDe_canon (ver : Nat × Nat) {type0 data : PyVal} (ht : jsonRep type0 = true) (hr : jsonRep data = true) :
    variantReleaseDe ver (PyVal.canon type0) (PyVal.canon data) = variantReleaseDe ver type0 data := by
  unfold variantReleaseDe
  rw [pyEq_canon_left type0 _ ht, releaseDe_canon ver hr]

/-- `Variant.deserialize` (with everything below it) on the key-sorted document: the same result, error branches
included, at any depth -/
theorem build_canon (ver : Nat × Nat) {full : PyVal} (hr : jsonRep full = true) :
    ∀ (fuel : Nat) (ctx : Ctx) (u : Str), Variant.build ver (PyVal.canon full) fuel ctx u = Variant.build ver full fuel ctx u
  | 0, _, _ => rfl
  | fuel + 1, ctx, u => by
    unfold Variant.build
    rw [sub_canon' hr]
    cases hd : sub full u with
    | error e => rfl
    | ok data =>
      have hrd := jsonRep_sub hr hd
      dsimp only
      rw [sub_canon' hrd]
      cases hid : sub data k%"id" with
      | error e => rfl
      | ok id0 =>
        dsimp only
        rw [sub_canon' hrd]
        cases huid : sub data k%"uid" with
        | error e => rfl
        | ok uid0 =>
          dsimp only
          rw [sub_canon' hrd]
          cases hname : sub data k%"name" with
          | error e => rfl
          | ok name0 =>
            dsimp only
            rw [sub_canon' hrd]
            cases htype : sub data k%"type" with
            | error e => rfl
            | ok type0 =>
              dsimp only
              rw [sub_canon' hrd]
              cases harch : sub data k%"arches" with
              | error e => rfl
              | ok arches0 =>
                dsimp only
                rw [asStrList_canon, variantReleaseDe_canon ver (jsonRep_sub hrd htype) hrd]
                cases asStrList arches0 with
                | error e => rfl
                | ok archesL =>
                  dsimp only
                  cases variantReleaseDe ver type0 data with
                  | error e => rfl
                  | ok rel =>
                    dsimp only
                    rw [sub_canon' hrd]
                    cases hpaths : sub data k%"paths" with
                    | error e => rfl
                    | ok paths0 =>
                      dsimp only
                      rw [pathsDe_canon _ (jsonRep_sub hrd hpaths), asStr_canon, kidIdsOf_canon ver hrd,
                        asStr_canon, asStr_canon, asStr_canon]
                      simp only [build_canon ver hr fuel]

/-! ### the container: the one place that iterates a dict -/
theorem refsOfVal_canon {var : PyVal} (hr : jsonRep var = true) : refsOfVal (PyVal.canon var) = refsOfVal var := by
  unfold refsOfVal
  rw [getD_canon' hr _ (d := .list []) rfl]
  cases hk : getD var k%"variants" (.list []) with
  | error e => rfl
  | ok kv =>
    dsimp only
    rw [asStrList_canon, sub_canon' hr]
    cases asStrList kv with
    | error e => rfl
    | ok ids =>
      cases ids with
      | nil => rfl
      | cons i is =>
        dsimp only
        cases sub var k%"uid" with
        | error e => rfl
        | ok u => dsimp only; rw [asStr_canon]

/-- what `childUids` computes when it succeeds: every entry announces its children, the result is their union -/
theorem childUids_ok : ∀ {l : List (Str × PyVal)} {cs : List Str}, childUids l = .ok cs →
    (∀ p ∈ l, ∃ r, refsOfVal p.2 = .ok r) ∧ (∀ x, x ∈ cs ↔ ∃ p ∈ l, ∃ r, refsOfVal p.2 = .ok r ∧ x ∈ r)
  | [], cs, h => by
    simp only [childUids] at h
    cases h
    simp
  | (k, var) :: rest, cs, h => by
    simp only [childUids] at h
    split at h
    · cases h
    · rename_i r hr
      split at h
      · cases h
      · rename_i rs hrs
        cases h
        have ih := childUids_ok hrs
        constructor
        · intro p hp
          rcases List.mem_cons.mp hp with rfl | hp
          · exact ⟨r, hr⟩
          · exact ih.1 p hp
        · intro x
          simp only [List.mem_append, ih.2 x, List.mem_cons]
          constructor
          · rintro (hx | ⟨p, hp, r', hr', hx⟩)
            · exact ⟨(k, var), .inl rfl, r, hr, hx⟩
            · exact ⟨p, .inr hp, r', hr', hx⟩
          · rintro ⟨p, hp | hp, r', hr', hx⟩
            · subst hp
              simp only at hr'
              rw [hr] at hr'
              cases hr'
              exact .inl hx
            · exact .inr ⟨p, hp, r', hr', hx⟩

theorem childUids_of_all : ∀ {l : List (Str × PyVal)}, (∀ p ∈ l, ∃ r, refsOfVal p.2 = .ok r) → ∃ cs, childUids l = .ok cs
  | [], _ => ⟨[], rfl⟩
  | (k, var) :: rest, h => by
    obtain ⟨r, hr⟩ := h (k, var) (by simp)
    obtain ⟨rs, hrs⟩ := childUids_of_all (l := rest) (fun p hp => h p (by simp [hp]))
    exact ⟨r ++ rs, by simp only [childUids, hr, hrs]⟩

theorem jsonRepKvs_mem : ∀ {l : Kvs}, jsonRepKvs l = true → ∀ p ∈ l, jsonRep p.2 = true
  | [], _, p, hp => by cases hp
  | (k, v) :: rest, h, p, hp => by
    simp only [jsonRepKvs, Bool.and_eq_true] at h
    rcases List.mem_cons.mp hp with rfl | hp
    · exact h.1.2
    · exact jsonRepKvs_mem h.2 p hp

theorem collect_map_congr_ok {α β} (f g : α → Except Err β) :
    ∀ (l : List α), (∀ a ∈ l, f a = g a) → collect (l.map f) = collect (l.map g) := by
  intro l h
  rw [List.map_congr_left h]

/-- **`Variants.deserialize` on the key-sorted document**: on a document it accepts, the same forest -/
theorem variantsDe_canon (ver : Nat × Nat) {payload : PyVal} (hr : jsonRep payload = true) (vs : List Variant)
    (h : variantsDe ver payload = .ok vs) : variantsDe ver (PyVal.canon payload) = .ok vs := by
  unfold variantsDe at h ⊢
  rw [sub_canon' hr]
  cases hf : sub payload k%"variants" with
  | error e => rw [hf] at h; cases h
  | ok full =>
    have hrf := jsonRep_sub hr hf
    rw [hf] at h
    dsimp only at h ⊢
    cases full with
    | dict entries =>
      dsimp only at h
      split at h
      · cases h
      · rename_i hv
        split at h
        · cases h
        · rename_i cs hcs
          simp only [PyVal.canon, hv]
          -- the entries of the sorted document: a permutation of the canonical entries
          have hperm : (PyVal.sortKvs (PyVal.canonKvs entries)).Perm (entries.map fun kv => (kv.1, PyVal.canon kv.2)) := by
            rw [← PM.canonKvs_eq_map]; exact PM.sortKvs_perm _
          have hre : jsonRepKvs entries = true := by simpa [jsonRep] using hrf
          have hmem : ∀ p', p' ∈ PyVal.sortKvs (PyVal.canonKvs entries) ↔ ∃ p ∈ entries, p' = (p.1, PyVal.canon p.2) := by
            intro p'
            rw [hperm.mem_iff, List.mem_map]
            constructor
            · rintro ⟨p, hp, rfl⟩; exact ⟨p, hp, rfl⟩
            · rintro ⟨p, hp, rfl⟩; exact ⟨p, hp, rfl⟩
          have hok := childUids_ok hcs
          obtain ⟨cs', hcs'⟩ := childUids_of_all (l := PyVal.sortKvs (PyVal.canonKvs entries)) (by
            intro p' hp'
            obtain ⟨p, hp, rfl⟩ := (hmem p').mp hp'
            obtain ⟨r, hr'⟩ := hok.1 p hp
            exact ⟨r, by simp only; rw [refsOfVal_canon (jsonRepKvs_mem hre p hp)]; exact hr'⟩)
          have hok' := childUids_ok hcs'
          have hsame : ∀ x, x ∈ cs' ↔ x ∈ cs := by
            intro x
            rw [hok'.2 x, hok.2 x]
            constructor
            · rintro ⟨p', hp', r, hr', hx⟩
              obtain ⟨p, hp, rfl⟩ := (hmem p').mp hp'
              simp only at hr'
              rw [refsOfVal_canon (jsonRepKvs_mem hre p hp)] at hr'
              exact ⟨p, hp, r, hr', hx⟩
            · rintro ⟨p, hp, r, hr', hx⟩
              exact ⟨(p.1, PyVal.canon p.2), (hmem _).mpr ⟨p, hp, rfl⟩, r,
                by simp only; rw [refsOfVal_canon (jsonRepKvs_mem hre p hp)]; exact hr', hx⟩
          have hkeys : ∀ x, x ∈ (PyVal.sortKvs (PyVal.canonKvs entries)).map (·.1) ↔ x ∈ entries.map (·.1) := by
            intro x
            simp only [List.mem_map]
            constructor
            · rintro ⟨p', hp', rfl⟩
              obtain ⟨p, hp, rfl⟩ := (hmem p').mp hp'
              exact ⟨p, hp, rfl⟩
            · rintro ⟨p, hp, rfl⟩
              exact ⟨(p.1, PyVal.canon p.2), (hmem _).mpr ⟨p, hp, rfl⟩, rfl⟩
          have htops : Str.sortDedup (((PyVal.sortKvs (PyVal.canonKvs entries)).map (·.1)).filter fun u => !cs'.contains u)
              = Str.sortDedup ((entries.map (·.1)).filter fun u => !cs.contains u) := by
            apply sortDedup_congr
            intro x
            simp only [List.mem_filter, hkeys x, Bool.not_eq_true', ← Bool.not_eq_true, List.contains_iff_mem, hsame x]
          have hlen : (PyVal.sortKvs (PyVal.canonKvs entries)).length = entries.length := by
            rw [hperm.length_eq, List.length_map]
          have hfull : PyVal.dict (PyVal.sortKvs (PyVal.canonKvs entries)) = PyVal.canon (.dict entries) := rfl
          simp only [hcs', htops, hlen, hfull, build_canon ver hrf]
          exact h
    | _ => cases h

/-- **The reader is independent of the key order.**  If `ComposeInfo.deserialize` accepts a document (no dict with a key
twice), it returns the very same object for the key-sorted document `PyVal.canon doc` — what `json.load` hands it after
`json.dump(sort_keys=True)`. -/
theorem deserialize_canon {doc : PyVal} (hr : jsonRep doc = true) (ci : ComposeInfo)
    (h : deserialize doc = .ok ci) : deserialize (PyVal.canon doc) = .ok ci := by
  unfold deserialize at h ⊢
  rw [headerDe_canon hr, sub_canon' hr]
  cases hh : headerDe doc with
  | error e => rw [hh] at h; cases h
  | ok ver =>
    rw [hh] at h
    dsimp only at h ⊢
    cases hp : sub doc k%"payload" with
    | error e => rw [hp] at h; cases h
    | ok payload =>
      have hrp := jsonRep_sub hr hp
      rw [hp] at h
      dsimp only at h ⊢
      rw [composeDe_canon ver hrp, releaseDe_canon ver hrp]
      cases hc : composeDe ver payload with
      | error e => rw [hc] at h; cases h
      | ok compose =>
        rw [hc] at h
        dsimp only at h ⊢
        cases hrl : releaseDe ver payload with
        | error e => rw [hrl] at h; cases h
        | ok release =>
          rw [hrl] at h
          dsimp only at h ⊢
          rw [baseDeIf_canon _ hrp]
          cases hb : baseDeIf release.isLayered payload with
          | error e => rw [hb] at h; cases h
          | ok base =>
            rw [hb] at h
            dsimp only at h ⊢
            cases hv : variantsDe ver payload with
            | error e => rw [hv] at h; cases h
            | ok variants =>
              rw [hv] at h
              rw [variantsDe_canon ver hrp variants hv]
              exact h

theorem loadsDoc_canon {doc : PyVal} (hr : jsonRep doc = true) (ci : ComposeInfo)
    (h : loadsDoc doc = .ok ci) : loadsDoc (PyVal.canon doc) = .ok ci := by
  unfold loadsDoc at h ⊢
  cases hd : deserialize doc with
  | error e => rw [hd] at h; cases h
  | ok c =>
    rw [hd] at h
    rw [deserialize_canon hr c hd]
    exact h

end PM.CI
