import ProductMD.Proofs.CIOrder
import ProductMD.Proofs.CITop
/-!
C01: the document the composeinfo writer produces is JSON-representable (`Mf.jsonRep`: no foreign object, no dict with a
key twice) and its only number is the compose respin.
-/
namespace PM.CI
open PM PM.Mf PM.JsonParse

theorem jsonRepKvs_of : ∀ {l : Kvs}, (l.map (·.1)).Nodup → (∀ p ∈ l, jsonRep p.2 = true) → jsonRepKvs l = true
  | [], _, _ => rfl
  | (k, v) :: rest, hn, hv => by
    simp only [List.map_cons, List.nodup_cons] at hn
    simp only [jsonRepKvs, Bool.and_eq_true, Bool.not_eq_true']
    exact ⟨⟨(hasKey_false_iff rest k).mpr hn.1, hv (k, v) (by simp)⟩, jsonRepKvs_of hn.2 (fun p hp => hv p (by simp [hp]))⟩

theorem numsOkKvs_of (lim : Nat) : ∀ {l : Kvs}, (∀ p ∈ l, numsOk lim p.2 = true) → numsOkKvs lim l = true
  | [], _ => rfl
  | (k, v) :: rest, hv => by
    simp only [numsOkKvs, Bool.and_eq_true]
    exact ⟨hv (k, v) (by simp), numsOkKvs_of lim (fun p hp => hv p (by simp [hp]))⟩

theorem jsonRep_dict_of {l : Kvs} (hn : (l.map (·.1)).Nodup) (hv : ∀ p ∈ l, jsonRep p.2 = true) : jsonRep (.dict l) = true := by
  simp only [jsonRep]; exact jsonRepKvs_of hn hv

theorem numsOk_dict_of (lim : Nat) {l : Kvs} (hv : ∀ p ∈ l, numsOk lim p.2 = true) : numsOk lim (.dict l) = true := by
  simp only [numsOk]; exact numsOkKvs_of lim hv

/-! ### leaves -/
theorem jsonRep_strList (l : List Str) : jsonRep (strList l) = true := by
  unfold strList
  simp only [jsonRep]
  induction l with
  | nil => rfl
  | cons a as ih => simp only [List.map_cons, jsonRepList, jsonRep, Bool.true_and]; exact ih

theorem numsOk_strList (lim : Nat) (l : List Str) : numsOk lim (strList l) = true := by
  unfold strList
  simp only [numsOk]
  induction l with
  | nil => rfl
  | cons a as ih => simp only [List.map_cons, numsOkList, numsOk, Bool.true_and]; exact ih

/-! ### sections -/
theorem rep_releaseVal (lim : Nat) (r : Release) : jsonRep (releaseVal r) = true ∧ numsOk lim (releaseVal r) = true := by
  cases h : r.isLayered <;> simp [releaseVal, h, jsonRep, jsonRepKvs, hasKey, numsOk, numsOkKvs]

theorem rep_baseVal (lim : Nat) (b : BaseProduct) : jsonRep (baseVal b) = true ∧ numsOk lim (baseVal b) = true := by
  simp [baseVal, jsonRep, jsonRepKvs, hasKey, numsOk, numsOkKvs]

theorem rep_headerVal (lim : Nat) : jsonRep headerVal = true ∧ numsOk lim headerVal = true := by
  simp [headerVal, jsonRep, jsonRepKvs, hasKey, numsOk, numsOkKvs]

theorem rep_composeVal (lim : Nat) (c : Compose) :
    jsonRep (composeVal c) = true ∧ numsOk lim (composeVal c) = intFits lim c.respin := by
  obtain ⟨id, type, date, respin, label, final⟩ := c
  cases label with
  | none => simp [composeVal, jsonRep, jsonRepKvs, hasKey, numsOk, numsOkKvs]
  | some l =>
    cases l with
    | nil => simp [composeVal, jsonRep, jsonRepKvs, hasKey, numsOk, numsOkKvs]
    | cons ch cs => simp [composeVal, jsonRep, jsonRepKvs, hasKey, numsOk, numsOkKvs]

/-! ### path tables -/
theorem rep_archTableVal (lim : Nat) (t : ArchTable) (hn : (t.map (·.1)).Nodup) :
    jsonRep (archTableVal t) = true ∧ numsOk lim (archTableVal t) = true := by
  rw [archTableVal_eq]
  constructor
  · apply jsonRep_dict_of
    · simpa [List.map_map, Function.comp_def] using hn
    · intro p hp
      obtain ⟨q, _, rfl⟩ := List.mem_map.mp hp
      rfl
  · apply numsOk_dict_of
    intro p hp
    obtain ⟨q, _, rfl⟩ := List.mem_map.mp hp
    rfl

theorem rep_pathsVal (lim : Nat) (p : PathTable) (hn : (p.map (·.1)).Nodup) (ht : ∀ ct ∈ p, (ct.2.map (·.1)).Nodup) :
    jsonRep (pathsVal p) = true ∧ numsOk lim (pathsVal p) = true := by
  have hsub : ((p.filterMap fun (ct : Str × ArchTable) => if ct.2 = [] then none else some (ct.1, archTableVal ct.2)).map (·.1)).Sublist
      (p.map (·.1)) := by
    clear hn ht
    induction p with
    | nil => simp
    | cons a as ih =>
      simp only [List.filterMap_cons, List.map_cons]
      split
      · rename_i h
        split at h
        · exact List.Sublist.cons _ ih
        · cases h
      · rename_i b h
        split at h
        · cases h
        · cases h
          simp only [List.map_cons]
          exact List.Sublist.cons_cons _ ih
  have hvals : ∀ q ∈ (p.filterMap fun (ct : Str × ArchTable) => if ct.2 = [] then none else some (ct.1, archTableVal ct.2)),
      jsonRep q.2 = true ∧ numsOk lim q.2 = true := by
    intro q hq
    obtain ⟨ct, hct, hq'⟩ := List.mem_filterMap.mp hq
    split at hq'
    · cases hq'
    · cases hq'
      exact rep_archTableVal lim ct.2 (ht ct hct)
  have hform : pathsVal p = .dict (p.filterMap fun (ct : Str × ArchTable) => if ct.2 = [] then none else some (ct.1, archTableVal ct.2)) := rfl
  rw [hform]
  exact ⟨jsonRep_dict_of (hsub.nodup hn) (fun q hq => (hvals q hq).1), numsOk_dict_of lim (fun q hq => (hvals q hq).2)⟩

theorem fields_nodup : Gen.COMPOSEINFO_PATH_FIELDS.Nodup := by decide +kernel

theorem storedPaths_keys (A : List Str) (p : PathTable) : (storedPaths A p).map (·.1) = Gen.COMPOSEINFO_PATH_FIELDS := by
  simp [storedPaths, List.map_map, Function.comp_def]

theorem storedPaths_tables (A : List Str) (hA : A.Nodup) (p : PathTable) : ∀ ct ∈ storedPaths A p, (ct.2.map (·.1)).Nodup := by
  intro ct hct
  simp only [storedPaths, List.mem_map] at hct
  obtain ⟨cat, _, rfl⟩ := hct
  have hsub : ((A.filterMap fun a => match pathAt p cat a with
      | some v => if v = [] then none else some (a, v)
      | none => none).map (·.1)).Sublist A := by
    clear hA
    induction A with
    | nil => simp
    | cons a as ih =>
      simp only [List.filterMap_cons]
      split
      · exact List.Sublist.cons _ ih
      · rename_i b hb
        split at hb
        · split at hb
          · cases hb
          · cases hb
            simp only [List.map_cons]
            exact List.Sublist.cons_cons _ ih
        · cases hb
  exact hsub.nodup hA

/-! ### entries -/
theorem rep_entryVal (lim : Nat) (e : Entry) (hp : jsonRep (pathsVal e.paths) = true ∧ numsOk lim (pathsVal e.paths) = true) :
    jsonRep (entryVal e) = true ∧ numsOk lim (entryVal e) = true := by
  have hs1 := jsonRep_strList e.arches
  have hs2 := jsonRep_strList e.kids
  have hn1 := numsOk_strList lim e.arches
  have hn2 := numsOk_strList lim e.kids
  cases hr : e.release with
  | none =>
    by_cases hk : e.kids = [] <;>
      simp [entryVal, hr, hk, jsonRep, jsonRepKvs, hasKey, numsOk, numsOkKvs, hp.1, hp.2, hs1, hs2, hn1, hn2]
  | some r =>
    have h1 := rep_releaseVal lim r
    by_cases hk : e.kids = [] <;>
      simp [entryVal, hr, hk, jsonRep, jsonRepKvs, hasKey, numsOk, numsOkKvs, hp.1, hp.2, hs1, hs2, hn1, hn2, h1.1, h1.2]

theorem rep_entryOf (lim : Nat) (v : Variant) : jsonRep (entryVal (entryOf v)) = true ∧ numsOk lim (entryVal (entryOf v)) = true := by
  apply rep_entryVal
  cases v with
  | mk key id uid name type arches paths rel kids =>
  simp only [entryOf]
  exact rep_pathsVal lim _ (by rw [storedPaths_keys]; exact fields_nodup)
    (storedPaths_tables _ (sortDedup_nodup _) _)

mutual
theorem flat_entries : ∀ (v : Variant), ∀ x ∈ flat v, ∃ n, x.2 = entryOf n
  | .mk key id uid name type arches paths rel kids, x, hx => by
    simp only [flat, List.mem_append, List.mem_singleton] at hx
    rcases hx with hx | hx
    · exact flats_entries kids x hx
    · exact ⟨_, by rw [hx]⟩
theorem flats_entries : ∀ (vs : List Variant), ∀ x ∈ flats vs, ∃ n, x.2 = entryOf n
  | [], x, hx => by simp [flats] at hx
  | v :: vs, x, hx => by
    simp only [flats, List.mem_append] at hx
    rcases hx with hx | hx
    · exact flat_entries v x hx
    · exact flats_entries vs x hx
end

theorem rep_flatVal (lim : Nat) (d : Flat) (hs : FSorted d) (he : ∀ x ∈ d, ∃ n, x.2 = entryOf n) :
    jsonRep (flatVal d) = true ∧ numsOk lim (flatVal d) = true := by
  have hform : flatVal d = .dict (d.map fun p => (p.1, entryVal p.2)) := rfl
  rw [hform]
  constructor
  · apply jsonRep_dict_of
    · simpa [List.map_map, Function.comp_def] using hs.keys_nodup
    · intro p hp
      obtain ⟨q, hq, rfl⟩ := List.mem_map.mp hp
      obtain ⟨n, hn⟩ := he q hq
      simp only [hn]
      exact (rep_entryOf lim n).1
  · apply numsOk_dict_of
    intro p hp
    obtain ⟨q, hq, rfl⟩ := List.mem_map.mp hp
    obtain ⟨n, hn⟩ := he q hq
    simp only [hn]
    exact (rep_entryOf lim n).2

/-- **The written document is JSON-representable, and its only integer is the compose respin.** -/
theorem serialize_rep (lim : Nat) (ci : ComposeInfo) (j : PyVal) (h : serialize ci = .ok j) :
    jsonRep j = true ∧ numsOk lim j = intFits lim ci.compose.respin := by
  unfold serialize at h
  split at h
  · cases h
  · split at h
    · cases h
    · split at h
      · cases h
      · split at h
        · cases h
        · split at h
          · cases h
          · rename_i d hV
            cases h
            unfold variantsSer at hV
            split at hV
            · cases hV
            · obtain ⟨_, hs, _, _, honly⟩ := sers_spec (byKeys ci.variants) none [] d hV (by simp [FSorted])
              have hflat := rep_flatVal lim d hs (fun x hx => by
                rcases honly x hx with h | h
                · cases h
                · exact flats_entries _ x h)
              have hc := rep_composeVal lim ci.compose
              have hr := rep_releaseVal lim ci.release
              have hh := rep_headerVal lim
              cases hlay : ci.release.isLayered with
              | false =>
                simp [jsonRep, jsonRepKvs, hasKey, numsOk, numsOkKvs, hflat.1, hflat.2, hc.1, hc.2, hr.1, hr.2, hh.1, hh.2]
              | true =>
                cases hb : ci.base with
                | none => simp [jsonRep, jsonRepKvs, hasKey, numsOk, numsOkKvs, hflat.1, hflat.2, hc.1, hc.2, hr.1, hr.2, hh.1, hh.2]
                | some b =>
                  have hbv := rep_baseVal lim b
                  simp [jsonRep, jsonRepKvs, hasKey, numsOk, numsOkKvs, hflat.1, hflat.2, hc.1, hc.2, hr.1, hr.2, hh.1, hh.2, hbv.1, hbv.2]

end PM.CI
