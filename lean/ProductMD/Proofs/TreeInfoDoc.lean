import ProductMD.Proofs.TreeInfoWriter
/-!
Lookups in the written document: which part of `docList` answers for which section name.
-/
namespace PM
namespace TI
open Ini

def headAV (k : Str) : Prop := k.head? = some 'a' ∨ k.head? = some 'v'

instance (k : Str) : Decidable (headAV k) := by unfold headAV; infer_instance

theorem pAddon_eq : pAddon = ['a', 'd', 'd', 'o', 'n', '-'] := by decide
theorem pVariant_eq : pVariant = ['v', 'a', 'r', 'i', 'a', 'n', 't', '-'] := by decide
theorem pImages_eq : pImages = ['i', 'm', 'a', 'g', 'e', 's', '-'] := by decide

theorem secName_headAV (type uid : Str) : headAV (secName type uid) := by
  unfold secName headAV
  split
  · left; rw [pAddon_eq]; rfl
  · right; rw [pVariant_eq]; rfl

mutual
theorem keys_flatV : ∀ (v : Variant) (pu : Option Str), ∀ k ∈ (flatV pu v).map (·.1), headAV k
  | .mk key id uid name type paths kids, pu, k, hk => by
    simp only [flatV, List.map_append, List.mem_append, List.map_cons, List.map_nil, List.mem_singleton] at hk
    rcases hk with hk | hk
    · exact keys_flatVs kids (some uid) k hk
    · subst hk; exact secName_headAV type uid
theorem keys_flatVs : ∀ (vs : List Variant) (pu : Option Str), ∀ k ∈ (flatVs pu vs).map (·.1), headAV k
  | [], pu, k, hk => by simp [flatVs] at hk
  | v :: vs, pu, k, hk => by
    simp only [flatVs, List.map_append, List.mem_append] at hk
    rcases hk with hk | hk
    · exact keys_flatVs vs pu k hk
    · exact keys_flatV v pu k hk
end

theorem flatVs_lookup_none (vs : List Variant) (pu : Option Str) (s : Str) (h : ¬ headAV s) :
    (flatVs pu vs).lookup s = none :=
  lookup_none_of_not_mem_keys fun hm => h (keys_flatVs vs pu s hm)

theorem keys_imgFlat : ∀ (ps : List (Str × List (Str × Str))), ∀ k ∈ (imgFlat ps).map (·.1), k.head? = some 'i'
  | [], k, hk => by simp [imgFlat] at hk
  | p :: ps, k, hk => by
    simp only [imgFlat, List.map_append, List.mem_append, List.map_cons, List.map_nil, List.mem_singleton] at hk
    rcases hk with hk | hk
    · exact keys_imgFlat ps k hk
    · subst hk; rw [pImages_eq]; rfl

theorem imgFlat_lookup_none (ps : List (Str × List (Str × Str))) (s : Str) (h : s.head? ≠ some 'i') :
    (imgFlat ps).lookup s = none :=
  lookup_none_of_not_mem_keys fun hm => h (keys_imgFlat ps s hm)

/-- the fixed-name sections of the document (everything except `variant-*`, `addon-*`, `images-*`) -/
def fixedList (t : TreeInfo) (g : IniSec) : List (Str × IniSec) :=
  [(sGeneral, g)] ++ (optSec (mediaOn t.discnum t.totaldiscs) sMedia (mediaOpts t.discnum t.totaldiscs)
  ++ (optSec (stage2On t.mainimage t.instimage) sStage2 (stage2Opts t.mainimage t.instimage)
  ++ (optSec (!t.checksums.isEmpty) sChecksums (checksumOpts t.checksums)
  ++ ([(sTree, treeOptsFull t)] ++ (baseL t ++ ([(sRelease, releaseOpts t.release t.isLayered)] ++ [(sHeader, headerOpts)]))))))

theorem docList_lookup_fixed (t : TreeInfo) (g : IniSec) (s : Str) (h1 : ¬ headAV s) (h2 : s.head? ≠ some 'i') :
    (docList t g).lookup s = (fixedList t g).lookup s := by
  simp only [docList, fixedList, List.lookup_append, flatVs_lookup_none _ _ _ h1, imgFlat_lookup_none _ _ h2]
  simp

theorem optSec_lookup_ne (c : Bool) (s s' : Str) (o : IniSec) (h : s ≠ s') : (optSec c s o).lookup s' = none := by
  unfold optSec; split <;> simp [lookup_cons_eq, h]

theorem baseL_lookup_ne (t : TreeInfo) (s' : Str) (h : sBase ≠ s') : (baseL t).lookup s' = none := by
  unfold baseL
  split
  · cases t.baseProduct <;> simp [lookup_cons_eq, h]
  · rfl

end TI
end PM
