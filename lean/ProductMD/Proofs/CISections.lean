import ProductMD.Proofs.CIValid
/-! C01, per-section round trips: header, compose, release, base product. -/
namespace PM.CI
open PM

deriving instance DecidableEq for Except

theorem versionTuple_current : versionTuple currentVersion = .ok Gen.VERSION := by decide +kernel

theorem sub_of_get {l : List (Str × PyVal)} {k : Str} {v : PyVal} (h : PyVal.get? (.dict l) k = some v) :
    sub (.dict l) k = .ok v := by
  simp [sub, h]
theorem version_not_lt_1_1 : verLt Gen.VERSION (1, 1) = false := by decide
theorem version_not_lt_1_0 : verLt Gen.VERSION (1, 0) = false := by decide

theorem verLt_0_3_of (ver : Nat × Nat) (h : verLt ver (1, 0) = false) : verLt ver (0, 3) = false ∧ verLt (0, 3) ver = true := by
  obtain ⟨a, b⟩ := ver
  simp [verLt] at h ⊢
  omega

/-- the header the writer produces is read back as the current version -/
theorem headerDe_ok (rest : List (Str × PyVal))
    (h : validateClass "common.Header" (headerObj (.str currentVersion)) = .ok ()) :
    headerDe (.dict ((k%"header", headerVal) :: rest)) = .ok Gen.VERSION := by
  simp [headerDe, sub, PyVal.get?, headerVal, h, asStr, versionTuple_current, headerTypeCheck, version_not_lt_1_1, pyEq_str]

theorem composeDe_ok (ver : Nat × Nat) (hv : verLt ver (0, 3) = false) (c : Compose) (rest : List (Str × PyVal))
    (h : validateClass "composeinfo.Compose" (composeObj c) = .ok ()) :
    composeDe ver (.dict ((k%"compose", composeVal c) :: rest)) = .ok c.norm := by
  cases c with
  | mk id type date respin label final =>
  cases label with
  | none =>
    have h' := h
    simp only [composeObj] at h'
    rw [compose_final_irrelevant _ _ _ _ final false] at h'
    simp [composeDe, hv, sub, getD, PyVal.get?, composeVal, orNone, PyVal.truthy, h', asStr, asInt, Compose.norm]
  | some l =>
    cases l with
    | nil => exact absurd h (compose_empty_label_invalid _ rfl)
    | cons ch cs =>
      simp only [composeObj] at h
      simp [composeDe, hv, sub, getD, PyVal.get?, composeVal, orNone, PyVal.truthy, h, asStr, asInt, Compose.norm]

theorem releaseDe_ok (ver : Nat × Nat) (hv : verLt (0, 3) ver = true) (r : Release) (l : List (Str × PyVal))
    (hget : PyVal.get? (.dict l) k%"release" = some (releaseVal r))
    (h : validateClass "composeinfo.Release" (releaseObj r) = .ok ()) :
    releaseDe ver (.dict l) = .ok r.norm := by
  have hl := release_ok_lower r h
  cases r with
  | mk name short version type isLayered internal =>
  simp only [releaseObj] at h
  simp only at hl
  simp only [releaseDe, hv, sub_of_get hget]
  cases isLayered <;>
    simp [sub, getD, PyVal.get?, releaseVal, lowerVal, hl, PyVal.truthy, h, asStr, Release.norm]

theorem baseDe_ok (b : BaseProduct) (l : List (Str × PyVal))
    (hget : PyVal.get? (.dict l) k%"base_product" = some (baseVal b))
    (h : validateClass "composeinfo.BaseProduct" (baseObj (some b)) = .ok ()) :
    baseDe (.dict l) = .ok b := by
  cases b with
  | mk name short version type =>
  simp only [baseObj] at h
  simp only [baseDe, sub_of_get hget]
  simp [sub, getD, PyVal.get?, baseVal, h, asStr]

end PM.CI
