import ProductMD.Proofs.PyCanon
/-!
Association-list and spine lemmas behind C12 / C03: `lookup`/`put`, `getPath`, and the generic facts about
`setPathS` (the chain of `setdefault` calls followed by a leaf update):

* `setPathS_frame`   – every lookup path that leaves the spine, or that the leaf update does not touch, reads the
                       same value afterwards (also when the call failed);
* `setPathS_leaf`    – what is stored at the end of the spine, and the outcome, are the leaf update's;
* `setPathS_atomic`  – if the leaf update is atomic and succeeds on a fresh `{}`, a failing call changes nothing;
* `setPathS_jsonRep` – JSON-representability is preserved.
-/
namespace PM.Mf
open PM

/-! ### lookup / put -/

theorem lookup_put_same (kvs : Kvs) (k : Str) (v : PyVal) : lookup (put kvs k v) k = some v := by
  induction kvs with
  | nil => simp [put, lookup]
  | cons p rest ih =>
    obtain ⟨k1, v1⟩ := p
    simp only [put]
    split
    · simp [lookup]
    · rename_i h
      simp only [lookup, h]
      simpa using ih

theorem lookup_put_other (kvs : Kvs) (k k' : Str) (v : PyVal) (h : k' ≠ k) :
    lookup (put kvs k v) k' = lookup kvs k' := by
  induction kvs with
  | nil =>
    have : ¬ k = k' := fun e => h e.symm
    simp [put, lookup, this]
  | cons p rest ih =>
    obtain ⟨k1, v1⟩ := p
    simp only [put]
    split
    · rename_i h1
      have e : k1 = k := by simpa using h1
      subst e
      have : ¬ k1 = k' := fun e => h e.symm
      simp [lookup, this]
    · simp only [lookup, ih]

theorem put_lookup_self (kvs : Kvs) (k : Str) (c : PyVal) (h : lookup kvs k = some c) : put kvs k c = kvs := by
  induction kvs with
  | nil => simp [lookup] at h
  | cons p rest ih =>
    obtain ⟨k1, v1⟩ := p
    simp only [lookup] at h
    simp only [put]
    split at h
    · rename_i h1
      have e : k1 = k := by simpa using h1
      simp only [Option.some.injEq] at h
      simp [e, h]
    · rename_i h1
      simp [h1, ih h]

theorem hasKey_put (kvs : Kvs) (k k' : Str) (v : PyVal) :
    hasKey (put kvs k v) k' = (k == k' || hasKey kvs k') := by
  induction kvs with
  | nil => simp [put, hasKey]
  | cons p rest ih =>
    obtain ⟨k1, v1⟩ := p
    simp only [put]
    split
    · rename_i h1
      have e : k1 = k := by simpa using h1
      subst e
      simp [hasKey]
    · simp only [hasKey, ih]
      cases (k1 == k') <;> cases (k == k') <;> simp

theorem lookup_none_of_hasKey_false (kvs : Kvs) (k : Str) (h : hasKey kvs k = false) : lookup kvs k = none := by
  induction kvs with
  | nil => rfl
  | cons p rest ih =>
    obtain ⟨k1, v1⟩ := p
    simp only [hasKey, Bool.or_eq_false_iff] at h
    simp [lookup, h.1, ih h.2]

/-! ### JSON-representability through lookup / put -/

theorem jsonRep_of_lookup (kvs : Kvs) (k : Str) (c : PyVal) (hj : jsonRepKvs kvs = true) (h : lookup kvs k = some c) :
    jsonRep c = true := by
  induction kvs with
  | nil => simp [lookup] at h
  | cons p rest ih =>
    obtain ⟨k1, v1⟩ := p
    simp only [jsonRepKvs, Bool.and_eq_true] at hj
    simp only [lookup] at h
    split at h
    · simp only [Option.some.injEq] at h
      rw [← h]; exact hj.1.2
    · exact ih hj.2 h

theorem jsonRepKvs_put (kvs : Kvs) (k : Str) (v : PyVal) (hj : jsonRepKvs kvs = true) (hv : jsonRep v = true) :
    jsonRepKvs (put kvs k v) = true := by
  induction kvs with
  | nil => simp [put, jsonRepKvs, hasKey, hv]
  | cons p rest ih =>
    obtain ⟨k1, v1⟩ := p
    simp only [jsonRepKvs, Bool.and_eq_true] at hj
    simp only [put]
    split
    · rename_i h1
      have e : k1 = k := by simpa using h1
      subst e
      simp only [jsonRepKvs, Bool.and_eq_true]
      exact ⟨⟨hj.1.1, hv⟩, hj.2⟩
    · rename_i h1
      simp only [jsonRepKvs, Bool.and_eq_true, hasKey_put]
      refine ⟨⟨?_, hj.1.2⟩, ih hj.2⟩
      have h2 : (k == k1) = false := by
        have : ¬ k1 = k := by simpa using h1
        exact beq_false_of_ne (fun e : k = k1 => this e.symm)
      have h3 : hasKey rest k1 = false := by simpa using hj.1.1
      simp [h2, h3]

theorem jsonRepList_append (xs ys : List PyVal) (hx : jsonRepList xs = true) (hy : jsonRepList ys = true) :
    jsonRepList (xs ++ ys) = true := by
  induction xs with
  | nil => simpa using hy
  | cons x xs ih =>
    simp only [jsonRepList, Bool.and_eq_true] at hx
    simp only [List.cons_append, jsonRepList, Bool.and_eq_true]
    exact ⟨hx.1, ih hx.2⟩

/-! ### getPath -/

theorem getPath_nil (v : PyVal) : getPath v [] = some v := by
  cases v <;> rfl

theorem getPath_dict_cons (kvs : Kvs) (k : Str) (ks : List Str) :
    getPath (.dict kvs) (k :: ks) = (lookup kvs k).bind (fun c => getPath c ks) := by
  simp only [getPath]
  cases lookup kvs k <;> rfl

theorem getPath_empty_cons (k : Str) (ks : List Str) : getPath (.dict []) (k :: ks) = none := by
  simp [getPath_dict_cons, lookup]

theorem getPath_empty_ne_nil (p : List Str) (h : p ≠ []) : getPath (.dict []) p = none := by
  cases p with
  | nil => exact absurd rfl h
  | cons k ks => exact getPath_empty_cons k ks

/-- `p` leaves the spine `ks` at some key, or runs along all of it and continues with a `Q` path -/
def Off (Q : List Str → Prop) : List Str → List Str → Prop
  | p, [] => Q p
  | [], _ :: _ => False
  | k' :: ps, k :: ks => k' ≠ k ∨ Off Q ps ks

theorem Off_nil (Q : List Str → Prop) (p : List Str) : Off Q p [] = Q p := by
  cases p <;> rfl

theorem Off_ne_nil {Q : List Str → Prop} (hQ : ¬ Q []) : ∀ (p ks : List Str), Off Q p ks → p ≠ []
  | [], [], h => absurd h hQ
  | [], _ :: _, h => by simp [Off] at h
  | _ :: _, _, _ => by simp

/-! ### the spine -/

theorem setPathS_nil (f : PyVal → PyVal × Out) (v : PyVal) : setPathS f [] v = f v := by
  cases v <;> rfl

theorem setPathS_dict_cons (f : PyVal → PyVal × Out) (k : Str) (ks : List Str) (kvs : Kvs) :
    setPathS f (k :: ks) (.dict kvs) =
      (.dict (put kvs k (setPathS f ks ((lookup kvs k).getD (.dict []))).1),
       (setPathS f ks ((lookup kvs k).getD (.dict []))).2) := rfl

theorem setPathS_nondict_cons (f : PyVal → PyVal × Out) (k : Str) (ks : List Str) (v : PyVal)
    (h : ∀ kvs, v ≠ .dict kvs) : setPathS f (k :: ks) v = (v, .error .attributeError) := by
  cases v <;> first | rfl | exact absurd rfl (h _)

theorem setPathS_frame (f : PyVal → PyVal × Out) (Q : List Str → Prop) (hQ : ¬ Q [])
    (hf : ∀ x q, Q q → getPath (f x).1 q = getPath x q) :
    ∀ (ks : List Str) (v : PyVal) (p : List Str), Off Q p ks →
      getPath (setPathS f ks v).1 p = getPath v p := by
  intro ks
  induction ks with
  | nil => intro v p h; rw [setPathS_nil]; rw [Off_nil] at h; exact hf v p h
  | cons k ks ih =>
    intro v p h
    by_cases hv : ∃ kvs, v = .dict kvs
    · obtain ⟨kvs, rfl⟩ := hv
      cases p with
      | nil => simp [Off] at h
      | cons k' ps =>
        rw [setPathS_dict_cons, getPath_dict_cons, getPath_dict_cons]
        by_cases hk : k' = k
        · subst hk
          have hoff : Off Q ps ks := by
            simp only [Off] at h
            rcases h with h | h
            · exact absurd rfl h
            · exact h
          rw [lookup_put_same]
          simp only [Option.bind_some]
          rw [ih _ ps hoff]
          cases hl : lookup kvs k' with
          | some c => simp
          | none =>
            simp only [Option.getD_none, Option.bind_none]
            exact getPath_empty_ne_nil ps (Off_ne_nil hQ ps ks hoff)
        · rw [lookup_put_other _ _ _ _ hk]
    · have hv' : ∀ kvs, v ≠ .dict kvs := fun kvs e => hv ⟨kvs, e⟩
      rw [setPathS_nondict_cons f k ks v hv']

theorem leafArg_dict_cons (k : Str) (ks : List Str) (kvs : Kvs) :
    leafArg (k :: ks) (.dict kvs) = leafArg ks ((lookup kvs k).getD (.dict [])) := rfl

theorem leafArg_nil (v : PyVal) : leafArg [] v = some v := by
  cases v <;> rfl

theorem leafArg_nondict_cons (k : Str) (ks : List Str) (v : PyVal) (h : ∀ kvs, v ≠ .dict kvs) :
    leafArg (k :: ks) v = none := by
  cases v <;> first | rfl | exact absurd rfl (h _)

/-- what the leaf update is applied to: the value stored at the end of the spine, or the fresh `{}` -/
theorem leafArg_eq : ∀ (ks : List Str) (v x : PyVal), leafArg ks v = some x →
    x = (getPath v ks).getD (.dict []) := by
  intro ks
  induction ks with
  | nil => intro v x h; rw [leafArg_nil] at h; rw [getPath_nil]; simpa using h.symm
  | cons k ks ih =>
    intro v x h
    by_cases hv : ∃ kvs, v = .dict kvs
    · obtain ⟨kvs, rfl⟩ := hv
      rw [leafArg_dict_cons] at h
      have := ih _ x h
      rw [getPath_dict_cons]
      cases hl : lookup kvs k with
      | some c => simpa [hl] using this
      | none =>
        rw [hl] at this
        simp only [Option.getD_none] at this
        simp only [Option.bind_none, Option.getD_none]
        rw [this]
        cases ks with
        | nil => simp [getPath_nil]
        | cons k2 ks2 => simp [getPath_empty_cons]
    · have hv' : ∀ kvs, v ≠ .dict kvs := fun kvs e => hv ⟨kvs, e⟩
      rw [leafArg_nondict_cons k ks v hv'] at h
      cases h

theorem setPathS_leaf (f : PyVal → PyVal × Out) : ∀ (ks : List Str) (v x : PyVal), leafArg ks v = some x →
    getPath (setPathS f ks v).1 ks = some (f x).1 ∧ (setPathS f ks v).2 = (f x).2 := by
  intro ks
  induction ks with
  | nil =>
    intro v x h
    rw [leafArg_nil] at h
    cases h
    rw [setPathS_nil, getPath_nil]
    exact ⟨rfl, rfl⟩
  | cons k ks ih =>
    intro v x h
    by_cases hv : ∃ kvs, v = .dict kvs
    · obtain ⟨kvs, rfl⟩ := hv
      rw [leafArg_dict_cons] at h
      have := ih _ x h
      rw [setPathS_dict_cons, getPath_dict_cons, lookup_put_same]
      exact ⟨by simpa using this.1, this.2⟩
    · have hv' : ∀ kvs, v ≠ .dict kvs := fun kvs e => hv ⟨kvs, e⟩
      rw [leafArg_nondict_cons k ks v hv'] at h
      cases h

theorem setPathS_noleaf (f : PyVal → PyVal × Out) : ∀ (ks : List Str) (v : PyVal), leafArg ks v = none →
    setPathS f ks v = (v, .error .attributeError) := by
  intro ks
  induction ks with
  | nil => intro v h; rw [leafArg_nil] at h; cases h
  | cons k ks ih =>
    intro v h
    by_cases hv : ∃ kvs, v = .dict kvs
    · obtain ⟨kvs, rfl⟩ := hv
      rw [leafArg_dict_cons] at h
      rw [setPathS_dict_cons, ih _ h]
      cases hl : lookup kvs k with
      | some c => simp [put_lookup_self kvs k c hl]
      | none =>
        -- the fresh `{}` always has a leaf: impossible
        rw [hl] at h
        exfalso
        clear ih hl
        induction ks with
        | nil => simp [leafArg_nil] at h
        | cons k2 ks2 ih2 => rw [Option.getD_none, leafArg_dict_cons] at h; simp only [lookup, Option.getD_none] at h; exact ih2 (by simpa using h)
    · have hv' : ∀ kvs, v ≠ .dict kvs := fun kvs e => hv ⟨kvs, e⟩
      exact setPathS_nondict_cons f k ks v hv'

/-- on a fresh `{}` the spine is created and the outcome is the leaf update's on `{}` -/
theorem setPathS_fresh (f : PyVal → PyVal × Out) : ∀ ks : List Str, (setPathS f ks (.dict [])).2 = (f (.dict [])).2 := by
  intro ks
  induction ks with
  | nil => rw [setPathS_nil]
  | cons k ks ih => rw [setPathS_dict_cons]; simpa [lookup] using ih

/-- a failing call changes nothing, provided the leaf update is atomic on the leaves that can occur (`P`) and
succeeds on the fresh `{}` -/
theorem setPathS_atomic (f : PyVal → PyVal × Out) (P : PyVal → Prop)
    (hf : ∀ x e, P x → (f x).2 = .error e → (f x).1 = x) (h0 : (f (.dict [])).2 = .ok ()) :
    ∀ (ks : List Str) (v : PyVal) (e : Err), (∀ x, leafArg ks v = some x → P x) →
      (setPathS f ks v).2 = .error e → (setPathS f ks v).1 = v := by
  intro ks
  induction ks with
  | nil =>
    intro v e hP h
    rw [setPathS_nil] at h ⊢
    exact hf v e (hP v (leafArg_nil v)) h
  | cons k ks ih =>
    intro v e hP h
    by_cases hv : ∃ kvs, v = .dict kvs
    · obtain ⟨kvs, rfl⟩ := hv
      rw [setPathS_dict_cons] at h ⊢
      simp only at h ⊢
      cases hl : lookup kvs k with
      | none =>
        rw [hl] at h
        simp only [Option.getD_none] at h
        rw [setPathS_fresh, h0] at h
        cases h
      | some c =>
        rw [hl] at h
        simp only [Option.getD_some] at h ⊢
        have hP' : ∀ x, leafArg ks c = some x → P x := by
          intro x hx
          apply hP x
          rw [leafArg_dict_cons, hl]
          simpa using hx
        rw [ih c e hP' h, put_lookup_self kvs k c hl]
    · have hv' : ∀ kvs, v ≠ .dict kvs := fun kvs e => hv ⟨kvs, e⟩
      rw [setPathS_nondict_cons f k ks v hv']

theorem setPathS_jsonRep (f : PyVal → PyVal × Out) (hf : ∀ x, jsonRep x = true → jsonRep (f x).1 = true) :
    ∀ (ks : List Str) (v : PyVal), jsonRep v = true → jsonRep (setPathS f ks v).1 = true := by
  intro ks
  induction ks with
  | nil => intro v h; rw [setPathS_nil]; exact hf v h
  | cons k ks ih =>
    intro v h
    by_cases hv : ∃ kvs, v = .dict kvs
    · obtain ⟨kvs, rfl⟩ := hv
      rw [setPathS_dict_cons]
      simp only [jsonRep] at h ⊢
      apply jsonRepKvs_put _ _ _ h
      apply ih
      cases hl : lookup kvs k with
      | none => simp [jsonRep, jsonRepKvs]
      | some c => simpa using jsonRep_of_lookup kvs k c h hl
    · have hv' : ∀ kvs, v ≠ .dict kvs := fun kvs e => hv ⟨kvs, e⟩
      rw [setPathS_nondict_cons f k ks v hv']
      exact h

/-! ### the interpreted statement lists are the documented functions -/

theorem outNorm (x : PyVal × Out) :
    (match x with
      | (s', Except.ok _) => (s', (Except.ok () : Out))
      | (s', Except.error e) => (s', Except.error e)) = x := by
  obtain ⟨s', r⟩ := x
  cases r <;> rfl

theorem rpmsRun_spec (s : PyVal) (a : RpmsArgs) : rpmsRun a specRpmsScript s (REnv.init a) = Rpms.addSpec s a := by
  unfold Rpms.addSpec rpmsCheck
  simp only [specRpmsScript, rpmsRun, rpmsPure, refuseIf, reduceCtorEq, ↓reduceIte, REnv.init]
  by_cases h1 : (!Gen.RPM_ARCHES.contains a.arch) = true
  · simp only [h1, ↓reduceIte]
  simp only [h1, ↓reduceIte, Bool.false_eq_true]
  by_cases h2 : srcArches.contains a.arch = true
  · simp only [h2, ↓reduceIte]
  simp only [h2, ↓reduceIte, Bool.false_eq_true]
  by_cases h3 : (!Gen.SUPPORTED_CATEGORIES.contains a.category) = true
  · simp only [h3, ↓reduceIte]
  simp only [h3, ↓reduceIte, Bool.false_eq_true]
  by_cases h4 : a.path.isEmpty = true
  · simp only [h4, ↓reduceIte]
  simp only [h4, ↓reduceIte, Bool.false_eq_true]
  by_cases h5 : Str.startsWith a.path ['/'] = true
  · simp only [h5, ↓reduceIte]
  simp only [h5, ↓reduceIte, Bool.false_eq_true]
  cases hc : checkNevra a.nevra with
  | error e => simp only
  | ok r =>
    obtain ⟨c, d⟩ := r
    simp only
    by_cases h6 : (a.category == lit "source" && a.srpm.isSome) = true
    · simp only [h6, ↓reduceIte]
    simp only [h6, ↓reduceIte, Bool.false_eq_true]
    by_cases h7 : (a.category != lit "source" && a.srpm.isNone) = true
    · simp only [h7, ↓reduceIte]
    simp only [h7, ↓reduceIte, Bool.false_eq_true]
    by_cases h8 : ((a.category == lit "source") != archIn nevraSrcArches d.arch) = true
    · simp only [h8, ↓reduceIte]
    simp only [h8, ↓reduceIte, Bool.false_eq_true]
    cases hs : a.srpm with
    | none => simp only [rpmsInsert]; exact outNorm _
    | some t =>
      simp only
      by_cases h9 : t.isEmpty = true
      · simp only [h9, ↓reduceIte, rpmsInsert]; exact outNorm _
      simp only [h9, ↓reduceIte, Bool.false_eq_true]
      cases hc2 : checkNevra t with
      | error e => simp only [Except.map]
      | ok r2 =>
        obtain ⟨c2, d2⟩ := r2
        simp only [Except.map, rpmsInsert]; exact outNorm _

theorem modulesRun_spec (s : PyVal) (a : ModulesArgs) :
    modulesRun a specModulesScript s (MEnv.init a) = Modules.addSpec s a := by
  unfold Modules.addSpec modulesCheck
  simp only [specModulesScript, modulesRun, modulesPure, refuseIf, reduceCtorEq, ↓reduceIte, MEnv.init]
  by_cases h1 : a.variant.isEmpty = true
  · simp only [h1, ↓reduceIte]
  simp only [h1, ↓reduceIte, Bool.false_eq_true]
  by_cases h2 : (!Gen.RPM_ARCHES.contains a.arch) = true
  · simp only [h2, ↓reduceIte]
  simp only [h2, ↓reduceIte, Bool.false_eq_true]
  by_cases h3 : (!Gen.SUPPORTED_CATEGORIES.contains a.category) = true
  · simp only [h3, ↓reduceIte]
  simp only [h3, ↓reduceIte, Bool.false_eq_true]
  cases hc : checkUid a.uid with
  | error e => simp only
  | ok r =>
    obtain ⟨c, u⟩ := r
    simp only
    by_cases h5 : a.kojiTag.isEmpty = true
    · simp only [h5, ↓reduceIte, Bool.or_true, Bool.true_or]
    simp only [h5, ↓reduceIte, Bool.false_eq_true, Bool.false_or, Bool.or_false]
    by_cases h6 : a.modulemdPath.isEmpty = true
    · simp only [h6, ↓reduceIte]
    simp only [h6, ↓reduceIte, Bool.false_eq_true]
    by_cases h4 : Str.startsWith a.modulemdPath ['/'] = true
    · simp only [h4, ↓reduceIte]
    simp only [h4, ↓reduceIte, Bool.false_eq_true]
    cases hr : a.rpms with
    | other => simp only [↓reduceIte]
    | list xs => simp only [Bool.false_eq_true, ↓reduceIte, modulesInsert, hr]; exact outNorm _
    | tuple xs => simp only [Bool.false_eq_true, ↓reduceIte, modulesInsert, hr]; exact outNorm _

theorem extraRun_spec (s : PyVal) (a : ExtraArgs) : extraRun a specExtraScript s = ExtraFiles.addSpec s a := by
  unfold ExtraFiles.addSpec extraCheck
  simp only [specExtraScript, extraRun, extraPure, refuseIf, reduceCtorEq, ↓reduceIte]
  by_cases h1 : a.variant.isEmpty = true
  · simp only [h1, ↓reduceIte]
  simp only [h1, ↓reduceIte, Bool.false_eq_true]
  by_cases h2 : (!Gen.RPM_ARCHES.contains a.arch) = true
  · simp only [h2, ↓reduceIte]
  simp only [h2, ↓reduceIte, Bool.false_eq_true]
  by_cases h3 : a.path.isEmpty = true
  · simp only [h3, ↓reduceIte]
  simp only [h3, ↓reduceIte, Bool.false_eq_true]
  by_cases h4 : Str.startsWith a.path ['/'] = true
  · simp only [h4, ↓reduceIte]
  simp only [h4, ↓reduceIte, Bool.false_eq_true]
  by_cases h5 : (!a.checksums.isinstance .dict) = true
  · simp only [h5, ↓reduceIte]
  simp only [h5, ↓reduceIte, Bool.false_eq_true]
  exact outNorm _

/-! obligations on the generated statement lists (tools/gen_builders.py): the three `add` methods consist of exactly
the documented refusals, in the documented order, followed by the insertion.  A refusal removed, added, reordered
or rewritten in the source changes `Gen.*_add_script` (and with it the executable model) and these stop compiling. -/
theorem rpms_script_eq : Gen.rpms_add_script = specRpmsScript := by decide
theorem modules_script_eq : Gen.modules_add_script = specModulesScript := by decide
theorem extra_script_eq : Gen.extra_add_script = specExtraScript := by decide

/-- `Rpms.add` (the interpreted source statements) is: the documented refusals, then the insertion -/
theorem Rpms.add_eq (s : PyVal) (a : RpmsArgs) :
    Rpms.add s a = match rpmsCheck a with
      | .error e => (s, .error e)
      | .ok p => setPathS (rpmsLeaf p.key p.record) [a.variant, a.arch, p.srpmKey] s := by
  unfold Rpms.add
  rw [rpms_script_eq, rpmsRun_spec]
  rfl

theorem Modules.add_eq (s : PyVal) (a : ModulesArgs) :
    Modules.add s a = match modulesCheck a with
      | .error e => (s, .error e)
      | .ok p => setPathS (modulesLeaf p) [a.variant, a.arch, p.uid] s := by
  unfold Modules.add
  rw [modules_script_eq, modulesRun_spec]
  rfl

theorem ExtraFiles.add_eq (s : PyVal) (a : ExtraArgs) :
    ExtraFiles.add s a = match extraCheck a with
      | .error e => (s, .error e)
      | .ok rec => setPathS (extraLeaf a.arch rec) [a.variant] s := by
  unfold ExtraFiles.add
  rw [extra_script_eq, extraRun_spec]
  rfl

end PM.Mf
