import ProductMD.Proofs.C05TreeInfo
import ProductMD.Properties.C04
import ProductMD.Model.TreeInfoDown
/-!
C05, treeinfo down-conversion: what `TI.down` does to the lookups and the section names of the written file.
-/
namespace PM.TI
open Ini
set_option Elab.async false

/-! ### lookups in the down-converted file -/

theorem isVarSec_headAV {s : Str} (h : isVarSec s = true) : headAV s := by
  unfold isVarSec Str.startsWith at h
  rw [pVariant_eq, pAddon_eq] at h
  cases s with
  | nil => simp [List.isPrefixOf] at h
  | cons c cs =>
    simp only [List.isPrefixOf, Bool.or_eq_true, Bool.and_eq_true, beq_iff_eq] at h
    rcases h with h | h
    · right; simp [h.1.symm]
    · left; simp [h.1.symm]

theorem isVarSec_secName (type uid : Str) : isVarSec (secName type uid) = true := by
  unfold isVarSec secName Str.startsWith
  split
  · have : pAddon.isPrefixOf (pAddon ++ uid) = true := by rw [List.isPrefixOf_iff_prefix]; exact ⟨uid, rfl⟩
    simp [this]
  · have : pVariant.isPrefixOf (pVariant ++ uid) = true := by rw [List.isPrefixOf_iff_prefix]; exact ⟨uid, rfl⟩
    simp [this]

theorem not_headAV_of {s : Str} {c : Char} (h : s.head? = some c) (h1 : c ≠ 'a') (h2 : c ≠ 'v') : ¬ headAV s := by
  intro hh
  rcases hh with hh | hh <;> rw [h] at hh <;> injection hh with hh
  · exact h1 hh
  · exact h2 hh

theorem lookup_cons' {β} (s : Str) (p : Str × β) (l : List (Str × β)) :
    (p :: l).lookup s = if (s == p.1) = true then some p.2 else l.lookup s := by
  obtain ⟨a, b⟩ := p
  simp only [List.lookup]
  cases s == a <;> rfl

variable (D : TDown) (vs : Str) (src : Bool) (ck : Str)

theorem downSec_header (p : Str × IniSec) (e1 : p.1 = sHeader) : downSec D vs src ck p = (sHeader, downHeaderOpts D vs) := by
  simp [downSec, e1]
theorem downSec_release (p : Str × IniSec) (ho : D.old = true) (e2 : p.1 = sRelease) : downSec D vs src ck p = (sProduct', p.2) := by
  have : (sRelease == sHeader) = false := by decide
  simp [downSec, e2, ho, this]
theorem downSec_var (p : Str × IniSec) (ho : D.old = true) (e1 : p.1 ≠ sHeader) (e2 : p.1 ≠ sRelease) (e3 : isVarSec p.1 = true) :
    downSec D vs src ck p = (p.1, p.2.filterMap (downVarOpt src ck)) := by
  simp [downSec, e1, e2, ho, e3]
theorem downSec_id_new (p : Str × IniSec) (ho : D.old = false) (e1 : p.1 ≠ sHeader) : downSec D vs src ck p = p := by
  simp [downSec, e1, ho]
theorem downSec_id_old (p : Str × IniSec) (e1 : p.1 ≠ sHeader) (e2 : p.1 ≠ sRelease) (e3 : isVarSec p.1 = false) :
    downSec D vs src ck p = p := by
  simp [downSec, e1, e2, e3]

theorem beq_false_of_ne {a b : Str} (h : a ≠ b) : (a == b) = false := by simpa using h

/-- sections the conversion does not touch -/
theorem down_lookup_same (s : Str) (h1 : s ≠ sHeader) (h2 : D.old = true → s ≠ sRelease ∧ s ≠ sProduct' ∧ isVarSec s = false) :
    ∀ d : Ini, (d.map (downSec D vs src ck)).lookup s = d.lookup s
  | [] => rfl
  | p :: d => by
    have ih := down_lookup_same s h1 h2 d
    simp only [List.map_cons, lookup_cons']
    by_cases e1 : p.1 = sHeader
    · rw [downSec_header D vs src ck p e1, e1, beq_false_of_ne h1]; exact ih
    · cases ho : D.old with
      | false => rw [downSec_id_new D vs src ck p ho e1, ih]
      | true =>
        obtain ⟨a, b, c⟩ := h2 ho
        by_cases e2 : p.1 = sRelease
        · rw [downSec_release D vs src ck p ho e2, e2, beq_false_of_ne a, beq_false_of_ne b]; exact ih
        · cases e3 : isVarSec p.1 with
          | true =>
            have n1 : s ≠ p.1 := by intro e; rw [e] at c; rw [c] at e3; cases e3
            rw [downSec_var D vs src ck p ho e1 e2 e3, beq_false_of_ne n1]; exact ih
          | false => rw [downSec_id_old D vs src ck p e1 e2 e3, ih]

theorem down_lookup_header : ∀ d : Ini, (d.map (downSec D vs src ck)).lookup sHeader = (d.lookup sHeader).map fun _ => downHeaderOpts D vs
  | [] => rfl
  | p :: d => by
    have ih := down_lookup_header d
    simp only [List.map_cons, lookup_cons']
    by_cases e1 : p.1 = sHeader
    · rw [downSec_header D vs src ck p e1, e1]; simp
    · have n1 : sHeader ≠ p.1 := fun h => e1 h.symm
      rw [beq_false_of_ne n1]
      cases ho : D.old with
      | false => rw [downSec_id_new D vs src ck p ho e1, beq_false_of_ne n1]; exact ih
      | true =>
        by_cases e2 : p.1 = sRelease
        · rw [downSec_release D vs src ck p ho e2]
          have : (sHeader == sProduct') = false := by decide
          simp only [this]; exact ih
        · cases e3 : isVarSec p.1 with
          | true => rw [downSec_var D vs src ck p ho e1 e2 e3, beq_false_of_ne n1]; exact ih
          | false => rw [downSec_id_old D vs src ck p e1 e2 e3, beq_false_of_ne n1]; exact ih

theorem down_lookup_product (ho : D.old = true) : ∀ d : Ini, d.lookup sProduct' = none →
    (d.map (downSec D vs src ck)).lookup sProduct' = d.lookup sRelease
  | [], _ => rfl
  | p :: d, hn => by
    simp only [lookup_cons'] at hn
    have hp : (sProduct' == p.1) = false := by
      cases h : sProduct' == p.1 with
      | false => rfl
      | true => rw [h] at hn; simp at hn
    rw [hp] at hn
    have ih := down_lookup_product ho d (by simpa using hn)
    simp only [List.map_cons, lookup_cons']
    by_cases e1 : p.1 = sHeader
    · rw [downSec_header D vs src ck p e1, e1]
      have n1 : (sRelease == sHeader) = false := by decide
      have n2 : (sProduct' == sHeader) = false := by decide
      simp only [n1, n2]; exact ih
    · by_cases e2 : p.1 = sRelease
      · rw [downSec_release D vs src ck p ho e2, e2]; simp
      · have n1 : sRelease ≠ p.1 := fun h => e2 h.symm
        rw [beq_false_of_ne n1]
        cases e3 : isVarSec p.1 with
        | true => rw [downSec_var D vs src ck p ho e1 e2 e3, hp]; exact ih
        | false => rw [downSec_id_old D vs src ck p e1 e2 e3, hp]; exact ih

theorem down_lookup_var (ho : D.old = true) (s : Str) (hs : isVarSec s = true) : ∀ d : Ini,
    (d.map (downSec D vs src ck)).lookup s = (d.lookup s).map fun o => o.filterMap (downVarOpt src ck)
  | [] => rfl
  | p :: d => by
    have ih := down_lookup_var ho s hs d
    have k1 : s ≠ sHeader := by intro e; rw [e] at hs; revert hs; decide
    have k2 : s ≠ sRelease := by intro e; rw [e] at hs; revert hs; decide
    have k3 : s ≠ sProduct' := by intro e; rw [e] at hs; revert hs; decide
    simp only [List.map_cons, lookup_cons']
    by_cases e1 : p.1 = sHeader
    · rw [downSec_header D vs src ck p e1, e1, beq_false_of_ne k1]; exact ih
    · by_cases e2 : p.1 = sRelease
      · rw [downSec_release D vs src ck p ho e2, e2, beq_false_of_ne k2, beq_false_of_ne k3]; exact ih
      · cases e3 : isVarSec p.1 with
        | true =>
          rw [downSec_var D vs src ck p ho e1 e2 e3]
          cases h : s == p.1 <;> simp [ih]
        | false =>
          have n1 : s ≠ p.1 := by intro e; rw [e] at hs; rw [hs] at e3; cases e3
          rw [downSec_id_old D vs src ck p e1 e2 e3, beq_false_of_ne n1]; exact ih

/-- the section names: `release` renamed for ≤ 0.3, nothing else -/
def renameSec (D : TDown) (s : Str) : Str := if D.old && s == sRelease then sProduct' else s

theorem down_names : ∀ d : Ini, (d.map (downSec D vs src ck)).map (·.1) = (d.map (·.1)).map (renameSec D)
  | [] => rfl
  | p :: d => by
    simp only [List.map_cons, down_names d]
    congr 1
    unfold renameSec
    by_cases e1 : p.1 = sHeader
    · have : (sHeader == sRelease) = false := by decide
      rw [downSec_header D vs src ck p e1, e1, this]; simp
    · cases ho : D.old with
      | false => rw [downSec_id_new D vs src ck p ho e1]; simp
      | true =>
        by_cases e2 : p.1 = sRelease
        · rw [downSec_release D vs src ck p ho e2, e2]; simp
        · rw [beq_false_of_ne e2]
          cases e3 : isVarSec p.1 with
          | true => rw [downSec_var D vs src ck p ho e1 e2 e3]; simp
          | false => rw [downSec_id_old D vs src ck p e1 e2 e3]; simp

end PM.TI
