import ProductMD.Proofs.TreeInfoText
import ProductMD.Proofs.SortDedup
/-!
Helper lemmas for C17: the options of `[general]` one by one, the text layer, the main-variant lookup, the
platform list.
-/
namespace PM
namespace TI
open Ini

/-! ### `[general]`, option by option -/

theorem generalBase_lookup (t : TreeInfo) (k : Str) (h0 : k ≠ kWarn0) (h1 : k ≠ kWarn1) :
    (generalBase t).lookup k =
      if kPlatforms = k then some (platformsStr t.tree) else if kArch = k then some t.tree.arch
      else if kVersion = k then some t.release.version else if kFamily = k then some t.release.name
      else if kName = k then some (t.release.name ++ ' ' :: t.release.version) else none := by
  have h0' : ¬ kWarn0 = k := fun e => h0 e.symm
  have h1' : ¬ kWarn1 = k := fun e => h1 e.symm
  simp only [generalBase, setsKV, List.foldl, lookup_setKV, lookup_cons_eq, h0', h1', if_false, List.lookup]

theorem generalOpts_lookup (t : TreeInfo) (n : Int) (key : Str) (v : Variant) (k : Str) :
    (generalOpts t n key v).lookup k =
      match (if kRepository = k then generalPath t.tree.arch v.paths "repository".toList "source_repository".toList else none) with
      | some p => some p
      | none =>
        match (if kPackagedir = k then generalPath t.tree.arch v.paths "packages".toList "source_packages".toList else none) with
        | some p => some p
        | none =>
          if tVariant = k then some key
          else if kVariants = k then some (Str.joinWith ',' (Ini.sortS (t.variants.map Variant.key)))
          else if kTimestamp = k then some (Str.intStr n) else (generalBase t).lookup k := by
  simp only [generalOpts]
  generalize generalPath t.tree.arch v.paths "packages".toList "source_packages".toList = pk
  generalize generalPath t.tree.arch v.paths "repository".toList "source_repository".toList = rp
  cases pk <;> cases rp <;> simp only [withOpt, lookup_setKV] <;>
    by_cases e1 : kRepository = k <;> by_cases e2 : kPackagedir = k <;> simp [e1, e2]

/-! ### through the text -/

/-- a non-comment option reads the same in the document the text reader returns -/
theorem opt_readDoc (d : Ini) (s k : Str) (hk : nc k = true) : opt (readDoc d) s k = opt d s k := by
  unfold opt
  rw [readDoc_lookup]
  cases d.lookup s with
  | none => rfl
  | some o =>
    simp only [Option.map_some, Option.bind_some]
    rw [lookup_filter_key (fun k => !IniText.isCommentName k) _ k hk, lookup_sortKV]

/-! ### the main variant -/

theorem split1_spec (sep : Char) : ∀ (s head tail : Str), Str.split1 sep s = [head, tail] → s = head ++ sep :: tail
  | [], _, _, h => by simp [Str.split1] at h
  | c :: cs, head, tail, h => by
    simp only [Str.split1] at h
    by_cases hc : c = sep
    · simp only [hc, if_true, List.cons.injEq, and_true] at h
      obtain ⟨h1, h2⟩ := h
      subst h1 h2 hc; rfl
    · simp only [hc, if_false] at h
      cases hs : Str.split1 sep cs with
      | nil => rw [hs] at h; simp at h
      | cons x r =>
        rw [hs] at h
        cases r with
        | nil => simp at h
        | cons y r2 =>
          simp only [List.cons.injEq] at h
          obtain ⟨h1, h2, h3⟩ := h
          subst h1 h2 h3
          have := split1_spec sep cs x y hs
          rw [this]; rfl

theorem split1_of_mem (sep : Char) : ∀ name : Str, sep ∈ name → ∃ a b, Str.split1 sep name = [a, b]
  | [], h => by cases h
  | c :: cs, h => by
    simp only [Str.split1]
    by_cases hc : c = sep
    · exact ⟨[], cs, by simp [hc]⟩
    · have hcs : sep ∈ cs := by
        rcases List.mem_cons.mp h with h' | h'
        · exact absurd h'.symm hc
        · exact h'
      obtain ⟨a, b, hab⟩ := split1_of_mem sep cs hcs
      exact ⟨c :: a, b, by simp [hc, hab]⟩

/-- the lookup never runs out of fuel and refuses with `KeyError` only -/
theorem getItem_error : ∀ (f : Nat) (vs : List Variant) (name : Str) (e : Err), name.length < f →
    getItem f vs name = .error e → e = .keyError
  | 0, _, _, _, h, _ => by omega
  | f + 1, vs, name, e, hf, h => by
    rw [getItem] at h
    split at h
    · cases h
    · split at h
      · split at h
        · cases h
        · split at h
          · rename_i head tail hs
            split at h
            · rename_i v _
              have hlen : tail.length < f := by
                have := split1_spec '-' name head tail hs
                rw [this] at hf
                simp at hf; omega
              exact getItem_error f v.kids tail e hlen h
            · injection h with h; exact h.symm
          · -- `split("-", 1)` of a name that contains a dash has two parts
            rename_i hcont _ _ _ hne
            exfalso
            obtain ⟨a, b, hab⟩ := split1_of_mem '-' name (by simpa using hcont)
            exact hne a b hab
      · injection h with h; exact h.symm

/-- a requested name without a dash designates a top-level variant by its container key, nothing else -/
theorem getItem_dashless (f : Nat) (vs : List Variant) (name : Str) (v : Variant) (hd : name.contains '-' = false)
    (h : getItem (f + 1) vs name = .ok v) : v ∈ vs ∧ v.key = name := by
  rw [getItem] at h
  split at h
  · rename_i w hw
    injection h with h; subst h
    have := List.find?_some hw
    exact ⟨List.mem_of_find?_eq_some hw, by simpa using this⟩
  · have hd' : '-' ∉ name := by simpa using hd
    simp [hd'] at h

/-- how a requested name designates a variant: a container key; else (with a dash) a UID of the level; else a dashed path
`<key>-<rest>` into the children -/
inductive Designates : List Variant → Str → Variant → Prop where
  | key {vs name v} : v ∈ vs → v.key = name → Designates vs name v
  | uid {vs name v} : name.contains '-' = true → (∀ w ∈ vs, w.key ≠ name) → v ∈ vs → v.uid = name → Designates vs name v
  | path {vs name head tail p v} : name = head ++ '-' :: tail → (∀ w ∈ vs, w.key ≠ name) → (∀ w ∈ vs, w.uid ≠ name) →
      p ∈ vs → p.key = head → Designates p.kids tail v → Designates vs name v

theorem getItem_designates : ∀ (f : Nat) (vs : List Variant) (name : Str) (v : Variant),
    getItem f vs name = .ok v → Designates vs name v
  | 0, _, _, _, h => by simp [getItem] at h
  | f + 1, vs, name, v, h => by
    rw [getItem] at h
    split at h
    · rename_i w hw
      injection h with h; subst h
      exact .key (List.mem_of_find?_eq_some hw) (by simpa using List.find?_some hw)
    · rename_i hnone
      have hk : ∀ w ∈ vs, w.key ≠ name := by
        intro w hw e
        have := List.find?_eq_none.mp hnone w hw
        simp [e] at this
      split at h
      · rename_i hdash
        split at h
        · rename_i w hw
          injection h with h; subst h
          exact .uid hdash hk (List.mem_of_find?_eq_some hw) (by simpa using List.find?_some hw)
        · rename_i hnone2
          have hu : ∀ w ∈ vs, w.uid ≠ name := by
            intro w hw e
            have := List.find?_eq_none.mp hnone2 w hw
            simp [e] at this
          split at h
          · rename_i head tail hs
            split at h
            · rename_i p hp
              exact .path (split1_spec '-' name head tail hs) hk hu (List.mem_of_find?_eq_some hp)
                (by simpa using List.find?_some hp) (getItem_designates f p.kids tail v h)
            · cases h
          · cases h
      · cases h

/-! ### the default main variant -/

theorem sortS_head_min (l : List Str) (k : Str) (r : List Str) (h : sortS l = k :: r) : k ∈ l ∧ ∀ k' ∈ l, k ≤ k' := by
  have hs : (sortS l).Pairwise (KeyLe id) := sortBy_sorted id l
  rw [h] at hs
  have hk : k ∈ l := (mem_sortS l k).mp (by rw [h]; exact List.mem_cons_self ..)
  refine ⟨hk, ?_⟩
  intro k' hk'
  have : k' ∈ k :: r := by rw [← h]; exact (mem_sortS l k').mpr hk'
  rcases List.mem_cons.mp this with e | e
  · subst e; exact List.le_refl _
  · exact (List.pairwise_cons.mp hs).1 k' e

end TI
end PM
