import ProductMD.Proofs.C08History
import ProductMD.Model.BuilderSlots
/-!
C08 for whole histories, the three builders: each `add` (the interpreted statement list of the source, through
`Rpms.add_eq` / `Modules.add_eq` / `ExtraFiles.add_eq`) satisfies `Hist.Commutes` for the independence relation "not the same
order-sensitive cell":

* rpms         cell = `[variant, arch, srpm key, rpm key]` (two writes of one slot: the later wins);
* modules      cell = `[variant, arch, canonical uid]` (repeated adds extend the caller-ordered rpm list, rewrite metadata);
* extra_files  cell = `[variant, arch]` (the caller-ordered entry list);
* a call the precondition checks refuse has no cell (it writes nothing, whatever the mapping).
-/
namespace PM.Mf
open PM

theorem nodup_of_nodupAll {e : Kvs} (h : NodupAll (.dict e)) : (e.map (·.1)).Nodup := by
  simp only [NodupAll] at h; exact h.1

/-! ### Rpms.add -/

theorem rpmsLeaf_dict (k : Str) (r : PyVal) (e : Kvs) : rpmsLeaf k r (.dict e) = (.dict (put e k r), .ok ()) := rfl
theorem rpmsLeaf_nondict (k : Str) (r x : PyVal) (h : ∀ e, x ≠ .dict e) : rpmsLeaf k r x = (x, .error .typeError) := by
  cases x <;> first | rfl | exact absurd rfl (h _)

theorem rpmsLeaf_nodup (k : Str) (r : PyVal) (hr : NodupAll r) (x : PyVal) (hx : NodupAll x) : NodupAll (rpmsLeaf k r x).1 := by
  by_cases hv : ∃ e, x = .dict e
  · obtain ⟨e, rfl⟩ := hv
    rw [rpmsLeaf_dict]
    exact nodupAll_dict_put _ _ _ hx hr
  · rw [rpmsLeaf_nondict k r x (fun e h => hv ⟨e, h⟩)]
    exact hx

theorem rpmsLeaf_jeq (k : Str) (r x y : PyVal) (hx : NodupAll x) (hj : JEq x y) :
    JEq (rpmsLeaf k r x).1 (rpmsLeaf k r y).1 ∧ (rpmsLeaf k r x).2 = (rpmsLeaf k r y).2 := by
  by_cases hv : ∃ e, x = .dict e
  · obtain ⟨e, rfl⟩ := hv
    obtain ⟨e', rfl, hd⟩ := hj.dict_inv
    have hn := nodup_of_nodupAll hx
    simp only [rpmsLeaf_dict]
    exact ⟨.dict (put_jeqD hd hn k (.refl r)) (put_keys_nodup _ _ _ hn), trivial⟩
  · have hv' : ∀ e, x ≠ .dict e := fun e h => hv ⟨e, h⟩
    rw [rpmsLeaf_nondict k r x hv', rpmsLeaf_nondict k r y (hj.notDict hv')]
    exact ⟨hj, rfl⟩

/-- two packages under one source package: either order, the same table up to dict order -/
theorem rpmsLeaf_comm (k1 k2 : Str) (r1 r2 : PyVal) (hne : k1 ≠ k2) (x : PyVal) (hx : NodupAll x) :
    JEq (rpmsLeaf k2 r2 (rpmsLeaf k1 r1 x).1).1 (rpmsLeaf k1 r1 (rpmsLeaf k2 r2 x).1).1 ∧
    (rpmsLeaf k2 r2 (rpmsLeaf k1 r1 x).1).2 = (rpmsLeaf k2 r2 x).2 ∧
    (rpmsLeaf k1 r1 (rpmsLeaf k2 r2 x).1).2 = (rpmsLeaf k1 r1 x).2 := by
  by_cases hv : ∃ e, x = .dict e
  · obtain ⟨e, rfl⟩ := hv
    have hn := nodup_of_nodupAll hx
    simp only [rpmsLeaf_dict]
    exact ⟨.dict (JEqD.of_perm (put_comm_perm e k1 k2 r1 r2 hne)) (put_keys_nodup _ _ _ (put_keys_nodup _ _ _ hn)), trivial, trivial⟩
  · have hv' : ∀ e, x ≠ .dict e := fun e h => hv ⟨e, h⟩
    simp only [rpmsLeaf_nondict _ _ x hv']
    exact ⟨.refl _, trivial, trivial⟩

theorem nodupAll_rpmRecord (sk : Option Str) (path cat : Str) : NodupAll (rpmRecord sk path cat) := by
  unfold rpmRecord
  simp only [NodupAll, NodupAllK, List.map_cons, List.map_nil]
  refine ⟨by decide, ?_⟩
  cases sk <;> simp [optStr, NodupAll]

theorem rpmsCheck_record_nodup (a : RpmsArgs) (p : RpmsPlan) (h : rpmsCheck a = .ok p) : NodupAll p.record := by
  unfold rpmsCheck at h
  repeat' split at h
  all_goals first
    | (cases h; exact nodupAll_rpmRecord _ _ _)
    | cases h
    | (generalize Except.map _ _ = r at h; cases r <;> first | (cases h; exact nodupAll_rpmRecord _ _ _) | cases h)

theorem rpms_commutes : Hist.Commutes Rpms.add (CellIndep rpmsSlot) where
  inv := by
    intro s a hs
    rw [Rpms.add_eq]
    cases hc : rpmsCheck a with
    | error e => exact hs
    | ok p => exact setPathS_nodupAll _ (rpmsLeaf_nodup _ _ (rpmsCheck_record_nodup a p hc)) _ s hs
  congr := by
    intro s s' a hs hj
    rw [Rpms.add_eq, Rpms.add_eq]
    cases hc : rpmsCheck a with
    | error e => exact ⟨hj, rfl⟩
    | ok p => exact setPathS_jeq _ (fun x y => rpmsLeaf_jeq _ _ x y) _ s s' hs hj
  swap := by
    intro s a b hs hi
    simp only [Rpms.add_eq]
    cases ha : rpmsCheck a with
    | error e => exact ⟨.refl _, rfl, rfl⟩
    | ok pa =>
      cases hb : rpmsCheck b with
      | error e => exact ⟨.refl _, rfl, rfl⟩
      | ok pb =>
        simp only
        have hne : [a.variant, a.arch, pa.srpmKey, pa.key] ≠ [b.variant, b.arch, pb.srpmKey, pb.key] := by
          rcases hi with h | h | h
          · simp [rpmsSlot, ha] at h
          · simp [rpmsSlot, hb] at h
          · simpa [rpmsSlot, ha, hb] using h
        by_cases hp : [a.variant, a.arch, pa.srpmKey] = [b.variant, b.arch, pb.srpmKey]
        · have hk : pa.key ≠ pb.key := by
            intro e
            apply hne
            simp only [List.cons.injEq, and_true] at hp ⊢
            exact ⟨hp.1, hp.2.1, hp.2.2, e⟩
          rw [← hp]
          exact setPathS_comm_same _ _ (rpmsLeaf_comm pa.key pb.key pa.record pb.record hk) _ s hs
        · exact ⟨setPathS_comm _ _ _ _ (by simp) hp s hs,
                 setPathS_out_other _ _ _ _ (by simp) (fun e => hp e.symm) s,
                 setPathS_out_other _ _ _ _ (by simp) hp s⟩

/-! ### a write that the next call replaces -/

theorem setPathS_fst_congr (f g : PyVal → PyVal × Out) (h : ∀ x, (f x).1 = (g x).1) :
    ∀ (p : List Str) (s : PyVal), (setPathS f p s).1 = (setPathS g p s).1 := by
  intro p
  induction p with
  | nil => intro s; simp only [setPathS_nil, h]
  | cons k ks ih =>
    intro s
    by_cases hv : ∃ kvs, s = .dict kvs
    · obtain ⟨kvs, rfl⟩ := hv
      simp only [setPathS_dict_cons, ih]
    · have hv' : ∀ kvs, s ≠ .dict kvs := fun kvs e => hv ⟨kvs, e⟩
      simp only [setPathS_nondict_cons _ k ks s hv']

/-- two updates at one address, one after the other, are one update with the composed leaf function -/
theorem setPathS_fuse (f1 f2 : PyVal → PyVal × Out) :
    ∀ (p : List Str) (s : PyVal), (setPathS f2 p (setPathS f1 p s).1).1 = (setPathS (fun x => f2 (f1 x).1) p s).1 := by
  intro p
  induction p with
  | nil => intro s; simp only [setPathS_nil]
  | cons k ks ih =>
    intro s
    by_cases hv : ∃ kvs, s = .dict kvs
    · obtain ⟨kvs, rfl⟩ := hv
      simp only [setPathS_dict_cons, lookup_put_same, Option.getD_some, put_put_same, ih]
    · have hv' : ∀ kvs, s ≠ .dict kvs := fun kvs e => hv ⟨kvs, e⟩
      simp only [setPathS_nondict_cons _ k ks s hv']

theorem rpmsLeaf_overwrite (k : Str) (r1 r2 x : PyVal) : (rpmsLeaf k r2 (rpmsLeaf k r1 x).1).1 = (rpmsLeaf k r2 x).1 := by
  by_cases hv : ∃ e, x = .dict e
  · obtain ⟨e, rfl⟩ := hv
    simp only [rpmsLeaf_dict, put_put_same]
  · have hv' : ∀ e, x ≠ .dict e := fun e h => hv ⟨e, h⟩
    simp only [rpmsLeaf_nondict _ _ x hv']

/-- a write that the NEXT call of the history replaces (same slot) leaves no trace in the mapping -/
theorem rpms_overwrite (s : PyVal) (a b : RpmsArgs) (hab : rpmsSlot a = rpmsSlot b) (hb : rpmsSlot b ≠ Option.none) :
    (Rpms.add (Rpms.add s a).1 b).1 = (Rpms.add s b).1 := by
  simp only [Rpms.add_eq]
  cases ha' : rpmsCheck a with
  | error e => rfl
  | ok pa =>
    cases hb' : rpmsCheck b with
    | error e => simp [rpmsSlot, hb'] at hb
    | ok pb =>
      simp only [rpmsSlot, ha', hb', Option.some.injEq, List.cons.injEq, and_true] at hab
      obtain ⟨h1, h2, h3, h4⟩ := hab
      simp only [h1, h2, h3, h4]
      rw [setPathS_fuse]
      exact setPathS_fst_congr _ _ (fun x => rpmsLeaf_overwrite pb.key pa.record pb.record x) _ s

/-! ### Modules.add -/

theorem modulesLeaf_nondict (p : ModulesPlan) (x : PyVal) (h : ∀ e, x ≠ .dict e) : modulesLeaf p x = (x, .error .typeError) := by
  cases x <;> first | rfl | exact absurd rfl (h _)

/-- the entry after `metadata["metadata"] = {...}` -/
def mE1 (p : ModulesPlan) (e : Kvs) : Kvs := put e (lit "metadata") p.metadata
/-- … and after `metadata.setdefault("modulemd_path", {})[category] = modulemd_path` -/
def mE2 (p : ModulesPlan) (e mp : Kvs) : Kvs := put (mE1 p e) (lit "modulemd_path") (.dict (put mp p.category (.str p.path)))

theorem modulesLeaf_B (p : ModulesPlan) (e : Kvs)
    (h : ∀ mp, (lookup (mE1 p e) (lit "modulemd_path")).getD (.dict []) ≠ .dict mp) :
    modulesLeaf p (.dict e) = (.dict (mE1 p e), .error .typeError) := by
  simp only [modulesLeaf]
  split
  · rename_i mp hm; exact absurd hm (h mp)
  · rfl

theorem modulesLeaf_C (p : ModulesPlan) (e mp : Kvs)
    (hm : (lookup (mE1 p e) (lit "modulemd_path")).getD (.dict []) = .dict mp)
    (h : ∀ l, (lookup (mE2 p e mp) (lit "rpms")).getD (.list []) ≠ .list l) :
    modulesLeaf p (.dict e) = (.dict (mE2 p e mp), .error .attributeError) := by
  simp only [modulesLeaf]
  simp only [mE1] at hm
  simp only [hm]
  split
  · rename_i l hl; exact absurd hl (h l)
  · rfl

theorem modulesLeaf_D (p : ModulesPlan) (e mp : Kvs) (l : List PyVal)
    (hm : (lookup (mE1 p e) (lit "modulemd_path")).getD (.dict []) = .dict mp)
    (h : (lookup (mE2 p e mp) (lit "rpms")).getD (.list []) = .list l) :
    modulesLeaf p (.dict e) = (.dict (put (mE2 p e mp) (lit "rpms") (.list (l ++ p.rpms))), .ok ()) := by
  simp only [modulesLeaf]
  simp only [mE1] at hm
  simp only [hm]
  simp only [mE2, mE1] at h
  simp only [h]
  rfl

theorem modulesLeaf_nodup (p : ModulesPlan) (hp : NodupAll p.metadata) (x : PyVal) (hx : NodupAll x) :
    NodupAll (modulesLeaf p x).1 := by
  by_cases hv : ∃ e, x = .dict e
  · obtain ⟨e, rfl⟩ := hv
    have h1 : NodupAll (.dict (mE1 p e)) := nodupAll_dict_put _ _ _ hx hp
    by_cases hm : ∃ mp, (lookup (mE1 p e) (lit "modulemd_path")).getD (.dict []) = .dict mp
    · obtain ⟨mp, hm⟩ := hm
      have hmp : NodupAll (.dict mp) := hm ▸ nodupAll_getD _ _ _ h1 nodupAll_empty
      have h2 : NodupAll (.dict (mE2 p e mp)) :=
        nodupAll_dict_put _ _ _ h1 (nodupAll_dict_put _ _ _ hmp (by simp [NodupAll]))
      by_cases hl : ∃ l, (lookup (mE2 p e mp) (lit "rpms")).getD (.list []) = .list l
      · obtain ⟨l, hl⟩ := hl
        rw [modulesLeaf_D p e mp l hm hl]
        exact nodupAll_dict_put _ _ _ h2 (by simp [NodupAll])
      · rw [modulesLeaf_C p e mp hm (fun l h => hl ⟨l, h⟩)]
        exact h2
    · rw [modulesLeaf_B p e (fun mp h => hm ⟨mp, h⟩)]
      exact h1
  · rw [modulesLeaf_nondict p x (fun e h => hv ⟨e, h⟩)]
    exact hx

theorem modulesLeaf_jeq (p : ModulesPlan) (hp : NodupAll p.metadata) (x y : PyVal) (hx : NodupAll x) (hj : JEq x y) :
    JEq (modulesLeaf p x).1 (modulesLeaf p y).1 ∧ (modulesLeaf p x).2 = (modulesLeaf p y).2 := by
  by_cases hv : ∃ e, x = .dict e
  · obtain ⟨e, rfl⟩ := hv
    obtain ⟨e', rfl, hd⟩ := hj.dict_inv
    have hn := nodup_of_nodupAll hx
    have n1 : NodupAll (.dict (mE1 p e)) := nodupAll_dict_put _ _ _ hx hp
    have hn1 := nodup_of_nodupAll n1
    have h1 : JEqD (mE1 p e) (mE1 p e') := put_jeqD hd hn _ (.refl _)
    have hmj := (lookup_jeqD h1 hn1 (lit "modulemd_path")).getD (.dict [])
    by_cases hm : ∃ mp, (lookup (mE1 p e) (lit "modulemd_path")).getD (.dict []) = .dict mp
    · obtain ⟨mp, hm⟩ := hm
      rw [hm] at hmj
      obtain ⟨mp', hm', hdm⟩ := hmj.dict_inv
      have nmp : NodupAll (.dict mp) := hm ▸ nodupAll_getD _ _ _ n1 nodupAll_empty
      have hnmp := nodup_of_nodupAll nmp
      have n2 : NodupAll (.dict (mE2 p e mp)) :=
        nodupAll_dict_put _ _ _ n1 (nodupAll_dict_put _ _ _ nmp (by simp [NodupAll]))
      have hn2 := nodup_of_nodupAll n2
      have h2 : JEqD (mE2 p e mp) (mE2 p e' mp') :=
        put_jeqD h1 hn1 _ (.dict (put_jeqD hdm hnmp _ (.refl _)) (put_keys_nodup _ _ _ hnmp))
      have hrj := (lookup_jeqD h2 hn2 (lit "rpms")).getD (.list [])
      by_cases hl : ∃ l, (lookup (mE2 p e mp) (lit "rpms")).getD (.list []) = .list l
      · obtain ⟨l, hl⟩ := hl
        rw [hl] at hrj
        obtain ⟨l', hl', hll⟩ := hrj.list_inv
        rw [modulesLeaf_D p e mp l hm hl, modulesLeaf_D p e' mp' l' hm' hl']
        exact ⟨.dict (put_jeqD h2 hn2 _ (.list (hll.append_right _))) (put_keys_nodup _ _ _ hn2), rfl⟩
      · have hl0 : ∀ l, (lookup (mE2 p e mp) (lit "rpms")).getD (.list []) ≠ .list l := fun l h => hl ⟨l, h⟩
        rw [modulesLeaf_C p e mp hm hl0, modulesLeaf_C p e' mp' hm' (hrj.notList hl0)]
        exact ⟨.dict h2 hn2, rfl⟩
    · have hm0 : ∀ mp, (lookup (mE1 p e) (lit "modulemd_path")).getD (.dict []) ≠ .dict mp := fun mp h => hm ⟨mp, h⟩
      rw [modulesLeaf_B p e hm0, modulesLeaf_B p e' (hmj.notDict hm0)]
      exact ⟨.dict h1 hn1, rfl⟩
  · have hv' : ∀ e, x ≠ .dict e := fun e h => hv ⟨e, h⟩
    rw [modulesLeaf_nondict p x hv', modulesLeaf_nondict p y (hj.notDict hv')]
    exact ⟨hj, rfl⟩

theorem nodupAll_moduleMetadata (uid : Str) (u : UidParts) (tag : Str) : NodupAll (moduleMetadata uid u tag) := by
  unfold moduleMetadata
  simp only [NodupAll, NodupAllK, List.map_cons, List.map_nil]
  exact ⟨by decide, by simp⟩

theorem modulesCheck_metadata_nodup (a : ModulesArgs) (p : ModulesPlan) (h : modulesCheck a = .ok p) : NodupAll p.metadata := by
  unfold modulesCheck at h
  repeat' split at h
  all_goals first
    | (cases h; exact nodupAll_moduleMetadata _ _ _)
    | cases h

theorem modules_commutes : Hist.Commutes Modules.add (CellIndep modulesSlot) where
  inv := by
    intro s a hs
    rw [Modules.add_eq]
    cases hc : modulesCheck a with
    | error e => exact hs
    | ok p => exact setPathS_nodupAll _ (modulesLeaf_nodup _ (modulesCheck_metadata_nodup a p hc)) _ s hs
  congr := by
    intro s s' a hs hj
    rw [Modules.add_eq, Modules.add_eq]
    cases hc : modulesCheck a with
    | error e => exact ⟨hj, rfl⟩
    | ok p => exact setPathS_jeq _ (fun x y => modulesLeaf_jeq _ (modulesCheck_metadata_nodup a p hc) x y) _ s s' hs hj
  swap := by
    intro s a b hs hi
    simp only [Modules.add_eq]
    cases ha : modulesCheck a with
    | error e => exact ⟨.refl _, rfl, rfl⟩
    | ok pa =>
      cases hb : modulesCheck b with
      | error e => exact ⟨.refl _, rfl, rfl⟩
      | ok pb =>
        simp only
        have hp : [a.variant, a.arch, pa.uid] ≠ [b.variant, b.arch, pb.uid] := by
          rcases hi with h | h | h
          · simp [modulesSlot, ha] at h
          · simp [modulesSlot, hb] at h
          · simpa [modulesSlot, ha, hb] using h
        exact ⟨setPathS_comm _ _ _ _ (by simp) hp s hs,
               setPathS_out_other _ _ _ _ (by simp) (fun e => hp e.symm) s,
               setPathS_out_other _ _ _ _ (by simp) hp s⟩

/-! ### ExtraFiles.add -/

theorem extraLeaf_nondict (a : Str) (r x : PyVal) (h : ∀ e, x ≠ .dict e) : extraLeaf a r x = (x, .error .attributeError) := by
  cases x <;> first | rfl | exact absurd rfl (h _)

theorem extraLeaf_list (a : Str) (r : PyVal) (am : Kvs) (l : List PyVal) (h : (lookup am a).getD (.list []) = .list l) :
    extraLeaf a r (.dict am) = (.dict (put am a (.list (l ++ [r]))), .ok ()) := by
  simp only [extraLeaf, h]

theorem extraLeaf_nonlist (a : Str) (r : PyVal) (am : Kvs) (h : ∀ l, (lookup am a).getD (.list []) ≠ .list l) :
    extraLeaf a r (.dict am) = (.dict am, .error .attributeError) := by
  simp only [extraLeaf]

theorem extraLeaf_nodup (a : Str) (r x : PyVal) (hx : NodupAll x) : NodupAll (extraLeaf a r x).1 := by
  by_cases hv : ∃ e, x = .dict e
  · obtain ⟨am, rfl⟩ := hv
    by_cases hl : ∃ l, (lookup am a).getD (.list []) = .list l
    · obtain ⟨l, hl⟩ := hl
      rw [extraLeaf_list a r am l hl]
      exact nodupAll_dict_put _ _ _ hx (by simp [NodupAll])
    · rw [extraLeaf_nonlist a r am (fun l h => hl ⟨l, h⟩)]
      exact hx
  · rw [extraLeaf_nondict a r x (fun e h => hv ⟨e, h⟩)]
    exact hx

theorem extraLeaf_jeq (a : Str) (r x y : PyVal) (hx : NodupAll x) (hj : JEq x y) :
    JEq (extraLeaf a r x).1 (extraLeaf a r y).1 ∧ (extraLeaf a r x).2 = (extraLeaf a r y).2 := by
  by_cases hv : ∃ e, x = .dict e
  · obtain ⟨am, rfl⟩ := hv
    obtain ⟨am', rfl, hd⟩ := hj.dict_inv
    have hn := nodup_of_nodupAll hx
    have hlj := (lookup_jeqD hd hn a).getD (.list [])
    by_cases hl : ∃ l, (lookup am a).getD (.list []) = .list l
    · obtain ⟨l, hl⟩ := hl
      rw [hl] at hlj
      obtain ⟨l', hl', hll⟩ := hlj.list_inv
      rw [extraLeaf_list a r am l hl, extraLeaf_list a r am' l' hl']
      exact ⟨.dict (put_jeqD hd hn _ (.list (hll.append_right _))) (put_keys_nodup _ _ _ hn), rfl⟩
    · have hl0 : ∀ l, (lookup am a).getD (.list []) ≠ .list l := fun l h => hl ⟨l, h⟩
      rw [extraLeaf_nonlist a r am hl0, extraLeaf_nonlist a r am' (hlj.notList hl0)]
      exact ⟨hj, rfl⟩
  · have hv' : ∀ e, x ≠ .dict e := fun e h => hv ⟨e, h⟩
    rw [extraLeaf_nondict a r x hv', extraLeaf_nondict a r y (hj.notDict hv')]
    exact ⟨hj, rfl⟩

/-- two arches of one variant: the two entry lists are extended independently -/
theorem extraLeaf_comm (a1 a2 : Str) (r1 r2 : PyVal) (hne : a1 ≠ a2) (x : PyVal) (hx : NodupAll x) :
    JEq (extraLeaf a2 r2 (extraLeaf a1 r1 x).1).1 (extraLeaf a1 r1 (extraLeaf a2 r2 x).1).1 ∧
    (extraLeaf a2 r2 (extraLeaf a1 r1 x).1).2 = (extraLeaf a2 r2 x).2 ∧
    (extraLeaf a1 r1 (extraLeaf a2 r2 x).1).2 = (extraLeaf a1 r1 x).2 := by
  have hne' : a2 ≠ a1 := fun e => hne e.symm
  by_cases hv : ∃ e, x = .dict e
  · obtain ⟨am, rfl⟩ := hv
    have hn := nodup_of_nodupAll hx
    by_cases h1 : ∃ l, (lookup am a1).getD (.list []) = .list l
    · obtain ⟨l1, h1⟩ := h1
      by_cases h2 : ∃ l, (lookup am a2).getD (.list []) = .list l
      · obtain ⟨l2, h2⟩ := h2
        have h2' : (lookup (put am a1 (.list (l1 ++ [r1]))) a2).getD (.list []) = .list l2 := by
          rw [lookup_put_other _ _ _ _ hne']; exact h2
        have h1' : (lookup (put am a2 (.list (l2 ++ [r2]))) a1).getD (.list []) = .list l1 := by
          rw [lookup_put_other _ _ _ _ hne]; exact h1
        simp only [extraLeaf_list a1 r1 am l1 h1, extraLeaf_list a2 r2 am l2 h2, extraLeaf_list a2 r2 _ l2 h2',
          extraLeaf_list a1 r1 _ l1 h1']
        exact ⟨.dict (JEqD.of_perm (put_comm_perm am a1 a2 _ _ hne)) (put_keys_nodup _ _ _ (put_keys_nodup _ _ _ hn)), trivial, trivial⟩
      · have h20 : ∀ l, (lookup am a2).getD (.list []) ≠ .list l := fun l h => h2 ⟨l, h⟩
        have h2' : ∀ l, (lookup (put am a1 (.list (l1 ++ [r1]))) a2).getD (.list []) ≠ .list l := by
          rw [lookup_put_other _ _ _ _ hne']; exact h20
        simp only [extraLeaf_list a1 r1 am l1 h1, extraLeaf_nonlist a2 r2 am h20, extraLeaf_nonlist a2 r2 _ h2']
        exact ⟨.refl _, trivial, trivial⟩
    · have h10 : ∀ l, (lookup am a1).getD (.list []) ≠ .list l := fun l h => h1 ⟨l, h⟩
      by_cases h2 : ∃ l, (lookup am a2).getD (.list []) = .list l
      · obtain ⟨l2, h2⟩ := h2
        have h1' : ∀ l, (lookup (put am a2 (.list (l2 ++ [r2]))) a1).getD (.list []) ≠ .list l := by
          rw [lookup_put_other _ _ _ _ hne]; exact h10
        simp only [extraLeaf_nonlist a1 r1 am h10, extraLeaf_list a2 r2 am l2 h2, extraLeaf_nonlist a1 r1 _ h1']
        exact ⟨.refl _, trivial, trivial⟩
      · have h20 : ∀ l, (lookup am a2).getD (.list []) ≠ .list l := fun l h => h2 ⟨l, h⟩
        simp only [extraLeaf_nonlist a1 r1 am h10, extraLeaf_nonlist a2 r2 am h20]
        exact ⟨.refl _, trivial, trivial⟩
  · have hv' : ∀ e, x ≠ .dict e := fun e h => hv ⟨e, h⟩
    simp only [extraLeaf_nondict _ _ x hv']
    exact ⟨.refl _, trivial, trivial⟩

theorem extra_commutes : Hist.Commutes ExtraFiles.add (CellIndep extraSlot) where
  inv := by
    intro s a hs
    rw [ExtraFiles.add_eq]
    cases hc : extraCheck a with
    | error e => exact hs
    | ok r => exact setPathS_nodupAll _ (extraLeaf_nodup _ _) _ s hs
  congr := by
    intro s s' a hs hj
    rw [ExtraFiles.add_eq, ExtraFiles.add_eq]
    cases hc : extraCheck a with
    | error e => exact ⟨hj, rfl⟩
    | ok r => exact setPathS_jeq _ (fun x y => extraLeaf_jeq _ _ x y) _ s s' hs hj
  swap := by
    intro s a b hs hi
    simp only [ExtraFiles.add_eq]
    cases ha : extraCheck a with
    | error e => exact ⟨.refl _, rfl, rfl⟩
    | ok ra =>
      cases hb : extraCheck b with
      | error e => exact ⟨.refl _, rfl, rfl⟩
      | ok rb =>
        simp only
        have hne : [a.variant, a.arch] ≠ [b.variant, b.arch] := by
          rcases hi with h | h | h
          · simp [extraSlot, ha] at h
          · simp [extraSlot, hb] at h
          · simpa [extraSlot, ha, hb] using h
        by_cases hp : a.variant = b.variant
        · have hk : a.arch ≠ b.arch := by
            intro e
            apply hne
            rw [hp, e]
          rw [← hp]
          exact setPathS_comm_same _ _ (extraLeaf_comm a.arch b.arch ra rb hk) _ s hs
        · have hp' : [a.variant] ≠ [b.variant] := by simpa using hp
          exact ⟨setPathS_comm _ _ _ _ (by simp) hp' s hs,
                 setPathS_out_other _ _ _ _ (by simp) (fun e => hp' e.symm) s,
                 setPathS_out_other _ _ _ _ (by simp) hp' s⟩

end PM.Mf
