import ProductMD.Proofs.CIPaths
/-! C01, the reader on a written forest: `Variant.build` returns the normal form of every written variant. -/
namespace PM.CI
open PM

mutual
/-- dict keys are the ids and no key occurs twice (what `add()` guarantees), at every level below a variant -/
def wellKeyed : Variant → Bool
  | .mk _ _ _ _ _ _ _ _ kids => decide ((kids.map Variant.id).Nodup) && wellKeyedL kids
def wellKeyedL : List Variant → Bool
  | [] => true
  | v :: vs => decide (v.key = v.id) && wellKeyed v && wellKeyedL vs
end

theorem wellKeyedL_mem : ∀ {vs : List Variant}, wellKeyedL vs = true → ∀ v ∈ vs, v.key = v.id ∧ wellKeyed v = true
  | [], _, v, hv => by cases hv
  | w :: ws, h, v, hv => by
    simp only [wellKeyedL, Bool.and_eq_true, decide_eq_true_eq] at h
    rcases List.mem_cons.mp hv with rfl | hv
    · exact ⟨h.1.1, h.1.2⟩
    · exact wellKeyedL_mem h.2 v hv

theorem GoodL_mem : ∀ {ctx : Ctx} {vs : List Variant}, GoodL ctx vs → ∀ v ∈ vs, Good ctx v
  | _, [], _, v, hv => by cases hv
  | ctx, w :: ws, h, v, hv => by
    simp only [GoodL] at h
    rcases List.mem_cons.mp hv with rfl | hv
    · exact h.1
    · exact GoodL_mem h.2 v hv

theorem Good.valid {ctx : Ctx} {v : Variant} (h : Good ctx v) : validateClass "composeinfo.Variant" (variantObj ctx v) = .ok () := by
  cases v; simp only [Good] at h; exact h.2.2.1

theorem flat_sub_flats : ∀ (v : Variant) (vs : List Variant), v ∈ vs → ∀ x ∈ flat v, x ∈ flats vs
  | v, [], h => by cases h
  | v, w :: ws, h => by
    intro x hx
    simp only [flats, List.mem_append]
    cases h with
    | head => exact .inl hx
    | tail _ h' => exact .inr (flat_sub_flats v ws h' x hx)

theorem self_mem_flat (v : Variant) : (v.uid, entryOf v) ∈ flat v := by
  cases v; simp [flat, Variant.uid]

theorem height_le_heights : ∀ (v : Variant) (vs : List Variant), v ∈ vs → height v ≤ heights vs
  | v, [], h => by cases h
  | v, w :: ws, h => by
    simp only [heights]
    cases h with
    | head => omega
    | tail _ h' => have := height_le_heights v ws h'; omega

/-! ### facts about the normal form -/
theorem norms_eq_map : ∀ (vs : List Variant), norms vs = vs.map Variant.norm
  | [] => rfl
  | v :: vs => by simp [norms, norms_eq_map vs]

@[simp] theorem norm_id (v : Variant) : v.norm.id = v.id := by cases v; simp [Variant.norm, Variant.id]
@[simp] theorem norm_uid (v : Variant) : v.norm.uid = v.uid := by cases v; simp [Variant.norm, Variant.uid]
@[simp] theorem norm_key (v : Variant) : v.norm.key = v.id := by cases v; simp [Variant.norm, Variant.key, Variant.id]
@[simp] theorem norm_type (v : Variant) : v.norm.type = v.type := by cases v; simp [Variant.norm, Variant.type]

theorem findId_norms (i : Str) : ∀ (vs : List Variant), findId i (norms vs) = (findId i vs).map Variant.norm
  | [] => rfl
  | v :: vs => by
    simp only [norms, findId, norm_id]
    split
    · rfl
    · exact findId_norms i vs

theorem findUid_norms (u : Str) : ∀ (vs : List Variant), findUid u (norms vs) = (findUid u vs).map Variant.norm
  | [] => rfl
  | v :: vs => by
    simp only [norms, findUid, norm_uid]
    split
    · rfl
    · exact findUid_norms u vs

theorem findId_some {i : Str} : ∀ {vs : List Variant} {w : Variant}, findId i vs = some w → w ∈ vs ∧ w.id = i
  | [], _, h => by simp [findId] at h
  | v :: vs, w, h => by
    simp only [findId] at h
    split at h
    · rename_i hv; cases h; exact ⟨by simp, hv⟩
    · have := findId_some h; exact ⟨by simp [this.1], this.2⟩

theorem findId_of_mem {i : Str} : ∀ {vs : List Variant}, i ∈ vs.map Variant.id → ∃ w, findId i vs = some w
  | [], h => by simp at h
  | v :: vs, h => by
    simp only [findId]
    split
    · exact ⟨v, rfl⟩
    · rename_i hne
      simp only [List.map_cons, List.mem_cons] at h
      rcases h with h | h
      · exact absurd h.symm hne
      · exact findId_of_mem h

theorem findId_none {i : Str} : ∀ {vs : List Variant}, findId i vs = none → ∀ w ∈ vs, w.id ≠ i
  | [], _, w, hw => by cases hw
  | v :: vs, h, w, hw => by
    simp only [findId] at h
    split at h
    · cases h
    · rename_i hne
      rcases List.mem_cons.mp hw with rfl | hw
      · exact hne
      · exact findId_none h w hw

/-! ### picking children by id -/
theorem collect_pick (f : Str → Except Err Variant) (nk : List Variant) :
    ∀ (ids : List Str), (∀ i ∈ ids, ∃ w, f i = .ok w ∧ findId i nk = some w) → collect (ids.map f) = .ok (pick ids nk) := by
  intro ids
  induction ids with
  | nil => intro _; rfl
  | cons i is ih =>
    intro h
    obtain ⟨w, hf, hw⟩ := h i (by simp)
    have := ih (fun j hj => h j (by simp [hj]))
    simp only [List.map_cons, collect, hf, this, pick, List.filterMap_cons, hw]

theorem pick_ids_sublist (nk : List Variant) : ∀ (ids : List Str), ((pick ids nk).map Variant.id).Sublist ids := by
  intro ids
  induction ids with
  | nil => simp [pick]
  | cons i is ih =>
    simp only [pick, List.filterMap_cons]
    cases h : findId i nk with
    | none => exact List.Sublist.cons _ ih
    | some w =>
      simp only [List.map_cons, (findId_some h).2]
      exact List.Sublist.cons_cons _ ih

theorem pick_mem {nk : List Variant} {ids : List Str} {w : Variant} (h : w ∈ pick ids nk) : w ∈ nk := by
  simp only [pick, List.mem_filterMap] at h
  obtain ⟨i, _, hi⟩ := h
  exact (findId_some hi).1

theorem addAll_ok : ∀ (l acc : List Variant), ((acc ++ l).map Variant.key).Nodup → (∀ v ∈ l, v.key = v.id) →
    addAll acc l = .ok (acc ++ l)
  | [], acc, _, _ => by simp [addAll]
  | v :: vs, acc, hn, hk => by
    have hnone : findKey v.id acc = none := by
      have hnot : v.key ∉ acc.map Variant.key := by
        rw [List.map_append, List.nodup_append] at hn
        intro hmem
        exact hn.2.2 _ hmem _ (by simp) rfl
      rw [← hk v (by simp)]
      clear hn hk
      induction acc with
      | nil => rfl
      | cons a as ih =>
        simp only [List.map_cons, List.mem_cons, not_or] at hnot
        simp only [findKey]
        split
        · rename_i h; exact absurd h.symm hnot.1
        · exact ih hnot.2
    have : addAll (acc ++ [v]) vs = .ok ((acc ++ [v]) ++ vs) :=
      addAll_ok vs (acc ++ [v]) (by simpa using hn) (fun w hw => hk w (by simp [hw]))
    simp only [addAll, hnone, Option.isSome_none, Bool.false_eq_true, if_false, this]
    simp

/-- `findKey` on the picked (re-keyed) children is `findId` on the source -/
theorem findKey_pick (nk : List Variant) (hnk : ∀ w ∈ nk, w.key = w.id) (i : Str) :
    ∀ (js : List Str), js.Nodup → findKey i (pick js nk) = if i ∈ js then findId i nk else none := by
  intro js
  induction js with
  | nil => intro _; simp [pick, findKey]
  | cons j js ih =>
    intro hn
    have ⟨hj, hn'⟩ := List.nodup_cons.mp hn
    have ih' := ih hn'
    simp only [pick, List.filterMap_cons] at ih' ⊢
    cases h : findId j nk with
    | none =>
      simp only [ih', List.mem_cons]
      by_cases hij : i = j
      · subst hij; simp [hj, h]
      · simp [hij]
    | some w =>
      have hw := findId_some h
      have hwk : w.key = j := by rw [hnk w hw.1]; exact hw.2
      simp only [findKey, hwk, List.mem_cons]
      by_cases hij : j = i
      · subst hij; simp [h]
      · have : ¬ i = j := fun h => hij h.symm
        simp [hij, this, ih']

theorem filterMap_congr' {α β} {f g : α → Option β} : ∀ {l : List α}, (∀ a ∈ l, f a = g a) → l.filterMap f = l.filterMap g
  | [], _ => rfl
  | a :: as, h => by
    simp only [List.filterMap_cons, h a (by simp)]
    rw [filterMap_congr' (fun b hb => h b (by simp [hb]))]

/-! ### the validators see the same object before and after normalisation -/
theorem findKey_eq_findId (i : Str) : ∀ (vs : List Variant), (∀ v ∈ vs, v.key = v.id) → findKey i vs = findId i vs
  | [], _ => rfl
  | v :: vs, h => by
    simp only [findKey, findId, h v (by simp)]
    split
    · rfl
    · exact findKey_eq_findId i vs (fun w hw => h w (by simp [hw]))

theorem pick_map_key (nk : List Variant) (hnk : ∀ w ∈ nk, w.key = w.id) :
    ∀ (ids : List Str), (∀ i ∈ ids, ∃ w, findId i nk = some w) → (pick ids nk).map Variant.key = ids := by
  intro ids
  induction ids with
  | nil => intro _; rfl
  | cons i is ih =>
    intro h
    obtain ⟨w, hw⟩ := h i (by simp)
    have hw' := findId_some hw
    simp only [pick, List.filterMap_cons, hw, List.map_cons] at ih ⊢
    rw [ih (fun j hj => h j (by simp [hj])), hnk w hw'.1, hw'.2]

theorem pick_norms (ids : List Str) (vs : List Variant) : pick ids (norms vs) = (pick ids vs).map Variant.norm := by
  simp only [pick, findId_norms]
  rw [List.map_filterMap]

theorem byKeys_of_keyed (vs : List Variant) (hk : ∀ v ∈ vs, v.key = v.id) :
    byKeys vs = pick (Str.sortDedup (vs.map Variant.id)) vs := by
  have hmap : vs.map Variant.key = vs.map Variant.id := List.map_congr_left hk
  unfold byKeys pick
  rw [hmap]
  exact filterMap_congr' (fun i _ => findKey_eq_findId i vs hk)

theorem byKeys_pick_norms (vs : List Variant) (_hk : ∀ v ∈ vs, v.key = v.id) :
    byKeys (pick (Str.sortDedup (vs.map Variant.id)) (norms vs)) = pick (Str.sortDedup (vs.map Variant.id)) (norms vs) := by
  have hnk : ∀ w ∈ norms vs, w.key = w.id := by
    intro w hw
    rw [norms_eq_map] at hw
    obtain ⟨v, _, rfl⟩ := List.mem_map.mp hw
    simp
  have hfound : ∀ i ∈ Str.sortDedup (vs.map Variant.id), ∃ w, findId i (norms vs) = some w := by
    intro i hi
    obtain ⟨w, hw⟩ := findId_of_mem (mem_sortDedup.mp hi)
    exact ⟨w.norm, by rw [findId_norms, hw]; rfl⟩
  unfold byKeys
  rw [pick_map_key _ hnk _ hfound, sortDedup_idem]
  conv => rhs; unfold pick
  apply filterMap_congr'
  intro i hi
  rw [findKey_pick _ hnk i _ (sortDedup_nodup _)]
  simp [hi]

theorem kidsView_norm (pn : Bool) (vs : List Variant) (hk : ∀ v ∈ vs, v.key = v.id) :
    kidsView pn (pick (Str.sortDedup (vs.map Variant.id)) (norms vs)) = kidsView pn vs := by
  unfold kidsView
  rw [byKeys_pick_norms vs hk, byKeys_of_keyed vs hk, pick_norms, List.map_map]
  congr 1
  apply List.map_congr_left
  intro w hw
  have := hk w (pick_mem hw)
  simp [this]

theorem variantObj_norm (ctx : Ctx) (v : Variant) (hk : wellKeyed v = true) : variantObj ctx v.norm = variantObj ctx v := by
  cases v with
  | mk key id uid name type arches paths rel kids =>
  simp only [wellKeyed, Bool.and_eq_true, decide_eq_true_eq] at hk
  simp only [Variant.norm, variantObj, sortDedup_idem]
  rw [kidsView_norm false kids (fun v hv => (wellKeyedL_mem hk.2 v hv).1)]

/-! ### the remaining pieces of one entry -/
theorem entryVal_dict (e : Entry) : ∃ l, entryVal e = .dict l := ⟨_, rfl⟩

theorem variantReleaseDe_ok (ver : Nat × Nat) (hv : verLt (0, 3) ver = true) (e : Entry) (type : Str) (rel : Option Release)
    (he : e.release = if type = layeredProduct then rel.map forceLayered else none)
    (hg : type = layeredProduct → validateClass "composeinfo.Release" (variantReleaseObj rel) = .ok ()) :
    variantReleaseDe ver (.str type) (entryVal e)
      = .ok (if type = layeredProduct then rel.map (fun r => (forceLayered r).norm) else none) := by
  unfold variantReleaseDe
  by_cases ht : type = layeredProduct
  · have hpe : PyVal.pyEq (.str type) (.str layeredProduct) = true := (pyEq_str _ _).mpr ht
    have hval := hg ht
    simp only [if_true, ht]
    cases rel with
    | none =>
      have := blank_release_invalid
      simp only [variantReleaseObj] at hval
      rw [hval] at this
      simp [isOk] at this
    | some r =>
      obtain ⟨l, hl⟩ := entryVal_dict e
      have hget : PyVal.get? (.dict l) k%"release" = some (releaseVal (forceLayered r)) := by
        rw [← hl, entry_release, he]; simp [ht]
      rw [hl, releaseDe_ok ver hv (forceLayered r) l hget hval]
      rfl
  · have hpe : PyVal.pyEq (.str type) (.str layeredProduct) = false := by
      cases h : PyVal.pyEq (.str type) (.str layeredProduct)
      · rfl
      · exact absurd ((pyEq_str _ _).mp h) ht
    simp [hpe, ht]

theorem kidIdsOf_ok (ver : Nat × Nat) (hv : verLt ver (1, 0) = false) (e : Entry) (ids : List Str)
    (he : e.kids = Str.sortDedup ids) : kidIdsOf ver (entryVal e) = .ok (Str.sortDedup ids) := by
  unfold kidIdsOf
  rw [entry_variants, he]
  by_cases hk : Str.sortDedup ids = []
  · simp [hk, hv]
  · simp [hk, asStrList_strList, sortDedup_idem]

theorem sub_flatVal {doc : Flat} (hs : FSorted doc) {k : Str} {e : Entry} (h : (k, e) ∈ doc) :
    sub (flatVal doc) k = .ok (entryVal e) := by
  have : flatVal doc = .dict (doc.map fun p => (p.1, entryVal p.2)) := rfl
  rw [this]
  apply sub_of_get
  rw [get?_map, lookup_of_mem hs.keys_nodup h]
  rfl

end PM.CI
