import ProductMD.Proofs.TreeInfoForestReader
/-!
Decidable equality of trees and decidability of the hypotheses of C04 (for the `decide`d examples and witnesses).
-/
namespace PM
namespace TI

mutual
def Variant.decEq : (a b : Variant) → Decidable (a = b)
  | .mk k1 i1 u1 n1 t1 p1 c1, .mk k2 i2 u2 n2 t2 p2 c2 =>
    if h : k1 = k2 ∧ i1 = i2 ∧ u1 = u2 ∧ n1 = n2 ∧ t1 = t2 ∧ p1 = p2 then
      match Variant.decEqList c1 c2 with
      | isTrue hc => isTrue (by obtain ⟨a, b, c, d, e, f⟩ := h; subst a b c d e f hc; rfl)
      | isFalse hc => isFalse (by intro e; injection e; contradiction)
    else isFalse (by intro e; injection e; simp_all)
def Variant.decEqList : (a b : List Variant) → Decidable (a = b)
  | [], [] => isTrue rfl
  | [], _ :: _ => isFalse (by simp)
  | _ :: _, [] => isFalse (by simp)
  | x :: xs, y :: ys =>
    match Variant.decEq x y, Variant.decEqList xs ys with
    | isTrue h1, isTrue h2 => isTrue (by rw [h1, h2])
    | isFalse h1, _ => isFalse (by intro e; injection e; contradiction)
    | _, isFalse h2 => isFalse (by intro e; injection e; contradiction)
end

instance : DecidableEq Variant := Variant.decEq
deriving instance DecidableEq for Product
deriving instance DecidableEq for Ts
deriving instance DecidableEq for Tree
deriving instance DecidableEq for TreeInfo

instance (tr : Tree) : Decidable (PlatformsOK tr) := by unfold PlatformsOK; infer_instance
instance (vs : List Variant) : Decidable (UidsOK vs) := by unfold UidsOK; infer_instance
instance (vs : List Variant) : Decidable (UidsNodup vs) := by unfold UidsNodup; infer_instance
instance (vs : List Variant) : Decidable (KidIdsNodup vs) := by unfold KidIdsNodup; infer_instance
instance (vs : List Variant) : Decidable (TopNotAddon vs) := by unfold TopNotAddon; infer_instance
instance (cs : List (Str × Str × Str)) : Decidable (ChecksumsOK cs) := by unfold ChecksumsOK; infer_instance
instance (a : Str) (im : List (Str × List (Str × Str))) : Decidable (ImagesOK a im) := by unfold ImagesOK; infer_instance

end TI
end PM
