import ProductMD.Proofs.IniTextTie
import ProductMD.Proofs.TreeInfoReadback
/-!
From the written document to its text and back: the document the text reader returns for the rendering of a
written document is again a view of the same sections.
-/
namespace PM
namespace TI
open Ini

/-! ### rendering -/

theorem renderOpt_eq (kv : Str × Str) : IniText.renderOpt kv = IniParse.renderOption kv := by
  unfold IniText.renderOpt IniParse.renderOption IniText.escNl
  have h1 : " = ".toList = [' ', '=', ' '] := by decide
  have h2 : (fun c : Char => if c = '\n' then ['\n', '\t'] else [c]) = (fun c => if c == '\n' then ['\n', '\t'] else [c]) := by
    funext c; by_cases h : c = '\n' <;> simp [h]
  rw [h1, h2]; simp

theorem renderSec_eq (s : Str × IniSec) : IniText.renderSec s = IniParse.renderSection (s.1, sortKV s.2) := by
  unfold IniText.renderSec IniParse.renderSection
  have : IniText.renderOpt = IniParse.renderOption := funext renderOpt_eq
  rw [this]

theorem filter_noDefault {d : Ini} (h : d.lookup DEFAULT = none) : d.filter (·.1 != DEFAULT) = d := by
  apply List.filter_eq_self.mpr
  intro s hs
  simp only [bne_iff_ne, ne_eq]
  intro e
  have := lookup_isSome_of_mem_keys (List.mem_map.mpr ⟨s, hs, e⟩)
  rw [h] at this; cases this

/-- the bytes `SortedConfigParser.write` produces are the rendering of the sorted document by the proved writer model -/
theorem render_eq_canon (d : Ini) (h : d.lookup DEFAULT = none) : IniText.render d = IniParse.render (IniText.canon d) := by
  unfold IniText.render IniParse.render IniText.canon
  rw [h, filter_noDefault h, List.flatMap_map]
  have : IniText.renderSec = fun s => IniParse.renderSection (s.1, sortKV s.2) := funext renderSec_eq
  rw [this]; rfl

/-! ### lookups in sorted / filtered dictionaries -/

theorem lookup_insertBy {α} (x : Str × α) : ∀ (l : List (Str × α)) (k : Str),
    (insertBy (·.1) x l).lookup k = (x :: l).lookup k
  | [], _ => rfl
  | y :: ys, k => by
    simp only [insertBy]
    cases hlt : Str.lt y.1 x.1
    · rfl
    · have hne : y.1 ≠ x.1 := by
        simp only [Str.lt, decide_eq_true_eq] at hlt
        intro e; rw [e] at hlt; exact List.lt_irrefl _ hlt
      simp only [if_true]
      obtain ⟨yk, yv⟩ := y
      obtain ⟨xk, xv⟩ := x
      rw [lookup_cons_eq, lookup_insertBy (xk, xv) ys k, lookup_cons_eq, lookup_cons_eq, lookup_cons_eq]
      by_cases h1 : yk = k
      · subst h1
        have : ¬ xk = yk := fun e => hne e.symm
        simp [this]
      · simp [h1]

theorem lookup_sortKV {α} : ∀ (l : List (Str × α)) (k : Str), (sortKV l).lookup k = l.lookup k
  | [], _ => rfl
  | x :: xs, k => by
    have : sortKV (x :: xs) = insertBy (·.1) x (sortKV xs) := rfl
    rw [this, lookup_insertBy]
    obtain ⟨xk, xv⟩ := x
    rw [lookup_cons_eq, lookup_cons_eq, lookup_sortKV xs k]

theorem lookup_map_snd {α β} (f : α → β) : ∀ (l : List (Str × α)) (k : Str),
    (l.map fun s => (s.1, f s.2)).lookup k = (l.lookup k).map f
  | [], _ => rfl
  | (a, b) :: xs, k => by
    simp only [List.map_cons]
    rw [lookup_cons_eq, lookup_cons_eq, lookup_map_snd f xs k]
    by_cases h : a = k <;> simp [h]

theorem lookup_filter_key {α} (p : Str → Bool) : ∀ (l : List (Str × α)) (k : Str), p k = true →
    (l.filter fun kv => p kv.1).lookup k = l.lookup k
  | [], _, _ => rfl
  | (a, b) :: xs, k, hk => by
    simp only [List.filter_cons]
    cases hp : p a
    · have : ¬ a = k := fun e => by rw [e, hk] at hp; cases hp
      simp only [Bool.false_eq_true, if_false]
      rw [lookup_cons_eq, lookup_filter_key p xs k hk]; simp [this]
    · simp only [if_true]
      rw [lookup_cons_eq, lookup_cons_eq, lookup_filter_key p xs k hk]

/-- the document the text reader returns for the rendering of `d` -/
def readDoc (d : Ini) : Ini := IniText.dropComments (IniText.canon d)

theorem readDoc_lookup (d : Ini) (s : Str) :
    (readDoc d).lookup s = (d.lookup s).map fun o => (sortKV o).filter fun kv => !IniText.isCommentName kv.1 := by
  unfold readDoc IniText.dropComments IniText.canon
  rw [lookup_map_snd, lookup_map_snd, lookup_sortKV]
  cases d.lookup s <;> rfl

theorem readDoc_names (d : Ini) : ((readDoc d).map (·.1)).Perm (d.map (·.1)) := by
  unfold readDoc IniText.dropComments IniText.canon
  simp only [List.map_map, Function.comp_def]
  exact (sortKV_perm d).map _

/-- no comment-named option: the condition under which `items()` of the re-read section is the sorted section -/
def NoCommentKeys (o : IniSec) : Prop := ∀ kv ∈ o, nc kv.1 = true

/-- **the re-read document is a view of the written sections** -/
theorem view_readDoc {L : List (Str × IniSec)} {d : Ini} (V : View (fun _ => True) L d) : View NoCommentKeys L (readDoc d) := by
  refine ⟨?_, ?_, ?_, (readDoc_names d).trans V.names⟩
  · rw [readDoc_lookup, V.noDefault]; rfl
  · intro s o hs
    obtain ⟨o', ho', hl, hsrt⟩ := V.sec s o hs
    refine ⟨(sortKV o').filter fun kv => !IniText.isCommentName kv.1, by rw [readDoc_lookup, ho']; rfl, ?_, ?_⟩
    · intro k hk
      rw [lookup_filter_key (fun k => !IniText.isCommentName k) _ k hk, lookup_sortKV, hl k hk]
    · intro hC
      have hso : sortKV o' = sortKV o := hsrt trivial
      rw [hso]
      have : ((sortKV o).filter fun kv => !IniText.isCommentName kv.1) = sortKV o := by
        apply List.filter_eq_self.mpr
        intro kv hkv
        exact hC kv ((mem_sortKV _ _).mp hkv)
      rw [this, sortKV_idem]
  · intro s hs
    rw [readDoc_lookup, V.nosec s hs]; rfl

end TI
end PM
