import ProductMD.Proofs.Canon
/-!
`JEq a b`: two Python/JSON values are *the same content*: equal up to the order of the entries of every dict, at every
nesting level (dict keys are distinct, as in every Python dict).  Lists keep their order: they are content.

`JEq a b → JsonText.dumps a = JsonText.dumps b`: the bytes `json.dump(sort_keys=True)` writes are a function of the content.
Quantifying over `JEq` quantifies over every insertion order, hence over every dict iteration order the interpreter can
produce.  Core Lean only.
-/
namespace PM
open PyVal

mutual
/-- equal up to dict entry order at every level -/
inductive JEq : PyVal → PyVal → Prop
  | refl (v : PyVal) : JEq v v
  | list {xs ys : List PyVal} : JEqL xs ys → JEq (.list xs) (.list ys)
  | dict {l l' : List (Str × PyVal)} : JEqD l l' → (l.map (·.1)).Nodup → JEq (.dict l) (.dict l')
/-- lists: same length, elementwise `JEq`, SAME order -/
inductive JEqL : List PyVal → List PyVal → Prop
  | nil : JEqL [] []
  | cons {x y : PyVal} {xs ys : List PyVal} : JEq x y → JEqL xs ys → JEqL (x :: xs) (y :: ys)
/-- dict entries: a permutation, values `JEq` -/
inductive JEqD : List (Str × PyVal) → List (Str × PyVal) → Prop
  | nil : JEqD [] []
  | cons (k : Str) {v w : PyVal} {l l' : List (Str × PyVal)} : JEq v w → JEqD l l' → JEqD ((k, v) :: l) ((k, w) :: l')
  | swap (a b : Str × PyVal) (l : List (Str × PyVal)) : JEqD (a :: b :: l) (b :: a :: l)
  | trans {l₁ l₂ l₃ : List (Str × PyVal)} : JEqD l₁ l₂ → JEqD l₂ l₃ → JEqD l₁ l₃
end

theorem JEqD.refl : ∀ l : List (Str × PyVal), JEqD l l
  | [] => .nil
  | (k, v) :: l => .cons k (.refl v) (JEqD.refl l)

theorem JEqL.refl : ∀ l : List PyVal, JEqL l l
  | [] => .nil
  | v :: l => .cons (.refl v) (JEqL.refl l)

/-- every permutation of the entries is the same content -/
theorem JEqD.of_perm {l l' : List (Str × PyVal)} (h : l.Perm l') : JEqD l l' := by
  induction h with
  | nil => exact .nil
  | cons x _ ih => exact .cons x.1 (.refl x.2) ih
  | swap x y l => exact .swap y x l
  | trans _ _ ih1 ih2 => exact .trans ih1 ih2

mutual
theorem JEq.canon_eq : ∀ {a b : PyVal}, JEq a b → canon a = canon b
  | _, _, .refl _ => rfl
  | _, _, .list h => by
    simp only [canon]; congr 1; exact JEqL.canon_eq h
  | _, _, .dict h hn => by
    simp only [canon]; congr 1
    exact sortKvs_perm_eq (JEqD.canon_perm h) (by rw [canonKvs_keys]; exact hn)
theorem JEqL.canon_eq : ∀ {a b : List PyVal}, JEqL a b → canonList a = canonList b
  | _, _, .nil => rfl
  | _, _, .cons h t => by simp only [canonList]; rw [JEq.canon_eq h, JEqL.canon_eq t]
theorem JEqD.canon_perm : ∀ {a b : List (Str × PyVal)}, JEqD a b → (canonKvs a).Perm (canonKvs b)
  | _, _, .nil => List.Perm.refl _
  | _, _, .cons k h t => by simp only [canonKvs]; rw [JEq.canon_eq h]; exact List.Perm.cons _ (JEqD.canon_perm t)
  | _, _, .swap a b l => by
    obtain ⟨ka, va⟩ := a; obtain ⟨kb, vb⟩ := b
    simp only [canonKvs]; exact List.Perm.swap _ _ _
  | _, _, .trans h1 h2 => (JEqD.canon_perm h1).trans (JEqD.canon_perm h2)
end

/-- **the bytes are a function of the content** -/
theorem JEq.dumps_eq {a b : PyVal} (h : JEq a b) : JsonText.dumps a = JsonText.dumps b :=
  dumps_congr h.canon_eq

/-- keys of related entry lists are permutations of each other -/
theorem JEqD.keys_perm : ∀ {a b : List (Str × PyVal)}, JEqD a b → (a.map (·.1)).Perm (b.map (·.1))
  | _, _, .nil => List.Perm.refl _
  | _, _, .cons _ _ t => List.Perm.cons _ (JEqD.keys_perm t)
  | _, _, .swap _ _ _ => List.Perm.swap _ _ _
  | _, _, .trans h1 h2 => (JEqD.keys_perm h1).trans (JEqD.keys_perm h2)

theorem JEqD.length_eq {a b : List (Str × PyVal)} (h : JEqD a b) : a.length = b.length := by
  simpa using h.keys_perm.length_eq

/-- `JEq` is symmetric … -/
theorem JEqD.nodup_right {a b : List (Str × PyVal)} (h : JEqD a b) (hn : (a.map (·.1)).Nodup) : (b.map (·.1)).Nodup :=
  h.keys_perm.nodup_iff.mp hn

mutual
theorem JEq.symm : ∀ {a b : PyVal}, JEq a b → JEq b a
  | _, _, .refl v => .refl v
  | _, _, .list h => .list (JEqL.symm h)
  | _, _, .dict h hn => .dict (JEqD.symm h) (h.nodup_right hn)
theorem JEqL.symm : ∀ {a b : List PyVal}, JEqL a b → JEqL b a
  | _, _, .nil => .nil
  | _, _, .cons h t => .cons (JEq.symm h) (JEqL.symm t)
theorem JEqD.symm : ∀ {a b : List (Str × PyVal)}, JEqD a b → JEqD b a
  | _, _, .nil => .nil
  | _, _, .cons k h t => .cons k (JEq.symm h) (JEqD.symm t)
  | _, _, .swap a b l => .swap b a l
  | _, _, .trans h1 h2 => .trans (JEqD.symm h2) (JEqD.symm h1)
end

/-- a dict built from related entries under the same keys, in any order -/
theorem JEq.dict_of_perm {l l' : List (Str × PyVal)} (h : l.Perm l') (hn : (l.map (·.1)).Nodup) : JEq (.dict l) (.dict l') :=
  .dict (.of_perm h) hn

/-! ### what `JEq` leaves alone (used to show that validators cannot tell related values apart) -/

theorem JEq.isinstance_eq {a b : PyVal} (h : JEq a b) (t : PyType) : a.isinstance t = b.isinstance t := by
  cases h with
  | refl => rfl
  | list _ => cases t <;> rfl
  | dict _ _ => cases t <;> rfl

theorem JEq.isBool_eq {a b : PyVal} (h : JEq a b) : a.isBool = b.isBool := by
  cases h <;> rfl

theorem JEq.assertTypeOk_eq {a b : PyVal} (h : JEq a b) (strict : Bool) (ts : List PyType) :
    a.assertTypeOk strict ts = b.assertTypeOk strict ts := by
  have : ∀ t, a.isinstance t = b.isinstance t := h.isinstance_eq
  simp only [PyVal.assertTypeOk, h.isBool_eq, this]

theorem JEq.truthy_eq {a b : PyVal} (h : JEq a b) : a.truthy = b.truthy := by
  cases h with
  | refl => rfl
  | list hl => cases hl <;> rfl
  | @dict l l' hd _ =>
    have := hd.length_eq
    simp only [truthy]
    cases l <;> cases l' <;> simp_all

theorem JEq.str_left {s : Str} {b : PyVal} (h : JEq (.str s) b) : b = .str s := by cases h; rfl
theorem JEq.str_right {s : Str} {a : PyVal} (h : JEq a (.str s)) : a = .str s := by cases h; rfl

/-- Python `==` cannot tell related values apart -/
theorem JEq.pyEq_left {a b : PyVal} (h : JEq a b) (c : PyVal) : pyEq a c = pyEq b c := by
  simp only [pyEq, h.canon_eq]

theorem JEq.pyEq_right {a b : PyVal} (h : JEq a b) (c : PyVal) : pyEq c a = pyEq c b := by
  simp only [pyEq, h.canon_eq]

end PM
