import ProductMD.Proofs.C05CIDown
/-!
C05, composeinfo faithfulness, the forest: the legacy-aware reader rebuilds from the down-converted uid-keyed table the
normal form of the forest with the documented losses — any depth and width from 1.0 on; below 1.0 (children found by UID
prefix) under the two exact side conditions `KidsExact` / `TopsExact` on the table.
-/
namespace PM.CI
open PM
set_option Elab.async false

theorem lossVs_eq_map (D : DownFmt) : ∀ vs : List Variant, lossVs D vs = vs.map (lossV D)
  | [] => rfl
  | v :: vs => by simp [lossVs, lossVs_eq_map D vs]

@[simp] theorem loss_id (D : DownFmt) (v : Variant) : (lossV D v).id = v.id := by cases v; simp [lossV, Variant.id]
@[simp] theorem loss_uid (D : DownFmt) (v : Variant) : (lossV D v).uid = v.uid := by cases v; simp [lossV, Variant.uid]
@[simp] theorem loss_key (D : DownFmt) (v : Variant) : (lossV D v).key = v.key := by cases v; simp [lossV, Variant.key]
@[simp] theorem loss_type (D : DownFmt) (v : Variant) : (lossV D v).type = v.type := by cases v; simp [lossV, Variant.type]

theorem findId_loss (D : DownFmt) (i : Str) : ∀ vs : List Variant, findId i (vs.map (lossV D)) = (findId i vs).map (lossV D)
  | [] => rfl
  | v :: vs => by
    simp only [List.map_cons, findId, loss_id]
    split
    · rfl
    · exact findId_loss D i vs

theorem findKey_loss (D : DownFmt) (k : Str) : ∀ vs : List Variant, findKey k (vs.map (lossV D)) = (findKey k vs).map (lossV D)
  | [] => rfl
  | v :: vs => by
    simp only [List.map_cons, findKey, loss_key]
    split
    · rfl
    · exact findKey_loss D k vs

theorem findUid_loss (D : DownFmt) (u : Str) : ∀ vs : List Variant, findUid u (vs.map (lossV D)) = (findUid u vs).map (lossV D)
  | [] => rfl
  | v :: vs => by
    simp only [List.map_cons, findUid, loss_uid]
    split
    · rfl
    · exact findUid_loss D u vs

theorem pick_loss (D : DownFmt) (ids : List Str) (vs : List Variant) : pick ids (vs.map (lossV D)) = (pick ids vs).map (lossV D) := by
  simp only [pick, List.map_filterMap, findId_loss]

theorem byKeys_loss (D : DownFmt) (vs : List Variant) : byKeys (vs.map (lossV D)) = (byKeys vs).map (lossV D) := by
  simp only [byKeys, List.map_map, List.map_filterMap, findKey_loss]
  have : (fun v => v.key) ∘ lossV D = Variant.key := by funext v; simp
  rw [show (Variant.key ∘ lossV D) = Variant.key from this]

theorem kidsView_loss (D : DownFmt) (pn : Bool) (vs : List Variant) : kidsView pn (vs.map (lossV D)) = kidsView pn vs := by
  simp only [kidsView, byKeys_loss, List.map_map]
  congr 1
  apply List.map_congr_left
  intro c _
  simp

theorem variantObj_loss (D : DownFmt) (ctx : Ctx) (v : Variant) : variantObj ctx (lossV D v) = variantObj ctx v := by
  cases v with
  | mk key id uid name type arches paths rel kids =>
  simp only [lossV, variantObj, lossVs_eq_map, kidsView_loss]

/-- below 1.0: nothing but the listed children of an entry lies under its prefix `uid-` -/
def KidsExact (d : Flat) : Prop :=
  ∀ p ∈ d, ∀ k ∈ d.map (·.1), Str.startsWith k (p.2.uid ++ ['-']) = true → ∃ i ∈ p.2.kids, k = p.2.uid ++ '-' :: i

/-- gates and format description say the same (proved from the generated gates for every version) -/
structure GatesMatch (g : Legacy.Gates) (D : DownFmt) : Prop where
  compose : g.compose = !D.composeFull
  release : g.release = D.product
  variants : g.variants = !D.kidLists
  variant : g.variant = !D.kidLists

theorem buildL_step (g : Legacy.Gates) (D : DownFmt) (hm : GatesMatch g D) (doc : Flat) (hs : FSorted doc)
    (hx : D.kidLists = false → KidsExact doc)
    (key id uid name type : Str) (arches : List Str) (paths : PathTable) (rel : Option Release) (kids : List Variant)
    (ctx : Ctx) (f : Nat)
    (hg : Good ctx (.mk key id uid name type arches paths rel kids))
    (hk : wellKeyed (.mk key id uid name type arches paths rel kids) = true)
    (hmem : (uid, entryOf (.mk key id uid name type arches paths rel kids)) ∈ doc)
    (hkmem : ∀ k ∈ kids, (k.uid, entryOf k) ∈ doc)
    (hkids : ∀ k ∈ kids, Legacy.buildL g (downFlatVal D doc) f (some (uid, Str.sortDedup arches)) k.uid = .ok (lossV D k.norm)) :
    Legacy.buildL g (downFlatVal D doc) (f + 1) ctx uid
      = .ok (lossV D (Variant.norm (.mk key id uid name type arches paths rel kids))) := by
  have hg' := hg
  simp only [Good] at hg'
  obtain ⟨hrel, hpaths, hval, hgk⟩ := hg'
  have hk' := hk
  simp only [wellKeyed, Bool.and_eq_true, decide_eq_true_eq] at hk'
  have hal : ∀ w ∈ kids, w.uid = uid ++ '-' :: w.id := fun w hw =>
    vok_aligned uid (Str.sortDedup arches) w (GoodL_mem hgk w hw).valid
  -- children
  have hkidsok : collect ((Str.sortDedup (kids.map Variant.id)).map fun i =>
      Legacy.buildL g (downFlatVal D doc) f (some (uid, Str.sortDedup arches)) (uid ++ '-' :: i))
      = .ok (pick (Str.sortDedup (kids.map Variant.id)) ((norms kids).map (lossV D))) := by
    apply collect_pick
    intro i hi
    obtain ⟨w, hw⟩ := findId_of_mem (mem_sortDedup.mp hi)
    have hw' := findId_some hw
    refine ⟨lossV D w.norm, ?_, by rw [findId_loss, findId_norms, hw]; rfl⟩
    rw [← hw'.2, ← hal w hw'.1]
    exact hkids w hw'.1
  have hnk : ∀ w ∈ (norms kids).map (lossV D), w.key = w.id := by
    intro w hw
    rw [norms_eq_map] at hw
    obtain ⟨x, hx', rfl⟩ := List.mem_map.mp hw
    obtain ⟨v, _, rfl⟩ := List.mem_map.mp hx'
    simp
  have hadd : addAll [] (pick (Str.sortDedup (kids.map Variant.id)) ((norms kids).map (lossV D)))
      = .ok (pick (Str.sortDedup (kids.map Variant.id)) ((norms kids).map (lossV D))) := by
    have := addAll_ok (pick (Str.sortDedup (kids.map Variant.id)) ((norms kids).map (lossV D))) [] (by
      simp only [List.nil_append]
      have hkeys : (pick (Str.sortDedup (kids.map Variant.id)) ((norms kids).map (lossV D))).map Variant.key
          = (pick (Str.sortDedup (kids.map Variant.id)) ((norms kids).map (lossV D))).map Variant.id :=
        List.map_congr_left (fun w hw => hnk w (pick_mem hw))
      rw [hkeys]
      exact (pick_ids_sublist _ _).nodup (sortDedup_nodup _)) (fun w hw => hnk w (pick_mem hw))
    simpa using this
  rw [pick_loss] at hkidsok hadd
  have hobj := variantObj_norm ctx (.mk key id uid name type arches paths rel kids) hk
  simp only [Variant.norm] at hobj
  have hv2 : ∀ R, validateClass "composeinfo.Variant" (variantObj ctx (Variant.mk id id uid name type (Str.sortDedup arches)
      (storedPaths (Str.sortDedup arches) paths) R ((pick (Str.sortDedup (kids.map Variant.id)) (norms kids)).map (lossV D)))) = .ok () := by
    intro R
    have e1 : variantObj ctx (Variant.mk id id uid name type (Str.sortDedup arches) (storedPaths (Str.sortDedup arches) paths) R
        ((pick (Str.sortDedup (kids.map Variant.id)) (norms kids)).map (lossV D)))
        = variantObj ctx (Variant.mk id id uid name type (Str.sortDedup arches) (storedPaths (Str.sortDedup arches) paths)
            (if type = layeredProduct then rel.map (fun r => (forceLayered r).norm) else none)
            (pick (Str.sortDedup (kids.map Variant.id)) (norms kids))) := by
      simp only [variantObj, kidsView_loss]
    rw [e1, hobj]; exact hval
  -- the keys under which the children are looked up
  have hkk := kidKeysL_down g D hm.variant doc hs (entryOf (.mk key id uid name type arches paths rel kids)) (kids.map Variant.id) rfl
    (fun hkl k hkm hst => by
      have := hx hkl _ hmem k hkm
      simp only [entryOf] at this ⊢
      exact this hst)
    (fun i hi => by
      simp only [entryOf] at hi ⊢
      obtain ⟨w, hw⟩ := findId_of_mem (mem_sortDedup.mp hi)
      have hw' := findId_some hw
      rw [← hw'.2, ← hal w hw'.1]
      exact List.mem_map.mpr ⟨_, hkmem w hw'.1, rfl⟩)
  simp only [entryOf] at hkk
  unfold Legacy.buildL
  simp only [sub_downFlatVal D hs hmem, dentry_id, dentry_uid, dentry_name, dentry_type, dentry_arches, dentry_paths]
  simp only [entryOf, asStrList_strList, sortDedup_idem]
  rw [variantReleaseDeL_down g D hm.release _ type rel rfl hrel]
  simp only [pathsDe_stored, hpaths, asStr, hkk, List.map_map, Function.comp_def]
  simp only [hkidsok, hadd, hv2]
  by_cases ht : type = layeredProduct <;> cases rel <;> simp [ht, Variant.norm, lossV, lossVs_eq_map]

mutual
theorem buildL_ok (g : Legacy.Gates) (D : DownFmt) (hm : GatesMatch g D) (doc : Flat) (hs : FSorted doc)
    (hx : D.kidLists = false → KidsExact doc) :
    ∀ (v : Variant) (ctx : Ctx) (fuel : Nat), height v ≤ fuel → Good ctx v → wellKeyed v = true →
      (∀ x ∈ flat v, x ∈ doc) → Legacy.buildL g (downFlatVal D doc) fuel ctx v.uid = .ok (lossV D v.norm)
  | .mk key id uid name type arches paths rel kids, ctx, fuel, hf, hg, hk, hsub => by
    cases fuel with
    | zero => simp [height] at hf
    | succ f =>
      have hg' := hg
      simp only [Good] at hg'
      have hk' := hk
      simp only [wellKeyed, Bool.and_eq_true, decide_eq_true_eq] at hk'
      have hkids := buildLs_ok g D hm doc hs hx kids (some (uid, Str.sortDedup arches)) f
        (by simp only [height] at hf; omega) hg'.2.2.2 hk'.2
        (fun x hx' => hsub x (by simp [flat, hx']))
      exact buildL_step g D hm doc hs hx key id uid name type arches paths rel kids ctx f hg hk
        (hsub _ (by simp [flat]))
        (fun k hkm => hsub _ (by
          simp only [flat, List.mem_append, List.mem_singleton]
          exact .inl (flat_sub_flats k kids hkm _ (self_mem_flat k))))
        hkids
theorem buildLs_ok (g : Legacy.Gates) (D : DownFmt) (hm : GatesMatch g D) (doc : Flat) (hs : FSorted doc)
    (hx : D.kidLists = false → KidsExact doc) :
    ∀ (vs : List Variant) (ctx : Ctx) (fuel : Nat), heights vs ≤ fuel → GoodL ctx vs → wellKeyedL vs = true →
      (∀ x ∈ flats vs, x ∈ doc) → ∀ k ∈ vs, Legacy.buildL g (downFlatVal D doc) fuel ctx k.uid = .ok (lossV D k.norm)
  | [], _, _, _, _, _, _ => by intro k hk; cases hk
  | v :: vs, ctx, fuel, hf, hg, hk, hsub => by
    simp only [GoodL] at hg
    simp only [wellKeyedL, Bool.and_eq_true, decide_eq_true_eq] at hk
    simp only [heights] at hf
    intro k hkm
    rcases List.mem_cons.mp hkm with h | hkm
    · rw [h]
      exact buildL_ok g D hm doc hs hx v ctx fuel (by omega) hg.1 hk.1.2 (fun x hx' => hsub x (by simp [flats, hx']))
    · exact buildLs_ok g D hm doc hs hx vs ctx fuel (by omega) hg.2 hk.2 (fun x hx' => hsub x (by simp [flats, hx'])) k hkm
end

/-- below 1.0: a key is referenced as a child exactly when the part before its last dash is a key -/
def TopsExact (d : Flat) : Prop :=
  ∀ u ∈ d.map (·.1), (refs d).contains u = true ↔ ∃ hd, Legacy.legacyHead u = some hd ∧ (d.map (·.1)).contains hd = true

theorem dentry_variants_getD (D : DownFmt) (e : Entry) :
    getD (downEntryVal D e) k%"variants" (.list []) = .ok (if D.kidLists then strList e.kids else .list []) := by
  have h := dentry_variants D e
  unfold downEntryVal at h ⊢
  simp only [getD, h]
  cases hk : D.kidLists <;> by_cases hn : e.kids = [] <;> simp [hk, hn, strList]

theorem childUids_dflat (D : DownFmt) : ∀ (d : Flat), childUids (d.map fun p => (p.1, downEntryVal D p.2))
    = .ok (if D.kidLists then refs d else [])
  | [] => by cases D.kidLists <;> rfl
  | (k, e) :: rest => by
    have ih := childUids_dflat D rest
    have hrefs : refs ((k, e) :: rest) = (e.kids.map fun i => e.uid ++ '-' :: i) ++ refs rest := by
      simp [refs]
    simp only [List.map_cons, childUids, ih, refsOfVal, dentry_variants_getD, dentry_uid, asStr, hrefs]
    cases hkl : D.kidLists with
    | false => simp [asStrList, collect]
    | true =>
      simp only [if_true, asStrList_strList]
      cases hk : e.kids with
      | nil => simp
      | cons i is => simp

theorem variantsDeL_down (g : Legacy.Gates) (D : DownFmt) (hm : GatesMatch g D) (top : List Variant) (d : Flat) (l : List (Str × PyVal))
    (hget : PyVal.get? (.dict l) k%"variants" = some (downFlatVal D d))
    (hser : sers none (byKeys top) [] = .ok d) (hk : wellKeyedTop top = true) (hu : (uidsL top).Nodup)
    (hx : D.kidLists = false → KidsExact d) (htx : D.kidLists = false → TopsExact d) :
    Legacy.variantsDeL g (.dict l) = .ok (lossVs D (normTop top)) := by
  simp only [wellKeyedTop, Bool.and_eq_true, decide_eq_true_eq] at hk
  obtain ⟨hids, hkl⟩ := hk
  have hkeyid : ∀ t ∈ top, t.key = t.id := fun t ht => (wellKeyedL_mem hkl t ht).1
  have hkeys : (top.map Variant.key).Nodup := by rw [List.map_congr_left hkeyid]; exact hids
  obtain ⟨hgood, hs, _, hall, honly⟩ := sers_spec (byKeys top) none [] d hser (by simp [FSorted])
  have hgoodt : ∀ t ∈ top, Good none t := fun t ht => GoodL_mem hgood t ((mem_byKeys hkeys).mpr ht)
  have hd : ∀ x, x ∈ d ↔ ∃ t ∈ top, x ∈ flat t := by
    intro x
    constructor
    · intro hx'
      rcases honly x hx' with h | h
      · cases h
      · obtain ⟨t, ht, hxt⟩ := mem_flats.mp h
        exact ⟨t, (mem_byKeys hkeys).mp ht, hxt⟩
    · rintro ⟨t, ht, hxt⟩
      exact hall x (mem_flats.mpr ⟨t, (mem_byKeys hkeys).mpr ht, hxt⟩)
  have hkeysd : ∀ x, x ∈ d.map (·.1) ↔ ∃ t ∈ top, x ∈ uids t := by
    intro x
    constructor
    · intro hx'
      obtain ⟨p, hp, rfl⟩ := List.mem_map.mp hx'
      obtain ⟨t, ht, hpt⟩ := (hd p).mp hp
      exact ⟨t, ht, (keys_flat t _).mp (List.mem_map.mpr ⟨p, hpt, rfl⟩)⟩
    · rintro ⟨t, ht, hxt⟩
      obtain ⟨p, hp, rfl⟩ := List.mem_map.mp ((keys_flat t x).mpr hxt)
      exact List.mem_map.mpr ⟨p, (hd p).mpr ⟨t, ht, hp⟩, rfl⟩
  have hrefs : ∀ x, x ∈ refs d ↔ ∃ t ∈ top, x ∈ uidsL t.kids := by
    intro x
    constructor
    · intro hx'
      obtain ⟨p, hp, i, hi, rfl⟩ := mem_refs.mp hx'
      obtain ⟨t, ht, hpt⟩ := (hd p).mp hp
      exact ⟨t, ht, (refs_flat t none (hgoodt t ht) _).mp (mem_refs.mpr ⟨p, hpt, i, hi, rfl⟩)⟩
    · rintro ⟨t, ht, hxt⟩
      obtain ⟨p, hp, i, hi, rfl⟩ := mem_refs.mp ((refs_flat t none (hgoodt t ht) x).mpr hxt)
      exact mem_refs.mpr ⟨p, (hd p).mpr ⟨t, ht, hp⟩, i, hi, rfl⟩
  have htops : Str.sortDedup ((d.map (·.1)).filter fun u => !(refs d).contains u) = Str.sortDedup (top.map Variant.uid) := by
    apply sortDedup_congr
    intro x
    simp only [List.mem_filter, Bool.not_eq_true', ← Bool.not_eq_true, List.contains_iff_mem]
    constructor
    · rintro ⟨hx', hnot⟩
      obtain ⟨t, ht, hxt⟩ := (hkeysd x).mp hx'
      rw [uids_eq] at hxt
      rcases List.mem_cons.mp hxt with h | h
      · exact List.mem_map.mpr ⟨t, ht, h.symm⟩
      · exact absurd ((hrefs x).mpr ⟨t, ht, h⟩) (by simpa using hnot)
    · intro hx'
      obtain ⟨t, ht, rfl⟩ := List.mem_map.mp hx'
      refine ⟨(hkeysd _).mpr ⟨t, ht, by rw [uids_eq]; simp⟩, ?_⟩
      have : t.uid ∉ refs d := fun h => by
        obtain ⟨t', ht', hx''⟩ := (hrefs _).mp h
        exact root_not_below hu t ht t' ht' hx''
      simpa using this
  have hbuild : ∀ t ∈ top, Legacy.buildL g (downFlatVal D d) (d.length + 1) none t.uid = .ok (lossV D t.norm) := by
    intro t ht
    apply buildL_ok g D hm d hs hx t none _ _ (hgoodt t ht) (wellKeyedL_mem hkl t ht).2
      (fun x hx' => (hd x).mpr ⟨t, ht, hx'⟩)
    have h1 := height_le t
    have h2 : (uids t).length ≤ (d.map (·.1)).length :=
      nodup_subset_length ((uids_sublist ht).nodup hu) (fun x hx' => (hkeysd x).mpr ⟨t, ht, hx'⟩)
    simp only [List.length_map] at h2
    omega
  have hloss : lossVs D (normTop top) = (Str.sortDedup (top.map Variant.uid)).filterMap (findUid · ((norms top).map (lossV D))) := by
    rw [lossVs_eq_map]
    unfold normTop
    rw [List.map_filterMap]
    apply filterMap_congr'
    intro u _
    rw [findUid_loss]
  have hcollect : collect ((Str.sortDedup (top.map Variant.uid)).map fun u => Legacy.buildL g (downFlatVal D d) (d.length + 1) none u)
      = .ok (lossVs D (normTop top)) := by
    rw [hloss]
    apply collect_pickUid
    intro u hu'
    obtain ⟨w, hw⟩ := findUid_of_mem (mem_sortDedup.mp hu')
    have hw' := findUid_some hw
    exact ⟨lossV D w.norm, by rw [← hw'.2]; exact hbuild w hw'.1, by rw [findUid_loss, findUid_norms, hw]; rfl⟩
  have hnormkey : ∀ w ∈ lossVs D (normTop top), w.key = w.id := by
    intro w hw
    rw [lossVs_eq_map] at hw
    obtain ⟨x, hx', rfl⟩ := List.mem_map.mp hw
    simp only [normTop, List.mem_filterMap] at hx'
    obtain ⟨u, _, hu'⟩ := hx'
    rw [findUid_norms] at hu'
    cases h : findUid u top with
    | none => simp [h] at hu'
    | some t => simp [h] at hu'; subst hu'; simp
  have hadd : addAll [] (lossVs D (normTop top)) = .ok (lossVs D (normTop top)) := by
    have := addAll_ok (lossVs D (normTop top)) [] (by
      simp only [List.nil_append]
      rw [lossVs_eq_map, List.map_map]
      have : (Variant.key ∘ lossV D) = Variant.key := by funext v; simp
      rw [this]
      unfold normTop
      apply nodup_filterMap_key _ (sortDedup_nodup _)
      intro u1 _ u2 _ w1 w2 h1 h2 hkey
      rw [findUid_norms] at h1 h2
      cases ht1 : findUid u1 top with
      | none => simp [ht1] at h1
      | some t1 =>
        cases ht2 : findUid u2 top with
        | none => simp [ht2] at h2
        | some t2 =>
          simp [ht1] at h1
          simp [ht2] at h2
          subst h1 h2
          simp only [norm_key] at hkey
          have e1 := findUid_some ht1
          have e2 := findUid_some ht2
          have := inj_of_nodup_map Variant.id hids e1.1 e2.1 hkey
          rw [← e1.2, ← e2.2, this]) hnormkey
    simpa using this
  have hfv : downFlatVal D d = .dict (d.map fun p => (p.1, downEntryVal D p.2)) := rfl
  -- which keys the reader takes for the top level
  have hsel : Str.sortDedup (if g.variants = true then (d.map (·.1)).filter (Legacy.isLegacyTop (d.map (·.1)))
        else (d.map (·.1)).filter (fun u => !(if D.kidLists then refs d else []).contains u))
      = Str.sortDedup (top.map Variant.uid) := by
    cases hkl' : D.kidLists with
    | true => simp only [hm.variants, hkl', Bool.not_true, Bool.false_eq_true, if_false, if_true]; exact htops
    | false =>
      simp only [hm.variants, hkl', Bool.not_false, if_true]
      rw [Legacy.tops_legacy_eq _ (refs d) (htx hkl')]
      exact htops
  unfold Legacy.variantsDeL
  rw [sub_of_get hget, hfv]
  simp only [childUids_dflat, List.map_map, Function.comp_def, List.length_map]
  rw [← hfv]
  simp only [hsel, hcollect, hadd]

end PM.CI
