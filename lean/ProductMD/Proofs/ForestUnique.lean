import ProductMD.Proofs.ForestQuery
/-! UIDs below a variant are pairwise distinct – a consequence of `InvW` (alignment, dash-free ids, distinct keys), not
a hypothesis – hence `get_variants` on a variant returns every variant at most once, in strictly increasing UID order. -/
namespace PM.Forest

abbrev Tail (t : Str) : Prop := t = [] ∨ ∃ r, t = '-' :: r

theorem dashless_cancel : ∀ (a b t1 t2 : Str), '-' ∉ a → '-' ∉ b → Tail t1 → Tail t2 → a ++ t1 = b ++ t2 → a = b := by
  intro a
  induction a with
  | nil =>
    intro b t1 t2 _ hb h1 h2 he
    cases b with
    | nil => rfl
    | cons c b =>
      exfalso
      simp only [List.nil_append, List.cons_append] at he
      rcases h1 with rfl | ⟨r, rfl⟩
      · simp at he
      · simp only [List.cons.injEq] at he
        apply hb; rw [← he.1]; simp
  | cons c a ih =>
    intro b t1 t2 ha hb h1 h2 he
    cases b with
    | nil =>
      exfalso
      simp only [List.nil_append, List.cons_append] at he
      rcases h2 with rfl | ⟨r, rfl⟩
      · simp at he
      · simp only [List.cons.injEq] at he
        apply ha; rw [he.1]; simp
    | cons d b =>
      simp only [List.cons_append, List.cons.injEq] at he
      obtain ⟨rfl, he⟩ := he
      have := ih b t1 t2 (fun h => ha (List.mem_cons_of_mem _ h)) (fun h => hb (List.mem_cons_of_mem _ h)) h1 h2 he
      rw [this]

/-- `x` is `u` or extends `u` by a dashed suffix -/
def Ext (u x : Str) : Prop := ∃ t, Tail t ∧ x = u ++ t

theorem desc_ext {U : Nat → Attrs} {s : State} (hI : InvW U s) {w x : Nat} (hd : Desc s (some w) x) :
    ∃ r, (U x).uid = (U w).uid ++ '-' :: r := by
  obtain ⟨r, hr⟩ := hd.path (U := U)
  exact ⟨r, hr.uid hI⟩

/-- UIDs in the subtrees of two different entries of one dict never coincide -/
theorem siblings_apart {U : Nat → Attrs} {s : State} (hI : InvW U s) {p : Nat} {kv kv' : Str × Nat}
    (h1 : kv ∈ s.kids p) (h2 : kv' ∈ s.kids p) (hne : kv.1 ≠ kv'.1) {x y : Str}
    (hx : Ext (U kv.2).uid x) (hy : Ext (U kv'.2).uid y) : x ≠ y := by
  obtain ⟨t1, ht1, rfl⟩ := hx
  obtain ⟨t2, ht2, rfl⟩ := hy
  have e1 := hI.edge p kv.1 kv.2 h1
  have e2 := hI.edge p kv'.1 kv'.2 h2
  have f1 := hI.fields (some p) kv.1 kv.2 h1
  have f2 := hI.fields (some p) kv'.1 kv'.2 h2
  intro he
  rw [e1.uid, e2.uid] at he
  simp only [List.append_assoc, List.cons_append, List.append_cancel_left_eq, List.cons.injEq, true_and] at he
  have := dashless_cancel _ _ t1 t2 f1.id_nodash f2.id_nodash ht1 ht2 he
  apply hne; rw [e1.key, e2.key, this]

theorem gv_unique {U : Nat → Attrs} {s : State} (hI : InvW U s) : ∀ (f : Nat) (p : Nat) (arch : Option Str)
    (types : List Str) (recursive : Bool) (res : List Nat),
    getVariants U s f (some p) arch types recursive = .ok res → (res.map fun x => (U x).uid).Nodup := by
  intro f
  induction f with
  | zero => intro p arch types recursive res h; simp [getVariants] at h
  | succ f ih =>
    intro p arch types recursive res h
    obtain ⟨body, hb, hres⟩ := getVariants_ok h
    -- what one entry contributes: UIDs extending the entry's UID, pairwise distinct
    have hpart : ∀ kv ∈ s.kids p, ∀ a, (if passes U arch types kv.2 then
          if recursive then
            match getVariants U s f (some kv.2) arch (types.filter (· ≠ selfT)) true with
            | .ok sub => .ok (kv.2 :: sub)
            | .error e => .error e
          else .ok [kv.2]
        else (.ok [] : Except Err (List Nat))) = .ok a →
        (a.map fun x => (U x).uid).Nodup ∧ ∀ x ∈ a, Ext (U kv.2).uid (U x).uid := by
      intro kv hkv a ha
      rcases one_ok ha with ⟨-, rfl⟩ | ⟨-, -, rfl⟩ | ⟨-, -, sub, hsub, rfl⟩
      · simp
      · refine ⟨by simp, ?_⟩
        intro x hx; simp at hx; subst hx; exact ⟨[], Or.inl rfl, by simp⟩
      · have hsubext : ∀ x ∈ sub, ∃ r, (U x).uid = (U kv.2).uid ++ '-' :: r := by
          intro x hx
          rcases gv_sound hI f (some kv.2) arch _ true sub hsub x hx with ⟨-, hself⟩ | ⟨hd, -⟩
          · exact absurd hself (not_mem_filter_self types)
          · exact desc_ext hI hd
        refine ⟨?_, ?_⟩
        · simp only [List.map_cons, List.nodup_cons]
          refine ⟨?_, ih kv.2 arch _ true sub hsub⟩
          intro hm
          obtain ⟨x, hx, he⟩ := List.mem_map.mp hm
          obtain ⟨r, hr⟩ := hsubext x hx
          rw [hr] at he
          have := congrArg List.length he
          simp at this
        · intro x hx
          rcases List.mem_cons.mp hx with rfl | hx
          · exact ⟨[], Or.inl rfl, by simp⟩
          · obtain ⟨r, hr⟩ := hsubext x hx
            exact ⟨'-' :: r, Or.inr ⟨r, rfl⟩, hr⟩
    -- the loop: induction over a suffix of the dict
    have hloop : ∀ (l : List (Str × Nat)) (body : List Nat), (∀ kv ∈ l, kv ∈ s.kids p) → (l.map (·.1)).Nodup →
        gvKids (fun v =>
          if passes U arch types v then
            if recursive then
              match getVariants U s f (some v) arch (types.filter (· ≠ selfT)) true with
              | .ok sub => .ok (v :: sub)
              | .error e => .error e
            else .ok [v]
          else .ok []) l = .ok body → (body.map fun x => (U x).uid).Nodup := by
      intro l
      induction l with
      | nil => intro body _ _ hb; simp [gvKids] at hb; subst hb; simp
      | cons kv r ihl =>
        intro body hsub hnd hb
        unfold gvKids at hb
        split at hb
        · simp at hb
        · rename_i a ha
          split at hb
          · simp at hb
          · rename_i b hb'
            simp at hb; subst hb
            simp only [List.map_cons, List.nodup_cons] at hnd
            have hkv := hsub kv (by simp)
            obtain ⟨hna, hexta⟩ := hpart kv hkv a ha
            have hnb := ihl b (fun kv' h' => hsub kv' (List.mem_cons_of_mem _ h')) hnd.2 hb'
            rw [List.map_append]
            refine List.nodup_append.mpr ⟨hna, hnb, ?_⟩
            intro ux hux uy huy
            obtain ⟨x, hx, rfl⟩ := List.mem_map.mp hux
            obtain ⟨y, hy, rfl⟩ := List.mem_map.mp huy
            obtain ⟨kv', hkv', a', ha', hya'⟩ := ((gvKids_ok hb').2 y).mp hy
            have hkv'p := hsub kv' (List.mem_cons_of_mem _ hkv')
            have hne : kv.1 ≠ kv'.1 := by
              intro e; apply hnd.1; rw [e]; exact List.mem_map.mpr ⟨kv', hkv', rfl⟩
            exact siblings_apart hI hkv hkv'p hne (hexta x hx) ((hpart kv' hkv'p a' ha').2 y hya')
    have hbody := hloop (s.kids p) body (fun _ h => h) (hI.keys (some p)) hb
    rcases hres with ⟨-, i, hi, rfl⟩ | ⟨-, rfl⟩
    · cases hi
      refine ((sortByUid_perm U _).map _).nodup_iff.mpr ?_
      simp only [List.map_cons, List.nodup_cons]
      refine ⟨?_, hbody⟩
      intro hm
      obtain ⟨x, hx, he⟩ := List.mem_map.mp hm
      obtain ⟨kv, hkv, a, ha, hxa⟩ := ((gvKids_ok hb).2 x).mp hx
      obtain ⟨t, -, ht⟩ := (hpart kv hkv a ha).2 x hxa
      rw [ht, (hI.edge p kv.1 kv.2 hkv).uid] at he
      have := congrArg List.length he
      simp at this
    · exact ((sortByUid_perm U _).map _).nodup_iff.mpr hbody

/-- UIDs in the subtrees of different top-level entries differ (what F14 violates) -/
def TopApart (U : Nat → Attrs) (s : State) : Prop :=
  ∀ kv ∈ s.top, ∀ kv' ∈ s.top, kv.1 ≠ kv'.1 → ∀ x y, (x = kv.2 ∨ Desc s (some kv.2) x) →
    (y = kv'.2 ∨ Desc s (some kv'.2) y) → (U x).uid ≠ (U y).uid

theorem gv_unique_top {U : Nat → Attrs} {s : State} (hI : InvW U s) (hsep : TopApart U s) (f : Nat)
    (arch : Option Str) (types : List Str) (recursive : Bool) (res : List Nat)
    (h : getVariants U s f none arch types recursive = .ok res) : (res.map fun x => (U x).uid).Nodup := by
  cases f with
  | zero => simp [getVariants] at h
  | succ f =>
    obtain ⟨body, hb, hres⟩ := getVariants_ok h
    have hpart : ∀ kv ∈ s.top, ∀ a, (if passes U arch types kv.2 then
          if recursive then
            match getVariants U s f (some kv.2) arch (types.filter (· ≠ selfT)) true with
            | .ok sub => .ok (kv.2 :: sub)
            | .error e => .error e
          else .ok [kv.2]
        else (.ok [] : Except Err (List Nat))) = .ok a →
        (a.map fun x => (U x).uid).Nodup ∧ ∀ x ∈ a, (x = kv.2 ∨ Desc s (some kv.2) x) := by
      intro kv hkv a ha
      rcases one_ok ha with ⟨-, rfl⟩ | ⟨-, -, rfl⟩ | ⟨-, -, sub, hsub, rfl⟩
      · simp
      · exact ⟨by simp, by intro x hx; simp at hx; exact Or.inl hx⟩
      · have hsubd : ∀ x ∈ sub, Desc s (some kv.2) x := by
          intro x hx
          rcases gv_sound hI f (some kv.2) arch _ true sub hsub x hx with ⟨-, hself⟩ | ⟨hd, -⟩
          · exact absurd hself (not_mem_filter_self types)
          · exact hd
        refine ⟨?_, ?_⟩
        · simp only [List.map_cons, List.nodup_cons]
          refine ⟨?_, gv_unique hI f kv.2 arch _ true sub hsub⟩
          intro hm
          obtain ⟨x, hx, he⟩ := List.mem_map.mp hm
          obtain ⟨r, hr⟩ := desc_ext hI (hsubd x hx)
          rw [hr] at he
          have := congrArg List.length he
          simp at this
        · intro x hx
          rcases List.mem_cons.mp hx with rfl | hx
          · exact Or.inl rfl
          · exact Or.inr (hsubd x hx)
    have hloop : ∀ (l : List (Str × Nat)) (body : List Nat), (∀ kv ∈ l, kv ∈ s.top) → (l.map (·.1)).Nodup →
        gvKids (fun v =>
          if passes U arch types v then
            if recursive then
              match getVariants U s f (some v) arch (types.filter (· ≠ selfT)) true with
              | .ok sub => .ok (v :: sub)
              | .error e => .error e
            else .ok [v]
          else .ok []) l = .ok body → (body.map fun x => (U x).uid).Nodup := by
      intro l
      induction l with
      | nil => intro body _ _ hb; simp [gvKids] at hb; subst hb; simp
      | cons kv r ihl =>
        intro body hsub hnd hb
        unfold gvKids at hb
        split at hb
        · simp at hb
        · rename_i a ha
          split at hb
          · simp at hb
          · rename_i b hb'
            simp at hb; subst hb
            simp only [List.map_cons, List.nodup_cons] at hnd
            have hkv := hsub kv (by simp)
            obtain ⟨hna, hexta⟩ := hpart kv hkv a ha
            have hnb := ihl b (fun kv' h' => hsub kv' (List.mem_cons_of_mem _ h')) hnd.2 hb'
            rw [List.map_append]
            refine List.nodup_append.mpr ⟨hna, hnb, ?_⟩
            intro ux hux uy huy
            obtain ⟨x, hx, rfl⟩ := List.mem_map.mp hux
            obtain ⟨y, hy, rfl⟩ := List.mem_map.mp huy
            obtain ⟨kv', hkv', a', ha', hya'⟩ := ((gvKids_ok hb').2 y).mp hy
            have hkv'p := hsub kv' (List.mem_cons_of_mem _ hkv')
            have hne : kv.1 ≠ kv'.1 := by
              intro e; apply hnd.1; rw [e]; exact List.mem_map.mpr ⟨kv', hkv', rfl⟩
            exact hsep kv hkv kv' hkv'p hne x y (hexta x hx) ((hpart kv' hkv'p a' ha').2 y hya')
    have hbody := hloop s.top body (fun _ h => h) (hI.keys none) hb
    rcases hres with ⟨-, i, hi, -⟩ | ⟨-, rfl⟩
    · cases hi
    · exact ((sortByUid_perm U _).map _).nodup_iff.mpr hbody

/-- without dashed top-level UIDs the top-level subtrees are apart as a consequence of `Inv` -/
theorem topApart_of_dashless {U : Nat → Attrs} {s : State} (hI : Inv U s)
    (hnd : ∀ kv ∈ s.top, '-' ∉ (U kv.2).uid) : TopApart U s := by
  intro kv hkv kv' hkv' hne x y hx hy
  have uid_id : ∀ kv ∈ s.top, (U kv.2).uid = (U kv.2).id ∧ kv.1 = (U kv.2).id := by
    intro kv hkv
    have h1 : (U kv.2).uid = (U kv.2).id := by
      rw [← hI.topAligned kv.1 kv.2 hkv, removeChar_of_not_mem (hnd kv hkv)]
    refine ⟨h1, ?_⟩
    rcases hI.topKey kv.1 kv.2 hkv with h2 | h2
    · exact h2
    · rw [h2, h1]
  have ext : ∀ kv ∈ s.top, ∀ x, (x = kv.2 ∨ Desc s (some kv.2) x) → Ext (U kv.2).uid (U x).uid := by
    intro kv _ x hx
    rcases hx with rfl | hd
    · exact ⟨[], Or.inl rfl, by simp⟩
    · obtain ⟨r, hr⟩ := desc_ext hI.weak hd
      exact ⟨'-' :: r, Or.inr ⟨r, rfl⟩, hr⟩
  obtain ⟨t1, ht1, e1⟩ := ext kv hkv x hx
  obtain ⟨t2, ht2, e2⟩ := ext kv' hkv' y hy
  intro he
  rw [e1, e2] at he
  have := dashless_cancel _ _ t1 t2 (hnd kv hkv) (hnd kv' hkv') ht1 ht2 he
  apply hne
  rw [(uid_id kv hkv).2, (uid_id kv' hkv').2, ← (uid_id kv hkv).1, ← (uid_id kv' hkv').1, this]

end PM.Forest
