import ProductMD.Model.ComposeInfoDown
import ProductMD.Proofs.C05CI
/-!
C05, composeinfo faithfulness: the legacy-aware reader on the documented down-conversion `CI.down` of a compose description
returns `CI.expected` (the normal form with the documented losses).  Section by section, then the forest (the C01 rebuild
argument with the legacy release section and, below 1.0, the children found by UID prefix).
-/
namespace PM.CI
open PM
set_option Elab.async false

section
variable (D : DownFmt) (e : Entry)
theorem dentry_id : sub (downEntryVal D e) k%"id" = .ok (.str e.id) := by
  simp [downEntryVal, sub, PyVal.get?]
theorem dentry_uid : sub (downEntryVal D e) k%"uid" = .ok (.str e.uid) := by
  simp [downEntryVal, sub, PyVal.get?]
theorem dentry_name : sub (downEntryVal D e) k%"name" = .ok (.str e.name) := by
  simp [downEntryVal, sub, PyVal.get?]
theorem dentry_type : sub (downEntryVal D e) k%"type" = .ok (.str e.type) := by
  simp [downEntryVal, sub, PyVal.get?]
theorem dentry_arches : sub (downEntryVal D e) k%"arches" = .ok (strList e.arches) := by
  simp [downEntryVal, sub, PyVal.get?]
theorem dentry_paths : sub (downEntryVal D e) k%"paths" = .ok (pathsVal e.paths) := by
  cases h : e.release <;> cases hp : D.product <;> simp [downEntryVal, sub, PyVal.get?, h, relKey, hp]
theorem dentry_release : (downEntryVal D e).get? (relKey D) = e.release.map (downReleaseVal D) := by
  cases h : e.release <;> cases hp : D.product <;> cases hk : (D.kidLists && !e.kids.isEmpty) <;>
    simp [downEntryVal, PyVal.get?, h, relKey, hp, hk]
theorem dentry_variants : (downEntryVal D e).get? k%"variants"
    = if D.kidLists && !e.kids.isEmpty then some (strList e.kids) else none := by
  cases h : e.release <;> cases hp : D.product <;> cases hk : (D.kidLists && !e.kids.isEmpty) <;>
    simp [downEntryVal, PyVal.get?, h, relKey, hp, hk]
end

theorem release_loss_valid (D : DownFmt) (r : Release) (h : validateClass "composeinfo.Release" (releaseObj r) = .ok ()) :
    validateClass "composeinfo.Release" (releaseObj (lossRelease D r)) = .ok () := by
  rw [validate_release_iff] at h ⊢
  intro rule hr
  have hold := h rule hr
  simp only [Gen.rules_composeinfo_Release, MethodRules.flat, List.flatMap_cons, List.flatMap_nil, List.append_nil,
    List.cons_append, List.nil_append, List.mem_cons, List.not_mem_nil, or_false] at hr
  rcases hr with rfl | rfl | rfl | rfl | rfl | rfl | rfl | rfl
  all_goals
    cases ht : D.relTyped <;> cases hi : (D.relInternal && !D.product) <;>
      simp [Rule.check, releaseObj, lossRelease, Obj.get, ht, hi, PyVal.isinstance, sGa] at hold ⊢ <;> first | exact hold | skip

theorem lower_ga : Str.lowerAscii sGa = sGa := by decide
theorem lower_ga' : Str.lowerAscii ['g', 'a'] = ['g', 'a'] := by decide

theorem releaseDeL_down (g : Legacy.Gates) (D : DownFmt) (hgp : g.release = D.product) (r : Release) (l : List (Str × PyVal))
    (hget : PyVal.get? (.dict l) (relKey D) = some (downReleaseVal D r))
    (h : validateClass "composeinfo.Release" (releaseObj r) = .ok ()) :
    Legacy.releaseDeL g (.dict l) = .ok (lossRelease D r.norm) := by
  have hl := release_ok_lower r h
  have hv := release_loss_valid D r h
  cases r with
  | mk name short version type isLayered internal =>
  simp only at hl
  simp only [releaseObj, lossRelease] at hv
  unfold Legacy.releaseDeL
  cases hp : D.product with
  | true =>
    rw [hgp, hp]
    simp only [relKey, hp, if_true] at hget
    simp only [if_true, Legacy.releaseDe03, sub_of_get hget]
    cases isLayered <;> cases ht : D.relTyped <;> cases hi : D.relInternal <;>
      simp [sub, getD, PyVal.get?, downReleaseVal, lowerVal, hl, PyVal.truthy, asStr, Release.norm, lossRelease, ht, hi, hp, lower_ga, lower_ga', sGa] at hv ⊢ <;>
      try simp [hv]
  | false =>
    rw [hgp, hp]
    simp only [relKey, hp, Bool.false_eq_true, if_false] at hget
    simp only [Bool.false_eq_true, if_false, releaseDe, show verLt (0, 3) Gen.VERSION = true by decide, sub_of_get hget]
    cases isLayered <;> cases ht : D.relTyped <;> cases hi : D.relInternal <;>
      simp [sub, getD, PyVal.get?, downReleaseVal, lowerVal, hl, PyVal.truthy, asStr, Release.norm, lossRelease, ht, hi, hp, lower_ga, lower_ga', sGa] at hv ⊢ <;>
      try simp [hv]

theorem base_loss_valid (D : DownFmt) (b : BaseProduct) (h : validateClass "composeinfo.BaseProduct" (baseObj (some b)) = .ok ()) :
    validateClass "composeinfo.BaseProduct" (baseObj (some (lossBase D b))) = .ok () := by
  unfold validateClass at h ⊢
  have hc : Gen.allClasses.find? (·.1 == "composeinfo.BaseProduct") = some ("composeinfo.BaseProduct", Gen.rules_composeinfo_BaseProduct) := by rfl
  rw [hc] at h ⊢
  simp only [validateWith] at h ⊢
  rw [runRules_ok_iff] at h ⊢
  intro rule hr
  have hold := h rule hr
  simp only [Gen.rules_composeinfo_BaseProduct, MethodRules.flat, List.flatMap_cons, List.flatMap_nil, List.append_nil,
    List.cons_append, List.nil_append, List.mem_cons, List.not_mem_nil, or_false] at hr
  rcases hr with rfl | rfl | rfl | rfl | rfl | rfl
  all_goals
    cases ht : D.relTyped <;>
      simp [Rule.check, baseObj, lossBase, Obj.get, ht, PyVal.isinstance, sGa] at hold ⊢ <;> first | exact hold | skip

theorem baseDe_down (D : DownFmt) (b : BaseProduct) (l : List (Str × PyVal))
    (hget : PyVal.get? (.dict l) k%"base_product" = some (downBaseVal D b))
    (h : validateClass "composeinfo.BaseProduct" (baseObj (some b)) = .ok ()) :
    baseDe (.dict l) = .ok (lossBase D b) := by
  have hv := base_loss_valid D b h
  cases b with
  | mk name short version type =>
  simp only [baseObj, lossBase] at hv
  simp only [baseDe, sub_of_get hget]
  cases ht : D.relTyped <;>
    simp [sub, getD, PyVal.get?, downBaseVal, asStr, lossBase, ht, sGa] at hv ⊢ <;> simp [hv]

theorem downComposeVal_full (D : DownFmt) (c : Compose) (h : D.composeFull = true) : downComposeVal D c = composeVal c := by
  cases c with
  | mk id type date respin label final =>
  cases label with
  | none => simp [downComposeVal, composeVal, h]
  | some l => cases l <;> simp [downComposeVal, composeVal, h]

/-- the compose section of a < 0.3 document is readable iff its date, type and respin are what the id decoder finds in the id -/
def IdDerivable (c : Compose) : Prop :=
  ∃ n : Nat, c.respin = (n : Int) ∧ getDateTypeRespin c.id = .ok (some (some c.date, c.type, n))

theorem composeDe03_down (D : DownFmt) (hD : D.composeFull = false) (c : Compose) (rest : List (Str × PyVal))
    (hid : IdDerivable c) (h : validateClass "composeinfo.Compose" (composeObj c) = .ok ()) :
    Legacy.composeDe03 (.dict ((k%"compose", downComposeVal D c) :: rest)) = .ok c.norm := by
  obtain ⟨n, hn, hdtr⟩ := hid
  cases c with
  | mk id type date respin label final =>
  simp only at hn hdtr
  subst hn
  cases label with
  | none =>
    have h' := h
    simp only [composeObj] at h'
    rw [compose_final_irrelevant _ _ _ _ final false] at h'
    simp [Legacy.composeDe03, Legacy.dateTypeRespinOf, hdtr, sub, getD, PyVal.get?, downComposeVal, hD, orNone, PyVal.truthy, h', asStr, asInt, Compose.norm]
  | some l =>
    cases l with
    | nil => exact absurd h (compose_empty_label_invalid _ rfl)
    | cons ch cs =>
      simp only [composeObj] at h
      simp [Legacy.composeDe03, Legacy.dateTypeRespinOf, hdtr, sub, getD, PyVal.get?, downComposeVal, hD, orNone, PyVal.truthy, h, asStr, asInt, Compose.norm]

theorem downEntryVal_dict (D : DownFmt) (e : Entry) : ∃ l, downEntryVal D e = .dict l := ⟨_, rfl⟩

theorem variantReleaseDeL_down (g : Legacy.Gates) (D : DownFmt) (hgp : g.release = D.product) (e : Entry) (type : Str) (rel : Option Release)
    (he : e.release = if type = layeredProduct then rel.map forceLayered else none)
    (hg : type = layeredProduct → validateClass "composeinfo.Release" (variantReleaseObj rel) = .ok ()) :
    Legacy.variantReleaseDeL g (.str type) (downEntryVal D e)
      = .ok (if type = layeredProduct then rel.map (fun r => lossRelease D (forceLayered r).norm) else none) := by
  unfold Legacy.variantReleaseDeL
  by_cases ht : type = layeredProduct
  · have hpe : PyVal.pyEq (.str type) (.str layeredProduct) = true := (pyEq_str _ _).mpr ht
    have hval := hg ht
    simp only [if_true, ht]
    cases rel with
    | none =>
      have := blank_release_invalid
      simp only [variantReleaseObj] at hval
      rw [hval] at this
      simp [isOk] at this
    | some r =>
      obtain ⟨l, hl⟩ := downEntryVal_dict D e
      have hget : PyVal.get? (.dict l) (relKey D) = some (downReleaseVal D (forceLayered r)) := by
        rw [← hl, dentry_release, he]; simp [ht]
      rw [hl, releaseDeL_down g D hgp (forceLayered r) l hget hval]
      rfl
  · have hpe : PyVal.pyEq (.str type) (.str layeredProduct) = false := by
      cases h : PyVal.pyEq (.str type) (.str layeredProduct)
      · rfl
      · exact absurd ((pyEq_str _ _).mp h) ht
    simp [hpe, ht]

theorem keys_downFlatVal (D : DownFmt) (d : Flat) : (downFlatVal D d).keys = d.map (·.1) := by
  simp [downFlatVal, PyVal.keys, List.map_map, Function.comp_def]

theorem sub_downFlatVal (D : DownFmt) {doc : Flat} (hs : FSorted doc) {k : Str} {e : Entry} (h : (k, e) ∈ doc) :
    sub (downFlatVal D doc) k = .ok (downEntryVal D e) := by
  have : downFlatVal D doc = .dict (doc.map fun p => (p.1, downEntryVal D p.2)) := rfl
  rw [this]
  apply sub_of_get
  rw [get?_map, lookup_of_mem hs.keys_nodup h]
  rfl

theorem startsWith_child (uid i : Str) : Str.startsWith (uid ++ '-' :: i) (uid ++ ['-']) = true := by
  unfold Str.startsWith
  rw [List.isPrefixOf_iff_prefix]
  exact ⟨i, by simp⟩

theorem kidKeysL_down (g : Legacy.Gates) (D : DownFmt) (hgv : g.variant = !D.kidLists) (doc : Flat) (hs : FSorted doc)
    (e : Entry) (ids : List Str) (he : e.kids = Str.sortDedup ids)
    (hex : D.kidLists = false → ∀ k ∈ doc.map (·.1), Str.startsWith k (e.uid ++ ['-']) = true → ∃ i ∈ e.kids, k = e.uid ++ '-' :: i)
    (hin : ∀ i ∈ e.kids, e.uid ++ '-' :: i ∈ doc.map (·.1)) :
    Legacy.kidKeysL g (downFlatVal D doc) (downEntryVal D e) e.uid e.uid
      = .ok ((Str.sortDedup ids).map fun i => e.uid ++ '-' :: i) := by
  unfold Legacy.kidKeysL
  rw [dentry_variants]
  cases hk : D.kidLists with
  | true =>
    by_cases hn : e.kids = []
    · have : Str.sortDedup ids = [] := by rw [← he]; exact hn
      simp [hn, hgv, hk, this]
    · have hne : e.kids.isEmpty = false := by simpa using hn
      simp only [Bool.true_and, hne, Bool.not_false, if_true]
      unfold kidIdsOf
      rw [dentry_variants]
      simp only [hk, Bool.true_and, hne, Bool.not_false, if_true, asStrList_strList]
      rw [he, sortDedup_idem]
  | false =>
    simp only [Bool.false_and, Bool.false_eq_true, if_false, hgv, hk, Bool.not_false, if_true]
    have hsorted : SSorted (downFlatVal D doc).keys := by
      rw [keys_downFlatVal]
      unfold SSorted
      exact List.pairwise_map.mpr hs
    have := Legacy.kids_legacy_eq (downFlatVal D doc) e.uid e.kids hsorted
      (by
        rw [keys_downFlatVal]
        intro k hkm
        constructor
        · exact hex hk k hkm
        · rintro ⟨i, _, rfl⟩; exact startsWith_child _ _)
      (by rw [keys_downFlatVal]; exact hin)
    rw [this, he, sortDedup_idem]

end PM.CI
